/// Probe of C12 for SIQS (bounded stand-in; appended to the per-run copy of src/siqs.rs so that it can read the private
/// root tables): sets the sieve up as `siqs()` does, walks the Gray-code family of every selected A and checks, for every
/// polynomial, the square-root identity y^2 = A P(x) mod n and that the root tables hold exactly the residues at which the
/// polynomial vanishes modulo each factor-base prime (at least those for p = 2).
#[doc(hidden)]
pub mod verif_probe {
    use super::*;

    pub fn family_check(norig: Uint, use_multiplier: bool, max_polys: usize, max_p: u32) -> Result<usize, String> {
        let prefs = Preferences { verbosity: Verbosity::Silent, ..Preferences::default() };
        let k = if use_multiplier { crate::fbase::select_multiplier(norig).0 } else { 1 };
        let n = norig * Uint::from(k);
        let nint = Int::cast_from(n);
        let fb = fb_size(&n, false);
        let fbase = FBase::new(nint, fb);
        if fbase.check_divisors().is_err() {
            return Ok(0); // the input has a factor in the factor base: siqs() returns it at once
        }
        let mm = interval_size(&n, false) as usize;
        let nfacs = nfactors(&n) as usize;
        let factors = select_siqs_factors(&fbase, &nint, nfacs, mm, prefs.verbosity);
        let a_ints = select_a(&factors, a_value_count(&n), prefs.verbosity);
        let s = SieveSIQS::new(nint, &fbase, fbase.bound() as u64, 0, mm, &prefs);
        let start_offset = -(mm as i64) / 2;
        let mut npolys = 0usize;
        for a_int in &a_ints {
            let a = prepare_a(&factors, a_int, &fbase, start_offset);
            let mut prod = Uint::ONE;
            for f in a.factors.iter() { prod = prod * Uint::from(f.p); }
            if a.a != prod { return Err(format!("n = {norig} k = {k}: A = {} is not the product of its listed factors", a.a)); }
            let mut pol = Poly::first(&s, &a);
            for idx in 0..1usize << (a.len() - 1) {
                if idx > 0 { pol.next(&s, &a); }
                if npolys >= max_polys { return Ok(npolys); }
                npolys += 1;
                for x in [-12345i64, -1, 0, 1, 777, start_offset, -start_offset - 1] {
                    let (v, y) = pol.eval(x);
                    let y: Int = if y.bit(0) { (Int::cast_from(y) + nint) >> 1u32 } else { Int::cast_from(y) >> 1u32 };
                    let lhs = (y * y).rem_euclid(nint);
                    let rhs = (Int::cast_from(pol.a) * Int::cast_from(v)).rem_euclid(nint);
                    if lhs != rhs { return Err(format!("n = {norig} k = {k} A = {a_int} polynomial {idx}: y^2 != A P(x) mod n at x = {x}")); }
                }
                for pidx in 0..fbase.len() {
                    let p = fbase.p(pidx);
                    if p > max_p { break; }
                    let p64 = p as u64;
                    let div = fbase.div(pidx);
                    let (r1, r2) = (pol.r1p[pidx], pol.r2p[pidx]);
                    if r1 >= p || r2 >= p { return Err(format!("n = {norig} k = {k} A = {a_int} polynomial {idx}: root table entry ({r1}, {r2}) not reduced modulo p = {p}")); }
                    let modp = |z: &I256| -> u64 {
                        let m = div.mod_uint(&z.abs().to_bits());
                        if z.is_negative() && m != 0 { p64 - m } else { m }
                    };
                    let am = modp(&pol.a);
                    let bm = if pol.kind == PolyType::Type1 { (2 * modp(&pol.b)) % p64 } else { modp(&pol.b) };
                    let cm = modp(&pol.c);
                    let off = div.modi64(start_offset);
                    for x in 0..p {
                        let t = (x as u64 + off) % p64;
                        let v = ((am * t + bm) % p64 * t + cm) % p64;
                        let in_table = x == r1 || x == r2;
                        if (v == 0 && !in_table) || (p != 2 && v != 0 && in_table) {
                            return Err(format!("n = {norig} k = {k} A = {a_int} polynomial {idx}: p = {p}, x = {x}: P(x + offset) mod p = {v} but the root table is ({r1}, {r2})"));
                        }
                    }
                }
            }
        }
        Ok(npolys)
    }
}
