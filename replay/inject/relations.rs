/// Probe of C11 (bounded stand-in; appended to the per-run copy of src/relations.rs: PackedRelation is private): the compact
/// storage form decodes to the same congruence.
#[doc(hidden)]
pub mod verif_probe {
    use super::*;
    pub fn pack_roundtrip(r: Relation) -> Relation {
        PackedRelation::pack(r).unpack()
    }
}
