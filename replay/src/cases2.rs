//! further replay cases (added per property as contracts land)
use crate::Rng;

pub fn run(case: &str, _rng: &mut Rng, _iters: u64) -> bool {
    match case {
        _ => false,
    }
}
