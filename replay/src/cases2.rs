//! further replay cases (added per property as contracts land)
use crate::{fail, Rng};
use std::panic::{catch_unwind, AssertUnwindSafe};
use yamaquasi::Uint;

fn is_prime_td(n: u64) -> bool {
    if n < 2 {
        return false;
    }
    let mut d = 2u64;
    while d * d <= n {
        if n % d == 0 {
            return false;
        }
        d += 1;
    }
    true
}

/// run `f` in a helper thread with a deadline: Some(v) or None on timeout
fn with_deadline<T: Send + 'static>(ms: u64, f: impl FnOnce() -> T + Send + 'static) -> Option<T> {
    let (tx, rx) = std::sync::mpsc::channel();
    std::thread::spawn(move || {
        let _ = tx.send(f());
    });
    rx.recv_timeout(std::time::Duration::from_millis(ms)).ok()
}

/// isprime64 against trial division (small n, structured values) and the published psi_k / threshold neighbours
fn isprime64(rng: &mut Rng, iters: u64) {
    // F1 regression: even numbers >= 200 must answer (false) and not hang
    for p in [200u64, 1000, 1 << 20, (1 << 40) + 2, u64::MAX - 1] {
        match with_deadline(2000, move || yamaquasi::isprime64(p)) {
            None => fail("isprime64", format!("isprime64({p}) does not return")),
            Some(true) => fail("isprime64", format!("isprime64({p}) = true")),
            _ => {}
        }
    }
    // strong pseudoprimes: psi_1..psi_12 (those below 2^64) and classic composites
    let comps: [u64; 14] = [
        2047, 1373653, 25326001, 3215031751, 2152302898747, 3474749660383, 341550071728321, 3825123056546413051,
        318665857834031151 /* not psi, composite filler */, 561, 1105, 1729, 4759123141, 1122004669633,
    ];
    for c in comps {
        if !is_prime_td_big(c) && yamaquasi::isprime64(c) {
            fail("isprime64", format!("isprime64({c}) = true for a composite"));
        }
    }
    for it in 0..iters {
        let p = match it % 4 {
            0 => rng.next() % 100000,
            1 => (1u64 << 20) - 50 + rng.next() % 100,
            2 => 2 * (rng.next() % 50000) + 1,
            _ => rng.next() % (1 << 24),
        };
        let got = yamaquasi::isprime64(p);
        if got != is_prime_td(p) {
            fail("isprime64", format!("isprime64({p}) = {got}"));
        }
    }
    // products of two primes near thresholds
    for it in 0..(iters / 10) {
        let a = 1000003 + 2 * (rng.next() % 1000);
        let b = 1000003 + 2 * (rng.next() % 100000);
        if is_prime_td(a) && is_prime_td(b) {
            let n = a * b;
            if yamaquasi::isprime64(n) {
                fail("isprime64", format!("isprime64({n}) = true for {a}*{b}"));
            }
            let _ = it;
        }
    }
}

fn is_prime_td_big(n: u64) -> bool {
    // Miller-Rabin with many bases through u128 arithmetic (independent of the crate)
    if n < 4 {
        return n >= 2;
    }
    if n % 2 == 0 {
        return false;
    }
    let mulm = |a: u64, b: u64| ((a as u128 * b as u128) % n as u128) as u64;
    let powm = |mut b: u64, mut e: u64| {
        let mut r = 1u64;
        while e > 0 {
            if e & 1 == 1 {
                r = mulm(r, b);
            }
            b = mulm(b, b);
            e >>= 1;
        }
        r
    };
    let s = (n - 1).trailing_zeros();
    let d = (n - 1) >> s;
    for a in [2u64, 3, 5, 7, 11, 13, 17, 19, 23, 29, 31, 37, 41, 43, 47, 53] {
        if a % n == 0 {
            continue;
        }
        let mut x = powm(a % n, d);
        if x == 1 || x == n - 1 {
            continue;
        }
        let mut ok = false;
        for _ in 1..s {
            x = mulm(x, x);
            if x == n - 1 {
                ok = true;
                break;
            }
        }
        if !ok {
            return false;
        }
    }
    true
}

/// pseudoprime: never rejects a prime, evens, agreement with isprime64 on 64 bits
fn pseudoprime(rng: &mut Rng, iters: u64) {
    for it in 0..iters {
        let p = match it % 3 {
            0 => rng.next() % 1000000,
            1 => rng.word(),
            _ => rng.next(),
        };
        let r = catch_unwind(AssertUnwindSafe(|| yamaquasi::pseudoprime(Uint::from(p))));
        match r {
            Ok(got) => {
                let want = if p % 2 == 0 { p == 2 } else { is_prime_td_big(p) };
                if got != want {
                    fail("pseudoprime", format!("pseudoprime({p}) = {got}"));
                }
            }
            Err(_) => fail("pseudoprime", format!("pseudoprime({p}): panic")),
        }
    }
    // known large primes (2^89-1, 2^107-1, 2^127-1) and composites (their products, Carmichael-like)
    let m89 = (Uint::ONE << 89u32) - Uint::ONE;
    let m107 = (Uint::ONE << 107u32) - Uint::ONE;
    let m127 = (Uint::ONE << 127u32) - Uint::ONE;
    for p in [m89, m107, m127] {
        if !yamaquasi::pseudoprime(p) {
            fail("pseudoprime", format!("pseudoprime({p}) = false for a prime"));
        }
    }
    for c in [m89 * m107, m107 * m127, m89 * m89, (Uint::ONE << 100u32)] {
        if yamaquasi::pseudoprime(c) {
            fail("pseudoprime", format!("pseudoprime({c}) = true for a composite"));
        }
    }
    // the minimal strong pseudoprimes to the first 12 and 13 prime bases (79 and 82 bits), and structured composites
    // above 64 bits: Carmichael numbers (6k+1)(12k+1)(18k+1) and products p(2p-1)
    {
        use std::str::FromStr;
        for s in ["318665857834031151167461", "3317044064679887385961981"] {
            let c = Uint::from_str(s).unwrap();
            if yamaquasi::pseudoprime(c) {
                fail("pseudoprime", format!("pseudoprime({c}) = true for a strong pseudoprime to the first 12 prime bases"));
            }
        }
        // F22: a Carmichael number congruent to 1 modulo 2^66 (the 2-adic valuation of p - 1 exceeds one word), and
        // composites 1 + 2^e m with e > 64
        let c = Uint::from_str("6811853920808879945355227022358586849018191648008149239627762840085987329").unwrap();
        if yamaquasi::pseudoprime(c) {
            fail("pseudoprime", format!("pseudoprime({c}) = true for the Carmichael number (6k+1)(12k+1)(18k+1), k = 173868180030786323151601, congruent to 1 modulo 2^66"));
        }
        for e in [65u32, 66, 70, 128, 130] {
            for m in [3u64, 5, 9, 15, 21, 1155] {
                // (1 + 2^e)(1 + 2^e m) is congruent to 1 modulo 2^e
                let c = ((Uint::ONE << e) + Uint::ONE) * ((Uint::from(m) << e) + Uint::ONE);
                if yamaquasi::pseudoprime(c) {
                    fail("pseudoprime", format!("pseudoprime({c}) = true for the composite (1 + 2^{e})(1 + {m} 2^{e})"));
                }
            }
        }
        let mut found = 0;
        let mut k = 1u64 << 21;
        while found < 6 {
            k += 1 + rng.next() % 64;
            let (a, b, c) = (6 * k + 1, 12 * k + 1, 18 * k + 1);
            if is_prime_td_big(a) && is_prime_td_big(b) && is_prime_td_big(c) {
                found += 1;
                let n = Uint::from(a) * Uint::from(b) * Uint::from(c);
                if yamaquasi::pseudoprime(n) {
                    fail("pseudoprime", format!("pseudoprime({n}) = true for the Carmichael number ({a})({b})({c})"));
                }
            }
        }
        let mut found = 0;
        let mut q = (1u64 << 34) + 2 * (rng.next() % 100000) + 1;
        while found < 6 {
            q += 2;
            if is_prime_td_big(q) && is_prime_td_big(2 * q - 1) {
                found += 1;
                let n = Uint::from(q) * Uint::from(2 * q - 1);
                if yamaquasi::pseudoprime(n) {
                    fail("pseudoprime", format!("pseudoprime({n}) = true for the composite {q} * {}", 2 * q - 1));
                }
            }
        }
    }
    // multiword even numbers, in particular with a low word equal to 2
    for k in [64u32, 65, 128, 200, 500] {
        for low in [0u64, 2, 4, u64::MAX - 1] {
            let c = (Uint::ONE << k) + Uint::from(low) + Uint::from((rng.next() % 4) << 1) * (Uint::ONE << 64u32);
            if yamaquasi::pseudoprime(c) {
                fail("pseudoprime", format!("pseudoprime({c}) = true for an even number"));
            }
        }
    }
}

/// Dividers / Inverter against plain integer arithmetic
fn dividers(rng: &mut Rng, iters: u64) {
    use yamaquasi::arith::{Dividers, Inverter};
    for it in 0..iters {
        // a prime (or at least odd) p below 2^30, biased to small and to the top of the range
        let mut p = match it % 4 {
            0 => 3 + 2 * (rng.next() % 100),
            1 => (1u64 << 30) - 1 - 2 * (rng.next() % 1000),
            2 => (rng.next() % (1 << 16)) | 1,
            _ => (rng.next() % (1 << 30)) | 1,
        } as u32;
        while !is_prime_td(p as u64) {
            p += 2;
            if p >> 30 != 0 {
                p = 3;
            }
        }
        let desc = format!("p={p}");
        let r = catch_unwind(AssertUnwindSafe(|| {
            let d = Dividers::new(p);
            let pp = p as u64;
            for j in 0..8 {
                let n = match j {
                    0 => u64::MAX,
                    1 => u64::MAX - (u64::MAX % pp),
                    2 => (u64::MAX - (u64::MAX % pp)).wrapping_sub(1),
                    3 => (1u64 << 63) - ((1u64 << 63) % pp),
                    4 => pp * (rng.next() % 1000),
                    _ => rng.word(),
                };
                let (q, r) = d.divmod64(n);
                if q != n / pp || r != n % pp {
                    return Some(format!("divmod64({n}) = ({q},{r})"));
                }
                let n63 = n >> 1;
                if d.modu63(n63) != n63 % pp {
                    return Some(format!("modu63({n63}) = {}", d.modu63(n63)));
                }
                let n16 = n as u16;
                if d.modu16(n16) as u64 != (n16 as u64) % pp {
                    return Some(format!("modu16({n16}) = {}", d.modu16(n16)));
                }
                let ni = n as i64;
                if d.modi64(ni) as i128 != (ni as i128).rem_euclid(pp as i128) {
                    return Some(format!("modi64({ni}) = {}", d.modi64(ni)));
                }
                let n128 = ((rng.word() as u128) << 64) | n as u128;
                if d.mod_u128(n128) as u128 != n128 % pp as u128 {
                    return Some(format!("mod_u128({n128}) = {}", d.mod_u128(n128)));
                }
                let big = Uint::from_digits({
                    let mut dd = [0u64; 16];
                    for w in dd.iter_mut().take(1 + (rng.next() % 16) as usize) {
                        *w = rng.word();
                    }
                    dd
                });
                let want = (big % Uint::from(pp)).digits()[0];
                if d.mod_uint(&big) != want {
                    return Some(format!("mod_uint({big}) = {}", d.mod_uint(&big)));
                }
                let (bq, br) = d.divmod_uint(&big);
                if br != want || bq != big / Uint::from(pp) {
                    return Some(format!("divmod_uint({big}) = ({bq},{br})"));
                }
            }
            if p >> 28 == 0 {
                let inv = Inverter::new(p);
                for j in 0..6 {
                    let x = match j {
                        0 => 1,
                        1 => p - 1,
                        2 => (p + 1) / 2,
                        _ => 1 + (rng.next() % (pp - 1)) as u32,
                    };
                    let y = inv.invert(x, &d);
                    if (x as u64 * y as u64) % pp != 1 || y >= p {
                        return Some(format!("invert({x}) = {y}"));
                    }
                }
            }
            None
        }));
        match r {
            Ok(None) => {}
            Ok(Some(m)) => fail("dividers", format!("{desc}: {m}")),
            Err(_) => fail("dividers", format!("{desc}: panic")),
        }
    }
}

/// scalar64_chainmul against the naive double-and-add on a real curve (public API only; points are compared
/// through their Debug rendering after normalising with the same scalar on both sides is not possible, so the
/// comparison is chainmul(k) vs dbladd(k) coordinates cross-multiplied via `Curve::a_d`-independent Debug parsing)
fn chainmul(rng: &mut Rng, iters: u64, only: Option<u64>) {
    use yamaquasi::arith_montgomery::ZmodN;
    use yamaquasi::ecm::Curve;
    let n = Uint::from(10007u64 * 10009u64);
    let mk = || Curve::from_point(ZmodN::new(n), 2, 10).ok();
    let Some(c) = mk() else { return };
    let mut ks: Vec<u64> = vec![0, 1, 2, 7, 8, 9, 15, 16, u64::MAX, u64::MAX - 2, u64::MAX - 4, u64::MAX - 6, 1 << 63, (1 << 63) + 1,
        0x1111111111111111, 0xFFFFFFFFFFFFFFF1, 0x8888888888888889];
    for _ in 0..iters.min(3000) {
        ks.push(rng.word());
        ks.push(rng.next());
    }
    // known finding F2b: scalars whose chain needs 33 opcodes overflow the 32-entry array; they are not searched again
    fn chain_len(k: u64) -> usize {
        let (mut l, mut kk) = (0usize, k as u128);
        if k == 0 {
            return 1;
        }
        loop {
            if kk % 2 == 0 {
                kk >>= kk.trailing_zeros();
                l += 1;
            } else if kk <= 7 {
                return l + 1;
            } else {
                let r = kk % 16;
                kk = if r < 8 { (kk - r) / 2 } else { (kk + 16 - r) / 2 };
                l += 1;
            }
        }
    }
    // (F2b is fixed: scalars whose chain needs 33 opcodes are tested like the others)
    let _ = chain_len;
    if let Some(k) = only {
        ks = vec![k];
    }
    for k in ks {
        let r = catch_unwind(AssertUnwindSafe(|| {
            let p1 = c.scalar64_mul_dbladd(k, c.gen());
            let p2 = c.scalar64_chainmul(k, c.gen());
            (format!("{:?}", p1), format!("{:?}", p2))
        }));
        match r {
            Err(_) => fail("chainmul", format!("scalar64_chainmul({k}) on the curve through (2,10) mod 10007*10009: panic")),
            Ok((a, b)) => {
                // projective equality x1*y2 == x2*y1 etc. needs field access; parse the first limb of each MInt
                let limbs = |s: &str| -> Vec<u128> {
                    s.split("MInt([").skip(1).map(|t| t.split(',').next().unwrap().trim().parse::<u128>().unwrap()).collect()
                };
                let (pa, pb) = (limbs(&a), limbs(&b));
                if pa.len() != 3 || pb.len() != 3 {
                    continue;
                }
                // coordinates are Montgomery residues mod n < 2^64: cross products mod n (the common factor R cancels)
                let nn = 10007u128 * 10009u128;
                let eq = |i: usize, j: usize| (pa[i] * pb[j]) % nn == (pa[j] * pb[i]) % nn;
                if !(eq(0, 1) && eq(1, 2) && eq(0, 2)) {
                    fail("chainmul", format!("scalar64_chainmul({k}) != scalar64_mul_dbladd({k}) on the curve through (2,10) mod 10007*10009"));
                }
            }
        }
    }
}

/// F10: M128::inv_2adic overflows `x += 1 << tz` when n^-1 mod 2^128 is below 2^63 (carry chain through every bit)
fn f10() {
    // n = 3^-1 mod 2^128 = (2^129 + 1) / 3 (odd, 128 bits); any use of the 128-bit curve arithmetic starts with inv_2adic(n)
    let n: u128 = 226854911280625642308916404954512140971;
    let r = catch_unwind(|| yamaquasi::ecm128::Curve::from_fractional_point(n, 2, 1, 3, 1).gen().clone());
    if r.is_err() {
        fail("f10", format!("ecm128::Curve::from_fractional_point({n}, 2, 1, 3, 1): panic (M128::inv_2adic: attempt to add with overflow)"));
    }
}

/// fbase::primes(n) against trial division: exactly the first n primes
fn primes_case(rng: &mut Rng, iters: u64) {
    let mut ns: Vec<u32> = vec![0, 1, 2, 3, 4, 5, 10, 24, 25, 26, 100, 168, 169, 1000, 6542, 6543, 10000];
    for _ in 0..(iters / 200).min(20) {
        ns.push((rng.next() % 30000) as u32);
    }
    // every small count: the sieve bound n * bitlen(n) is tight for a few of them (31 needs the bound 127)
    let reference: Vec<u32> = (2u32..20000).filter(|&c| is_prime_td(c as u64)).collect();
    for n in 0..=2200u32 {
        let got = match catch_unwind(|| yamaquasi::fbase::primes(n)) {
            Ok(v) => v,
            Err(_) => fail("primes", format!("primes({n}): panic")),
        };
        if got[..] != reference[..n as usize] {
            fail("primes", format!("primes({n}): {} primes returned ending with {:?}, expected the first {n} primes ending with {:?}", got.len(), got.last(), reference[..n as usize].last()));
        }
    }
    for n in ns {
        let got = match catch_unwind(|| yamaquasi::fbase::primes(n)) {
            Ok(v) => v,
            Err(_) => fail("primes", format!("primes({n}): panic")),
        };
        let mut want = vec![];
        let mut c = 2u64;
        while want.len() < n as usize {
            if is_prime_td(c) {
                want.push(c as u32);
            }
            c += 1;
        }
        if got != want {
            let k = got.iter().zip(want.iter()).position(|(a, b)| a != b).unwrap_or(got.len().min(want.len()));
            fail("primes", format!("primes({n}): {} primes returned, first difference at index {k}: got {:?} want {:?}", got.len(), got.get(k), want.get(k)));
        }
    }
}

/// F7: 512-bit moduli pass the size guards but the arithmetic is only valid below 2^511
fn f7() {
    use yamaquasi::arith_montgomery::ZmodN;
    let n: Uint = (Uint::ONE << 512u32) - Uint::ONE;
    let r = catch_unwind(|| {
        let zn = ZmodN::new(n);
        let x = zn.from_int(n - Uint::ONE);
        zn.to_int(zn.add(x, x))
    });
    match r {
        Ok(v) if v == n - Uint::from(2u64) => {}
        Ok(v) => fail("f7", format!("ZmodN::new(2^512-1): (n-1)+(n-1) = {v}, expected n-2")),
        Err(_) => fail("f7", "ZmodN::new(2^512-1).add(from_int(n-1), from_int(n-1)): panic (carry == 0)".to_string()),
    }
}

/// F8: ZmodN::inv overflows inside gcd_internal for moduli above ~501 bits
fn f8() {
    use std::str::FromStr;
    use yamaquasi::arith_montgomery::ZmodN;
    let n = Uint::from_str("6703903964971298549685655203658200727735441830485744609378315869103961967239521414949008820320193781439178349565160492399476044776167047126939852759958573").unwrap();
    let r = catch_unwind(|| {
        let zn = ZmodN::new(n);
        let x = zn.from_int(n - Uint::ONE);
        zn.inv(x).map(|i| zn.to_int(zn.mul(i, x)))
    });
    match r {
        Ok(Some(v)) if v == Uint::ONE => {}
        Ok(v) => fail("f8", format!("inv(n-1) * (n-1) = {v:?}")),
        Err(_) => fail("f8", "ZmodN::new(n).inv(from_int(n-1)) for a 511-bit n: panic (arith_gcd::gcd_internal: attempt to multiply with overflow)".to_string()),
    }
}

/// F3: squfof multiplies n by k <= 50 without checking for overflow
fn f3() {
    use yamaquasi::{factor, Algo, Preferences, Verbosity};
    let n = 981572983530105943u64;
    let mut prefs = Preferences::default();
    prefs.verbosity = Verbosity::Silent;
    let r = catch_unwind(AssertUnwindSafe(|| factor(Uint::from(n), Algo::Squfof, &prefs)));
    match r {
        Err(_) => fail("f3", format!("factor({n}, Algo::Squfof): panic (attempt to multiply with overflow in squfof)")),
        Ok(Ok(v)) => {
            let p: Uint = v.iter().fold(Uint::ONE, |a, b| a * *b);
            if p != Uint::from(n) {
                fail("f3", format!("factor({n}, Algo::Squfof) = {v:?}"));
            }
        }
        Ok(Err(_)) => {}
    }
}

/// F4: try_factor(n, 0, 0) (a valid congruence 0^2 = 0^2) trips its own assertion
fn f4() {
    let n = Uint::from(15u64);
    let r = catch_unwind(|| yamaquasi::relations::try_factor(&n, Uint::ZERO, Uint::ZERO));
    match r {
        Err(_) => fail("f4", "relations::try_factor(15, 0, 0): panic (assertion p.bits() > 1 && q.bits() > 1)".to_string()),
        Ok(Some((p, q))) if p * q != n || p == Uint::ONE || q == Uint::ONE => fail("f4", format!("try_factor(15, 0, 0) = ({p}, {q})")),
        _ => {}
    }
}

/// F12: pm1_impl with B1 >= 65536 multiplies its 1024-bit exponent block by a 64-bit block while up to 992 bits are in use
fn f12() {
    use std::str::FromStr;
    use yamaquasi::Verbosity;
    // p - 1 = 2 * 7 * 65537 * 65539 is 65540-smooth: P-1 with B1 = 70000 must find p
    let p = Uint::from(2u64 * 7 * 65537 * 65539 + 1);
    let q = Uint::from_str("1000000000000000000000000000057").unwrap();
    let n = p * q;
    for b1 in [65536u64, 70000, 100_000, 300_000] {
        let r = catch_unwind(AssertUnwindSafe(|| yamaquasi::pollard_pm1::pm1_impl(&n, b1, 10e3, Verbosity::Silent)));
        match r {
            Err(_) => fail("f12", format!("pm1_impl(n={n}, b1={b1}, b2=10e3): panic (attempt to multiply with overflow: expblock_lg *= expblock)")),
            Ok(None) if b1 >= 70000 => fail("f12", format!("pm1_impl(n={n}, b1={b1}, b2=10e3) = None although p-1 = 2*7*65537*65539 is b1-smooth for p = {p}")),
            _ => {}
        }
    }
}

/// gcd_factors: for a sequence of values whose gcds with n increase by divisibility, the returned factors are > 1
/// and multiply, together with the returned cofactor, to n
fn gcdfactors(rng: &mut Rng, iters: u64) {
    use yamaquasi::arith_montgomery::{gcd_factors, ZmodN};
    const PR: [u64; 10] = [3, 5, 7, 11, 13, 17, 19, 23, 29, 31];
    const CO: [u64; 4] = [2, 37, 41, 43];
    for _ in 0..iters {
        // n = product of 2..5 distinct odd primes with exponent 1 or 2 (< 2^50)
        let k = 2 + (rng.next() % 4) as usize;
        let mut chosen: Vec<u64> = vec![];
        while chosen.len() < k {
            let p = PR[(rng.next() % 10) as usize];
            if !chosen.contains(&p) {
                chosen.push(p);
            }
        }
        let mut n = 1u64;
        let mut pool: Vec<u64> = vec![];
        for &p in &chosen {
            let e = 1 + rng.next() % 2;
            for _ in 0..e {
                n *= p;
                pool.push(p);
            }
        }
        // divisor chain d_0 | d_1 | ... of n, each step multiplies by 0, 1 or 2 primes of the pool
        let len = 1 + (rng.next() % 9) as usize;
        let mut d = 1u64;
        let mut vals64 = vec![];
        for i in 0..len {
            let steps = if i == 0 { rng.next() % 2 } else { rng.next() % 3 };
            for _ in 0..steps {
                if !pool.is_empty() {
                    let j = (rng.next() % pool.len() as u64) as usize;
                    d *= pool.swap_remove(j);
                }
            }
            vals64.push(d * CO[(rng.next() % 4) as usize]);
        }
        let nn = Uint::from(n);
        let desc = format!("gcd_factors(n={n}, vals={vals64:?} (Montgomery form))");
        let r = catch_unwind(AssertUnwindSafe(|| {
            let zn = ZmodN::new(nn);
            let vals: Vec<MIntT> = vals64.iter().map(|&x| zn.from_int(Uint::from(x) % nn)).collect();
            gcd_factors(&nn, &vals)
        }));
        match r {
            Err(_) => fail("gcdfactors", format!("{desc}: panic")),
            Ok((facs, cof)) => {
                let mut prod = cof;
                for f in &facs {
                    if *f <= Uint::ONE {
                        fail("gcdfactors", format!("{desc} = ({facs:?}, {cof}): a factor <= 1"));
                    }
                    prod *= *f;
                }
                if prod != nn {
                    fail("gcdfactors", format!("{desc} = ({facs:?}, {cof}): product {prod} != n"));
                }
            }
        }
    }
}
type MIntT = yamaquasi::arith_montgomery::MInt;

/// factor(n, Algo::Rho): must return a factor list or FactoringFailure, never panic
fn rhofail(rng: &mut Rng, iters: u64) {
    use yamaquasi::{factor, Algo, Preferences, Verbosity};
    let mut prefs = Preferences::default();
    prefs.verbosity = Verbosity::Silent;
    // products of two primes of equal size are the hardest inputs for rho
    let mut cands: Vec<u64> = vec![];
    let mut x = 3u64;
    while cands.len() < 400 {
        if yamaquasi::isprime64(x) {
            cands.push(x);
        }
        x += 2;
    }
    let mut tested = 0;
    let _ = cands;
    // balanced 62-bit semiprimes: 65536 iterations per polynomial is about sqrt(p), so all 9 polynomials fail now and then
    let mut tested = 0u64;
    loop {
        let mut pq = [0u64; 2];
        for v in pq.iter_mut() {
            let mut x = ((1u64 << 30) + (1 << 29) + rng.next() % (1 << 29)) | 1;
            while !yamaquasi::isprime64(x) {
                x += 2;
            }
            *v = x;
        }
        if pq[0] == pq[1] {
            continue;
        }
        let n = pq[0] * pq[1];
        tested += 1;
        let r = catch_unwind(AssertUnwindSafe(|| factor(Uint::from(n), Algo::Rho, &prefs)));
        if r.is_err() {
            fail("rhofail", format!("factor({n} = {} * {}, Algo::Rho): panic (rho finds nothing with its 9 polynomials and factor_impl falls through to unreachable!('impossible') instead of reporting failure)", pq[0], pq[1]));
        }
        if tested > iters.min(4000) * 50 {
            break;
        }
    }
}

/// factor() through its public API on structured inputs: the contract of factor / factor_impl (product, order, no 0 / 1)
fn factorapi(rng: &mut Rng, iters: u64) {
    use yamaquasi::{factor, Algo, Preferences, Verbosity};
    let mut prefs = Preferences::default();
    prefs.verbosity = Verbosity::Silent;
    let small: [u64; 12] = [3, 5, 7, 11, 13, 101, 257, 65537, 91033, 1000003, 6472621, 2147483647];
    let mut inputs: Vec<(Uint, Algo)> = vec![];
    // 2^64 + perfect powers: the low word alone is a perfect power
    for k in [3u64, 9, 81, 1081 * 1081 * 1081, 5 * 5 * 5 * 5 * 5] {
        for alg in [Algo::Auto, Algo::Ecm, Algo::Ecm128] {
            inputs.push(((Uint::ONE << 64u32) + Uint::from(k), alg));
        }
    }
    // numbers whose prime factors all have smooth p - 1 (P-1 finds everything at once)
    for n in [271750259454572315341u128, 589222107493, 91033 * 6472621, 65537 * 786433] {
        inputs.push((Uint::from(n), Algo::Pm1));
        inputs.push((Uint::from(n), Algo::Auto));
    }
    // every selector on very small inputs (F16: Qs64 on semiprimes below ~36 bits), and two 62-bit semiprimes for
    // which qsieve64 finds no relation at all (F17: empty matrix)
    {
        let ps = [211u64, 223, 1009, 10007, 65537, 1000003, 2147483647];
        for alg in [Algo::Qs64, Algo::Squfof, Algo::Rho, Algo::Ecm128, Algo::Pm1, Algo::Auto, Algo::Qs, Algo::Mpqs, Algo::Siqs, Algo::Ecm] {
            for i in 0..ps.len() {
                for j in i..ps.len() {
                    let n = ps[i] as u128 * ps[j] as u128;
                    if n >> 64 != 0 && matches!(alg, Algo::Qs64 | Algo::Squfof | Algo::Rho) { continue; }
                    if iters < 1000 && (i + j) % 3 != 0 { continue; }
                    inputs.push((Uint::from(n), alg));
                }
            }
        }
        for n in [47053u64, 2370147152969376061, 3348930949652004427] {
            inputs.push((Uint::from(n), Algo::Qs64));
        }
    }
    for _ in 0..iters.min(3000) {
        // random products of 1..4 primes from the table, with repetitions
        let k = 1 + rng.next() % 4;
        let mut n = 1u128;
        for _ in 0..k {
            let p = small[(rng.next() % 12) as usize] as u128;
            if n * p < 1u128 << 100 {
                n *= p;
            }
        }
        let alg = match rng.next() % 7 {
            0 => Algo::Auto,
            1 => Algo::Pm1,
            2 => Algo::Ecm128,
            3 if n < 1 << 63 => Algo::Rho,
            4 if n < 1 << 63 => Algo::Squfof,
            5 if n < 1 << 63 => Algo::Qs64,
            _ => Algo::Auto,
        };
        inputs.push((Uint::from(n), alg));
    }
    for (n, alg) in inputs {
        let desc = format!("factor({n}, {alg:?})");
        match catch_unwind(AssertUnwindSafe(|| factor(n, alg, &prefs))) {
            Err(_) => fail("factorapi", format!("{desc}: panic")),
            Ok(Err(_)) => {}
            Ok(Ok(v)) => {
                let mut prod = Uint::ONE;
                for (i, f) in v.iter().enumerate() {
                    prod *= *f;
                    if (*f <= Uint::ONE && n > Uint::ONE) || (i > 0 && v[i - 1] > *f) {
                        fail("factorapi", format!("{desc} = {v:?}: element {f} (0, 1 or out of order)"));
                    }
                }
                if prod != n {
                    fail("factorapi", format!("{desc} = {v:?}: product {prod}"));
                }
            }
        }
    }
}

/// P+1 on inputs whose p + 1 is smooth for the chosen seed (from the repository's own test): a broken Lucas chain
/// (pp1::chebyshev_modn) makes these fail
fn pp1_case() {
    use std::str::FromStr;
    use yamaquasi::Verbosity;
    let p128 = Uint::from_str("192361420203955321314102766284003105319").unwrap();
    for (p, seed, b1, b2) in [(4106365409u64, 9u64, 1500u64, 30e3f64), (2271133, 3, 1500, 30e3), (4274273, 3, 1500, 30e3)] {
        let n = Uint::from(p) * p128;
        let r = catch_unwind(AssertUnwindSafe(|| yamaquasi::pp1::pp1(n, seed, b1, b2, Verbosity::Silent)));
        match r {
            Err(_) => fail("pp1", format!("pp1({n}, seed {seed}, B1 {b1}, B2 {b2}): panic")),
            Ok(None) => fail("pp1", format!("pp1({n}, seed {seed}, B1 {b1}, B2 {b2}) = None although p + 1 is B1/B2-smooth for p = {p}")),
            Ok(Some((fs, q))) => {
                let mut prod = q;
                for f in &fs { prod *= *f; }
                if prod != n || fs.iter().any(|f| *f <= Uint::ONE) {
                    fail("pp1", format!("pp1({n}, ..) = ({fs:?}, {q})"));
                }
            }
        }
    }
}


/// fbase::PrimeSieve: block c holds exactly the primes of [c 2^16, (c+1) 2^16), increasing; the walk over all 65536
/// blocks yields pi(2^32) = 203280221 primes and then the empty block for ever
fn primesieve_case(iters: u64) {
    let r = catch_unwind(|| {
        let mut s = yamaquasi::fbase::PrimeSieve::new();
        let exact = 24u64;
        let mut total = 0u64;
        let mut last = 0u64;
        for c in 0..65536u64 {
            let blk = s.next().to_vec();
            let lo = c << 16;
            for &q in &blk {
                let q = q as u64;
                if q <= last && !(c == 0 && total == 0 && q == 2) { return Err(format!("block {c}: {q} after {last} (not increasing)")); }
                if q < lo || q >= lo + 65536 { return Err(format!("block {c}: element {q} outside [{lo}, {})", lo + 65536)); }
                last = q;
                total += 1;
            }
            if c < exact || c % 16411 == 7 || c >= 65534 {
                let want: Vec<u32> = (lo..lo + 65536).filter(|&x| is_prime_td(x)).map(|x| x as u32).collect();
                if blk != want {
                    let k = blk.iter().zip(want.iter()).position(|(a, b)| a != b).unwrap_or(blk.len().min(want.len()));
                    return Err(format!("block {c}: {} primes returned, {} expected; first difference at index {k}: got {:?} want {:?}", blk.len(), want.len(), blk.get(k), want.get(k)));
                }
            }
            if iters < 1000 && c >= exact { return Ok(()); }
        }
        if total != 203280221 { return Err(format!("all blocks: {total} primes below 2^32, expected 203280221")); }
        for _ in 0..3 {
            if !s.next().is_empty() { return Err("block after the last one is not empty".to_string()); }
        }
        Ok(())
    });
    match r {
        Ok(Ok(())) => {}
        Ok(Err(e)) => fail("primesieve", format!("PrimeSieve: {e}")),
        Err(_) => fail("primesieve", "PrimeSieve::new / next: panic".to_string()),
    }
}


/// arith::inv_mod64 and arith_montgomery::mg_inv over the whole 64-bit range (F14: operands above 2^63)
fn invmod64_case(rng: &mut Rng, iters: u64) {
    use yamaquasi::arith::inv_mod64;
    use yamaquasi::arith_montgomery::{mg_2adic_inv, mg_inv, mg_mul};
    fn gcd(a: u64, b: u64) -> u64 { if b == 0 { a } else { gcd(b, a % b) } }
    for it in 0..iters.min(200000) {
        let mut p = match it % 4 { 0 => rng.word() | (1 << 63), 1 => u64::MAX - rng.next() % 64, 2 => (rng.word() >> (rng.next() % 60)).max(1), _ => rng.word().max(1) };
        let mut n = match it % 3 { 0 => rng.word(), 1 => rng.word() % p, _ => rng.word() | (1 << 63) };
        if it == 0 { p = u64::MAX - 58; n = 5; }
        match catch_unwind(|| inv_mod64(n, p)) {
            Err(_) => fail("invmod64", format!("inv_mod64({n}, {p}): panic")),
            Ok(Some(x)) => {
                if x >= p || (x as u128 * n as u128) % p as u128 != 1 % p as u128 {
                    fail("invmod64", format!("inv_mod64({n}, {p}) = {x}: {x} * {n} mod {p} = {}, expected 1", (x as u128 * n as u128) % p as u128));
                }
            }
            Ok(None) => {
                if gcd(n, p) == 1 { fail("invmod64", format!("inv_mod64({n}, {p}) = None although gcd = 1")); }
            }
        }
        // mg_inv on an odd modulus
        let m = p | 1;
        if m < 3 { continue; }
        let ninv = mg_2adic_inv(m);
        let r1 = ((1u128 << 64) % m as u128) as u64;
        let r2 = ((r1 as u128 * r1 as u128) % m as u128) as u64;
        let x = n % m;
        match catch_unwind(|| mg_inv(m, ninv, r2, x)) {
            Err(_) => fail("invmod64", format!("mg_inv({m}, {ninv}, {r2}, {x}): panic")),
            Ok(Some(y)) => {
                if y >= m || mg_mul(m, ninv, y, x) != r1 {
                    fail("invmod64", format!("mg_inv({m}, {ninv}, {r2}, {x}) = {y}: Montgomery product with x is {}, expected R mod n = {r1}", mg_mul(m, ninv, y, x)));
                }
            }
            Ok(None) => {
                if gcd(x, m) == 1 { fail("invmod64", format!("mg_inv({m}, {ninv}, {r2}, {x}) = None although gcd(x, n) = 1")); }
            }
        }
    }
}


/// F15: pollard_pm1::PM1Base::factor on semiprimes close to 2^64 whose smaller factor p has a 400-smooth p - 1
fn pm1base_case(rng: &mut Rng, iters: u64) {
    let pb = yamaquasi::pollard_pm1::PM1Base::new();
    for (p, q) in [(1073742289u64, 17179761769u64), (1073744491, 17179726523), (1073747621, 17179676453)] {
        let n = p * q;
        match catch_unwind(AssertUnwindSafe(|| pb.factor(n, 40000))) {
            Err(_) => fail("pm1base", format!("PM1Base::factor({n}, 40000): panic")),
            Ok(None) => fail("pm1base", format!("PM1Base::factor({n} = {p} * {q}, 40000) = None although p - 1 is 400-smooth")),
            Ok(Some((a, b))) => if a.wrapping_mul(b) != n || a <= 1 || b <= 1 { fail("pm1base", format!("PM1Base::factor({n}, 40000) = ({a}, {b})")) },
        }
    }
    // nothing false and no panic for random odd n over the whole 64-bit range
    for it in 0..iters.min(2000) {
        let n = match it % 3 { 0 => rng.word() | (1 << 63) | 1, 1 => (rng.word() >> (rng.next() % 40)) | 1, _ => rng.word() | 1 };
        if n < 3 { continue; }
        match catch_unwind(AssertUnwindSafe(|| pb.factor(n, 1200))) {
            Err(_) => fail("pm1base", format!("PM1Base::factor({n}, 1200): panic")),
            Ok(Some((a, b))) => if (a as u128) * (b as u128) != n as u128 || a <= 1 || b <= 1 { fail("pm1base", format!("PM1Base::factor({n}, 1200) = ({a}, {b})")) },
            Ok(None) => {}
        }
    }
}


/// scalar1024_chainmul against nested 64-bit double-and-add: [a b c ..]P = [a]([b]([c] .. P)). The multiword chain
/// builder `make_addition_chain_long` is only an ASSUMED contract of the proofs; this probes it on scalars that are
/// products of 64-bit factors, among them 2^128 - 1 and 2^192 - 1 (all-ones words: carries across the 64-bit refills)
fn chainmul1024(rng: &mut Rng, iters: u64) {
    use yamaquasi::arith_montgomery::ZmodN;
    use yamaquasi::ecm::Curve;
    use bnum::types::U1024;
    let n = Uint::from(10007u64 * 10009u64);
    let Some(c) = Curve::from_point(ZmodN::new(n), 2, 10).ok() else { return };
    let f128: Vec<u64> = vec![3, 5, 17, 257, 641, 65537, 274177, 6700417, 67280421310721];
    let f192: Vec<u64> = vec![9, 5, 7, 13, 17, 97, 193, 241, 257, 641, 673, 65537, 6700417, 22253377, 18446744069414584321];
    let mut sets: Vec<Vec<u64>> = vec![f128.clone(), f192.clone(), vec![u64::MAX, u64::MAX], vec![u64::MAX; 15], vec![1 << 63; 16], vec![(1 << 32) + 1; 16]];
    let mut both = f128.clone(); both.extend(f192.iter()); sets.push(both);
    for _ in 0..iters.min(5000) {
        let k = 1 + rng.next() % 16;
        sets.push((0..k).map(|i| match (rng.next() + i) % 4 { 0 => rng.word() | 1, 1 => u64::MAX - rng.next() % 4, 2 => 1 << (rng.next() % 64), _ => rng.next() | 1 }).collect());
    }
    for fs in sets {
        let mut k = U1024::ONE;
        let mut bits = 0;
        let mut used = vec![];
        for &f in &fs {
            let fb = 64 - f.leading_zeros();
            if bits + fb > 1020 { break; }
            bits += fb;
            k = k * U1024::from(f);
            used.push(f);
        }
        let r = catch_unwind(AssertUnwindSafe(|| {
            let mut p1 = c.gen().clone();
            for &f in &used { p1 = c.scalar64_mul_dbladd(f, &p1); }
            let p2 = c.scalar1024_chainmul(&k, c.gen());
            (format!("{:?}", p1), format!("{:?}", p2))
        }));
        match r {
            Err(_) => fail("chainmul1024", format!("scalar1024_chainmul({k}) on the curve through (2,10) mod 10007*10009: panic")),
            Ok((a, b)) => {
                let limbs = |s: &str| -> Vec<u128> {
                    s.split("MInt([").skip(1).map(|t| t.split(',').next().unwrap().trim().parse::<u128>().unwrap()).collect()
                };
                let (pa, pb) = (limbs(&a), limbs(&b));
                if pa.len() != 3 || pb.len() != 3 { continue; }
                let nn = 10007u128 * 10009u128;
                let eq = |i: usize, j: usize| (pa[i] * pb[j]) % nn == (pa[j] * pb[i]) % nn;
                if !(eq(0, 1) && eq(1, 2) && eq(0, 2)) {
                    fail("chainmul1024", format!("scalar1024_chainmul({k}) != nested scalar64_mul_dbladd over the factors {used:?} on the curve through (2,10) mod 10007*10009"));
                }
            }
        }
    }
}


/// C10 probe (bounded stand-in: the FFT / NTT layers are not under contract): convolve_modn in the regime without
/// wrap-around against the schoolbook product, Poly::{from_roots, eval, multi_eval, roots_eval} against their definitions
fn polyops(rng: &mut Rng, iters: u64) {
    use yamaquasi::arith_fft::convolve_modn;
    use yamaquasi::arith_montgomery::{MInt, ZmodN};
    use yamaquasi::arith_poly::{Poly, PolyRing};
    let rounds = (iters / 100).clamp(2, 300);
    for round in 0..rounds {
        for bits in [61u32, 140, 151, 160, 190, 300, 480] {
            // a random odd modulus of that size
            let mut n = Uint::ONE;
            for _ in 0..bits / 60 + 1 { n = (n << 60u32) + Uint::from(rng.word() >> 4); }
            n = (n >> (n.bits() - bits)) | Uint::ONE | (Uint::ONE << (bits - 1));
            let zn = ZmodN::new(n);
            let mut elem = |rng: &mut Rng| -> MInt {
                match rng.next() % 8 {
                    6 => { let mut m = MInt::default(); m.0[0] = 1 + rng.next() % 3; m }
                    7 => { let mut m = MInt::default(); m.0[0] = 1; m }
                    0 => zn.from_int(n - Uint::ONE),
                    1 => zn.from_int(Uint::ONE),
                    2 => zn.from_int(Uint::ZERO),
                    3 => zn.from_int(n - Uint::from(1 + rng.next() % 5)),
                    _ => { let mut x = Uint::ZERO; for _ in 0..9 { x = (x << 60u32) + Uint::from(rng.word() >> 4); } zn.from_int(x % n) }
                }
            };
            // 1. convolution without wrap-around
            let size = 4usize << (rng.next() % 5 + (round % 3));
            let lp = 1 + (rng.next() as usize) % (size / 2);
            let lq = 1 + (rng.next() as usize) % (size / 2);
            let pv: Vec<MInt> = (0..lp).map(|_| elem(rng)).collect();
            let mut qv: Vec<MInt> = (0..lq).map(|_| elem(rng)).collect();
            if rng.next() % 3 == 0 {
                // a monomial with the raw word 1 as coefficient: its transform holds the element -1 = 2^(64N)
                for x in qv.iter_mut() { *x = MInt::default(); }
                qv[(rng.next() as usize) % lq].0[0] = 1;
            }
            let offset = (rng.next() as usize) % lp;
            let rl = lp + lq - 1 - offset;
            let mut res = vec![MInt::default(); rl];
            let r = catch_unwind(AssertUnwindSafe(|| convolve_modn(&zn, size, &pv, &qv, &mut res, offset)));
            if r.is_err() {
                fail("polyops", format!("convolve_modn(n = {n} ({bits} bits), size {size}, lengths {lp} x {lq}, offset {offset}): panic"));
            }
            for i in 0..rl {
                let k = i + offset;
                let mut want = zn.zero();
                for j in 0..lp { if k >= j && k - j < lq { want = zn.add(&want, &zn.mul(&pv[j], &qv[k - j])); } }
                if zn.to_int(res[i]) != zn.to_int(want) {
                    fail("polyops", format!("convolve_modn(n = {n} ({bits} bits), size {size}, lengths {lp} x {lq}, offset {offset}): coefficient {k} is {}, schoolbook {}; p = {:?} q = {:?}",
                        zn.to_int(res[i]), zn.to_int(want), pv.iter().map(|x| zn.to_int(*x)).collect::<Vec<_>>(), qv.iter().map(|x| zn.to_int(*x)).collect::<Vec<_>>()));
                }
            }
            // 1b. polynomial products (equal lengths) and the middle product against the schoolbook product
            {
                let l = match rng.next() % 5 { 0 => 2 + (rng.next() as usize) % 8, 1 => 27 + (rng.next() as usize) % 4, 2 => 33, 3 => 64, _ => 2 + (rng.next() as usize) % 90 };
                let pv: Vec<MInt> = (0..l).map(|_| elem(rng)).collect();
                let qv: Vec<MInt> = (0..l).map(|_| elem(rng)).collect();
                let mut school = vec![zn.zero(); 2 * l - 1];
                for i in 0..l { for j in 0..l { school[i + j] = zn.add(&school[i + j], &zn.mul(&pv[i], &qv[j])); } }
                let r = catch_unwind(AssertUnwindSafe(|| {
                    let ring = PolyRing::new(&zn, l.max(28));
                    let (pp, qq) = (Poly::new(&ring, pv.clone()), Poly::new(&ring, qv.clone()));
                    let k = Poly::mul_karatsuba(&pp, &qq).c;
                    let f = Poly::mul_fft(&pp, &qq).c;
                    (k, f)
                }));
                match r {
                    Err(_) => fail("polyops", format!("Poly::mul_karatsuba / mul_fft (n of {bits} bits, length {l}): panic")),
                    Ok((k, f)) => {
                        for i in 0..2 * l - 1 {
                            for (name, got) in [("mul_karatsuba", &k), ("mul_fft", &f)] {
                                if i >= got.len() || zn.to_int(got[i]) != zn.to_int(school[i]) {
                                    fail("polyops", format!("Poly::{name} (n = {n}, length {l}): coefficient {i} is {:?}, schoolbook {}", got.get(i).map(|x| zn.to_int(*x)), zn.to_int(school[i])));
                                }
                            }
                        }
                    }
                }
            }
            // 2a. every small shape of roots_eval (1..6 roots x 2..6 points): the recursion bottoms out in special cases (a single
            // point is outside the use of the crate: the length-2 shortcut test underflows there in checked builds, cf. PD-G3)
            if round == 0 {
                for na in 1..=6usize {
                    for nb in 2..=6usize {
                        let av: Vec<MInt> = (0..na).map(|_| elem(rng)).collect();
                        let bv: Vec<MInt> = (0..nb).map(|_| elem(rng)).collect();
                        let r = catch_unwind(AssertUnwindSafe(|| Poly::roots_eval(&zn, &av, &bv)));
                        match r {
                            Err(_) => fail("polyops", format!("Poly::roots_eval (n of {bits} bits, {na} roots, {nb} points): panic")),
                            Ok(re) => for j in 0..nb {
                                let mut v = zn.one(); for a in &av { v = zn.mul(&v, &zn.sub(&bv[j], a)); }
                                if re.len() != nb || zn.to_int(re[j]) != zn.to_int(v) {
                                    fail("polyops", format!("Poly::roots_eval (n = {n}, {na} roots, {nb} points): value at point {j} is {:?}, product of (b - a_i) is {}", re.get(j).map(|x| zn.to_int(*x)), zn.to_int(v)));
                                }
                            }
                        }
                    }
                }
            }
            // 2. polynomial from roots, evaluation, multipoint evaluation, roots_eval
            let na = 1 + (rng.next() as usize) % (if round % 2 == 0 { 12 } else { 70 });
            // power-series quotient P / Q mod X^len for the lengths the crate uses (2^k + 1, k >= 2): every combination of a
            // unit / general constant term of P and of Q (Q[0] a power of two, hence invertible modulo the odd n)
            {
                let len = (1usize << (2 + (rng.next() % 5) as u32)) + 1;
                let mut pv: Vec<MInt> = (0..len).map(|_| elem(rng)).collect();
                let mut qv: Vec<MInt> = (0..len).map(|_| elem(rng)).collect();
                let p0 = rng.next() % 3; let q0 = rng.next() % 4;
                if p0 == 0 { pv[0] = zn.one(); } else if p0 == 1 { pv[0] = zn.from_int(Uint::from(4u64)); }
                qv[0] = match q0 { 0 => zn.one(), 1 => zn.from_int(Uint::from(2u64)), 2 => zn.from_int(Uint::from(4u64)), _ => zn.from_int(Uint::from(1u64 << (1 + rng.next() % 40))) };
                let r = catch_unwind(AssertUnwindSafe(|| {
                    let ring = PolyRing::new(&zn, 2 * len);
                    let (pp, qq) = (Poly::new(&ring, pv.clone()), Poly::new(&ring, qv.clone()));
                    Poly::div_mod_xn(&pp, &qq).c
                }));
                match r {
                    Err(_) => fail("polyops", format!("Poly::div_mod_xn (n = {n}, length {len}, P[0] = {}, Q[0] = {}): panic", zn.to_int(pv[0]), zn.to_int(qv[0]))),
                    Ok(z) => {
                        for i in 0..len {
                            let mut s = zn.zero();
                            for k in 0..=i { s = zn.add(&s, &zn.mul(&qv[k], &z[i - k])); }
                            if z.len() != len || zn.to_int(s) != zn.to_int(pv[i]) {
                                fail("polyops", format!("Poly::div_mod_xn (n = {n}, length {len}, P[0] = {}, Q[0] = {}): coefficient {i} of Q * (P / Q) is {}, P has {}", zn.to_int(pv[0]), zn.to_int(qv[0]), zn.to_int(s), zn.to_int(pv[i])));
                            }
                        }
                    }
                }
            }
            let nb = 1 + (rng.next() as usize) % (if round % 3 == 0 { 100 } else { 20 });
            let av: Vec<MInt> = (0..na).map(|_| elem(rng)).collect();
            let bv: Vec<MInt> = (0..nb).map(|_| elem(rng)).collect();
            let naive = |x: &MInt| -> MInt { let mut v = zn.one(); for a in &av { v = zn.mul(&v, &zn.sub(x, a)); } v };
            let r = catch_unwind(AssertUnwindSafe(|| {
                let ring = PolyRing::new(&zn, na.max(nb));
                let pol = Poly::from_roots(&ring, &av);
                let single: Vec<MInt> = bv.iter().map(|b| pol.eval(*b)).collect();
                let re = Poly::roots_eval(&zn, &av, &bv);
                (single, re)
            }));
            match r {
                Err(_) => fail("polyops", format!("Poly::from_roots / eval / roots_eval (n of {bits} bits, {na} roots, {nb} points): panic")),
                Ok((single, re)) => {
                    for j in 0..nb {
                        let want = zn.to_int(naive(&bv[j]));
                        for (name, got) in [("from_roots + eval", &single), ("roots_eval", &re)] {
                            if got.len() != nb || zn.to_int(got[j]) != want {
                                fail("polyops", format!("{name} (n = {n}, {na} roots, {nb} points): value at point {j} is {:?}, product of (b - a_i) is {want}", got.get(j).map(|x| zn.to_int(*x))));
                            }
                        }
                    }
                }
            }
        }
    }
}


/// C11 probe (bounded stand-in: the relation store is not under contract): valid complete, single-large-prime and
/// double-large-prime relations modulo a 62-bit n = P Q (square roots computed with the known factors) are fed to
/// RelationSet::add in several orders, with signs and repeated primes; every relation it publishes must verify, and
/// add_cycle must accept any cycle length
fn relstore(rng: &mut Rng, iters: u64) {
    use yamaquasi::relations::{Relation, RelationSet};
    fn mulmod(a: u64, b: u64, m: u64) -> u64 { ((a as u128 * b as u128) % m as u128) as u64 }
    fn powmod(mut b: u64, mut e: u64, m: u64) -> u64 { let mut r = 1 % m; b %= m; while e > 0 { if e & 1 == 1 { r = mulmod(r, b, m); } b = mulmod(b, b, m); e >>= 1; } r }
    // Tonelli-Shanks
    fn sqrt_p(a: u64, p: u64) -> Option<u64> {
        let a = a % p;
        if a == 0 { return Some(0); }
        if powmod(a, (p - 1) / 2, p) != 1 { return None; }
        let (mut q, mut s) = (p - 1, 0);
        while q % 2 == 0 { q /= 2; s += 1; }
        let mut z = 2; while powmod(z, (p - 1) / 2, p) != p - 1 { z += 1; }
        let (mut m, mut c, mut tt, mut r) = (s, powmod(z, q, p), powmod(a, q, p), powmod(a, (q + 1) / 2, p));
        while tt != 1 {
            let mut i = 0; let mut t2 = tt; while t2 != 1 { t2 = mulmod(t2, t2, p); i += 1; }
            let b = powmod(c, 1 << (m - i - 1), p);
            m = i; c = mulmod(b, b, p); tt = mulmod(tt, c, p); r = mulmod(r, b, p);
        }
        Some(r)
    }
    let (pp, qq) = (2147483647u64, 2147483629u64);
    let n64 = pp * qq;
    let n = Uint::from(n64);
    // x with x^2 = y (mod P Q) by CRT, if y is a square modulo both
    let sqrt_n = |y: u64| -> Option<u64> {
        let (a, b) = (sqrt_p(y % pp, pp)?, sqrt_p(y % qq, qq)?);
        // x = a + P * ((b - a) / P mod Q)
        let pinv = powmod(pp % qq, qq - 2, qq);
        let k = mulmod((b + qq - a % qq) % qq, pinv, qq);
        let x = ((a as u128 + pp as u128 * k as u128) % n64 as u128) as u64;
        if mulmod(x, x, n64) == y % n64 { Some(x) } else { None }
    };
    let small = [2i64, 3, 5, 7, 11, 13];
    let larges = [1009u64, 1013, 10007, 10009, 65537, 99991];
    // a valid relation with the given cofactor: random small factors and sign until the value is a square
    let mut make = |rng: &mut Rng, cofactor: u64, want_neg: Option<bool>| -> Relation {
        loop {
            let mut factors: Vec<(i64, u64)> = vec![];
            let neg = want_neg.unwrap_or(rng.next() % 2 == 0);
            if neg { factors.push((-1, 1)); }
            let mut y = cofactor % n64;
            for &p in &small {
                let k = rng.next() % 4;
                if k > 0 { factors.push((p, k)); y = mulmod(y, powmod(p as u64, k, n64), n64); }
            }
            if neg { y = n64 - y; }
            if let Some(x) = sqrt_n(y) {
                return Relation { x: Uint::from(x), cofactor, cyclelen: 1, factors };
            }
        }
    };
    let check = |rs: &RelationSet, what: &str| {
        for (i, r) in rs.cycles.iter().enumerate() {
            let ok = catch_unwind(AssertUnwindSafe(|| r.verify(&n))).unwrap_or(false);
            if !ok || r.cofactor != 1 {
                fail("relstore", format!("RelationSet modulo {n64}: published relation #{i} after {what} is not a congruence: x = {}, cofactor {}, factors {:?}", r.x, r.cofactor, r.factors));
            }
        }
    };
    for it in 0..(iters / 10).clamp(5, 3000) {
        let r = catch_unwind(AssertUnwindSafe(|| {
            let mut rs = RelationSet::new(n, 8, 100000);
            let p = larges[(rng.next() % 6) as usize];
            let mut q = larges[(rng.next() % 6) as usize];
            if it % 5 != 0 { while q == p { q = larges[(rng.next() % 6) as usize]; } }
            let signs = match it % 4 { 0 => Some(true), 1 => Some(false), _ => None };
            // complete relation
            let r0 = make(rng, 1, signs);
            assert!(r0.verify(&n));
            rs.add(r0, None);
            check(&rs, "a complete relation");
            // two relations sharing the large prime p
            let (r1, r2) = (make(rng, p, signs), make(rng, p, signs));
            assert!(r1.verify(&n) && r2.verify(&n));
            rs.add(r1, None);
            rs.add(r2, None);
            check(&rs, &format!("two relations with the large prime {p}"));
            // a double large prime relation p q with single relations for p and q, in a rotating order
            let rpq = make(rng, p * q, signs);
            assert!(rpq.verify(&n));
            let rq = make(rng, q, signs);
            match it % 3 {
                0 => { rs.add(rpq, Some((p, q))); rs.add(rq, None); }
                1 => { rs.add(rq, None); rs.add(rpq, Some((q, p))); }
                _ => { rs.add(rpq, Some((p, q))); let rp2 = make(rng, p, signs); rs.add(rp2, None); rs.add(rq, None); }
            }
            check(&rs, &format!("a double large prime relation {p} * {q} and matching single relations"));
            // a chain of double relations closed by single ones
            let ls: Vec<u64> = larges.iter().cloned().filter(|&l| l != p && l != q).collect();
            for w in ls.windows(2) {
                let rd = make(rng, w[0] * w[1], signs);
                rs.add(rd, Some((w[0], w[1])));
            }
            let first = make(rng, ls[0], signs);
            rs.add(first, None);
            check(&rs, "a chain of double large prime relations");
            // any cycle length is accepted by add_cycle
            let mut long = make(rng, 1, signs);
            long.cyclelen = 8 + it % 5;
            rs.add_cycle(long);
            check(&rs, "add_cycle with a long cycle");
            rs.cycles.len()
        }));
        if r.is_err() {
            fail("relstore", format!("RelationSet modulo {n64} (round {it}): panic while adding valid relations (debug_assert of a combined relation, or an index out of bounds)"));
        }
    }
}


/// C16 probe (bounded stand-in: the stage-2 machinery of pm1_impl / pp1 is not under contract): primes p with
/// p - 1 = m l (P-1) or p + 1 = m l with a suitable seed (P+1), m small and B1-smooth, l a stage-2 prime, for l at the
/// edges of the baby/giant-step grid (a d1 +- b with extreme a and b) and inside it: a run with those bounds must
/// separate p from p q for a 128-bit prime q
fn stage2edge(rng: &mut Rng, iters: u64) {
    use std::str::FromStr;
    use yamaquasi::Verbosity;
    fn gcd(a: u64, b: u64) -> u64 { if b == 0 { a } else { gcd(b, a % b) } }
    fn mulmod(a: u64, b: u64, m: u64) -> u64 { ((a as u128 * b as u128) % m as u128) as u64 }
    fn powmod(mut b: u64, mut e: u64, m: u64) -> u64 { let mut r = 1 % m; b %= m; while e > 0 { if e & 1 == 1 { r = mulmod(r, b, m); } b = mulmod(b, b, m); e >>= 1; } r }
    let q128 = Uint::from_str("192361420203955321314102766284003105319").unwrap();
    let ms = [2u64, 4, 6, 8, 10, 12, 14, 18, 20, 22, 24, 26, 28, 30, 36, 40, 42, 44, 48, 50, 54, 60, 66, 70, 72, 78, 84, 90, 96, 100, 102, 108, 110, 120];
    let quick = iters < 1000;
    // ---- P+1, exact grid of params::stage2_params
    for (b1, b2) in [(1500u64, 30e3f64), (2000, 300e3)] {
        let (_b2real, d1, d2) = yamaquasi::params::stage2_params(b2);
        let bs: Vec<u64> = (1..d1 / 2).filter(|&b| gcd(b, d1) == 1).collect();
        let amin = b1 / d1 + 1;
        let mut cands: Vec<u64> = vec![];
        let mut avals = vec![d2 - 1, d2 - 2, amin, amin + 1, d2 / 2, d2 / 2 + 1];
        for _ in 0..(if quick { 2 } else if iters < 50000 { 12 } else { 60 }) { avals.push(amin + rng.next() % (d2 - amin)); }
        for &a in &avals {
            let mut bvals = vec![bs[0], bs[bs.len() - 1], bs[bs.len() - 2], bs[1]];
            for _ in 0..2 { bvals.push(bs[(rng.next() as usize) % bs.len()]); }
            for &b in &bvals {
                for l in [a * d1 + b, (a * d1).saturating_sub(b)] {
                    if l > b1 + 2 && l + d1 / 2 < d1 * d2 && is_prime_td_big(l) && !cands.contains(&l) { cands.push(l); }
                }
            }
        }
        let mut tested = 0;
        for &l in &cands {
            // p = m l - 1 prime, seed with (seed^2 - 4 | p) = -1
            let Some(&m) = ms.iter().find(|&&m| is_prime_td_big(m * l - 1)) else { continue };
            let p = m * l - 1;
            let Some(seed) = (3u64..60).find(|&s| powmod((s * s - 4) % p, (p - 1) / 2, p) == p - 1) else { continue };
            let n = Uint::from(p) * q128;
            tested += 1;
            match catch_unwind(AssertUnwindSafe(|| yamaquasi::pp1::pp1(n, seed, b1, b2, Verbosity::Silent))) {
                Err(_) => fail("stage2edge", format!("pp1({n}, seed {seed}, B1 {b1}, B2 {b2}): panic")),
                Ok(None) => fail("stage2edge", format!("pp1(p * q128, seed {seed}, B1 {b1}, B2 {b2}) = None for p = {p}: p + 1 = {m} * {l} with l = {} * {d1} + {} (d1 = {d1}, d2 = {d2}) and (seed^2 - 4 | p) = -1", (l + d1 / 2) / d1, l as i64 - ((l + d1 / 2) / d1 * d1) as i64)),
                Ok(Some((fs, rest))) => {
                    let mut prod = rest; for f in &fs { prod *= *f; }
                    if prod != n || !(fs.contains(&Uint::from(p)) || rest == Uint::from(p)) {
                        fail("stage2edge", format!("pp1(p * q128, seed {seed}, B1 {b1}, B2 {b2}) = ({fs:?}, {rest}) does not separate p = {p}"));
                    }
                }
            }
            if quick && tested >= 14 { break; }
        }
    }
    // ---- P-1 (its stage-2 table is private: l is sampled just above B1, inside, and up to 0.9 B2)
    for (b1, b2) in [(600u64, 40e3f64), (16 << 10, 450e3)] {
        let hi = (0.9 * b2) as u64;
        let mut cands: Vec<u64> = vec![];
        let mut l = b1 + 1; while cands.len() < 3 { if is_prime_td_big(l) { cands.push(l); } l += 1; }
        let mut l = hi; let mut k = 0; while k < 3 { if is_prime_td_big(l) { cands.push(l); k += 1; } l -= 1; }
        for _ in 0..(if quick { 6 } else if iters < 50000 { 40 } else { 200 }) { let mut l = b1 + 1 + rng.next() % (hi - b1 - 1); while !is_prime_td_big(l) { l += 1; } if !cands.contains(&l) { cands.push(l); } }
        for &l in &cands {
            let Some(&m) = ms.iter().find(|&&m| is_prime_td_big(m * l + 1)) else { continue };
            let p = m * l + 1;
            let n = Uint::from(p) * q128;
            match catch_unwind(AssertUnwindSafe(|| yamaquasi::pollard_pm1::pm1_impl(&n, b1, b2, Verbosity::Silent))) {
                Err(_) => fail("stage2edge", format!("pm1_impl({n}, {b1}, {b2}): panic")),
                Ok(None) => fail("stage2edge", format!("pm1_impl(p * q128, B1 {b1}, B2 {b2}) = None for p = {p}: p - 1 = {m} * {l}")),
                Ok(Some((fs, rest))) => {
                    let mut prod = rest; for f in &fs { prod *= *f; }
                    if prod != n || !(fs.contains(&Uint::from(p)) || rest == Uint::from(p)) {
                        fail("stage2edge", format!("pm1_impl(p * q128, B1 {b1}, B2 {b2}) = ({fs:?}, {rest}) does not separate p = {p}"));
                    }
                }
            }
        }
    }
}


/// C12 probe (bounded stand-in for the parts of MPQS that are not under contract: sieve_for_polys, make_poly, eval):
/// every polynomial satisfies y^2 = P(x) (mod n), and prepare_prime returns exactly the roots of P(offset + x) modulo
/// every odd factor-base prime (checked by brute force for the small ones), also when D is inside the factor base
fn mpqsroots(rng: &mut Rng, iters: u64) {
    use bnum::types::{I256, U256};
    use bnum::cast::CastFrom;
    use yamaquasi::arith::Inverter;
    use yamaquasi::fbase::FBase;
    use yamaquasi::mpqs::{make_poly, sieve_for_polys};
    type Int = bnum::types::I1024;
    fn modinv(a: u64, p: u64) -> u64 { let (mut r, mut b, mut e) = (1u64, a % p, p - 2); while e > 0 { if e & 1 == 1 { r = r * b % p; } b = b * b % p; e >>= 1; } r }
    let sizes: &[u32] = if iters < 1000 { &[40, 64, 100, 160] } else { &[24, 32, 40, 50, 64, 80, 100, 128, 160, 200, 250] };
    for &bits in sizes {
        for round in 0..(if iters < 1000 { 1 } else { 4 }) {
            let mut n = Uint::ONE;
            for _ in 0..bits / 60 + 1 { n = (n << 60u32) + Uint::from(rng.word() >> 4); }
            n = (n >> (n.bits() - bits)) | Uint::ONE | (Uint::ONE << (bits - 1));
            if round % 2 == 1 { n = n | Uint::from(3u64); }
            if yamaquasi::pseudoprime(n) { n = n + Uint::from(4u64); }
            let fb = FBase::new(Int::from_bits(n), 60);
            // D around n^(1/4) / 64, at least 11 (so that D^2 < n)
            let root4 = { let mut lo = 1u128; while Uint::from(lo * lo) * Uint::from(lo * lo) <= n && lo < (1 << 60) { lo *= 2; } lo / 2 };
            let bmin = (root4 / 64).max(11);
            let polys = match catch_unwind(AssertUnwindSafe(|| sieve_for_polys(&n, bmin, 300))) {
                Ok(v) => v,
                Err(_) => fail("mpqsroots", format!("sieve_for_polys({n}, {bmin}, 300): panic")),
            };
            for (d, r) in polys.into_iter().take(3) {
                if Uint::from(d) * Uint::from(d) >= n { continue; }
                let res = catch_unwind(AssertUnwindSafe(|| {
                    let pol = make_poly(&n, d, &r);
                    // defining identity: y^2 = P(x) modulo n
                    for x in [-50000i64, -1000, -1, 0, 1, 7, 12345] {
                        let (v, y) = pol.eval(x);
                        let vabs = Uint::cast_from(v.unsigned_abs()) % n;
                        let vmod = if v.is_negative() && vabs != Uint::ZERO { n - vabs } else { vabs };
                        if (y % n) * (y % n) % n != vmod {
                            return Err(format!("make_poly(n = {n}, D = {d}).eval({x}) = (P, y) with y^2 mod n = {} but P mod n = {vmod}", (y % n) * (y % n) % n));
                        }
                    }
                    let offset: i32 = -32768;
                    for i in 0..fb.len() {
                        let p = fb.p(i) as u64;
                        if p == 2 { continue; }
                        let inv = Inverter::new(p as u32);
                        let dinv = if d % p as u128 == 0 { 0 } else { modinv((d % p as u128) as u64, p) as u32 };
                        let (r1, r2) = pol.prepare_prime(p as u32, fb.r(i), fb.div(i), &inv, dinv, offset);
                        let pval = |x: i64| -> u64 { let v: I256 = pol.eval(x).0; (v.unsigned_abs() % U256::from(p)).digits()[0] };
                        for rt in [r1, r2] {
                            if rt as u64 >= p || pval(offset as i64 + rt as i64) != 0 {
                                return Err(format!("make_poly(n = {n}, D = {d}).prepare_prime(p = {p}, r = {}, dinv = {dinv}, offset {offset}) = ({r1}, {r2}): P(offset + {rt}) mod p = {}", fb.r(i), pval(offset as i64 + rt as i64)));
                            }
                        }
                        if p < 300 {
                            for x in 0..p {
                                let is_root = pval(offset as i64 + x as i64) == 0;
                                if is_root != (x == r1 as u64 || x == r2 as u64) {
                                    return Err(format!("make_poly(n = {n}, D = {d}).prepare_prime(p = {p}, ..) = ({r1}, {r2}) but P(offset + {x}) mod p {} 0", if is_root { "==" } else { "!=" }));
                                }
                            }
                        }
                    }
                    Ok(())
                }));
                match res {
                    Err(_) => fail("mpqsroots", format!("make_poly / eval / prepare_prime (n = {n}, D = {d}): panic")),
                    Ok(Err(e)) => fail("mpqsroots", e),
                    Ok(Ok(())) => {}
                }
            }
        }
    }
}


/// order of the generator of the ECM curve that `ecm::ecm(p * q128, 1, ..)` uses, modulo the prime p (group order
/// searched in the Hasse interval among the multiples of 12, then reduced); None if the curve cannot be built
fn ecm_order_mod_p(p: u64, seed: u32) -> Option<u64> {
    use yamaquasi::arith_montgomery::ZmodN;
    use yamaquasi::ecm::{Curve, Suyama11};
    let zp = ZmodN::new(Uint::from(p));
    let suy = Suyama11::new(&zp).ok()?;
    let pt = suy.element(seed).ok()?;
    let g = suy.params_point(&pt).ok()?;
    let c = Curve::twisted_from_point(zp.clone(), g).ok()?;
    let limbs = |s: &str| -> Vec<u128> {
        s.split("MInt([").skip(1).map(|t| t.split(',').next().unwrap().trim().parse::<u128>().unwrap()).collect()
    };
    let is_neutral = |k: u64| -> bool {
        let q = c.scalar64_mul_dbladd(k, c.gen());
        let v = limbs(&format!("{:?}", q));
        v.len() == 3 && v[0] == 0 && v[1] == v[2] && v[1] != 0
    };
    let rt = (p as f64).sqrt() as u64 + 1;
    let (lo, hi) = (p + 1 - 2 * rt, p + 1 + 2 * rt);
    let mut n0 = lo / 12 * 12;
    let mut order = None;
    while n0 <= hi { if n0 >= lo && is_neutral(n0) { order = Some(n0); break; } n0 += 12; }
    let mut ord = order?;
    let mut m = ord; let mut f = 2;
    let mut fs = vec![];
    while f * f <= m { if m % f == 0 { fs.push(f); while m % f == 0 { m /= f; } } f += 1; }
    if m > 1 { fs.push(m); }
    for f in fs { while ord % f == 0 && is_neutral(ord / f) { ord /= f; } }
    Some(ord)
}

/// what remains of the order after stage 1 with bound b1: ord / gcd(ord, E), E = product of the maximal prime powers
/// below b1, times 16 * 3 (the exponent of SmoothBase::new)
fn ecm_residual_order(mut ord: u64, b1: u64) -> u64 {
    let mut q = 2;
    while q < b1 {
        if is_prime_td(q) {
            let mut pow = q; while pow * q < b1 { pow *= q; }
            if q == 2 { pow *= 16; } if q == 3 { pow *= 3; }
            let mut e = pow; while e > 1 && e % q == 0 { if ord % q == 0 { ord /= q; } e /= q; }
        }
        q += 1;
    }
    ord
}

/// hidden helper (not part of any check): search primes p for which ECM with (b1, b2) must succeed in stage 2
fn ecmsearch(iters: u64) {
    use std::str::FromStr;
    let q128 = Uint::from_str("192361420203955321314102766284003105319").unwrap();
    for (b1, b2) in [(100u64, 5.04e3f64), (150, 20e3)] {
        let (_r, d1, d2) = yamaquasi::params::stage2_params(b2);
        let mut p = (1u64 << 20) + 1; let mut found = 0;
        while found < iters {
            p += 2; if !is_prime_td(p) { continue; }
            let n = Uint::from(p) * q128;
            let seed = std::cmp::max(2, n.digits()[0].wrapping_mul(3) as u32);
            let Some(ord) = ecm_order_mod_p(p, seed) else { continue };
            let l = ecm_residual_order(ord, b1);
            if l > d1 && l + d1 / 2 < d1 * d2 && is_prime_td(l) {
                let a = (l + d1 / 2) / d1; let b = l as i64 - (a * d1) as i64;
                println!("({b1}, {b2:e}, {p}), // ord {ord} l {l} = {a} * {d1} + {b}");
                found += 1;
            }
        }
    }
}


/// C16 probe for ECM (bounded stand-in: ecm_curve is not under contract): for primes p such that the generator of the
/// curve that ecm(p * q128, 1 curve) uses has order (B1-smooth part) * l modulo p, l a prime of the stage-2 grid
/// (the order is computed here from the public curve arithmetic), one run must separate p; the primes are chosen so
/// that l = a d1 + b covers the first / last giant steps and the smallest / largest baby steps, plus generic ones
fn ecmstage2(_rng: &mut Rng, iters: u64) {
    use std::str::FromStr;
    use yamaquasi::{Preferences, Verbosity};
    let q128 = Uint::from_str("192361420203955321314102766284003105319").unwrap();
    let mut prefs = Preferences::default();
    prefs.verbosity = Verbosity::Silent;
    fn gcd(a: u64, b: u64) -> u64 { if b == 0 { a } else { gcd(b, a % b) } }
    let (scan, generic) = if iters < 1000 { (1500u64, 10usize) } else { (20000, 120) };
    for (b1, b2) in [(100u64, 5.04e3f64), (150, 20e3)] {
        let (_r, d1, d2) = yamaquasi::params::stage2_params(b2);
        let bs: Vec<u64> = (1..d1 / 2).filter(|&b| gcd(b, d1) == 1).collect();
        let edge_b = [bs[0], bs[1], bs[bs.len() - 1], bs[bs.len() - 2]];
        let mut picked: Vec<(u64, u64, u64)> = vec![];   // (p, l, class)
        let mut seen_class = std::collections::HashSet::new();
        let mut ngeneric = 0;
        let mut p = (1u64 << 20) + 1;
        for _ in 0..scan {
            p += 2; while !is_prime_td(p) { p += 2; }
            let n = Uint::from(p) * q128;
            let seed = std::cmp::max(2, n.digits()[0].wrapping_mul(3) as u32);
            let Some(ord) = ecm_order_mod_p(p, seed) else { continue };
            let l = ecm_residual_order(ord, b1);
            if !(l > d1 && l + d1 / 2 < d1 * d2 && is_prime_td(l)) { continue; }
            let a = (l + d1 / 2) / d1;
            let b = (l as i64 - (a * d1) as i64).unsigned_abs();
            let mut class = 0u64;
            if edge_b.contains(&b) { class = 1000 + b; }
            if a <= 2 || a + 2 >= d2 { class = 2000 + a; }
            if class != 0 && seen_class.insert((class, l > a * d1)) { picked.push((p, l, class)); }
            else if ngeneric < generic { ngeneric += 1; picked.push((p, l, 0)); }
        }
        for (p, l, _class) in picked {
            let n = Uint::from(p) * q128;
            let a = (l + d1 / 2) / d1;
            let b = l as i64 - (a * d1) as i64;
            match catch_unwind(AssertUnwindSafe(|| yamaquasi::ecm::ecm(n, 1, b1 as usize, b2, &prefs, None))) {
                Err(_) => fail("ecmstage2", format!("ecm({n}, 1 curve, B1 {b1}, B2 {b2:e}): panic")),
                Ok(None) => fail("ecmstage2", format!("ecm(p * q128, 1 curve, B1 {b1}, B2 {b2:e}) = None for p = {p}: the curve generator has order (B1-smooth) * {l} modulo p, l = {a} * {d1} + {b} (d1 = {d1}, d2 = {d2})")),
                Ok(Some((x, y))) => {
                    if x * y != n || !(x == Uint::from(p) || y == Uint::from(p)) {
                        fail("ecmstage2", format!("ecm(p * q128, 1 curve, B1 {b1}, B2 {b2:e}) = ({x}, {y}) does not separate p = {p}"));
                    }
                }
            }
        }
    }
}


/// C12 probe (bounded stand-in: SIQS polynomial selection is not under contract): the factors selected for the A values
/// never divide n (also when n has factor-base primes as divisors), carry square roots of n, their table of mutual
/// inverses is right, and every A returned by select_a is a product of nfacs distinct selected primes
fn siqsfactors(rng: &mut Rng, iters: u64) {
    use yamaquasi::fbase::FBase;
    use yamaquasi::siqs::{select_a, select_siqs_factors};
    use yamaquasi::Verbosity;
    type Int = bnum::types::I1024;
    let sizes: &[(u32, usize, u32)] = if iters < 1000 { &[(80, 2, 120), (140, 4, 400), (220, 7, 3000)] } else { &[(64, 2, 80), (80, 2, 120), (100, 3, 200), (140, 4, 400), (180, 5, 1200), (220, 7, 3000), (260, 9, 6000)] };
    for &(bits, nfacs, fbsize) in sizes {
        for round in 0..(if iters < 1000 { 2 } else { 6 }) {
            // n = (a few small odd primes) * (random cofactor): some factor-base primes divide n
            let smalls = [3u64, 5, 7, 11, 13, 17, 19, 23, 29, 31, 37, 41, 43, 47, 53, 59, 61, 67, 71, 73];
            let mut n = Uint::ONE;
            for _ in 0..(round % 4) { n = n * Uint::from(smalls[(rng.next() % 20) as usize]); }
            while n.bits() < bits { n = (n << 30u32) + Uint::from(rng.next() >> 34 | 1); }
            n = n | Uint::ONE;
            // second and third passes: n multiplied by primes that the first pass selected (they now divide n and sit
            // in the middle of the candidate pool)
            let mut variants = vec![n];
            if let Ok(ps) = catch_unwind(AssertUnwindSafe(|| {
                let nint = Int::from_bits(n);
                let fb = FBase::new(nint, fbsize);
                select_siqs_factors(&fb, &nint, nfacs, 1usize << 16, Verbosity::Silent).factors.iter().map(|x| x.p).collect::<Vec<u64>>()
            })) {
                if ps.len() >= 3 {
                    variants.push(n * Uint::from(ps[ps.len() / 2]));
                    variants.push(n * Uint::from(ps[1]) * Uint::from(ps[ps.len() - 2]));
                }
            }
            for n in variants {
            let nint = Int::from_bits(n);
            let res = catch_unwind(AssertUnwindSafe(|| {
                let fb = FBase::new(nint, fbsize);
                let mm = 1usize << 16;
                let f = select_siqs_factors(&fb, &nint, nfacs, mm, Verbosity::Silent);
                let ps: Vec<u64> = f.factors.iter().map(|x| x.p).collect();
                for (i, pr) in f.factors.iter().enumerate() {
                    let (p, r) = (pr.p, pr.r);
                    let nmod = (n % Uint::from(p)).digits()[0];
                    if nmod == 0 { return Err(format!("select_siqs_factors(n = {n}, {nfacs} factors): the selected prime {p} divides n (selected: {ps:?})")); }
                    if p < 3 || (r as u128 * r as u128 % p as u128) as u64 != nmod { return Err(format!("select_siqs_factors(n = {n}): selected prime {p} with r = {r}, r^2 mod p = {}, n mod p = {nmod}", r as u128 * r as u128 % p as u128)); }
                    if i > 0 && ps[i - 1] >= p { return Err(format!("select_siqs_factors(n = {n}): selected primes not increasing: {ps:?}")); }
                    for (j, q) in f.factors.iter().enumerate() {
                        let inv = f.inverses[i][j] as u64;
                        if i != j && (p % q.p) * inv % q.p != 1 { return Err(format!("select_siqs_factors(n = {n}): inverses[{i}][{j}] = {inv} is not 1/{p} mod {}", q.p)); }
                    }
                }
                let a_s = select_a(&f, 8, Verbosity::Silent);
                for a in &a_s {
                    let mut rest = *a; let mut cnt = 0;
                    for &p in &ps { if (rest % Uint::from(p)).is_zero() { rest = rest / Uint::from(p); cnt += 1; } }
                    if rest != Uint::ONE || cnt != nfacs { return Err(format!("select_a(n = {n}, {nfacs} factors): A = {a} is not a product of {nfacs} distinct selected primes {ps:?}")); }
                }
                Ok(())
            }));
            match res {
                Err(_) => fail("siqsfactors", format!("select_siqs_factors / select_a (n = {n}, {nfacs} factors, factor base {fbsize}): panic")),
                Ok(Err(e)) => fail("siqsfactors", e),
                Ok(Ok(())) => {}
            }
            }
        }
    }
}

// ---- C09: arith_gcd against plain Euclid and the exact Bezout identity in 4096-bit arithmetic. Mirror of the contracts of
// big_gcd / gcd_internal / inv_mod, and the probe of assumption A7 (inside the size band the cofactor arithmetic does not
// wrap: no overflow panic in the dev profile, exact identity u a + v b = gcd).
fn euclid<const N: usize>(a: bnum::BUint<N>, b: bnum::BUint<N>) -> bnum::BUint<N> {
    let (mut x, mut y) = (a, b);
    while !y.is_zero() {
        let r = x % y;
        x = y;
        y = r;
    }
    x
}

fn gcdbez_pair<const N: usize>(a: bnum::BUint<N>, b: bnum::BUint<N>) -> Result<(), String> {
    use bnum::cast::CastFrom;
    use yamaquasi::arith_gcd::{big_gcd, gcd_internal, inv_mod};
    type I4096 = bnum::BInt<64>;
    let g = euclid(a, b);
    let r = catch_unwind(AssertUnwindSafe(|| big_gcd(&a, &b)));
    match r {
        Err(_) => return Err(format!("big_gcd::<{N}>({a}, {b}): panic")),
        Ok(d) => if d != g { return Err(format!("big_gcd::<{N}>({a}, {b}) = {d}, expected {g}")); }
    }
    let r = catch_unwind(AssertUnwindSafe(|| gcd_internal::<N, true>(&a, &b)));
    match r {
        Err(_) => return Err(format!("gcd_internal::<{N}, true>({a}, {b}): panic")),
        Ok((d, u, v)) => {
            if d != g { return Err(format!("gcd_internal::<{N}, true>({a}, {b}): gcd {d}, expected {g}")); }
            let lhs = I4096::cast_from(u) * I4096::cast_from(a) + I4096::cast_from(v) * I4096::cast_from(b);
            if lhs != I4096::cast_from(d) { return Err(format!("gcd_internal::<{N}, true>({a}, {b}) = ({d}, {u}, {v}): u a + v b = {lhs}, not the gcd")); }
        }
    }
    if !b.is_zero() {
        let r = catch_unwind(AssertUnwindSafe(|| inv_mod(&a, &b)));
        match r {
            Err(_) => return Err(format!("inv_mod::<{N}>({a}, {b}): panic")),
            Ok(Ok(x)) => {
                if g != bnum::BUint::<N>::ONE { return Err(format!("inv_mod::<{N}>({a}, {b}) = Ok({x}) although the gcd is {g}")); }
                let w = bnum::BUint::<64>::cast_from(x) * bnum::BUint::<64>::cast_from(a) % bnum::BUint::<64>::cast_from(b);
                let one = bnum::BUint::<64>::ONE % bnum::BUint::<64>::cast_from(b);
                if w != one || (x >= b && b > bnum::BUint::<N>::ONE) { return Err(format!("inv_mod::<{N}>({a}, {b}) = Ok({x}): n x mod p = {w}")); }
            }
            Ok(Err(d)) => {
                if d != g { return Err(format!("inv_mod::<{N}>({a}, {b}) = Err({d}), the gcd is {g}")); }
                if g == bnum::BUint::<N>::ONE { return Err(format!("inv_mod::<{N}>({a}, {b}) = Err(1) although the operands are coprime")); }
            }
        }
    }
    Ok(())
}

/// a structured pair of at most `limit` bits: built from a continued fraction (chosen partial quotients), random words of
/// chosen widths, powers, multiples, equal operands, zero
fn gcdbez_gen<const N: usize>(rng: &mut Rng, limit: u32) -> (bnum::BUint<N>, bnum::BUint<N>) {
    type U<const M: usize> = bnum::BUint<M>;
    let rand_bits = |rng: &mut Rng, bits: u32| -> U<N> {
        let mut d = [0u64; N];
        for w in d.iter_mut() { *w = rng.word(); }
        let x = U::<N>::from_digits(d);
        if bits == 0 { U::<N>::ZERO } else { (x >> (64 * N as u32 - bits)) | (U::<N>::ONE << (bits - 1)) }
    };
    let width = |rng: &mut Rng| -> u32 {
        match rng.next() % 6 {
            0 => limit - (rng.next() % 41) as u32,          // within 40 bits of the band limit
            1 => 1 + (rng.next() % 64) as u32,              // at most one word
            2 => 64 * (1 + (rng.next() % (N as u64 - 1)) as u32) + (rng.next() % 3) as u32 - 1, // word boundaries
            _ => 1 + (rng.next() % limit as u64) as u32,
        }.min(limit).max(1)
    };
    match rng.next() % 10 {
        0 => {
            // continued fraction with chosen quotients: 1s (Fibonacci-like), huge ones, near 2^32 / 2^36
            let gb = 1 + (rng.next() % 70) as u32; let g = if rng.next() % 2 == 0 { U::<N>::ONE } else { rand_bits(rng, gb) };
            let (mut x0, mut x1) = (U::<N>::ZERO, g);
            loop {
                let q: U<N> = match rng.next() % 8 {
                    0 => U::<N>::ONE << (rng.next() % 100) as u32,
                    1 => U::<N>::from(1u64 << 32) + U::<N>::from(rng.next() % 5) - U::<N>::from(2u64),
                    2 => U::<N>::from(1u64 << 36) + U::<N>::from(rng.next() % 5) - U::<N>::from(2u64),
                    3 => U::<N>::from(rng.next()),
                    4 => U::<N>::from(2u64),
                    _ => U::<N>::ONE,
                };
                if q.bits() + x1.bits() + 1 > limit { break; }
                let x2 = q * x1 + x0;
                x0 = x1;
                x1 = x2;
                if rng.next() % 200 == 0 { break; }
            }
            if rng.next() % 2 == 0 { (x1, x0) } else { (x0, x1) }
        }
        1 => { let w = width(rng); let a = rand_bits(rng, w); (a, a) }
        2 => { let w = width(rng); let a = rand_bits(rng, w); if rng.next() % 2 == 0 { (a, U::<N>::ZERO) } else { (U::<N>::ZERO, a) } }
        3 => {
            // a multiple of b
            let wb = width(rng); let b = rand_bits(rng, wb);
            let kb = 1 + (rng.next() % (limit - wb + 1).max(1) as u64) as u32; let k = rand_bits(rng, kb);
            if k.bits() + b.bits() > limit { (b, b) } else { (k * b, b) }
        }
        4 => {
            // powers of small numbers
            let base = [3u64, 5, 7, 11, 13][(rng.next() % 5) as usize];
            let mut a = U::<N>::ONE; while a.bits() + 4 < limit - (rng.next() % 60) as u32 { a = a * U::<N>::from(base); }
            let base2 = [2u64, 3, 5, 7, 10][(rng.next() % 5) as usize];
            let mut b = U::<N>::ONE; while b.bits() + 4 < limit - (rng.next() % 600).min(limit as u64 - 8) as u32 { b = b * U::<N>::from(base2); }
            (a, b)
        }
        5 => {
            // common factor
            let gb = 1 + (rng.next() % 200).min(limit as u64 / 3) as u32; let g = rand_bits(rng, gb);
            let wa = 1 + (rng.next() % (limit - g.bits()) as u64) as u32; let wb = 1 + (rng.next() % (limit - g.bits()) as u64) as u32;
            (g * rand_bits(rng, wa), g * rand_bits(rng, wb))
        }
        _ => { let (w1, w2) = (width(rng), width(rng)); (rand_bits(rng, w1), rand_bits(rng, w2)) }
    }
}

fn gcdbez(rng: &mut Rng, iters: u64) {
    use std::str::FromStr;
    type U1024 = bnum::BUint<16>;
    type U512 = bnum::BUint<8>;
    // fixed inputs: reported shapes (wide powers, huge quotient mid-way)
    let p7 = { let mut a = U1024::ONE; for _ in 0..356 { a = a * U1024::from(7u64); } a };
    let p5 = { let mut a = U1024::ONE; for _ in 0..430 { a = a * U1024::from(5u64); } a };
    let c = { let mut a = U1024::ONE; for _ in 0..100 { a = a * U1024::from(3u64); } a };
    let r = { let mut a = U1024::ONE; for _ in 0..60 { a = a * U1024::from(5u64); } a };
    let a = ((U1024::ONE << 40) + U1024::ONE) * c + r;
    let a0 = U1024::from(3u64) * a + c;
    let n26 = U1024::from_str("26984400680641981219").unwrap();
    for (x, y) in [(p7, p5), (p5, p7), (a0, a), (a, a0), (U1024::from(30894741361u64), n26), (U1024::ONE, U1024::ONE), (U1024::ZERO, U1024::ZERO), (U1024::ZERO, U1024::ONE)] {
        if let Err(e) = gcdbez_pair::<16>(x, y) { fail("gcdbez", e); }
    }
    for it in 0..iters {
        if it % 2 == 0 {
            let (a, b) = gcdbez_gen::<16>(rng, 1012);
            if let Err(e) = gcdbez_pair::<16>(a, b) { fail("gcdbez", e); }
        } else {
            let (a, b) = gcdbez_gen::<8>(rng, 500);
            if let Err(e) = gcdbez_pair::<8>(a, b) { fail("gcdbez", e); }
        }
        let _ = U512::ONE;
    }
}

// ---- known findings F19 / F20 / F21: the specific failing inputs (reported by sub-agents probing the pristine tree, confirmed)
/// F19: P+1 stage 2 takes the giant steps i d1 for i < d2 only, so it covers l <= (d2 - 1) d1 + d1/2, below the B2 it reports
fn f19() {
    use std::str::FromStr;
    let q128 = Uint::from_str("192361420203955321314102766284003105319").unwrap();
    // p + 1 = 2^3 * 17 * 223 * 32999, (5^2 - 4 | p) = -1; row (33e3, 510, 64) covers l <= 32385
    let p = Uint::from(1000793671u64);
    let n = p * q128;
    match catch_unwind(AssertUnwindSafe(|| yamaquasi::pp1::pp1(n, 5, 1500, 33e3, yamaquasi::Verbosity::Silent))) {
        Err(_) => fail("f19", format!("pp1({n}, 5, 1500, 33e3): panic")),
        Ok(None) => fail("f19", "pp1(1000793671 * q128, seed 5, B1 1500, B2 33e3) = None although p + 1 = 2^3 * 17 * 223 * 32999 and 32999 <= 33000 (the reported B2); B2 = 53e3 finds p".to_string()),
        Ok(Some(_)) => {}
    }
}

/// F20: the polynomial-evaluation stage 2 of P-1 covers l < (d2 - 2 - phi(d1)) d1, below the B2 of about half of the rows
fn f20() {
    use std::str::FromStr;
    let p256 = Uint::from_str("92504863121296400653652753711376140294298584431452956354291724864471735145079").unwrap();
    // p - 1 = 2 * 3^6 * 7 * 979987; row 980e3 covers l < 978180
    let p = Uint::from(10001747323u64);
    let n = p * p256;
    match catch_unwind(AssertUnwindSafe(|| yamaquasi::pollard_pm1::pm1_impl(&n, 1000, 980e3, yamaquasi::Verbosity::Silent))) {
        Err(_) => fail("f20", format!("pm1_impl({n}, 1000, 980e3): panic")),
        Ok(None) => fail("f20", "pm1_impl(10001747323 * p256, B1 1000, B2 980e3) = None although p - 1 = 2 * 3^6 * 7 * 979987 and 979987 <= 980000 (the reported B2); B2 = 1.9e6 finds p".to_string()),
        Ok(Some(_)) => {}
    }
}

/// F21: convolve_modn does not wrap around X^size - 1 when several coefficients are packed per transform word
fn f21() {
    use yamaquasi::arith_fft::convolve_modn;
    use yamaquasi::arith_montgomery::{MInt, ZmodN};
    let n = (Uint::ONE << 61) - Uint::ONE;
    let zn = ZmodN::new(n);
    let size = 2usize;
    let p: Vec<MInt> = [3u64, 4].iter().map(|&x| zn.from_int(Uint::from(x))).collect();
    let q: Vec<MInt> = [7u64, 9].iter().map(|&x| zn.from_int(Uint::from(x))).collect();
    let mut res = vec![MInt::default(); size];
    if catch_unwind(AssertUnwindSafe(|| convolve_modn(&zn, size, &p, &q, &mut res, 0))).is_err() {
        fail("f21", "convolve_modn(n = 2^61 - 1, size 2, [3, 4], [7, 9]): panic".to_string());
    }
    let got: Vec<u64> = res.iter().map(|&r| zn.to_int(r).digits()[0]).collect();
    if got != vec![57, 55] {
        fail("f21", format!("convolve_modn(n = 2^61 - 1, size 2, p = [3, 4], q = [7, 9], offset 0) = {got:?}, the cyclic convolution modulo X^2 - 1 is [57, 55]"));
    }
}

/// C12 probe (bounded stand-in: SIQS polynomial preparation is not under contract): whole Gray-code families of the
/// polynomials SIQS would use for n (with and without the Knuth-Schroeppel multiplier), identity and exact root tables,
/// through the probe module appended to the per-run copy of src/siqs.rs (replay/inject/siqs.rs)
fn siqsroots(rng: &mut Rng, iters: u64) {
    fn is_prime(n: u64) -> bool { yamaquasi::isprime64(n) }
    fn next_prime(mut n: u64) -> u64 { n |= 1; while !is_prime(n) { n += 2; } n }
    let mut inputs: Vec<Uint> = vec![];
    // small semiprimes whose multiplier is a prime of the A-factor window, and plain ones
    for n0 in [1099543084957u64, 68733098699, 4289413411, 1000036000099, 281493733684369, 279493, 2917301, 35189293, 2660388877] { inputs.push(Uint::from(n0)); }
    let rounds = if iters < 1000 { 6 } else if iters < 50000 { 40 } else { 300 };
    for _ in 0..rounds {
        let bits = 16 + (rng.next() % 46) as u32; // each factor: 16..61 bits
        let p = next_prime((1u64 << (bits - 1)) + rng.next() % (1u64 << (bits - 1)));
        let b2 = (bits as i64 + (rng.next() % 5) as i64 - 2).clamp(16, 61) as u32;
        let q = next_prime((1u64 << (b2 - 1)) + rng.next() % (1u64 << (b2 - 1)));
        if p != q { inputs.push(Uint::from(p) * Uint::from(q)); }
    }
    for (i, n) in inputs.iter().enumerate() {
        for use_k in [true, false] {
            let n = *n;
            let r = catch_unwind(AssertUnwindSafe(|| yamaquasi::siqs::verif_probe::family_check(n, use_k, if i < 9 { 64 } else { 24 }, 3000)));
            match r {
                Err(_) => fail("siqsroots", format!("SIQS polynomial family of n = {n} (multiplier {use_k}): panic")),
                Ok(Err(e)) => fail("siqsroots", e),
                Ok(Ok(_)) => {}
            }
        }
    }
}

/// C11 probe (bounded stand-in): PackedRelation::pack / unpack round trip on structured relations: x up to 512 bits, any
/// cofactor / cycle length, primes 2 and odd primes below 2^32 with exponents 1..300, the sign entry (-1, k) for every k
/// (k even stands for +1 and may be dropped, k odd must come back as an odd power of -1). The decoded relation must satisfy the
/// same congruence: same x, cofactor, cycle length, same prime powers, same parity of the sign exponent.
fn packrel(rng: &mut Rng, iters: u64) {
    use yamaquasi::relations::Relation;
    let small = [2i64, 3, 5, 7, 11, 13, 127, 129 + 2, 16381, 16384 + 3, 65537, 2097143, 2147483647, 4294967291];
    for it in 0..iters.max(200) {
        let words = 1 + (rng.next() % 8) as usize;
        let x = rng.uint(words);
        let cofactor = match rng.next() % 4 { 0 => 1, 1 => rng.next(), 2 => rng.next() % 1000, _ => (rng.next() % (1 << 32)) * (rng.next() % (1 << 31)) };
        let cyclelen = match rng.next() % 3 { 0 => 1, 1 => rng.next() % 20, _ => rng.next() };
        let mut factors: Vec<(i64, u64)> = vec![];
        let sign_k = match rng.next() % 6 { 0 => None, 1 => Some(1), 2 => Some(2), 3 => Some(3), 4 => Some(rng.next() % 9), _ => Some(2 * (1 + rng.next() % 4)) };
        let sign_first = rng.next() % 4 != 0;
        if let (Some(k), true) = (sign_k, sign_first) { factors.push((-1, k)); }
        let nf = (rng.next() % 24) as usize;
        for _ in 0..nf {
            let p = if rng.next() % 2 == 0 { small[(rng.next() % small.len() as u64) as usize] } else { ((rng.next() % (1 << 32)) | 1) as i64 };
            let p = if p == 1 { 3 } else { p };
            let k = match rng.next() % 5 { 0 | 1 => 1, 2 => 2, 3 => 1 + rng.next() % 6, _ => 1 + rng.next() % 300 };
            factors.push((p, k));
        }
        if let (Some(k), false) = (sign_k, sign_first) { factors.push((-1, k)); }
        let r = Relation { x, cofactor, cyclelen, factors: factors.clone() };
        let res = catch_unwind(AssertUnwindSafe(|| yamaquasi::relations::verif_probe::pack_roundtrip(r)));
        let Ok(d) = res else { fail("packrel", format!("pack/unpack of x = {x}, cofactor {cofactor}, cycle length {cyclelen}, factors {factors:?}: panic (iteration {it})")) };
        let norm = |fs: &[(i64, u64)]| -> (u64, Vec<(i64, u64)>) {
            let mut sign = 0u64; let mut v = vec![];
            for &(p, k) in fs { if p == -1 { sign = (sign + k) % 2; } else { v.push((p, k)); } }
            (sign, v)
        };
        if d.x != x || d.cofactor != cofactor || d.cyclelen != cyclelen || norm(&d.factors) != norm(&factors) {
            fail("packrel", format!("pack/unpack of x = {x}, cofactor {cofactor}, cycle length {cyclelen}, factors {factors:?} decodes to x = {}, cofactor {}, cycle length {}, factors {:?}", d.x, d.cofactor, d.cyclelen, d.factors));
        }
    }
}

/// C11 probe (bounded stand-in: final_step's exponent bookkeeping is not under contract): the final combination step on sets
/// of valid complete relations modulo n = P Q (square roots from the known factors), with every sign pattern -- no sign
/// entries, odd powers of -1, only even powers of -1, mixtures -- and repeated / even exponents: it must not panic and every
/// divisor it returns must satisfy 1 < d < n and d | n
fn finalstep(rng: &mut Rng, iters: u64) {
    use yamaquasi::relations::{final_step, Relation};
    use yamaquasi::fbase::FBase;
    fn mulmod(a: u64, b: u64, m: u64) -> u64 { ((a as u128 * b as u128) % m as u128) as u64 }
    fn powmod(mut b: u64, mut e: u64, m: u64) -> u64 { let mut r = 1 % m; b %= m; while e > 0 { if e & 1 == 1 { r = mulmod(r, b, m); } b = mulmod(b, b, m); e >>= 1; } r }
    fn sqrt_p(a: u64, p: u64) -> Option<u64> {
        let a = a % p;
        if a == 0 { return Some(0); }
        if powmod(a, (p - 1) / 2, p) != 1 { return None; }
        let (mut q, mut s) = (p - 1, 0);
        while q % 2 == 0 { q /= 2; s += 1; }
        let mut z = 2; while powmod(z, (p - 1) / 2, p) != p - 1 { z += 1; }
        let (mut m, mut c, mut tt, mut r) = (s, powmod(z, q, p), powmod(a, q, p), powmod(a, (q + 1) / 2, p));
        while tt != 1 {
            let mut i = 0; let mut t2 = tt; while t2 != 1 { t2 = mulmod(t2, t2, p); i += 1; }
            let b = powmod(c, 1 << (m - i - 1), p);
            m = i; c = mulmod(b, b, p); tt = mulmod(tt, c, p); r = mulmod(r, b, p);
        }
        Some(r)
    }
    let moduli = [(1000003u64, 1000033u64), (2147483647, 2147483629), (65537, 65539), (1048573, 1048609)];
    let rounds = (iters / 20).clamp(8, 2000);
    for it in 0..rounds {
        let (pp, qq) = moduli[(it % 4) as usize];
        let n64 = pp * qq;
        let n = Uint::from(n64);
        let fb = FBase::new64(n64);
        let nprimes = fb.len().min(6 + (rng.next() % 10) as usize);
        let sqrt_n = |y: u64| -> Option<u64> {
            let (a, b) = (sqrt_p(y % pp, pp)?, sqrt_p(y % qq, qq)?);
            let pinv = powmod(pp % qq, qq - 2, qq);
            let k = mulmod((b + qq - a % qq) % qq, pinv, qq);
            let x = ((a as u128 + pp as u128 * k as u128) % n64 as u128) as u64;
            if mulmod(x, x, n64) == y % n64 { Some(x) } else { None }
        };
        // sign pattern of the whole set: 0 none, 1 odd powers, 2 even powers only, 3 mixture
        let pattern = (it / 4) % 4;
        let nrels = nprimes + 4 + (rng.next() % 12) as usize;
        let mut rels: Vec<Relation> = vec![];
        let mut guard = 0;
        while rels.len() < nrels && guard < 100000 {
            guard += 1;
            let mut factors: Vec<(i64, u64)> = vec![];
            let sign_k: u64 = match pattern { 0 => 0, 1 => (rng.next() % 2) * (1 + 2 * (rng.next() % 2)), 2 => 2 * (rng.next() % 3), _ => rng.next() % 5 };
            let sign_first = rng.next() % 3 != 0;
            if sign_k > 0 && sign_first { factors.push((-1, sign_k)); }
            let mut y = 1u64;
            for i in 0..nprimes {
                let p = fb.p(i) as u64;
                let k = match rng.next() % 6 { 0 | 1 | 2 => 0, 3 => 1, 4 => 2, _ => 1 + rng.next() % 4 };
                if k > 0 { factors.push((p as i64, k)); y = mulmod(y, powmod(p, k, n64), n64); }
            }
            if sign_k > 0 && !sign_first { factors.push((-1, sign_k)); }
            if sign_k % 2 == 1 { y = (n64 - y) % n64; }
            if let Some(x) = sqrt_n(y) {
                rels.push(Relation { x: Uint::from(x), cofactor: 1, cyclelen: 1, factors });
            }
        }
        for r in &rels { if !r.verify(&n) { fail("finalstep", format!("internal: generated relation does not verify modulo {n64}: {r:?}")); } }
        let rr = rels.clone();
        let res = catch_unwind(AssertUnwindSafe(|| final_step(&n, &fb, &rr, yamaquasi::Verbosity::Silent)));
        match res {
            Err(_) => fail("finalstep", format!("final_step(n = {n64} = {pp} * {qq}, {} valid relations, sign pattern {pattern} (0 none / 1 odd / 2 even only / 3 mixed)): panic; relations: {:?}", rels.len(), rels.iter().take(6).map(|r| (r.x, r.factors.clone())).collect::<Vec<_>>())),
            Ok(ds) => for d in ds {
                if d <= Uint::ONE || d >= n || n % d != Uint::ZERO {
                    fail("finalstep", format!("final_step(n = {n64}, {} valid relations, sign pattern {pattern}) returned {d}, not a proper divisor", rels.len()));
                }
            }
        }
    }
}

/// C08 probe (bounded stand-in: sqrt_mod / pow_mod / perfect_power are generic over foreign numeric traits, arith::isqrt is a
/// re-export of num-integer: none is under contract): against independent definitions, on structured inputs.
fn arithfn(rng: &mut Rng, iters: u64) {
    use yamaquasi::arith::{isqrt, perfect_power, pow_mod, sqrt_mod};
    fn mulmod(a: u64, b: u64, m: u64) -> u64 { ((a as u128 * b as u128) % m as u128) as u64 }
    fn powmod(mut b: u64, mut e: u64, m: u64) -> u64 { let mut r = 1 % m; b %= m; while e > 0 { if e & 1 == 1 { r = mulmod(r, b, m); } b = mulmod(b, b, m); e >>= 1; } r }
    fn is_prime(n: u64) -> bool { if n < 2 { return false; } let mut d = 2; while d * d <= n { if n % d == 0 { return false; } d += 1; } true }
    // primes: every shape of p - 1 (p = 3 mod 4, 2-adic valuation up to 23), tiny ones, near 2^16 / 2^24 / 2^31
    let mut primes: Vec<u64> = vec![2, 3, 5, 7, 13, 17, 41, 97, 193, 257, 769, 12289, 40961, 65537, 786433, 5767169, 7340033, 23068673, 104857601, 998244353, 16777213, 16777259, 2147483647, 2147483629, 65521, 65519];
    for _ in 0..20 { let mut q = (rng.next() % (1 << 24)) | 1; while !is_prime(q) { q += 2; } primes.push(q); }
    for &p in &primes {
        if !is_prime(p) { fail("arithfn", format!("internal: {p} is not prime")); }
        let trials = if iters < 1000 { 12 } else { 200 };
        for t in 0..trials {
            let n: u64 = match t { 0 => 0, 1 => 1, 2 => p - 1, 3 => p, 4 => p + 1, 5 => 4, _ => rng.next() % (1 << 40) };
            let qr = n % p == 0 || p == 2 || powmod(n % p, (p - 1) / 2, p) == 1;
            // the simplified Tonelli-Shanks is O(2^v) for p - 1 = q 2^v: only factor-base sized primes (p < 2^24, v <= 20) and small v
            let v2 = (p - 1).trailing_zeros();
            if p < (1 << 24) || v2 <= 12 {
            match catch_unwind(AssertUnwindSafe(|| sqrt_mod(n, p))) {
                Err(_) => fail("arithfn", format!("sqrt_mod({n}, {p}): panic")),
                Ok(Some(r)) => if r >= p || mulmod(r, r, p) != n % p { fail("arithfn", format!("sqrt_mod({n}, {p}) = {r}: r^2 mod p = {}, n mod p = {}", mulmod(r, r, p), n % p)); },
                Ok(None) => if qr { fail("arithfn", format!("sqrt_mod({n}, {p}) = None although {n} is a square modulo {p}")); },
            }
            }
            // pow_mod on u64 (p < 2^32 so that products fit) against 128-bit arithmetic
            let (b, e) = (rng.next() % (1 << 32), rng.word());
            match catch_unwind(AssertUnwindSafe(|| pow_mod(b, e, p))) {
                Err(_) => fail("arithfn", format!("pow_mod({b}, {e}, {p}): panic")),
                Ok(v) => if v != powmod(b, e, p) { fail("arithfn", format!("pow_mod({b}, {e}, {p}) = {v}, expected {}", powmod(b, e, p))); },
            }
        }
    }
    // multiword: sqrt_mod / pow_mod with Mersenne primes (p = 3 mod 4) and 2^64 - 59 = 5 mod 8 ... against squaring
    let big: Vec<Uint> = vec![(Uint::ONE << 61) - Uint::ONE, (Uint::ONE << 89) - Uint::ONE, (Uint::ONE << 127) - Uint::ONE, (Uint::ONE << 64) - Uint::from(59u64)];
    for p in &big {
        for _ in 0..(if iters < 1000 { 3 } else { 30 }) {
            let x = rng.uint(8) % *p;
            let sq = (x * x) % *p;
            if p.bits() <= 500 {
                match catch_unwind(AssertUnwindSafe(|| sqrt_mod(sq, *p))) {
                    Err(_) => fail("arithfn", format!("sqrt_mod({sq}, {p}): panic")),
                    Ok(Some(r)) => if (r * r) % *p != sq { fail("arithfn", format!("sqrt_mod({sq}, {p}) = {r} is not a square root")); },
                    Ok(None) => fail("arithfn", format!("sqrt_mod({sq}, {p}) = None although the argument is the square of {x}")),
                }
            }
            // Fermat: x^(p-1) = 1, and x^e x^f = x^(e+f)
            let (e, f) = (Uint::from(rng.next()), rng.uint(2));
            let r = catch_unwind(AssertUnwindSafe(|| (pow_mod(x, *p - Uint::ONE, *p), pow_mod(x, e, *p), pow_mod(x, f, *p), pow_mod(x, e + f, *p))));
            match r {
                Err(_) => fail("arithfn", format!("pow_mod({x}, .., {p}): panic")),
                Ok((one, xe, xf, xef)) => {
                    if !x.is_zero() && one != Uint::ONE { fail("arithfn", format!("pow_mod({x}, p - 1, p = {p}) = {one}, expected 1 (p is prime)")); }
                    if (xe * xf) % *p != xef { fail("arithfn", format!("pow_mod({x}, e, {p}) * pow_mod(x, f, p) != pow_mod(x, e + f, p) for e = {e}, f = {f}")); }
                }
            }
        }
    }
    // F23: 0 and 1 are their own roots; the function used to recurse for ever
    for n in [0u64, 1] {
        match with_deadline(3000, move || (perfect_power(n), perfect_power(Uint::from(n)))) {
            None => fail("arithfn", format!("perfect_power({n}) does not return")),
            Some((a, b)) => if a.is_some() || b.is_some() { fail("arithfn", format!("perfect_power({n}) = {a:?} / {b:?}, expected None")); },
        }
    }
    // perfect_power: n = b^e with b not a perfect power; the exponent found is the part of e made of the primes 2..19
    let small_np = [2u64, 3, 5, 6, 7, 10, 12, 15, 18, 21, 1000003, 65537, 4294967291];
    for &b in &small_np {
        for e in 1u32..=40 {
            let mut n = Uint::ONE; let mut ok = true;
            for _ in 0..e { if n.bits() + 64 > 1000 { ok = false; break; } n = n * Uint::from(b); }
            if !ok || n.bits() > 960 { break; }
            let (mut s, mut t) = (1u32, e);
            for k in [2u32, 3, 5, 7, 11, 13, 17, 19] { while t % k == 0 { t /= k; s *= k; } }
            let want = if s > 1 { let mut r = Uint::ONE; for _ in 0..t { r = r * Uint::from(b); } Some((r, s)) } else { None };
            match catch_unwind(AssertUnwindSafe(|| perfect_power(n))) {
                Err(_) => fail("arithfn", format!("perfect_power({b}^{e}): panic")),
                Ok(got) => if got != want { fail("arithfn", format!("perfect_power({b}^{e} = {n}) = {got:?}, expected {want:?}")); },
            }
            if n.bits() <= 64 {
                let n64 = n.digits()[0];
                let want64 = want.map(|(r, s)| (r.digits()[0], s));
                match catch_unwind(AssertUnwindSafe(|| perfect_power(n64))) {
                    Err(_) => fail("arithfn", format!("perfect_power({n64}u64): panic")),
                    Ok(got) => if got != want64 { fail("arithfn", format!("perfect_power({n64}u64 = {b}^{e}) = {got:?}, expected {want64:?}")); },
                }
            }
            // a neighbour of a power is not a power (b^e + 1 for e >= 2 is a power only for 2^3 + 1)
            if e >= 2 && !(b == 2 && e == 3) {
                let m = n + Uint::ONE;
                if let Ok(Some(g)) = catch_unwind(AssertUnwindSafe(|| perfect_power(m))) { fail("arithfn", format!("perfect_power({b}^{e} + 1) = {g:?}")); }
            }
        }
    }
    // integer square root
    for it in 0..iters.max(100) {
        let n = match it % 4 { 0 => rng.word(), 1 => { let r = rng.next() % (1 << 32); r * r }, 2 => { let r = 1 + rng.next() % ((1 << 32) - 1); r * r - 1 }, _ => rng.next() };
        let r = isqrt(n);
        if (r as u128) * (r as u128) > n as u128 || ((r as u128) + 1) * ((r as u128) + 1) <= n as u128 { fail("arithfn", format!("arith::isqrt({n}) = {r}")); }
        let x = rng.uint(1 + (it % 7) as usize);
        let big = x * x + if it % 3 == 0 { Uint::ZERO } else { x };
        let rb = isqrt(big);
        if rb != x { fail("arithfn", format!("arith::isqrt({big}) = {rb}, expected {x}")); }
    }
}

/// C16 / C01 probe (bounded stand-in: pm1_impl is not under contract): nothing false. Products of three or four primes,
/// one or two of them with a smooth p - 1 (found in stage 1, alone at the last checkpoint or together), composite cofactor,
/// small and large B2 (both stage-2 variants): the factors returned multiply, with the cofactor, to n, each is a proper
/// divisor, and none is reported twice unless it divides n twice.
fn pm1lists(rng: &mut Rng, iters: u64) {
    use yamaquasi::Verbosity;
    fn is_prime(n: u64) -> bool { yamaquasi::isprime64(n) }
    fn next_prime(mut n: u64) -> u64 { n |= 1; while !is_prime(n) { n += 2; } n }
    // p = 2 * (small smooth part) * l + 1 prime with l a prime below b1
    let smooth_prime = |rng: &mut Rng, b1: u64| -> u64 {
        loop {
            let mut l = 1 + rng.next() % (b1 - 1); while !is_prime(l) { l = if l + 1 < b1 { l + 1 } else { 3 }; }
            let m = [2u64, 6, 10, 12, 30, 42, 66, 78, 210, 330][(rng.next() % 10) as usize] * (1 + rng.next() % 50);
            let p = m * l + 1;
            if p > (1 << 18) && is_prime(p) { return p; }
        }
    };
    for _ in 0..(if iters < 1000 { 12 } else { 60 }) { pm1lists_blocks(rng); }
    pm1lists_lastblock();
    let rounds = if iters < 1000 { 6 } else if iters < 50000 { 30 } else { 200 };
    for it in 0..rounds {
        let (b1, b2) = [(600u64, 40e3f64), (16384, 450e3), (1000, 980e3), (300, 100e3)][(it % 4) as usize];
        let p1 = smooth_prime(rng, b1);
        let mut primes = vec![p1];
        if it % 3 == 0 { let mut p2 = smooth_prime(rng, b1); while p2 == p1 { p2 = smooth_prime(rng, b1); } primes.push(p2); }
        if it % 5 == 4 { primes.push(p1); }
        // two primes whose p - 1 has a large prime factor (safe-prime like): never found
        for _ in 0..2 {
            loop {
                let q = next_prime((1 << 27) + rng.next() % (1 << 27));
                if is_prime(2 * q + 1) { primes.push(2 * q + 1); break; }
            }
        }
        let mut n = Uint::ONE; for &p in &primes { n = n * Uint::from(p); }
        match catch_unwind(AssertUnwindSafe(|| yamaquasi::pollard_pm1::pm1_impl(&n, b1, b2, Verbosity::Silent))) {
            Err(_) => fail("pm1lists", format!("pm1_impl(n = {n} = product of {primes:?}, B1 {b1}, B2 {b2}): panic")),
            Ok(None) => fail("pm1lists", format!("pm1_impl(n = {n} = product of {primes:?}, B1 {b1}, B2 {b2}) = None although {p1} - 1 is {b1}-smooth")),
            Ok(Some((fs, rest))) => {
                let mut prod = rest; for f in &fs { prod = prod * *f; }
                let bad = fs.iter().any(|f| *f <= Uint::ONE || *f >= n || n % *f != Uint::ZERO);
                if prod != n || bad || rest.is_zero() || n % rest != Uint::ZERO {
                    fail("pm1lists", format!("pm1_impl(n = {n} = product of {primes:?}, B1 {b1}, B2 {b2}) = ({fs:?}, {rest}): the parts do not multiply back to n / are not proper divisors"));
                }
            }
        }
    }
}

/// second part of pm1lists: stage 1 over several sieve blocks (B1 > 65536), one factor found in the first block, another in
/// a later one, and the division by the first factor takes a 64-bit word off the modulus (the ring is rebuilt in between)
fn pm1lists_blocks(rng: &mut Rng) {
    use yamaquasi::Verbosity;
    fn is_prime(n: u64) -> bool { yamaquasi::isprime64(n) }
    // p1 - 1 smooth below 2^12 (first block), about 50 bits
    let p1 = loop {
        // every prime power dividing p1 - 1 stays below 4096 (stage 1 takes prime powers up to B1)
        let ps = [2u64, 3, 5, 7, 11, 13, 17, 19, 23, 29, 31, 37, 41, 43, 3137];
        let caps = [11u32, 7, 5, 4, 3, 3, 2, 2, 2, 2, 2, 2, 2, 2, 1];
        let mut used = [0u32; 15];
        let mut m = 2u64; used[0] = 1;
        let mut tries = 0;
        while m < (1 << 48) && tries < 400 {
            tries += 1;
            let i = (rng.next() % 15) as usize;
            if used[i] < caps[i] { used[i] += 1; m *= ps[i]; }
        }
        if m >= (1 << 48) && m < (1 << 60) && is_prime(m + 1) { break m + 1; }
    };
    // p2 - 1 = 2 * small * l with l a prime in (70000, 190000): found in a later block, about 40 bits
    let p2 = loop {
        let mut l = 70001 + 2 * (rng.next() % 60000); while !is_prime(l) { l += 2; }
        let m = 2 * [1009u64, 2003, 4001, 1013, 3001][(rng.next() % 5) as usize] * [1u64, 3, 5, 7][(rng.next() % 4) as usize];
        if is_prime(m * l + 1) { break m * l + 1; }
    };
    // r: a prime of about 131 bits, so that n has 4 words and n / p1 has 3
    let mut r = (Uint::ONE << 130) + Uint::from(rng.next()) * Uint::from(rng.next() | 1);
    r = r | Uint::ONE;
    while !yamaquasi::pseudoprime(r) { r = r + Uint::from(2u64); }
    let n = Uint::from(p1) * Uint::from(p2) * r;
    match catch_unwind(AssertUnwindSafe(|| yamaquasi::pollard_pm1::pm1_impl(&n, 200_000, 450e3, Verbosity::Silent))) {
        Err(_) => fail("pm1lists", format!("pm1_impl(n = {p1} * {p2} * {r}, B1 200000, B2 450e3): panic")),
        Ok(None) => fail("pm1lists", format!("pm1_impl(n = {p1} * {p2} * {r}, B1 200000, B2 450e3) = None although {p1} - 1 and {p2} - 1 are 200000-smooth")),
        Ok(Some((fs, rest))) => {
            let mut prod = rest; for f in &fs { prod = prod * *f; }
            if prod != n || !fs.contains(&Uint::from(p1)) || !fs.contains(&Uint::from(p2)) {
                fail("pm1lists", format!("pm1_impl(n = {p1} * {p2} * {r}, B1 200000, B2 450e3) = ({fs:?}, {rest}): {p1} - 1 and {p2} - 1 are both 200000-smooth (the first is found in the first sieve block, the second in a later one), both must be separated and the parts must multiply to n"));
            }
        }
    }
}

/// third part of pm1lists: the largest primes below B1 when stage 1 works with 1024-bit exponent blocks (B1 >= 65536): a
/// factor p with p - 1 = m * l, l among the last three primes below B1, must be found by stage 1 alone (small B2)
fn pm1lists_lastblock() {
    use std::str::FromStr;
    use yamaquasi::Verbosity;
    fn is_prime(n: u64) -> bool { yamaquasi::isprime64(n) }
    let p256 = Uint::from_str("92504863121296400653652753711376140294298584431452956354291724864471735145079").unwrap();
    for b1 in [65536u64, 100_000, 131_072] {
        let mut l = b1 - 1;
        let mut done = 0;
        while done < 3 {
            while !is_prime(l) { l -= 1; }
            if let Some(m) = (1u64..400).map(|j| 2 * j).find(|&m| is_prime(m * l + 1) && (m / 2 == 1 || [2u64, 3, 5, 7, 11, 13].iter().any(|q| (m / 2) % q == 0))) {
                let p = m * l + 1;
                let n = Uint::from(p) * p256;
                match catch_unwind(AssertUnwindSafe(|| yamaquasi::pollard_pm1::pm1_impl(&n, b1, 70e3, Verbosity::Silent))) {
                    Err(_) => fail("pm1lists", format!("pm1_impl({p} * p256, B1 {b1}, B2 70e3): panic")),
                    Ok(None) => fail("pm1lists", format!("pm1_impl({p} * p256, B1 {b1}, B2 70e3) = None although p - 1 = {m} * {l} with {l} a prime below B1 (one of the last three)")),
                    Ok(Some((fs, rest))) => {
                        let mut prod = rest; for f in &fs { prod = prod * *f; }
                        if prod != n || !fs.contains(&Uint::from(p)) { fail("pm1lists", format!("pm1_impl({p} * p256, B1 {b1}, B2 70e3) = ({fs:?}, {rest})")); }
                    }
                }
                done += 1;
            }
            l -= 1;
        }
    }
}

/// F24 (open): factor(n, Algo::Qs) on tiny n hands relations with x >= n to the relation store (debug assertion)
fn f24() {
    use yamaquasi::{factor, Algo, Preferences};
    let prefs = Preferences::default();
    for n in [56977u64, 58649, 59713] {
        if catch_unwind(AssertUnwindSafe(|| factor(Uint::from(n), Algo::Qs, &prefs))).is_err() {
            fail("f24", format!("factor({n}, Algo::Qs): panic (debug_assert!(&r.x < &self.n) in RelationSet::add, src/relations.rs)"));
        }
    }
}

/// F25 (open): factor(n, Algo::Mpqs) on tiny n trips debug_assert!(self.c.is_negative()) in mpqs::Poly::prepare_prime
fn f25() {
    use yamaquasi::{factor, Algo, Preferences};
    let prefs = Preferences::default();
    for n in [58649u64, 61823, 80131] {
        if catch_unwind(AssertUnwindSafe(|| factor(Uint::from(n), Algo::Mpqs, &prefs))).is_err() {
            fail("f25", format!("factor({n}, Algo::Mpqs): panic (debug_assert!(self.c.is_negative()) in mpqs::Poly::prepare_prime, the branch 'D inside the factor base')"));
        }
    }
}

/// F26 (fixed): SIQS selection of A for n k >= 425 bits (17 factors and more: 68 candidate primes) shifted a u64 mask by 64
/// and more. The selection is run as siqs() runs it, on a smaller factor base (the candidates are small primes).
fn f26() {
    use std::str::FromStr;
    use bnum::cast::CastFrom;
    use yamaquasi::siqs::{select_a, select_siqs_factors};
    let n = Uint::from_str("5545339388241629719156828368286167406872874150758133909074815537308037068481566300108830688262325111028058132175165942026052435311").unwrap();
    let res = catch_unwind(AssertUnwindSafe(|| {
        let nint = yamaquasi::Int::cast_from(n);
        let fb = yamaquasi::fbase::FBase::new(nint, 20000);
        for nfacs in [17usize, 18, 20] {
            let factors = select_siqs_factors(&fb, &nint, nfacs, 544 << 10, yamaquasi::Verbosity::Silent);
            let a = select_a(&factors, 40, yamaquasi::Verbosity::Silent);
            if a.is_empty() { return Err(format!("select_a({nfacs} factors) returned no value of A")); }
        }
        Ok(())
    }));
    match res {
        Err(_) => fail("f26", "siqs::select_a for a 432-bit n (17 / 18 / 20 factors of A, 4 * nfacs candidate primes): panic (attempt to shift left with overflow)".to_string()),
        Ok(Err(e)) => fail("f26", e),
        Ok(Ok(())) => {}
    }
}

/// F27 (open): the byte accumulators of the sieve overflow for inputs of about 430 bits (factor base of 538280 primes)
fn f27() {
    use std::str::FromStr;
    use yamaquasi::{Algo, Preferences};
    let n = Uint::from_str("5545339388241629719156828368286167406872874150758133909074815537308037068481566300108830688262325111028058132175165942026052435311").unwrap();
    let t0 = std::time::Instant::now();
    let mut prefs = Preferences::default();
    prefs.verbosity = yamaquasi::Verbosity::Silent;
    prefs.should_abort = Some(Box::new(move || t0.elapsed().as_secs() >= 6));
    if catch_unwind(AssertUnwindSafe(|| yamaquasi::factor(n, Algo::Siqs, &prefs))).is_err() {
        fail("f27", "factor(n of 432 bits, Algo::Siqs), aborted after 6 s: panic in the first sieved block (src/sieve.rs: `*blk.get_unchecked_mut(boff as usize) += logp`, attempt to add with overflow)".to_string());
    }
}

pub fn run(case: &str, rng: &mut Rng, iters: u64) -> bool {
    match case {
        "gcdbez" => gcdbez(rng, iters),
        "pm1lists" => pm1lists(rng, iters),
        "f24" => f24(),
        "f25" => f25(),
        "f26" => f26(),
        "f27" => f27(),
        "arithfn" => arithfn(rng, iters),
        "finalstep" => finalstep(rng, iters),
        "packrel" => packrel(rng, iters),
        "siqsroots" => siqsroots(rng, iters),
        "pp1" => pp1_case(),
        "siqsfactors" => siqsfactors(rng, iters),
        "ecmstage2" => ecmstage2(rng, iters),
        "ecmsearch" => ecmsearch(iters),
        "mpqsroots" => mpqsroots(rng, iters),
        "stage2edge" => stage2edge(rng, iters),
        "relstore" => relstore(rng, iters),
        "polyops" => polyops(rng, iters),
        "chainmul1024" => chainmul1024(rng, iters),
        "pm1base" => pm1base_case(rng, iters),
        "invmod64" => invmod64_case(rng, iters),
        "primesieve" => primesieve_case(iters),
        "factorapi" => factorapi(rng, iters),
        "rhofail" => rhofail(rng, iters),
        "gcdfactors" => gcdfactors(rng, iters),
        "f19" => f19(),
        "f20" => f20(),
        "f21" => f21(),
        "f12" => f12(),
        "f4" => f4(),
        "f3" => f3(),
        "f7" => f7(),
        "f8" => f8(),
        "primes" => primes_case(rng, iters),
        "f10" => f10(),
        "chainmul" => chainmul(rng, iters, None),
        // known finding F2b: a 33-opcode chain
        "f2b" => chainmul(rng, iters, Some(0xF111111111111111)),
        "dividers" => dividers(rng, iters),
        "isprime64" => isprime64(rng, iters),
        "pseudoprime" => pseudoprime(rng, iters),
        _ => return false,
    }
    true
}
