//! Replay / failing-input search against the real crate (public API only).
//! usage: yq-replay <case> [seed] [iterations]
//! exit 0 = every input behaved per the executable contract, exit 1 = a failing input was found (JSON on stdout)
//! Each case is the executable mirror of the Verus contract of the units it is registered for (replay/cases.json);
//! it proves nothing: it turns a failed obligation into a concrete input when it can.
use bnum::types::U2048;
use bnum::cast::CastFrom;
use std::panic::{catch_unwind, AssertUnwindSafe};
use yamaquasi::arith_montgomery::{mg_2adic_inv, mg_mul, mg_redc, MInt, ZmodN};
use yamaquasi::Uint;

mod cases2;

pub struct Rng(pub u64);
impl Rng {
    pub fn next(&mut self) -> u64 {
        // splitmix64
        self.0 = self.0.wrapping_add(0x9E3779B97F4A7C15);
        let mut z = self.0;
        z = (z ^ (z >> 30)).wrapping_mul(0xBF58476D1CE4E5B9);
        z = (z ^ (z >> 27)).wrapping_mul(0x94D049BB133111EB);
        z ^ (z >> 31)
    }
    /// word with a structured shape: 0, 1, all-ones, single bit, near powers of two, random
    pub fn word(&mut self) -> u64 {
        match self.next() % 8 {
            0 => 0,
            1 => u64::MAX,
            2 => 1 << (self.next() % 64),
            3 => (1u64 << (self.next() % 64)).wrapping_sub(1),
            4 => u64::MAX - (self.next() % 4),
            5 => self.next() % 4,
            _ => self.next(),
        }
    }
    pub fn uint(&mut self, words: usize) -> Uint {
        let mut d = [0u64; 16];
        for w in d.iter_mut().take(words) {
            *w = self.word();
        }
        Uint::from_digits(d)
    }
}

pub fn fail(case: &str, what: String) -> ! {
    println!("{{\"case\": \"{case}\", \"failing_input\": \"{}\"}}", what.replace('"', "'"));
    std::process::exit(1)
}

fn wide(x: Uint) -> U2048 {
    U2048::cast_from(x)
}

/// ZmodN against 2048-bit arithmetic: from_int/to_int round trip, mul, add, sub, redc, inv
fn zmodn(rng: &mut Rng, iters: u64) {
    for it in 0..iters {
        let words = 1 + (rng.next() % 8) as usize;
        let mut n = rng.uint(words);
        if it % 7 == 0 {
            // 2^(64k) - small, all ones
            n = (Uint::ONE << (64 * words as u32 - (if words == 8 { 1 } else { 0 }))) - Uint::from(1 + 2 * (rng.next() % 3));
        }
        n |= Uint::ONE;
        if words == 8 {
            // documented limit: 500 bits (the 501..512-bit band is finding F7 / F8, property C03)
            while n.bits() > 500 {
                n >>= 1;
            }
            n |= Uint::ONE;
        }
        if n <= Uint::ONE {
            continue;
        }
        let k = (n.bits() + 63) / 64;
        let r = U2048::ONE << (64 * k);
        let nw = wide(n);
        let mut x = rng.uint(words) % n;
        let mut y = rng.uint(words) % n;
        match it % 5 {
            0 => x = n - Uint::ONE,
            1 => y = n - Uint::ONE,
            2 => {
                x = n - Uint::ONE;
                y = n - Uint::ONE
            }
            3 => x = Uint::ZERO,
            _ => {}
        }
        let desc = format!("n={n} x={x} y={y}");
        let res = catch_unwind(AssertUnwindSafe(|| {
            let zn = ZmodN::new(n);
            let mx = zn.from_int(x);
            let my = zn.from_int(y);
            if zn.to_int(mx) != x {
                return Some(format!("to_int(from_int(x)) = {} != x", zn.to_int(mx)));
            }
            if wide(Uint::from(mx)) != (wide(x) * r) % nw {
                return Some("from_int(x) != x*R mod n".to_string());
            }
            let p = zn.to_int(zn.mul(mx, my));
            if wide(p) != (wide(x) * wide(y)) % nw {
                return Some(format!("mul = {p}"));
            }
            let s = zn.to_int(zn.add(mx, my));
            if wide(s) != (wide(x) + wide(y)) % nw {
                return Some(format!("add = {s}"));
            }
            let d = zn.to_int(zn.sub(mx, my));
            if wide(d) != (wide(x) + nw - wide(y)) % nw {
                return Some(format!("sub = {d}"));
            }
            // redc of a double-width value below n*R
            let t = (wide(x) * wide(y) + wide(rng_mix(x, y)) % nw) % (nw * r);
            let mut td = [0u64; 16];
            td.copy_from_slice(&t.digits()[..16]);
            let rd: Uint = zn.redc(&td).into();
            if rd >= n || (wide(rd) * r) % nw != t % nw {
                return Some(format!("redc({t}) = {rd}"));
            }
            match zn.inv(mx) {
                Some(i) => {
                    let one = zn.to_int(zn.mul(i, mx));
                    if one != Uint::ONE % n {
                        return Some(format!("inv(x)*x = {one}"));
                    }
                }
                None => {
                    if num_gcd(x, n) == Uint::ONE {
                        return Some("inv(x) = None although gcd(x,n) = 1".to_string());
                    }
                }
            }
            None
        }));
        match res {
            Ok(None) => {}
            Ok(Some(m)) => fail("zmodn", format!("{desc}: {m}")),
            Err(_) => fail("zmodn", format!("{desc}: panic")),
        }
    }
}

fn rng_mix(x: Uint, y: Uint) -> Uint {
    (x << 3) ^ y
}

fn num_gcd(mut a: Uint, mut b: Uint) -> Uint {
    while !b.is_zero() {
        let t = a % b;
        a = b;
        b = t;
    }
    a
}

/// the F5 regression input for ZmodN::redc
fn f5() {
    let n: Uint = (Uint::ONE << 128u32) - Uint::ONE;
    let x: Uint = (Uint::ONE << 256u32) - (Uint::ONE << 128u32) - Uint::ONE;
    let r = catch_unwind(|| {
        let zn = ZmodN::new(n);
        let mut xd = [0u64; 16];
        xd.copy_from_slice(&x.digits()[..16]);
        let r: Uint = zn.redc(&xd).into();
        (r, (r * (Uint::ONE << 128u32)) % n)
    });
    match r {
        Ok((r, lhs)) => {
            if r >= n || lhs != x % n {
                fail("f5", format!("ZmodN::new(2^128-1).redc(2^256-2^128-1) = {r}: r*R mod n = {lhs}, expected {}", x % n))
            }
        }
        Err(_) => fail("f5", "ZmodN::new(2^128-1).redc(2^256-2^128-1): panic".to_string()),
    }
}

/// 64-bit Montgomery kernels
fn mg64(rng: &mut Rng, iters: u64) {
    for it in 0..iters {
        let mut n = rng.word() | 1;
        if it % 5 == 0 {
            n = u64::MAX - 2 * (rng.next() % 8);
        }
        if n < 3 {
            continue;
        }
        let desc_n = n;
        let r = catch_unwind(AssertUnwindSafe(|| {
            let ninv = mg_2adic_inv(n);
            if n.wrapping_mul(ninv) != u64::MAX {
                return Some(format!("mg_2adic_inv({n}) = {ninv}"));
            }
            let x = rng.word() % n;
            let y = match it % 3 {
                0 => n - 1,
                _ => rng.word() % n,
            };
            let z = mg_mul(n, ninv, x, y);
            if z >= n || ((z as u128) << 64) % (n as u128) != (x as u128 * y as u128) % (n as u128) {
                return Some(format!("mg_mul({n},{ninv},{x},{y}) = {z}"));
            }
            let t = (rng.next() as u128) << 64 | rng.word() as u128;
            let t = t % ((n as u128) << 64);
            let w = mg_redc(n, ninv, t);
            if w >= n || ((w as u128) << 64) % (n as u128) != t % (n as u128) {
                return Some(format!("mg_redc({n},{ninv},{t}) = {w}"));
            }
            None
        }));
        match r {
            Ok(None) => {}
            Ok(Some(m)) => fail("mg64", m),
            Err(_) => fail("mg64", format!("n={desc_n}: panic")),
        }
    }
}

fn main() {
    let args: Vec<String> = std::env::args().collect();
    let case = args.get(1).cloned().unwrap_or_default();
    let seed: u64 = args.get(2).and_then(|s| s.parse().ok()).unwrap_or(0);
    let iters: u64 = args.get(3).and_then(|s| s.parse().ok()).unwrap_or(2000);
    if std::env::var("YQ_QUIET").is_ok() { std::panic::set_hook(Box::new(|_| {})); }
    let mut rng = Rng(seed ^ 0x5eed);
    match case.as_str() {
        "zmodn" => zmodn(&mut rng, iters),
        "f5" => f5(),
        "mg64" => mg64(&mut rng, iters),
        other => {
            if !cases2::run(other, &mut rng, iters) {
                eprintln!("unknown case {other}");
                std::process::exit(2)
            }
        }
    }
    let _ = MInt::default();
    std::process::exit(0)
}
