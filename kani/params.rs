use super::*;

static mut VERIF_BITS: u32 = 0;
fn stub_bits<const N: usize>(_x: &bnum::BUint<N>) -> u32 {
    unsafe { VERIF_BITS }
}

// @harness params_factor_base_size unit=params::factor_base_size props=C20,C03
#[kani::proof]
#[kani::stub(bnum::BUint::bits, stub_bits)]
fn params_factor_base_size_ok() {
    let b: u32 = kani::any();
    kani::assume(b <= 520);
    unsafe { VERIF_BITS = b };
    let n = Uint::ZERO;
    // no shift overflow / underflow of `a - 10`, positive, at most a million primes
    let s = factor_base_size(&n);
    // FBase::new sieves primes(2 * s): 2s * bitlen(2s) must stay below 2^32
    assert!(s >= 6 && s <= (1 << 25));
}

// @harness params_qs_fb_size unit=params::qs_fb_size props=C20,C03
#[kani::proof]
#[kani::unwind(8)]
fn params_qs_fb_size_ok() {
    let b: u32 = kani::any();
    kani::assume(b <= 520);
    let d: bool = kani::any();
    let s = qs_fb_size(b, d);
    assert!(s >= 16 && s <= 500_000);
}

// @harness params_mpqs_fb_size unit=params::mpqs_fb_size props=C20,C03
#[kani::proof]
#[kani::unwind(8)]
fn params_mpqs_fb_size_ok() {
    let b: u32 = kani::any();
    kani::assume(b <= 520);
    let d: bool = kani::any();
    let s = mpqs_fb_size(b, d);
    assert!(s >= 16 && s <= 500_000);
}

// @harness params_clsgrp_fb_size unit=params::clsgrp_fb_size props=C20,C03
#[kani::proof]
#[kani::unwind(8)]
fn params_clsgrp_fb_size_ok() {
    let b: u32 = kani::any();
    kani::assume(b <= 520);
    let d: bool = kani::any();
    let s = clsgrp_fb_size(b, d);
    assert!(s >= 16 && s <= 100_000);
}

// @harness params_stage2_table unit=params::STAGE2_PARAMS props=C20,C16,C03
#[kani::proof]
fn params_stage2_table_ok() {
    // every row of the ECM stage-2 table: d1 multiple of 6 (stage 2 walks residues coprime to 6), d2 > 0,
    // and the grid a*d1 +- b (1 <= a <= d2, b < d1/2) reaches B2
    let i: usize = kani::any();
    kani::assume(i < STAGE2_PARAMS.len());
    let (b2, d1, d2) = STAGE2_PARAMS[i];
    assert!(d1 % 6 == 0 && d1 >= 66 && d2 >= 10);
    assert!(d1 <= (1 << 24) && d2 <= (1 << 23));
    // the grid a*d1 +- b reaches d1*d2 + d1/2: within 1% of the nominal B2 (rows falling short of it at all: harness below)
    assert!(((d1 * d2 + d1 / 2) as f64) >= 0.99 * b2);
    assert!(i == 0 || STAGE2_PARAMS[i - 1].0 < b2);
}

// @harness params_stage2_cover unit=params::STAGE2_PARAMS props=C20,C16
#[kani::proof]
fn params_stage2_cover_ok() {
    // strict form: every l <= B2 (the bound the run reports) is a*d1 +- b with 1 <= a <= d2, b < d1/2.
    // Fails on the pinned tree for 13 rows (known finding F9), e.g. (33e3, 510, 64): 64*510 + 255 = 32895 < 33000.
    let i: usize = kani::any();
    kani::assume(i < STAGE2_PARAMS.len());
    let (b2, d1, d2) = STAGE2_PARAMS[i];
    assert!(((d1 * d2 + d1 / 2) as f64) >= b2);
}

// @harness params_stage2_select unit=params::stage2_params props=C20,C16 tier=thorough
#[kani::proof]
#[kani::unwind(50)]
fn params_stage2_select_ok() {
    // nearest-row selection returns a row of the table for every non-NaN b2
    let b2: f64 = kani::any();
    kani::assume(!b2.is_nan());
    let r = stage2_params(b2);
    let j: usize = kani::any();
    kani::assume(j < STAGE2_PARAMS.len());
    // it is a table row ...
    assert!(r.1 % 6 == 0 && r.2 >= 10);
    // ... and no other row is strictly closer
    assert!(!((STAGE2_PARAMS[j].0 - b2).abs() < (r.0 - b2).abs()));
}

// @harness params_stage2_select_rows unit=params::stage2_params props=C20,C16,C03
#[kani::proof]
#[kani::unwind(50)]
fn params_stage2_select_rows_ok() {
    // bounded stand-in for the quick tier: b2 equal to a row's B2, and just inside the midpoints to its neighbours,
    // selects that row (the full symbolic f64 domain is the thorough-tier harness above)
    let i: usize = kani::any();
    kani::assume(i < STAGE2_PARAMS.len());
    let row = STAGE2_PARAMS[i];
    let which: u8 = kani::any();
    let b2 = match which % 3 {
        0 => row.0,
        1 => if i > 0 { (row.0 + STAGE2_PARAMS[i - 1].0) / 2.0 + 1.0 } else { row.0 / 2.0 },
        _ => if i + 1 < STAGE2_PARAMS.len() { (row.0 + STAGE2_PARAMS[i + 1].0) / 2.0 - 1.0 } else { row.0 * 2.0 },
    };
    let r = stage2_params(b2);
    assert!(r.0 == row.0 && r.1 == row.1 && r.2 == row.2);
}
