use super::*;

fn any_factor() -> (i64, u64) {
    // the factor shapes pack() accepts: the sign -1, and 0 < p < 2^32 with p odd or p == 2, k > 0
    let p: i64 = kani::any();
    let k: u64 = kani::any();
    kani::assume(k > 0);
    kani::assume(p == -1 || (p > 0 && p < (1 << 32) && (p == 2 || p % 2 == 1)));
    (p, k)
}

/// what unpack(pack(r)) must be: even powers of -1 vanish, odd powers of -1 become (-1, 1)
fn canon(f: (i64, u64)) -> Option<(i64, u64)> {
    match f {
        (-1, k) if k % 2 == 0 => None,
        (-1, _) => Some((-1, 1)),
        f => Some(f),
    }
}

fn roundtrip(nf: usize) {
    // x, cofactor and cyclelen are concrete here (boundary word values of every LEB128 length class): the symbolic
    // part of this bounded stand-in is the factor list
    let mut d = [0u64; 16];
    d[0] = 0;
    d[1] = 1;
    d[2] = 0x7f;
    d[3] = 0x80;
    d[4] = 0x3fff;
    d[5] = 1 << 35;
    d[6] = (1 << 63) - 1;
    d[7] = u64::MAX;
    let x = Uint::from_digits(d);
    let cofactor: u64 = 0x4000;
    let cyclelen: u64 = 1 << 56;
    let mut factors = vec![];
    let mut expect = vec![];
    for _ in 0..nf {
        let f = any_factor();
        factors.push(f);
        if let Some(g) = canon(f) {
            expect.push(g);
        }
    }
    let r = Relation { x, cofactor, cyclelen, factors };
    let r2 = PackedRelation::pack(r).unpack();
    assert!(r2.x == x);
    assert!(r2.cofactor == cofactor);
    assert!(r2.cyclelen == cyclelen);
    assert!(r2.factors == expect);
}

// @harness relations_pack_roundtrip_1 unit=relations::PackedRelation::pack+unpack props=C11
#[kani::proof]
#[kani::unwind(18)]
fn relations_pack_roundtrip_1() {
    roundtrip(1)
}
