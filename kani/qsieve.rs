use super::*;

static mut VERIF_BITS: u32 = 0;
fn stub_bits<const N: usize>(_x: &bnum::BUint<N>) -> u32 {
    unsafe { VERIF_BITS }
}
fn any_bits(max: u32) -> u32 {
    let b: u32 = kani::any();
    kani::assume(b <= max);
    unsafe { VERIF_BITS = b };
    b
}

// @harness qsieve_large_prime_factor unit=qsieve::large_prime_factor props=C20,C03
#[kani::proof]
#[kani::stub(bnum::BUint::bits, stub_bits)]
fn qsieve_large_prime_factor_ok() {
    any_bits(520);
    let n = Uint::ZERO;
    let f = large_prime_factor(&n);
    // maxprime (< 2^24) * f fits u64 and stays in the u32 range after the consumer's min
    assert!(f >= 1 && f <= 450);
}
