use super::*;

// The dispatch table of `convolve_modn` is a `match` inside a long function. It is extracted mechanically from the
// current source on every run (the text between `let (fsize, logpack, stride) = match (zn.n.bits(), size) {` and the
// matching `};`), with the scrutinee replaced by `(bits, size)` and the formatted panic message dropped.
fn verif_convolve_dispatch(bits: u32, size: usize) -> (usize, u32, usize) {
    /*@EXTRACT convolve_dispatch*/
}

// @harness fft_convolve_dispatch unit=arith_fft::convolve_modn props=C20,C10,C03
#[kani::proof]
fn fft_convolve_dispatch_ok() {
    let bits: u32 = kani::any();
    let size: usize = kani::any();
    // supported moduli (<= 500 bits, the function asserts it) and transform sizes (<= 2^19)
    kani::assume(bits >= 1 && bits <= 500 && size >= 1 && size <= 524288);
    let (fsize, logpack, stride) = verif_convolve_dispatch(bits, size);
    let n_words = fsize / 64; // FInt<N> has N words
    assert!(fsize == 1024 || fsize == 2048 || fsize == 4096 || fsize == 8192 || fsize == 16384);
    let a = 1usize << logpack;
    // ceil(log2(size))
    let logsize = if size <= 1 { 0 } else { usize::BITS - (size - 1).leading_zeros() };
    if stride == 0 {
        assert!(logpack == 0);
        // an accumulated coefficient (size products of two residues) fits the element
        assert!(2 * bits + logsize <= 64 * n_words as u32);
        // mulfft: l <= 256 * N
        assert!(size <= 256 * n_words);
    } else {
        // each packed slot holds an accumulated coefficient, slots of one element do not overlap its end,
        // the slice handed to redc_large is shorter than 24 words, 8-word inputs fit their slot grid
        assert!(2 * bits + logsize <= 64 * stride as u32);
        assert!((2 * a - 1) * stride <= n_words);
        assert!(stride < 24);
        assert!((a - 1) * stride + 8 <= n_words);
        assert!((size >> logpack) <= 256 * n_words);
        // inputs of `bits` bits written 8 words at a time at distance `stride`: the overlap only carries zeros
        assert!(bits as usize <= 64 * stride);
    }
}
