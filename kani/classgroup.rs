use super::*;

static mut VERIF_BITS: u32 = 0;
fn stub_bits<const N: usize>(_x: &bnum::BUint<N>) -> u32 {
    unsafe { VERIF_BITS }
}

// @harness clsgrp_a_params unit=classgroup::a_params props=C20,C03
#[kani::proof]
fn clsgrp_a_params_ok() {
    let sz: u32 = kani::any();
    kani::assume(sz <= 512);
    let (count, facs) = a_params(sz);
    // number of A values positive; 2^(facs-1) polynomials each
    assert!(count >= 1 && facs <= 26);
    assert!(sz <= 32 || facs >= 2);
}

// @harness clsgrp_interval_size unit=classgroup::interval_size props=C20,C03
#[kani::proof]
fn clsgrp_interval_size_ok() {
    let sz: u32 = kani::any();
    kani::assume(sz <= 512);
    let s = interval_size(sz);
    assert!(s > 0 && s % 32768 == 0 && s <= 16 * 32768);
}

// @harness clsgrp_large_prime_factor unit=classgroup::large_prime_factor props=C20,C03
#[kani::proof]
fn clsgrp_large_prime_factor_ok() {
    let sz: u32 = kani::any();
    kani::assume(sz <= 512);
    let f = large_prime_factor(sz);
    assert!(f >= 2 && f <= 1024);
}

// @harness clsgrp_double_large_factor unit=classgroup::double_large_factor props=C20,C03
#[kani::proof]
#[kani::stub(bnum::BUint::bits, stub_bits)]
fn clsgrp_double_large_factor_ok() {
    let b: u32 = kani::any();
    kani::assume(b <= 512);
    unsafe { VERIF_BITS = b };
    let n = Int::ZERO;
    let f = double_large_factor(&n);
    // maxprime^2 * f must fit u64 for maxprime < 2^24
    assert!(f < (1 << 16));
}
