use super::*;

static mut VERIF_BITS: u32 = 0;
fn stub_bits<const N: usize>(_x: &bnum::BUint<N>) -> u32 {
    unsafe { VERIF_BITS }
}

// @harness clsgrp_a_params unit=classgroup::a_params props=C20,C03
#[kani::proof]
fn clsgrp_a_params_ok() {
    let sz: u32 = kani::any();
    kani::assume(sz <= 512);
    let (count, facs) = a_params(sz);
    // number of A values positive; 2^(facs-1) polynomials each
    assert!(count >= 1 && facs <= 26);
    assert!(sz <= 32 || facs >= 2);
}

// @harness clsgrp_interval_size unit=classgroup::interval_size props=C20,C03
#[kani::proof]
fn clsgrp_interval_size_ok() {
    let sz: u32 = kani::any();
    kani::assume(sz <= 512);
    let s = interval_size(sz);
    assert!(s > 0 && s % 32768 == 0 && s <= 16 * 32768);
}

// @harness clsgrp_large_prime_factor unit=classgroup::large_prime_factor props=C20,C03
#[kani::proof]
fn clsgrp_large_prime_factor_ok() {
    let sz: u32 = kani::any();
    kani::assume(sz <= 512);
    let f = large_prime_factor(sz);
    assert!(f >= 2 && f <= 1024);
}

// @harness clsgrp_double_large_factor unit=classgroup::double_large_factor props=C20,C03
#[kani::proof]
#[kani::stub(bnum::BUint::bits, stub_bits)]
fn clsgrp_double_large_factor_ok() {
    let b: u32 = kani::any();
    kani::assume(b <= 512);
    unsafe { VERIF_BITS = b };
    let n = Int::ZERO;
    let f = double_large_factor(&n);
    // maxprime^2 * f must fit u64 for maxprime < 2^24
    assert!(f < (1 << 16));
}

// @harness clsgrp_a_supply unit=classgroup::a_params props=C20
#[kani::proof]
#[kani::unwind(30)]
fn clsgrp_a_supply_ok() {
    // consumer: classgroup() asserts that select_a delivered `count` values of A; select_siqs_factors offers a pool of at
    // most 4 * facs primes and an A is a product of `facs` distinct ones, so at most C(4 facs, facs) values exist
    let sz: u32 = kani::any();
    kani::assume(sz <= 512);
    let (count, facs) = a_params(sz);
    if facs >= 1 {
        let f = facs as u64;
        let mut c: u64 = 1;
        let mut i: u64 = 0;
        while i < f {
            // C(4f, i + 1) = C(4f, i) * (4f - i) / (i + 1), saturated far above any requested count
            c = c * (4 * f - i) / (i + 1);
            if c > (1 << 40) {
                c = 1 << 40;
            }
            i += 1;
        }
        assert!((count as u64) <= c);
    }
}
