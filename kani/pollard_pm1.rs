use super::*;

// @harness pm1_stage2_table unit=pollard_pm1::STAGE2_PARAMS props=C20,C16,C03
#[kani::proof]
fn pm1_stage2_table_ok() {
    // every row of the P-1 stage-2 table: d1 multiple of 6, d2 a power of two large enough for the FFT product
    // (`assert!(d1 % 6 == 0)`, `d2` power of two: pollard_pm1.rs stage 2), B2 = d1 * (d2 - phi(d1)) <= d1 * d2
    let i: usize = kani::any();
    kani::assume(i < STAGE2_PARAMS.len());
    let (b2, d1, d2) = STAGE2_PARAMS[i];
    assert!(d1 % 6 == 0 && d1 >= 120);
    assert!(d2.is_power_of_two() && d2 >= 256 && d2 <= (1 << 23));
    assert!(((d1 * d2) as f64) >= b2);
    assert!(i == 0 || STAGE2_PARAMS[i - 1].0 < b2);
}

// @harness pm1_stage2_select unit=pollard_pm1::stage2_params props=C20,C16 tier=thorough
#[kani::proof]
#[kani::unwind(34)]
fn pm1_stage2_select_ok() {
    let b2: f64 = kani::any();
    kani::assume(!b2.is_nan());
    let r = stage2_params(b2);
    let j: usize = kani::any();
    kani::assume(j < STAGE2_PARAMS.len());
    assert!(r.1 % 6 == 0 && r.2.is_power_of_two());
    assert!(!((STAGE2_PARAMS[j].0 - b2).abs() < (r.0 - b2).abs()));
}

// @harness pm1_stage2_select_rows unit=pollard_pm1::stage2_params props=C20,C16,C03
#[kani::proof]
#[kani::unwind(34)]
fn pm1_stage2_select_rows_ok() {
    let i: usize = kani::any();
    kani::assume(i < STAGE2_PARAMS.len());
    let row = STAGE2_PARAMS[i];
    let which: u8 = kani::any();
    let b2 = match which % 3 {
        0 => row.0,
        1 => if i > 0 { (row.0 + STAGE2_PARAMS[i - 1].0) / 2.0 + 1.0 } else { row.0 / 2.0 },
        _ => if i + 1 < STAGE2_PARAMS.len() { (row.0 + STAGE2_PARAMS[i + 1].0) / 2.0 - 1.0 } else { row.0 * 2.0 },
    };
    let r = stage2_params(b2);
    assert!(r.0 == row.0 && r.1 == row.1 && r.2 == row.2);
}
