use super::*;

static mut VERIF_BITS: u32 = 0;
fn stub_bits<const N: usize>(_x: &bnum::BUint<N>) -> u32 {
    unsafe { VERIF_BITS }
}
fn any_bits(max: u32) -> u32 {
    let b: u32 = kani::any();
    kani::assume(b <= max);
    unsafe { VERIF_BITS = b };
    b
}

// @harness mpqs_interval_size unit=mpqs::mpqs_interval_size props=C20,C03
#[kani::proof]
#[kani::stub(bnum::BUint::bits, stub_bits)]
fn mpqs_interval_size_ok() {
    any_bits(520);
    let n = Uint::ZERO;
    let s = mpqs_interval_size(&n);
    assert!(s > 0 && s % (sieve::BLOCK_SIZE as i64) == 0 && s <= 1024 * 32768);
}

// @harness mpqs_large_prime_factor unit=mpqs::large_prime_factor props=C20,C03
#[kani::proof]
#[kani::stub(bnum::BUint::bits, stub_bits)]
fn mpqs_large_prime_factor_ok() {
    any_bits(520);
    let n = Uint::ZERO;
    let f = large_prime_factor(&n);
    assert!(f >= 1 && f <= 512);
}

// @harness mpqs_double_large_factor unit=mpqs::double_large_factor props=C20,C03
#[kani::proof]
#[kani::stub(bnum::BUint::bits, stub_bits)]
fn mpqs_double_large_factor_ok() {
    any_bits(520);
    let n = Uint::ZERO;
    let f = double_large_factor(&n);
    assert!(f >= 2 && f < (1 << 16));
    let maxprime: u64 = kani::any();
    kani::assume(maxprime < (1 << 24));
    assert!((maxprime * maxprime).checked_mul(f).is_some());
}
