// Kani harnesses appended to src/siqs.rs as `#[cfg(kani)] mod verif_kani` (child module: sees private items).
// Domain: every bit length the sieve can see (n * multiplier, multiplier < 256): 0..=520, both switch values.
// Loop-free harnesses over the full symbolic domain: complete proofs, no unwinding bound.
use super::*;

static mut VERIF_BITS: u32 = 0;
fn stub_bits<const N: usize>(_x: &bnum::BUint<N>) -> u32 {
    unsafe { VERIF_BITS }
}
fn any_bits(max: u32) -> u32 {
    let b: u32 = kani::any();
    kani::assume(b <= max);
    unsafe { VERIF_BITS = b };
    b
}

// @harness siqs_nfactors unit=siqs::nfactors props=C20,C03
#[kani::proof]
#[kani::stub(bnum::BUint::bits, stub_bits)]
fn siqs_nfactors() {
    let b = any_bits(520);
    let n = Uint::ZERO;
    let k = nfactors(&n);
    // consumers: `1 << (nfacs - 1)` polynomials per A, A = product of nfacs factor base primes
    assert!(k >= 2 && k <= 20);
    assert!(b < 200 || k == b / 25);
}

// @harness siqs_a_value_count unit=siqs::a_value_count props=C20,C03
#[kani::proof]
#[kani::stub(bnum::BUint::bits, stub_bits)]
fn siqs_a_value_count() {
    any_bits(520);
    let n = Uint::ZERO;
    // no underflow on any arm, the unreachable arm is unreachable, and at least 8 values are requested
    let c = a_value_count(&n);
    assert!(c >= 8 && c <= 100 * 330);
}

// @harness siqs_a_tolerance_divisor unit=siqs::a_tolerance_divisor props=C20,C03
#[kani::proof]
#[kani::stub(bnum::BUint::bits, stub_bits)]
fn siqs_a_tolerance_divisor() {
    any_bits(520);
    let n = Uint::ZERO;
    // consumer asserts div >= 3 (siqs.rs: select_a)
    assert!(a_tolerance_divisor(&n) >= 3);
}

// @harness siqs_interval_size unit=siqs::interval_size props=C20,C03
#[kani::proof]
#[kani::stub(bnum::BUint::bits, stub_bits)]
fn siqs_interval_size() {
    any_bits(520);
    let n = Uint::ZERO;
    let d: bool = kani::any();
    let s = interval_size(&n, d);
    // positive, a whole number of sieve blocks, and small enough for i32 offsets
    assert!(s > 0 && s % (sieve::BLOCK_SIZE as u32) == 0 && s <= 32 * 32768);
}

// @harness siqs_large_prime_factor unit=siqs::large_prime_factor props=C20,C03
#[kani::proof]
#[kani::stub(bnum::BUint::bits, stub_bits)]
fn siqs_large_prime_factor() {
    any_bits(520);
    let n = Uint::ZERO;
    let f = large_prime_factor(&n);
    // maxprime (< 2^24) * f must not overflow u64; f >= 1
    assert!(f >= 1 && f < (1 << 16));
}

// @harness siqs_double_large_factor unit=siqs::double_large_factor props=C20,C03
#[kani::proof]
#[kani::stub(bnum::BUint::bits, stub_bits)]
fn siqs_double_large_factor() {
    any_bits(520);
    let n = Uint::ZERO;
    let f = double_large_factor(&n);
    // maxprime^2 (< 2^48) * f must fit u64 (comment in the source: B1*B2 must not exceed 2^16)
    assert!(f < (1 << 16));
    let maxprime: u64 = kani::any();
    kani::assume(maxprime < (1 << 24));
    assert!((maxprime * maxprime).checked_mul(f).is_some());
}
