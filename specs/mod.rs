//! verif_specs: specification vocabulary, lemmas and axioms (ghost only).
#![allow(unused_imports, dead_code, unused_variables, non_snake_case)]
use vstd::prelude::*;

verus! {
global size_of usize == 8;
} // verus!
pub mod nl;
pub use nl::*;
pub mod bits;
pub use bits::*;
pub mod limbs;
pub use limbs::*;
pub mod stdspecs;
pub use stdspecs::*;
pub mod modarith;
pub use modarith::*;
pub mod primes;
pub use primes::*;
pub mod divide;
pub use divide::*;
pub mod miller;
pub use miller::*;
pub mod qsroots;
pub use qsroots::*;
pub mod expwin;
pub use expwin::*;
pub mod lucas;
pub use lucas::*;
pub mod chains;
pub use chains::*;
pub mod group;
pub use group::*;
pub mod bnspec;
pub use bnspec::*;
pub mod factoring;
pub use factoring::*;
pub mod sieve;
pub use sieve::*;
pub mod numint;
pub use numint::*;
pub mod kaliski;
pub use kaliski::*;
pub mod dividers;
pub use dividers::*;
pub mod pm1;
pub use pm1::*;
pub mod isqrt;
pub use isqrt::*;
pub mod batchinv;
pub use batchinv::*;
pub mod euler;
pub use euler::*;
pub mod gcdred;
pub use gcdred::*;
pub mod chainlong;
pub use chainlong::*;
