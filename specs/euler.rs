//! fbase::certainly_composite (Fermat test to the base 2 / R in Montgomery arithmetic), C06.
#![allow(unused_imports, dead_code, unused_variables, non_snake_case)]
use vstd::prelude::*;
use vstd::arithmetic::div_mod::*;
use vstd::arithmetic::mul::*;
use vstd::arithmetic::power::*;
use vstd::arithmetic::power2::*;
use super::nl::*;
use super::bits::*;
use super::modarith::*;
use super::primes::*;
use super::qsroots::*;
verus! {

/// A6 (Fermat's little theorem): a^(p-1) ≡ 1 modulo a prime p that does not divide a. (It also follows from Miller's
/// criterion A1 by squaring; it is stated on its own to keep this proof short.)
#[verifier::external_body]
pub proof fn axiom_fermat(p: nat, a: int)
    requires is_prime(p), a % (p as int) != 0
    ensures cong(pow(a, (p - 1) as nat), 1, p as int)
{}

/// m carries the exponent e >= 1:  m R^(e-1) ≡ 2^e  (m = 2^e / R^(e-1), the Montgomery power of the raw word 2)
pub open spec fn cc_rep(m: int, e: nat, n: int) -> bool {
    e >= 1 && cong(m * pow(two64(), (e - 1) as nat), pow(2, e), n)
}

pub proof fn lemma_cc_init(n: int)
    requires n > 0
    ensures cc_rep(2, 1, n)
{
    reveal(pow);
    assert(pow(two64(), 0) == 1);
    assert(pow(2, 1) == 2 * pow(2, 0));
    assert(pow(2, 0) == 1);
}

/// Montgomery product of two carried powers
pub proof fn lemma_cc_mul(u: int, eu: nat, w: int, ew: nat, z: int, n: int)
    requires n > 0, cc_rep(u, eu, n), cc_rep(w, ew, n), cong(z * two64(), u * w, n)
    ensures cc_rep(z, eu + ew, n)
{
    let r = two64();
    let a = pow(r, (eu - 1) as nat);
    let b = pow(r, (ew - 1) as nat);
    // z R^(eu+ew-1) = (z R) R^(eu-1) R^(ew-1)
    lemma_pow_adds(r, (eu - 1) as nat, (ew - 1) as nat);
    lemma_pow_adds(r, 1, (eu + ew - 2) as nat);
    lemma_pow1(r);
    assert(pow(r, (eu + ew - 1) as nat) == r * (a * b));
    assert(z * (r * (a * b)) == (z * r) * (a * b)) by (nonlinear_arith);
    lemma_cong_mul(z * r, u * w, a * b, n);
    assert((u * w) * (a * b) == (u * a) * (w * b)) by (nonlinear_arith);
    // (u a)(w b) ≡ 2^eu 2^ew
    lemma_cong_mul(u * a, pow(2, eu), w * b, n);
    lemma_cong_mul(w * b, pow(2, ew), pow(2, eu), n);
    lemma_mul_comm(pow(2, eu), w * b);
    lemma_mul_comm(pow(2, eu), pow(2, ew));
    lemma_cong_trans((u * a) * (w * b), pow(2, eu) * (w * b), pow(2, ew) * pow(2, eu), n);
    lemma_pow_adds(2, eu, ew);
    lemma_cong_trans(z * pow(r, (eu + ew - 1) as nat), (u * a) * (w * b), pow(2, eu + ew), n);
}

/// a prime n: the carried power 2^n / R^(n-1) is the word 2
pub proof fn lemma_cc_final(x: int, n: nat)
    requires is_prime(n), n % 2 == 1, 0 <= x < n, cc_rep(x, n, n as int)
    ensures x == 2
{
    let ni = n as int;
    let r = two64();
    // 2 and R = 2^64 are not multiples of the odd prime n >= 3
    assert(n >= 3);
    lemma_small_mod(2, n);
    axiom_fermat(n, 2);
    // R^(n-1) = (2^(n-1))^64 ≡ 1
    lemma2_to64();
    assert(r == pow2(64) as int);
    lemma_pow2(64);
    lemma_pow_multiplies(2, 64, (n - 1) as nat);
    lemma_pow_multiplies(2, (n - 1) as nat, 64);
    lemma_mul_comm(64, (n - 1) as int);
    assert(pow(r, (n - 1) as nat) == pow(pow(2, (n - 1) as nat), 64));
    lemma_cong_pow(pow(2, (n - 1) as nat), 1, 64, ni);
    lemma_pow1_base(64);
    // x R^(n-1) ≡ x
    lemma_cong_mul(pow(r, (n - 1) as nat), 1, x, ni);
    lemma_mul_comm(pow(r, (n - 1) as nat), x);
    assert(1 * x == x);
    // 2^n = 2 2^(n-1) ≡ 2
    lemma_pow_adds(2, 1, (n - 1) as nat);
    lemma_pow1(2);
    lemma_cong_mul(pow(2, (n - 1) as nat), 1, 2, ni);
    lemma_mul_comm(pow(2, (n - 1) as nat), 2);
    assert(pow(2, n) == 2 * pow(2, (n - 1) as nat));
    // x ≡ x R^(n-1) ≡ 2^n ≡ 2
    lemma_cong_trans(x, x * pow(r, (n - 1) as nat), pow(2, n), ni);
    lemma_cong_trans(x, pow(2, n), 2, ni);
    lemma_small_mod(x as nat, n);
}

/// a ≡ b  ==>  a^e ≡ b^e
pub proof fn lemma_cong_pow(a: int, b: int, e: nat, n: int)
    requires n > 0, cong(a, b, n)
    ensures cong(pow(a, e), pow(b, e), n)
    decreases e
{
    reveal(pow);
    if e > 0 {
        lemma_cong_pow(a, b, (e - 1) as nat, n);
        lemma_cong_mul(pow(a, (e - 1) as nat), pow(b, (e - 1) as nat), a, n);
        lemma_cong_mul(a, b, pow(b, (e - 1) as nat), n);
        lemma_mul_comm(pow(a, (e - 1) as nat), a);
        lemma_mul_comm(pow(b, (e - 1) as nat), a);
        lemma_mul_comm(pow(b, (e - 1) as nat), b);
        lemma_cong_trans(pow(a, e), a * pow(b, (e - 1) as nat), pow(b, e), n);
    }
}

/// 1^e = 1
pub proof fn lemma_pow1_base(e: nat)
    ensures pow(1, e) == 1
    decreases e
{
    reveal(pow);
    if e > 0 { lemma_pow1_base((e - 1) as nat); }
}

} // verus!
