//! Modular arithmetic vocabulary: congruences, cancellation of powers of two modulo an odd number.
#![allow(unused_imports, dead_code, unused_variables, non_snake_case)]
use vstd::prelude::*;
use vstd::arithmetic::div_mod::*;
use vstd::arithmetic::power2::*;
use super::nl::*;
use super::limbs::*;
verus! {

/// a ≡ b (mod n)
pub open spec fn cong(a: int, b: int, n: int) -> bool { a % n == b % n }

pub proof fn lemma_cong_sub(a: int, b: int, n: int)
    requires n > 0
    ensures cong(a, b, n) <==> (a - b) % n == 0
{
    lemma_mod_equivalence(a, b, n);
}

/// multiples of n vanish: (a + k*n) ≡ a
pub proof fn lemma_cong_add_multiple(a: int, k: int, n: int)
    requires n > 0
    ensures cong(a + k * n, a, n), cong(a + n * k, a, n), cong(a - k * n, a, n)
{
    lemma_mod_multiples_vanish(k, a, n);
    lemma_mod_multiples_vanish(-k, a, n);
    lemma_mul_comm(k, n);
    assert(n * (-k) == -(n * k)) by (nonlinear_arith);
}

pub proof fn lemma_cong_mul(a: int, b: int, c: int, n: int)
    requires n > 0, cong(a, b, n)
    ensures cong(a * c, b * c, n), cong(c * a, c * b, n)
{
    lemma_mul_mod_noop_left(a, c, n);
    lemma_mul_mod_noop_left(b, c, n);
    lemma_mul_comm(a, c); lemma_mul_comm(b, c);
}

pub proof fn lemma_cong_add(a: int, b: int, c: int, d: int, n: int)
    requires n > 0, cong(a, b, n), cong(c, d, n)
    ensures cong(a + c, b + d, n), cong(a - c, b - d, n)
{
    lemma_add_mod_noop(a, c, n); lemma_add_mod_noop(b, d, n);
    lemma_sub_mod_noop(a, c, n); lemma_sub_mod_noop(b, d, n);
}

pub proof fn lemma_cong_mod(a: int, n: int)
    requires n > 0
    ensures cong(a % n, a, n)
{
    lemma_mod_twice(a, n);
}

/// n odd, 2a ≡ 2b  ==>  a ≡ b
pub proof fn lemma_cancel_two(a: int, b: int, n: int)
    requires n > 0, n % 2 == 1, cong(2 * a, 2 * b, n)
    ensures cong(a, b, n)
{
    let d = a - b;
    lemma_cong_sub(2 * a, 2 * b, n);
    assert(2 * a - 2 * b == 2 * d);
    lemma_fundamental_div_mod(2 * d, n);
    let q = (2 * d) / n;
    assert(2 * d == n * q);
    let h = n / 2;
    lemma_fundamental_div_mod(n, 2);
    assert(n == 2 * h + 1);
    lemma_distrib_r(2 * h, 1, q);
    lemma_mul_assoc(2, h, q);
    lemma_mul_one(q);
    assert(n * q == 2 * (h * q) + q);
    let t = d - h * q;
    assert(q == 2 * t);
    lemma_mul_assoc(n, 2, t); lemma_mul_comm(n, 2); lemma_mul_assoc(2, n, t);
    assert(2 * d == 2 * (n * t));
    assert(d == n * t);
    lemma_mod_multiples_basic(t, n);
    lemma_mul_comm(t, n);
    lemma_cong_sub(a, b, n);
}

/// n odd, a*2^e ≡ b*2^e  ==>  a ≡ b
pub proof fn lemma_cancel_pow2(a: int, b: int, n: int, e: nat)
    requires n > 0, n % 2 == 1, cong(a * pow2(e) as int, b * pow2(e) as int, n)
    ensures cong(a, b, n)
    decreases e
{
    if e == 0 {
        lemma2_to64();
        lemma_mul_one(a); lemma_mul_one(b);
    } else {
        lemma_pow2_unfold(e);
        let p = pow2((e - 1) as nat) as int;
        lemma_mul_assoc(a, 2, p); lemma_mul_comm(a, 2); lemma_mul_assoc(2, a, p);
        lemma_mul_assoc(b, 2, p); lemma_mul_comm(b, 2); lemma_mul_assoc(2, b, p);
        assert(a * (2 * p) == 2 * (a * p));
        assert(b * (2 * p) == 2 * (b * p));
        lemma_cancel_two(a * p, b * p, n);
        lemma_cancel_pow2(a, b, n, (e - 1) as nat);
    }
}

pub proof fn lemma_pow_w_is_pow2(k: nat)
    ensures pow_w(k) == pow2(64 * k)
    decreases k
{
    lemma2_to64();
    lemma_pow_w_unfold(0);
    if k > 0 {
        lemma_pow_w_is_pow2((k - 1) as nat);
        lemma_pow_w_unfold((k - 1) as nat);
        lemma_pow2_adds(64, (64 * (k - 1)) as nat);
    }
}

/// n odd, a*W^k ≡ b*W^k  ==>  a ≡ b
pub proof fn lemma_cancel_pow_w(a: int, b: int, n: int, k: nat)
    requires n > 0, n % 2 == 1, cong(a * pow_w(k) as int, b * pow_w(k) as int, n)
    ensures cong(a, b, n)
{
    lemma_pow_w_is_pow2(k);
    lemma_cancel_pow2(a, b, n, 64 * k);
}

/// two residues in [0, n) that are congruent are equal
pub proof fn lemma_cong_small(a: int, b: int, n: int)
    requires 0 <= a < n, 0 <= b < n, cong(a, b, n)
    ensures a == b
{
    lemma_small_mod(a as nat, n as nat);
    lemma_small_mod(b as nat, n as nat);
}

} // verus!
