//! Assumed contracts on std / core items that vstd does not cover (T-std).
#![allow(unused_imports, dead_code, unused_variables, non_snake_case)]
use vstd::prelude::*;
verus! {

/// `Borrow<T>`: the borrowed value is an uninterpreted view `bview`, pinned down for std's two blanket impls
/// (`impl Borrow<T> for T`, `impl Borrow<T> for &T`), which are the only ones this crate uses.
pub uninterp spec fn bview<M: ?Sized, T: ?Sized>(m: &M) -> &T;

#[verifier::external_trait_specification]
pub trait ExBorrow<Borrowed: ?Sized> {
    type ExternalTraitSpecificationFor: core::borrow::Borrow<Borrowed>;
    fn borrow(&self) -> (r: &Borrowed)
        ensures r == bview::<Self, Borrowed>(self);
}

#[verifier::external_body]
pub broadcast proof fn axiom_borrow_self<T>(m: &T)
    ensures #[trigger] bview::<T, T>(m) == m
{}

#[verifier::external_body]
pub broadcast proof fn axiom_borrow_ref<'a, T>(m: &&'a T)
    ensures #[trigger] bview::<&'a T, T>(m) == *m
{}



/// `[T]::contains` (T-std). Stated with mathematical equality: sound for the integer element types this crate uses it with.
pub assume_specification<T: core::cmp::PartialEq> [<[T]>::contains] (s: &[T], x: &T) -> (r: bool)
    ensures r == s@.contains(*x);


pub assume_specification [i64::unsigned_abs] (x: i64) -> (r: u64)
    ensures r as int == (if x >= 0 { x as int } else { -(x as int) });

} // verus!
