//! Assumed contracts on std / core items that vstd does not cover (T-std).
#![allow(unused_imports, dead_code, unused_variables, non_snake_case)]
use vstd::prelude::*;
verus! {

/// `Borrow<T>`: the borrowed value is an uninterpreted view `bview`, pinned down for std's two blanket impls
/// (`impl Borrow<T> for T`, `impl Borrow<T> for &T`), which are the only ones this crate uses.
pub uninterp spec fn bview<M: ?Sized, T: ?Sized>(m: &M) -> &T;

#[verifier::external_trait_specification]
pub trait ExBorrow<Borrowed: ?Sized> {
    type ExternalTraitSpecificationFor: core::borrow::Borrow<Borrowed>;
    fn borrow(&self) -> (r: &Borrowed)
        ensures r == bview::<Self, Borrowed>(self);
}

#[verifier::external_body]
pub broadcast proof fn axiom_borrow_self<T>(m: &T)
    ensures #[trigger] bview::<T, T>(m) == m
{}

#[verifier::external_body]
pub broadcast proof fn axiom_borrow_ref<'a, T>(m: &&'a T)
    ensures #[trigger] bview::<&'a T, T>(m) == *m
{}



/// `[T]::contains` (T-std). Stated with mathematical equality: sound for the integer element types this crate uses it with.
pub assume_specification<T: core::cmp::PartialEq> [<[T]>::contains] (s: &[T], x: &T) -> (r: bool)
    ensures r == s@.contains(*x);


pub assume_specification [i64::unsigned_abs] (x: i64) -> (r: u64)
    ensures r as int == (if x >= 0 { x as int } else { -(x as int) });

pub assume_specification [i32::unsigned_abs] (x: i32) -> (r: u32)
    ensures r as int == (if x >= 0 { x as int } else { -(x as int) });


pub assume_specification [u128::overflowing_add] (a: u128, b: u128) -> (r: (u128, bool))
    ensures r.0 as int + (if r.1 { 0x1_0000_0000_0000_0000int * 0x1_0000_0000_0000_0000int } else { 0 }) == a as int + b as int;


/// u128::trailing_zeros in arithmetic form (vstd only covers widths up to 64)
pub uninterp spec fn u128_tz(x: u128) -> u32;
#[verifier::external_body]
pub proof fn axiom_u128_tz(x: u128)
    ensures
        x == 0 ==> u128_tz(x) == 128,
        x != 0 ==> u128_tz(x) < 128 && (x as int) % (vstd::arithmetic::power2::pow2(u128_tz(x) as nat) as int) == 0
            && ((x as int) / (vstd::arithmetic::power2::pow2(u128_tz(x) as nat) as int)) % 2 == 1,
{}
pub assume_specification [u128::trailing_zeros] (x: u128) -> (r: u32)
    ensures r == u128_tz(x);


/// u128::leading_zeros in arithmetic form (T-std): 2^(127-lz) <= x < 2^(128-lz)
pub uninterp spec fn u128_lz(x: u128) -> u32;
#[verifier::external_body]
pub proof fn axiom_u128_lz(x: u128)
    ensures
        x == 0 ==> u128_lz(x) == 128,
        x != 0 ==> u128_lz(x) < 128
            && vstd::arithmetic::power2::pow2((127 - u128_lz(x)) as nat) <= x as nat
            && (x as nat) < vstd::arithmetic::power2::pow2((128 - u128_lz(x)) as nat),
{}
pub assume_specification [u128::leading_zeros] (x: u128) -> (r: u32)
    ensures r == u128_lz(x);

/// i64::trailing_zeros in arithmetic form, on the absolute value (two's complement negation keeps the trailing zeros)
pub uninterp spec fn i64_tz(x: i64) -> u32;
#[verifier::external_body]
pub proof fn axiom_i64_tz(x: i64)
    ensures
        x == 0 ==> i64_tz(x) == 64,
        x != 0 ==> i64_tz(x) < 64
            && (if x < 0 { -(x as int) } else { x as int }) % (vstd::arithmetic::power2::pow2(i64_tz(x) as nat) as int) == 0
            && ((if x < 0 { -(x as int) } else { x as int }) / (vstd::arithmetic::power2::pow2(i64_tz(x) as nat) as int)) % 2 == 1,
{}
pub assume_specification [i64::trailing_zeros] (x: i64) -> (r: u32)
    ensures r == i64_tz(x);

/// u32::trailing_zeros in arithmetic form (T-std; vstd's own axiom is bit-indexed)
#[verifier::external_body]
pub proof fn axiom_u32_tz_arith(x: u32)
    ensures
        x == 0 ==> vstd::std_specs::bits::u32_trailing_zeros(x) == 32,
        x != 0 ==> vstd::std_specs::bits::u32_trailing_zeros(x) < 32
            && (x as int) % (vstd::arithmetic::power2::pow2(vstd::std_specs::bits::u32_trailing_zeros(x) as nat) as int) == 0
            && ((x as int) / (vstd::arithmetic::power2::pow2(vstd::std_specs::bits::u32_trailing_zeros(x) as nat) as int)) % 2 == 1,
{}

/// std::cmp::{max, min} through vstd's `cmp_spec` (for the primitive integers vstd makes cmp_spec the numeric order)
pub assume_specification<T: core::cmp::Ord + core::marker::Destruct> [std::cmp::max] (a: T, b: T) -> (r: T)
    ensures r == (if vstd::std_specs::cmp::OrdSpec::cmp_spec(&a, &b) == core::cmp::Ordering::Greater { a } else { b });
pub assume_specification<T: core::cmp::Ord + core::marker::Destruct> [std::cmp::min] (a: T, b: T) -> (r: T)
    ensures r == (if vstd::std_specs::cmp::OrdSpec::cmp_spec(&a, &b) == core::cmp::Ordering::Greater { b } else { a });


/// `Vec::into_boxed_slice` keeps the elements (T-std)
pub assume_specification<T, A: std::alloc::Allocator> [std::vec::Vec::<T, A>::into_boxed_slice] (v: std::vec::Vec<T, A>) -> (r: std::boxed::Box<[T], A>)
    ensures r@ == v@;

} // verus!
