//! Multi-word naturals: `limbs` (little-endian value of a word sequence), bnum views, std word-level specs.
#![allow(unused_imports, dead_code, unused_variables, non_snake_case)]
use vstd::prelude::*;
use bnum::BUint;
use bnum::BInt;
verus! {

#[verifier::external_type_specification]
#[verifier::external_body]
#[verifier::accept_recursive_types(N)]
pub struct ExBUint<const N: usize>(BUint<N>);
/// mathematical value of a bnum unsigned integer (T-bnum)
pub uninterp spec fn uv<const N: usize>(x: BUint<N>) -> nat;

#[verifier::external_type_specification]
#[verifier::external_body]
#[verifier::accept_recursive_types(N)]
pub struct ExBInt<const N: usize>(BInt<N>);
pub uninterp spec fn iv<const N: usize>(x: BInt<N>) -> int;

pub open spec fn W() -> nat { 0x1_0000_0000_0000_0000 }

#[verifier::opaque]
pub open spec fn limbs(s: Seq<u64>) -> nat
    decreases s.len()
{
    if s.len() == 0 { 0 } else { s[0] as nat + W() * limbs(s.subrange(1, s.len() as int)) }
}
pub open spec fn pow_w(k: nat) -> nat decreases k { if k == 0 { 1 } else { W() * pow_w((k - 1) as nat) } }

pub assume_specification<const N: usize> [ BUint::<N>::digits ] (a: &BUint<N>) -> (r: &[u64; N])
    ensures limbs(r@) == uv(*a);

pub assume_specification [u64::overflowing_add] (a: u64, b: u64) -> (r: (u64, bool))
    ensures r.0 as nat + (if r.1 { W() } else { 0 }) == a as nat + b as nat;

pub assume_specification [<u64 as core::convert::From<bool>>::from] (b: bool) -> (r: u64)
    ensures r == (if b { 1u64 } else { 0u64 });

pub proof fn lemma_pow_w_pos(k: nat) ensures pow_w(k) > 0 decreases k {
    if k > 0 { lemma_pow_w_pos((k-1) as nat); assert(pow_w(k) == W() * pow_w((k-1) as nat)); assert(W() * pow_w((k-1) as nat) > 0) by (nonlinear_arith) requires pow_w((k-1) as nat) > 0, W() > 0; }
}
pub proof fn lemma_pow_w_add(a: nat, b: nat) ensures pow_w(a + b) == pow_w(a) * pow_w(b) decreases a {
    if a == 0 { assert(pow_w(0) == 1); assert(1 * pow_w(b) == pow_w(b)); }
    else {
        lemma_pow_w_add((a - 1) as nat, b);
        assert(pow_w(a + b) == W() * pow_w((a + b - 1) as nat));
        assert(pow_w(a) == W() * pow_w((a - 1) as nat));
        assert(W() * (pow_w((a - 1) as nat) * pow_w(b)) == (W() * pow_w((a - 1) as nat)) * pow_w(b)) by (nonlinear_arith);
    }
}

pub proof fn lemma_limbs_push(s: Seq<u64>, x: u64)
    ensures limbs(s.push(x)) == limbs(s) + pow_w(s.len()) * (x as nat)
    decreases s.len()
{
    let sp = s.push(x);
    reveal_with_fuel(limbs, 2);
    reveal_with_fuel(pow_w, 2);
    if s.len() == 0 {
        assert(sp.subrange(1, 1) =~= Seq::<u64>::empty());
        assert(sp.len() == 1);
        assert(limbs(sp) == sp[0] as nat + W() * limbs(sp.subrange(1, 1)));
        assert(limbs(Seq::<u64>::empty()) == 0);
        assert(limbs(s) == 0);
        assert(pow_w(0) == 1);
        assert(W() * 0 == 0);
        assert(1 * (x as nat) == x as nat);
        assert(sp[0] == x);
    } else {
        let t = s.subrange(1, s.len() as int);
        assert(sp.subrange(1, sp.len() as int) =~= t.push(x));
        lemma_limbs_push(t, x);
        assert(s.len() == t.len() + 1);
        assert(pow_w(s.len()) == W() * pow_w(t.len()));
        assert(sp[0] == s[0]);
        assert(limbs(sp) == sp[0] as nat + W() * limbs(sp.subrange(1, sp.len() as int)));
        assert(limbs(sp) == s[0] as nat + W() * limbs(t.push(x)));
        assert(limbs(s) == s[0] as nat + W() * limbs(t));
        assert(W() * (limbs(t) + pow_w(t.len()) * (x as nat)) == W() * limbs(t) + (W() * pow_w(t.len())) * (x as nat)) by (nonlinear_arith);
    }
}

pub proof fn lemma_limbs_take_step(s: Seq<u64>, i: int)
    requires 0 <= i < s.len()
    ensures limbs(s.take(i + 1)) == limbs(s.take(i)) + pow_w(i as nat) * (s[i] as nat)
{
    reveal(limbs);
    assert(s.take(i + 1) =~= s.take(i).push(s[i]));
    lemma_limbs_push(s.take(i), s[i]);
}

pub proof fn lemma_limbs_split(s: Seq<u64>, k: int)
    requires 0 <= k <= s.len()
    ensures limbs(s) == limbs(s.take(k)) + pow_w(k as nat) * limbs(s.skip(k))
    decreases s.len() - k
{
    reveal(limbs);
    if k == s.len() {
        assert(s.take(k) =~= s);
        assert(s.skip(k) =~= Seq::<u64>::empty());
        assert(limbs(Seq::<u64>::empty()) == 0);
        assert(pow_w(k as nat) * 0 == 0);
    } else {
        lemma_limbs_split(s, k + 1);
        lemma_limbs_take_step(s, k);
        let sk = s.skip(k);
        assert(sk.subrange(1, sk.len() as int) =~= s.skip(k + 1));
        assert(sk[0] == s[k]);
        assert(limbs(sk) == s[k] as nat + W() * limbs(s.skip(k + 1)));
        assert(pow_w((k + 1) as nat) == W() * pow_w(k as nat));
        assert(pow_w(k as nat) * (s[k] as nat + W() * limbs(s.skip(k + 1))) == pow_w(k as nat) * (s[k] as nat) + (W() * pow_w(k as nat)) * limbs(s.skip(k + 1))) by (nonlinear_arith);
    }
}

pub proof fn lemma_limbs_update(s: Seq<u64>, k: int, v: u64)
    requires 0 <= k < s.len()
    ensures limbs(s.update(k, v)) + pow_w(k as nat) * (s[k] as nat) == limbs(s) + pow_w(k as nat) * (v as nat)
{
    reveal(limbs);
    let u = s.update(k, v);
    lemma_limbs_split(s, k); lemma_limbs_split(u, k);
    lemma_limbs_split(s, k + 1); lemma_limbs_split(u, k + 1);
    lemma_limbs_take_step(s, k); lemma_limbs_take_step(u, k);
    assert(u.take(k) =~= s.take(k));
    assert(u.skip(k + 1) =~= s.skip(k + 1));
}

pub proof fn lemma_limbs_bound(s: Seq<u64>)
    ensures limbs(s) < pow_w(s.len())
    decreases s.len()
{
    reveal(limbs);
    if s.len() == 0 { assert(pow_w(0) == 1); }
    else {
        let t = s.subrange(1, s.len() as int);
        lemma_limbs_bound(t);
        assert(pow_w(s.len()) == W() * pow_w(t.len()));
        assert((s[0] as nat) + W() * limbs(t) < W() * pow_w(t.len())) by (nonlinear_arith)
            requires (s[0] as nat) < W(), limbs(t) < pow_w(t.len());
    }
}

pub proof fn lemma_limbs_zero(s: Seq<u64>)
    requires forall|j: int| 0 <= j < s.len() ==> s[j] == 0
    ensures limbs(s) == 0
    decreases s.len()
{
    reveal(limbs);
    if s.len() > 0 { lemma_limbs_zero(s.subrange(1, s.len() as int)); assert(W() * 0 == 0); }
}


pub proof fn lemma_word_cancel(z: int, ninv: int, n0: int, m: int)
    requires 0 <= z < W(), 0 <= ninv < W(), 0 <= n0 < W(), (n0 * ninv + 1) % (W() as int) == 0, m == (z * ninv) % (W() as int)
    ensures (m * n0 + z) % (W() as int) == 0
{
    use vstd::arithmetic::div_mod::*;
    let w = W() as int;
    lemma_mul_mod_noop_general(z * ninv, n0, w);
    assert((m * n0) % w == (z * ninv * n0) % w);
    let k = (n0 * ninv + 1) / w;
    lemma_fundamental_div_mod(n0 * ninv + 1, w);
    assert(n0 * ninv == w * k - 1);
    assert(z * ninv * n0 == z * (n0 * ninv)) by (nonlinear_arith);
    assert(z * (n0 * ninv) + z == (z * k) * w) by (nonlinear_arith) requires n0 * ninv == w * k - 1;
    lemma_mod_multiples_basic(z * k, w);
    lemma_add_mod_noop(m * n0, z, w);
    lemma_add_mod_noop(z * ninv * n0, z, w);
}


pub proof fn lemma_limbs_take_small(s: Seq<u64>, k: int)
    requires 0 <= k <= s.len(), limbs(s) < pow_w(k as nat)
    ensures limbs(s.take(k)) == limbs(s), limbs(s.skip(k)) == 0
{
    reveal(limbs);
    lemma_limbs_split(s, k);
    lemma_pow_w_pos(k as nat);
    let hi = limbs(s.skip(k));
    if hi >= 1 {
        assert(pow_w(k as nat) * hi >= pow_w(k as nat)) by (nonlinear_arith) requires hi >= 1, pow_w(k as nat) > 0;
        assert(false);
    }
    assert(pow_w(k as nat) * 0 == 0);
}

pub proof fn lemma_limbs_low(s: Seq<u64>)
    requires s.len() >= 1
    ensures limbs(s) % W() == s[0] as nat
{
    reveal(limbs);
    let t = s.subrange(1, s.len() as int);
    assert(limbs(s) == s[0] as nat + W() * limbs(t));
    vstd::arithmetic::div_mod::lemma_mod_multiples_vanish(limbs(t) as int, s[0] as int, W() as int);
    vstd::arithmetic::div_mod::lemma_small_mod(s[0] as nat, W());
}

/// value zero <=> all words zero (one direction each)
pub proof fn lemma_limbs_zero_words(s: Seq<u64>)
    requires limbs(s) == 0
    ensures forall|j: int| 0 <= j < s.len() ==> s[j] == 0
    decreases s.len()
{
    reveal(limbs);
    if s.len() > 0 {
        let t = s.subrange(1, s.len() as int);
        assert(limbs(s) == s[0] as nat + W() * limbs(t));
        assert(W() * limbs(t) >= 0);
        assert(s[0] == 0);
        if limbs(t) > 0 { assert(W() * limbs(t) > 0) by (nonlinear_arith) requires limbs(t) > 0, W() > 0; }
        lemma_limbs_zero_words(t);
        assert forall|j: int| 0 <= j < s.len() implies s[j] == 0 by { if j > 0 { assert(s[j] == t[j - 1]); } }
    }
}


pub proof fn lemma_limbs_empty()
    ensures limbs(Seq::<u64>::empty()) == 0
{
    reveal(limbs);
}


/// One multiply-accumulate step of a schoolbook row: word (i+j) of the accumulator absorbs xin*yjn + carry-in.
/// Pure ring identity, split so that every nonlinear query is tiny.
pub proof fn lemma_mac_step(lz: int, lzp: int, lz0: int, w: int, pij: int, pi: int, pj: int,
                            a: int, c1: int, xin: int, yjn: int, zo: int, c00: int, ly: int)
    requires
        a + w * c1 == xin * yjn + zo + c00,
        lz + pij * zo == lzp + pij * a,
        lzp + pij * c00 == lz0 + pi * (xin * ly),
        pij == pi * pj,
    ensures
        lz + (w * pij) * c1 == lz0 + pi * (xin * (ly + pj * yjn)),
{
    let t1 = pij * a; let t2 = pij * zo; let t3 = pij * c00; let t4 = pij * (xin * yjn); let t5 = (w * pij) * c1;
    assert(pij * (a + w * c1) == t1 + t5) by (nonlinear_arith) requires t1 == pij * a, t5 == (w * pij) * c1;
    assert(pij * (xin * yjn + zo + c00) == t4 + t2 + t3) by (nonlinear_arith)
        requires t2 == pij * zo, t3 == pij * c00, t4 == pij * (xin * yjn);
    assert(t1 + t5 == t4 + t2 + t3);
    assert(pi * (xin * (ly + pj * yjn)) == pi * (xin * ly) + t4) by (nonlinear_arith)
        requires pij == pi * pj, t4 == pij * (xin * yjn);
}

} // verus!
