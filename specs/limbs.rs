//! Multi-word naturals: `limbs` (little-endian value of a word sequence), bnum views, std word-level specs.
#![allow(unused_imports, dead_code, unused_variables, non_snake_case)]
use vstd::prelude::*;
use bnum::BUint;
use bnum::BInt;
use super::nl::*;
verus! {

#[verifier::external_type_specification]
#[verifier::external_body]
#[verifier::accept_recursive_types(N)]
pub struct ExBUint<const N: usize>(BUint<N>);
/// mathematical value of a bnum unsigned integer (T-bnum)
pub uninterp spec fn uv<const N: usize>(x: BUint<N>) -> nat;

#[verifier::external_type_specification]
#[verifier::external_body]
#[verifier::accept_recursive_types(N)]
pub struct ExBInt<const N: usize>(BInt<N>);
pub uninterp spec fn iv<const N: usize>(x: BInt<N>) -> int;

pub open spec fn W() -> nat { 0x1_0000_0000_0000_0000 }

#[verifier::opaque]
pub open spec fn limbs(s: Seq<u64>) -> nat
    decreases s.len()
{
    if s.len() == 0 { 0 } else { s[0] as nat + W() * limbs(s.subrange(1, s.len() as int)) }
}
pub open spec fn pow_w(k: nat) -> nat decreases k { if k == 0 { 1 } else { W() * pow_w((k - 1) as nat) } }

/// little-endian digits of a bnum unsigned integer (T-bnum): N words whose value is uv
pub uninterp spec fn udigits<const N: usize>(x: BUint<N>) -> Seq<u64>;
#[verifier::external_body]
pub proof fn axiom_udigits<const N: usize>(x: BUint<N>)
    ensures udigits(x).len() == N, limbs(udigits(x)) == uv(x)
{}
pub assume_specification<const N: usize> [ BUint::<N>::digits ] (a: &BUint<N>) -> (r: &[u64; N])
    ensures r@ == udigits(*a), limbs(r@) == uv(*a);

pub assume_specification [u64::overflowing_sub] (a: u64, b: u64) -> (r: (u64, bool))
    ensures r.1 == (a < b), r.0 as int == (if a < b { a as int - b as int + 0x1_0000_0000_0000_0000int } else { a as int - b as int });
pub assume_specification [u64::overflowing_add] (a: u64, b: u64) -> (r: (u64, bool))
    ensures r.0 as nat + (if r.1 { W() } else { 0 }) == a as nat + b as nat;

pub assume_specification [<u64 as core::convert::From<bool>>::from] (b: bool) -> (r: u64)
    ensures r == (if b { 1u64 } else { 0u64 });

pub proof fn lemma_pow_w_pos(k: nat) ensures pow_w(k) > 0 decreases k {
    if k > 0 { lemma_pow_w_pos((k-1) as nat); assert(pow_w(k) == W() * pow_w((k-1) as nat)); assert(W() * pow_w((k-1) as nat) > 0) by (nonlinear_arith) requires pow_w((k-1) as nat) > 0, W() > 0; }
}
pub proof fn lemma_pow_w_add(a: nat, b: nat) ensures pow_w(a + b) == pow_w(a) * pow_w(b) decreases a {
    if a == 0 { assert(pow_w(0) == 1); assert(1 * pow_w(b) == pow_w(b)); }
    else {
        lemma_pow_w_add((a - 1) as nat, b);
        assert(pow_w(a + b) == W() * pow_w((a + b - 1) as nat));
        assert(pow_w(a) == W() * pow_w((a - 1) as nat));
        assert(W() * (pow_w((a - 1) as nat) * pow_w(b)) == (W() * pow_w((a - 1) as nat)) * pow_w(b)) by (nonlinear_arith);
    }
}

pub proof fn lemma_limbs_push(s: Seq<u64>, x: u64)
    ensures limbs(s.push(x)) == limbs(s) + pow_w(s.len()) * (x as nat)
    decreases s.len()
{
    let sp = s.push(x);
    reveal_with_fuel(limbs, 2);
    reveal_with_fuel(pow_w, 2);
    if s.len() == 0 {
        assert(sp.subrange(1, 1) =~= Seq::<u64>::empty());
        assert(sp.len() == 1);
        assert(limbs(sp) == sp[0] as nat + W() * limbs(sp.subrange(1, 1)));
        assert(limbs(Seq::<u64>::empty()) == 0);
        assert(limbs(s) == 0);
        assert(pow_w(0) == 1);
        assert(W() * 0 == 0);
        assert(1 * (x as nat) == x as nat);
        assert(sp[0] == x);
    } else {
        let t = s.subrange(1, s.len() as int);
        assert(sp.subrange(1, sp.len() as int) =~= t.push(x));
        lemma_limbs_push(t, x);
        assert(s.len() == t.len() + 1);
        assert(pow_w(s.len()) == W() * pow_w(t.len()));
        assert(sp[0] == s[0]);
        assert(limbs(sp) == sp[0] as nat + W() * limbs(sp.subrange(1, sp.len() as int)));
        assert(limbs(sp) == s[0] as nat + W() * limbs(t.push(x)));
        assert(limbs(s) == s[0] as nat + W() * limbs(t));
        assert(W() * (limbs(t) + pow_w(t.len()) * (x as nat)) == W() * limbs(t) + (W() * pow_w(t.len())) * (x as nat)) by (nonlinear_arith);
    }
}

pub proof fn lemma_limbs_take_step(s: Seq<u64>, i: int)
    requires 0 <= i < s.len()
    ensures limbs(s.take(i + 1)) == limbs(s.take(i)) + pow_w(i as nat) * (s[i] as nat)
{
    reveal(limbs);
    assert(s.take(i + 1) =~= s.take(i).push(s[i]));
    lemma_limbs_push(s.take(i), s[i]);
}

pub proof fn lemma_limbs_split(s: Seq<u64>, k: int)
    requires 0 <= k <= s.len()
    ensures limbs(s) == limbs(s.take(k)) + pow_w(k as nat) * limbs(s.skip(k))
    decreases s.len() - k
{
    reveal(limbs);
    if k == s.len() {
        assert(s.take(k) =~= s);
        assert(s.skip(k) =~= Seq::<u64>::empty());
        assert(limbs(Seq::<u64>::empty()) == 0);
        assert(pow_w(k as nat) * 0 == 0);
    } else {
        lemma_limbs_split(s, k + 1);
        lemma_limbs_take_step(s, k);
        let sk = s.skip(k);
        assert(sk.subrange(1, sk.len() as int) =~= s.skip(k + 1));
        assert(sk[0] == s[k]);
        assert(limbs(sk) == s[k] as nat + W() * limbs(s.skip(k + 1)));
        assert(pow_w((k + 1) as nat) == W() * pow_w(k as nat));
        assert(pow_w(k as nat) * (s[k] as nat + W() * limbs(s.skip(k + 1))) == pow_w(k as nat) * (s[k] as nat) + (W() * pow_w(k as nat)) * limbs(s.skip(k + 1))) by (nonlinear_arith);
    }
}

pub proof fn lemma_limbs_update(s: Seq<u64>, k: int, v: u64)
    requires 0 <= k < s.len()
    ensures limbs(s.update(k, v)) + pow_w(k as nat) * (s[k] as nat) == limbs(s) + pow_w(k as nat) * (v as nat)
{
    reveal(limbs);
    let u = s.update(k, v);
    lemma_limbs_split(s, k); lemma_limbs_split(u, k);
    lemma_limbs_split(s, k + 1); lemma_limbs_split(u, k + 1);
    lemma_limbs_take_step(s, k); lemma_limbs_take_step(u, k);
    assert(u.take(k) =~= s.take(k));
    assert(u.skip(k + 1) =~= s.skip(k + 1));
}

pub proof fn lemma_limbs_bound(s: Seq<u64>)
    ensures limbs(s) < pow_w(s.len())
    decreases s.len()
{
    reveal(limbs);
    if s.len() == 0 { assert(pow_w(0) == 1); }
    else {
        let t = s.subrange(1, s.len() as int);
        lemma_limbs_bound(t);
        assert(pow_w(s.len()) == W() * pow_w(t.len()));
        assert((s[0] as nat) + W() * limbs(t) < W() * pow_w(t.len())) by (nonlinear_arith)
            requires (s[0] as nat) < W(), limbs(t) < pow_w(t.len());
    }
}

pub proof fn lemma_limbs_zero(s: Seq<u64>)
    requires forall|j: int| 0 <= j < s.len() ==> s[j] == 0
    ensures limbs(s) == 0
    decreases s.len()
{
    reveal(limbs);
    if s.len() > 0 { lemma_limbs_zero(s.subrange(1, s.len() as int)); assert(W() * 0 == 0); }
}


pub proof fn lemma_word_cancel(z: int, ninv: int, n0: int, m: int)
    requires 0 <= z < W(), 0 <= ninv < W(), 0 <= n0 < W(), (n0 * ninv + 1) % (W() as int) == 0, m == (z * ninv) % (W() as int)
    ensures (m * n0 + z) % (W() as int) == 0
{
    use vstd::arithmetic::div_mod::*;
    let w = W() as int;
    lemma_mul_mod_noop_general(z * ninv, n0, w);
    assert((m * n0) % w == (z * ninv * n0) % w);
    let k = (n0 * ninv + 1) / w;
    lemma_fundamental_div_mod(n0 * ninv + 1, w);
    assert(n0 * ninv == w * k - 1);
    assert(z * ninv * n0 == z * (n0 * ninv)) by (nonlinear_arith);
    assert(z * (n0 * ninv) + z == (z * k) * w) by (nonlinear_arith) requires n0 * ninv == w * k - 1;
    lemma_mod_multiples_basic(z * k, w);
    lemma_add_mod_noop(m * n0, z, w);
    lemma_add_mod_noop(z * ninv * n0, z, w);
}


pub proof fn lemma_limbs_take_small(s: Seq<u64>, k: int)
    requires 0 <= k <= s.len(), limbs(s) < pow_w(k as nat)
    ensures limbs(s.take(k)) == limbs(s), limbs(s.skip(k)) == 0
{
    reveal(limbs);
    lemma_limbs_split(s, k);
    lemma_pow_w_pos(k as nat);
    let hi = limbs(s.skip(k));
    if hi >= 1 {
        assert(pow_w(k as nat) * hi >= pow_w(k as nat)) by (nonlinear_arith) requires hi >= 1, pow_w(k as nat) > 0;
        assert(false);
    }
    assert(pow_w(k as nat) * 0 == 0);
}

pub proof fn lemma_limbs_low(s: Seq<u64>)
    requires s.len() >= 1
    ensures limbs(s) % W() == s[0] as nat
{
    reveal(limbs);
    let t = s.subrange(1, s.len() as int);
    assert(limbs(s) == s[0] as nat + W() * limbs(t));
    vstd::arithmetic::div_mod::lemma_mod_multiples_vanish(limbs(t) as int, s[0] as int, W() as int);
    vstd::arithmetic::div_mod::lemma_small_mod(s[0] as nat, W());
}

/// value zero <=> all words zero (one direction each)
pub proof fn lemma_limbs_zero_words(s: Seq<u64>)
    requires limbs(s) == 0
    ensures forall|j: int| 0 <= j < s.len() ==> s[j] == 0
    decreases s.len()
{
    reveal(limbs);
    if s.len() > 0 {
        let t = s.subrange(1, s.len() as int);
        assert(limbs(s) == s[0] as nat + W() * limbs(t));
        assert(W() * limbs(t) >= 0);
        assert(s[0] == 0);
        if limbs(t) > 0 { assert(W() * limbs(t) > 0) by (nonlinear_arith) requires limbs(t) > 0, W() > 0; }
        lemma_limbs_zero_words(t);
        assert forall|j: int| 0 <= j < s.len() implies s[j] == 0 by { if j > 0 { assert(s[j] == t[j - 1]); } }
    }
}


pub proof fn lemma_limbs_empty()
    ensures limbs(Seq::<u64>::empty()) == 0
{
    reveal(limbs);
}


/// One multiply-accumulate step of a schoolbook row: word (i+j) of the accumulator absorbs xin*yjn + carry-in.
pub proof fn lemma_mac_step(lz: int, lzp: int, lz0: int, w: int, pij: int, pi: int, pj: int,
                            a: int, c1: int, xin: int, yjn: int, zo: int, c00: int, ly: int)
    requires
        a + w * c1 == xin * yjn + zo + c00,
        lz + pij * zo == lzp + pij * a,
        lzp + pij * c00 == lz0 + pi * (xin * ly),
        pij == pi * pj,
    ensures
        lz + (w * pij) * c1 == lz0 + pi * (xin * (ly + pj * yjn)),
{
    // pij*(a + w*c1) == pij*(xin*yjn + zo + c00)
    lemma_distrib_l(pij, a, w * c1);
    lemma_mul_assoc(pij, w, c1); lemma_mul_comm(pij, w);
    assert(pij * (w * c1) == (w * pij) * c1);
    lemma_distrib_l(pij, xin * yjn + zo, c00);
    lemma_distrib_l(pij, xin * yjn, zo);
    // pi*(xin*(ly + pj*yjn)) == pi*(xin*ly) + pij*(xin*yjn)
    lemma_distrib_l(xin, ly, pj * yjn);
    lemma_distrib_l(pi, xin * ly, xin * (pj * yjn));
    lemma_mul_assoc(xin, pj, yjn); lemma_mul_comm(xin, pj); lemma_mul_assoc(pj, xin, yjn);
    assert(xin * (pj * yjn) == pj * (xin * yjn));
    lemma_mul_assoc(pi, pj, xin * yjn);
    assert(pi * (xin * (pj * yjn)) == pij * (xin * yjn));
}

/// carry step of a word-wise addition, scaled by the weight pi of the word
pub proof fn lemma_carry_step(pi: int, w: int, a: int, c1: int, u: int, v: int, c0: int)
    requires a + w * c1 == u + v + c0
    ensures pi * a + (w * pi) * c1 == pi * u + pi * v + pi * c0
{
    lemma_distrib_l(pi, a, w * c1);
    lemma_mul_assoc(pi, w, c1); lemma_mul_comm(pi, w);
    assert(pi * (w * c1) == (w * pi) * c1);
    lemma_distrib_l(pi, u + v, c0);
    lemma_distrib_l(pi, u, v);
}

pub proof fn lemma_pow_w_unfold(k: nat)
    ensures pow_w(k + 1) == W() * pow_w(k), pow_w(0) == 1, W() == 0x1_0000_0000_0000_0000nat
{
    reveal_with_fuel(pow_w, 2);
}

/// lexicographic comparison from the top word: words above k equal, word k decides
pub proof fn lemma_limbs_cmp(x: Seq<u64>, n: Seq<u64>, sz: int, k: int)
    requires 0 <= k < sz, sz <= x.len(), sz <= n.len(),
        forall|j: int| k < j < sz ==> x[j] == n[j],
        x[k] < n[k],
    ensures limbs(x.take(sz)) < limbs(n.take(sz))
{
    let xs = x.take(sz); let ns = n.take(sz);
    lemma_limbs_split(xs, k + 1); lemma_limbs_split(ns, k + 1);
    assert(xs.skip(k + 1) =~= ns.skip(k + 1));
    lemma_limbs_take_step(xs, k); lemma_limbs_take_step(ns, k);
    lemma_limbs_bound(xs.take(k)); lemma_limbs_bound(ns.take(k));
    let pk = pow_w(k as nat);
    assert(pk * (xs[k] as nat) + pk <= pk * (ns[k] as nat)) by (nonlinear_arith)
        requires xs[k] < ns[k], pk >= 0;
}

/// changing word 0 only changes the value by the difference of the two words
pub proof fn lemma_limbs_set0(s: Seq<u64>, t: Seq<u64>)
    requires s.len() == t.len(), s.len() >= 1, forall|k: int| 1 <= k < s.len() ==> s[k] == t[k]
    ensures limbs(s) - s[0] == limbs(t) - t[0]
{
    reveal(limbs);
    assert(s.subrange(1, s.len() as int) =~= t.subrange(1, t.len() as int));
}

/// little-endian words of equal length with the same value are the same words
pub proof fn lemma_limbs_inj(x: Seq<u64>, y: Seq<u64>)
    requires x.len() == y.len(), limbs(x) == limbs(y)
    ensures x =~= y
    decreases x.len()
{
    reveal(limbs);
    if x.len() > 0 {
        let tx = x.subrange(1, x.len() as int);
        let ty = y.subrange(1, y.len() as int);
        vstd::arithmetic::div_mod::lemma_fundamental_div_mod_converse(limbs(x) as int, W() as int, limbs(tx) as int, x[0] as int);
        vstd::arithmetic::div_mod::lemma_fundamental_div_mod_converse(limbs(y) as int, W() as int, limbs(ty) as int, y[0] as int);
        lemma_limbs_inj(tx, ty);
        assert forall|i: int| 0 <= i < x.len() implies x[i] == y[i] by {
            if i > 0 { assert(x[i] == tx[i - 1]); assert(y[i] == ty[i - 1]); }
        }
    }
}

pub proof fn lemma_limbs_eq(x: Seq<u64>, n: Seq<u64>, sz: int)
    requires 0 <= sz <= x.len(), sz <= n.len(), forall|j: int| 0 <= j < sz ==> x[j] == n[j],
    ensures limbs(x.take(sz)) == limbs(n.take(sz))
{
    assert(x.take(sz) =~= n.take(sz));
}


/// One outer round of the CIOS Montgomery multiplication (accumulate x_i*y, cancel the low word with m*n,
/// hand the two carries to word i+SIZE).
pub proof fn lemma_cios_round(l0: int, l1: int, l2: int, l3: int, pis: int, pi: int, w: int, carry: int, carryn: int,
        xn: int, yy: int, mn: int, nn: int, z2top: int, zin: int, cc: int, xi0: int, xi1: int, mm: int, mm1: int)
    requires
        l1 + pis * carry == l0 + pi * (xn * yy),
        l2 + pis * carryn == l1 + pi * (mn * nn),
        l3 + pis * z2top == l2 + pis * zin,
        zin + w * cc == z2top + carry + carryn,
        l0 == xi0 * yy + mm * nn,
        xi1 == xi0 + pi * xn, mm1 == mm + pi * mn,
        0 <= mm < pi, 0 <= mn < w, 0 <= xi1 < w * pi, 0 <= yy < nn, w > 0, pi > 0,
    ensures
        l3 + (w * pis) * cc == xi1 * yy + mm1 * nn,
        0 <= mm1 < w * pi,
        xi1 * yy + mm1 * nn < 2 * ((w * pi) * nn),
{
    lemma_carry_step(pis, w, zin, cc, z2top, carry, carryn);
    lemma_distrib_scaled(xi0, pi, xn, yy);
    lemma_distrib_scaled(mm, pi, mn, nn);
    // mm1 < w*pi
    lemma_mul_le(mn, w - 1, pi);
    lemma_distrib_l_sub(pi, w, 1);
    lemma_mul_comm(pi, w);
    lemma_mul_nonneg(pi, mn);
    assert(pi * mn <= w * pi - pi);
    // bound
    lemma_mul_lt(xi1, w * pi, yy, nn);
    lemma_mul_lt_pos(mm1, w * pi, nn);
}

pub proof fn lemma_cios_top(l3: int, ps: int, nn: int, cc: int)
    requires l3 >= 0, l3 + (ps * ps) * cc < 2 * (ps * nn), 0 < nn < ps, 0 <= cc <= 2
    ensures cc <= 1
{
    if cc == 2 {
        lemma_mul_lt_pos(nn, ps, ps);
        assert((ps * ps) * 2 == 2 * (ps * ps));
    }
}

pub proof fn lemma_cios_bound(xx: int, yy: int, mm: int, nn: int, ps: int)
    requires 0 <= xx < ps, 0 <= mm < ps, 0 <= yy < nn
    ensures xx * yy + mm * nn < 2 * (ps * nn)
{
    lemma_mul_lt(xx, ps, yy, nn);
    lemma_mul_lt_pos(mm, ps, nn);
}

/// Final step, no overflow: ps*vv == xx*yy + mm*nn < 2*ps*nn  ==>  vv < 2nn and vv*ps ≡ xx*yy (mod nn)
pub proof fn lemma_cios_final(vv: int, ps: int, xx: int, yy: int, mm: int, nn: int)
    requires ps * vv == xx * yy + mm * nn, xx * yy + mm * nn < 2 * (ps * nn), ps > 0, nn > 0, xx >= 0, yy >= 0,
    ensures vv < 2 * nn, (vv * ps) % nn == (xx * yy) % nn
{
    lemma_mul_assoc(2, ps, nn); lemma_mul_comm(2, ps); lemma_mul_assoc(ps, 2, nn);
    assert(2 * (ps * nn) == ps * (2 * nn));
    lemma_mul_cancel_lt(ps, vv, 2 * nn);
    vstd::arithmetic::div_mod::lemma_mod_multiples_vanish(mm, xx * yy, nn);
    lemma_mul_comm(nn, mm); lemma_mul_comm(vv, ps);
}

/// Final step, overflow: ps*vv + ps*ps == T < 2*ps*nn, v2 + nn == vv + ps  ==>  v2*ps ≡ xx*yy (mod nn)
pub proof fn lemma_cios_final_ovf(vv: int, v2: int, ps: int, xx: int, yy: int, mm: int, nn: int)
    requires ps * vv + ps * ps == xx * yy + mm * nn, v2 + nn == vv + ps, nn > 0,
    ensures (v2 * ps) % nn == (xx * yy) % nn
{
    lemma_distrib_l(ps, vv, ps);
    lemma_distrib_l(ps, v2, nn);
    assert(ps * v2 + ps * nn == xx * yy + mm * nn);
    lemma_mul_comm(ps, nn); lemma_mul_comm(ps, v2); lemma_mul_comm(nn, mm);
    lemma_distrib_l_sub(nn, mm, ps);
    assert(nn * (mm - ps) + xx * yy == v2 * ps);
    vstd::arithmetic::div_mod::lemma_mod_multiples_vanish(mm - ps, xx * yy, nn);
}

/// ps*vv + ps*ps < 2*ps*nn ==> vv + ps < 2nn
pub proof fn lemma_cios_ovf_bound(vv: int, ps: int, nn: int)
    requires ps * vv + ps * ps < 2 * (ps * nn), ps > 0
    ensures vv + ps < 2 * nn
{
    lemma_distrib_l(ps, vv, ps);
    lemma_mul_assoc(2, ps, nn); lemma_mul_comm(2, ps); lemma_mul_assoc(ps, 2, nn);
    lemma_mul_cancel_lt(ps, vv + ps, 2 * nn);
}


/// value of a word sequence whose words above index sz are zero
pub proof fn lemma_limbs_top(x: Seq<u64>, sz: int)
    requires 0 <= sz <= x.len(), forall|k: int| sz + 1 <= k < x.len() ==> x[k] == 0,
    ensures limbs(x) == limbs(x.take(sz)) + (if x.len() > sz { pow_w(sz as nat) * (x[sz] as nat) } else { 0 })
{
    lemma_limbs_split(x, sz);
    let hi = x.skip(sz);
    if x.len() > sz {
        lemma_limbs_split(hi, 1);
        assert forall|j: int| 0 <= j < hi.skip(1).len() implies hi.skip(1)[j] == 0 by { assert(hi.skip(1)[j] == x[sz + 1 + j]); }
        lemma_limbs_zero(hi.skip(1));
        lemma_limbs_take_step(hi, 0);
        assert(hi.take(0) =~= Seq::<u64>::empty());
        lemma_limbs_empty(); lemma_pow_w_unfold(0);
        lemma_mul_one(pow_w(1) as int);
        lemma_mul_one(hi[0] as int);
        assert(hi[0] == x[sz]);
        assert(limbs(hi.take(1)) == limbs(hi.take(0)) + pow_w(0) * (hi[0] as nat));
        assert(limbs(hi) == limbs(hi.take(1)) + pow_w(1) * limbs(hi.skip(1)));
        assert(limbs(hi) == x[sz] as nat);
    } else {
        assert(hi =~= Seq::<u64>::empty());
        lemma_limbs_empty();
        lemma_mul_one(pow_w(sz as nat) as int);
    }
}


/// a value below W^k occupies k words
pub proof fn lemma_limbs_small_words(m: Seq<u64>, k: int)
    requires 0 <= k <= m.len(), limbs(m) < pow_w(k as nat)
    ensures limbs(m.take(k)) == limbs(m), forall|j: int| k <= j < m.len() ==> m[j] == 0
{
    lemma_limbs_take_small(m, k);
    lemma_limbs_zero_words(m.skip(k));
    assert forall|j: int| k <= j < m.len() implies m[j] == 0 by { assert(m.skip(k)[j - k] == m[j]); }
}

/// converse: high words zero ==> value is the value of the low k words
pub proof fn lemma_limbs_high_zero(m: Seq<u64>, k: int)
    requires 0 <= k <= m.len(), forall|j: int| k <= j < m.len() ==> m[j] == 0
    ensures limbs(m.take(k)) == limbs(m), limbs(m) < pow_w(k as nat)
{
    lemma_limbs_split(m, k);
    assert forall|j: int| 0 <= j < m.skip(k).len() implies m.skip(k)[j] == 0 by { assert(m.skip(k)[j] == m[j + k]); }
    lemma_limbs_zero(m.skip(k));
    lemma_mul_nonneg(pow_w(k as nat) as int, 0);
    lemma_limbs_bound(m.take(k));
}

/// (a - n) * r ≡ a * r (mod n)
pub proof fn lemma_sub_modulus_mul(a: int, n: int, r: int)
    requires n > 0
    ensures ((a - n) * r) % n == (a * r) % n, ((a + n) * r) % n == (a * r) % n
{
    lemma_distrib_r_sub(a, n, r);
    lemma_distrib_r(a, n, r);
    vstd::arithmetic::div_mod::lemma_mod_multiples_vanish(-r, a * r, n);
    vstd::arithmetic::div_mod::lemma_mod_multiples_vanish(r, a * r, n);
    lemma_mul_comm(n, r); lemma_mul_comm(n, -r);
    assert(n * (-r) == -(n * r)) by (nonlinear_arith);
}


/// conditional subtraction / addition of the modulus computes the residue
pub proof fn lemma_mod_range(a: int, n: int)
    requires n > 0
    ensures
        0 <= a < n ==> a % n == a,
        n <= a < 2 * n ==> a % n == a - n,
        -n <= a < 0 ==> a % n == a + n,
{
    if 0 <= a < n { vstd::arithmetic::div_mod::lemma_small_mod(a as nat, n as nat); }
    if n <= a < 2 * n { vstd::arithmetic::div_mod::lemma_fundamental_div_mod_converse(a, n, 1, a - n); }
    if -n <= a < 0 { vstd::arithmetic::div_mod::lemma_fundamental_div_mod_converse(a, n, -1, a + n); }
}


/// One outer round of multiprecision REDC: m gains m_ninv * n * W^i, the quotient grows accordingly.
pub proof fn lemma_redc_round(l0: int, l1: int, pis: int, pi: int, w: int, carryn: int, mn: int, nn: int, xx: int, q: int, q1: int, ps: int)
    requires
        l1 + pis * carryn == l0 + pi * (mn * nn),
        l0 == xx + q * nn,
        q1 == q + pi * mn,
        0 <= q < pi, 0 <= mn < w, pi > 0, w > 0, nn > 0,
        w * pi <= ps, 0 <= xx < nn * ps,
    ensures
        l1 + pis * carryn == xx + q1 * nn,
        0 <= q1 < w * pi,
        xx + q1 * nn < 2 * (nn * ps),
{
    lemma_distrib_scaled(q, pi, mn, nn);
    lemma_mul_le(mn, w - 1, pi);
    lemma_distrib_l_sub(pi, w, 1);
    lemma_mul_comm(pi, w);
    lemma_mul_nonneg(pi, mn);
    lemma_mul_lt_pos(q1, ps, nn);
    lemma_mul_comm(nn, ps);
}

pub proof fn lemma_pow_w_mono(a: nat, b: nat)
    requires a <= b
    ensures pow_w(a) <= pow_w(b), pow_w(b) == pow_w(a) * pow_w((b - a) as nat)
{
    lemma_pow_w_add(a, (b - a) as nat);
    lemma_pow_w_pos(a); lemma_pow_w_pos((b - a) as nat);
    lemma_mul_le(1, pow_w((b - a) as nat) as int, pow_w(a) as int);
}

} // verus!
verus! {
/// one word of the simultaneous add / subtract of `butterfly`: sum word with carry, difference word through the complement
pub proof fn lemma_bfly_step(pi: int, lx: int, ly: int, la: int, ls: int, ca: int, cs: int, xw: int, yw: int, aw: int, sw: int, ca2: int, cs2: int)
    requires
        la + pi * ca == lx + ly,
        ls + pi * cs == lx - ly + pi,
        aw + 0x1_0000_0000_0000_0000 * ca2 == xw + yw + ca,
        sw + 0x1_0000_0000_0000_0000 * cs2 == xw + (0xffff_ffff_ffff_ffff - yw) + cs,
    ensures
        (la + pi * aw) + (0x1_0000_0000_0000_0000 * pi) * ca2 == (lx + pi * xw) + (ly + pi * yw),
        (ls + pi * sw) + (0x1_0000_0000_0000_0000 * pi) * cs2 == (lx + pi * xw) - (ly + pi * yw) + 0x1_0000_0000_0000_0000 * pi,
{
    let w = 0x1_0000_0000_0000_0000int;
    lemma_distrib_l(pi, aw, w * ca2); lemma_mul_assoc(pi, w, ca2); lemma_mul_comm(pi, w);
    lemma_distrib_l(pi, xw, yw + ca); lemma_distrib_l(pi, yw, ca);
    lemma_distrib_l(pi, sw, w * cs2); lemma_mul_assoc(pi, w, cs2);
    lemma_distrib_l(pi, xw, (0xffff_ffff_ffff_ffff - yw) + cs);
    lemma_distrib_l(pi, 0xffff_ffff_ffff_ffff - yw, cs);
    lemma_distrib_l_sub(pi, 0xffff_ffff_ffff_ffff, yw);
    lemma_distrib_l(pi, 0xffff_ffff_ffff_ffff, 1); lemma_mul_one(pi);
}
} // verus!
