//! Assumed contracts on the bnum API (T-bnum): arithmetic on the mathematical views `uv` / `iv`.
//! Overflow is a precondition wherever bnum panics in the overflow-checked profile, so debug-profile panics are obligations.
#![allow(unused_imports, dead_code, unused_variables, non_snake_case)]
use vstd::prelude::*;
use bnum::{BUint, BInt};
use super::limbs::*;
use vstd::std_specs::ops::*;
use vstd::std_specs::cmp::*;
verus! {

/// 2^(64 N): the modulus of BUint<N> arithmetic
pub open spec fn umod<const N: usize>() -> nat { pow_w(N as nat) }

#[verifier::external_body]
pub proof fn axiom_uv_bound<const N: usize>(x: BUint<N>)
    ensures uv(x) < pow_w(N as nat)
{}

/// equal views <=> equal values (BUint is a plain array of digits)
#[verifier::external_body]
pub proof fn axiom_uv_inj<const N: usize>(x: BUint<N>, y: BUint<N>)
    ensures (uv(x) == uv(y)) == (x == y)
{}

pub assume_specification<const N: usize> [ BUint::<N>::is_zero ] (a: &BUint<N>) -> (r: bool)
    ensures r == (uv(*a) == 0);
pub assume_specification<const N: usize> [ BUint::<N>::is_one ] (a: &BUint<N>) -> (r: bool)
    ensures r == (uv(*a) == 1);
pub assume_specification<const N: usize> [ BUint::<N>::bit ] (a: &BUint<N>, i: u32) -> (r: bool)
    ensures i == 0 ==> r == (uv(*a) % 2 == 1),
        r == ((uv(*a) / vstd::arithmetic::power2::pow2(i as nat)) % 2 == 1);
pub assume_specification<const N: usize> [ <BUint<N> as core::cmp::PartialEq>::eq ] (a: &BUint<N>, b: &BUint<N>) -> (r: bool)
    ensures r == (uv(*a) == uv(*b));


pub assume_specification<const N: usize> [ BUint::<N>::from_digits ] (d: [u64; N]) -> (r: BUint<N>)
    ensures udigits(r) == d@, uv(r) == limbs(d@);

/// `Num::low_u64` for BUint: the least significant digit
pub assume_specification<const N: usize> [ <BUint<N> as crate::arith::Num>::low_u64 ] (a: &BUint<N>) -> (r: u64)
    ensures r == udigits(*a)[0], N >= 1 ==> r as nat == uv(*a) % W();


// ---- operators, through vstd's operator specs. The axioms are stated on values; Verus normalises reference operands
// (`&a / &b`, `a *= &b`) to the same instances. `*_req` is the call-site obligation: where bnum panics in the
// overflow-checked profile (overflow, division by zero, oversized shift) the operation is simply not allowed.

#[verifier::external_body]
pub proof fn axiom_buint_add<const N: usize>(a: BUint<N>, b: BUint<N>)
    ensures a.add_req(b) == (uv(a) + uv(b) < pow_w(N as nat)), <BUint<N> as AddSpec<BUint<N>>>::obeys_add_spec(),
        uv(a.add_spec(b)) == (uv(a) + uv(b)) % pow_w(N as nat),
{}
#[verifier::external_body]
pub proof fn axiom_buint_sub<const N: usize>(a: BUint<N>, b: BUint<N>)
    ensures a.sub_req(b) == (uv(a) >= uv(b)), <BUint<N> as SubSpec<BUint<N>>>::obeys_sub_spec(),
        uv(a) >= uv(b) ==> uv(a.sub_spec(b)) == uv(a) - uv(b),
{}
#[verifier::external_body]
pub proof fn axiom_buint_mul<const N: usize>(a: BUint<N>, b: BUint<N>)
    ensures a.mul_req(b) == (uv(a) * uv(b) < pow_w(N as nat)), <BUint<N> as MulSpec<BUint<N>>>::obeys_mul_spec(),
        uv(a.mul_spec(b)) == (uv(a) * uv(b)) % pow_w(N as nat),
{}
#[verifier::external_body]
pub proof fn axiom_buint_div<const N: usize>(a: BUint<N>, b: BUint<N>)
    ensures a.div_req(b) == (uv(b) != 0), <BUint<N> as DivSpec<BUint<N>>>::obeys_div_spec(),
        uv(b) != 0 ==> uv(a.div_spec(b)) == uv(a) / uv(b),
{}
#[verifier::external_body]
pub proof fn axiom_buint_div_assign<const N: usize>(a: BUint<N>, b: BUint<N>)
    ensures a.div_assign_req(b) == (uv(b) != 0), <BUint<N> as DivAssignSpec<BUint<N>>>::obeys_div_assign_spec(),
        uv(b) != 0 ==> uv(*a.div_assign_spec(b)) == uv(a) / uv(b),
{}
#[verifier::external_body]
pub proof fn axiom_buint_rem<const N: usize>(a: BUint<N>, b: BUint<N>)
    ensures a.rem_req(b) == (uv(b) != 0), <BUint<N> as RemSpec<BUint<N>>>::obeys_rem_spec(),
        uv(b) != 0 ==> uv(a.rem_spec(b)) == uv(a) % uv(b),
{}
#[verifier::external_body]
pub proof fn axiom_buint_shr_i32<const N: usize>(a: BUint<N>, s: i32)
    ensures a.shr_req(s) == (0 <= s && (s as int) < 64 * N), <BUint<N> as ShrSpec<i32>>::obeys_shr_spec(),
        0 <= s && (s as int) < 64 * N ==> uv(a.shr_spec(s)) == uv(a) / (vstd::arithmetic::power2::pow2(s as nat)),
{}
#[verifier::external_body]
pub proof fn axiom_buint_shr_u32<const N: usize>(a: BUint<N>, s: u32)
    ensures a.shr_req(s) == ((s as int) < 64 * N), <BUint<N> as ShrSpec<u32>>::obeys_shr_spec(),
        (s as int) < 64 * N ==> uv(a.shr_spec(s)) == uv(a) / (vstd::arithmetic::power2::pow2(s as nat)),
{}
#[verifier::external_body]
pub proof fn axiom_buint_shl_u32<const N: usize>(a: BUint<N>, s: u32)
    ensures a.shl_req(s) == ((s as int) < 64 * N), <BUint<N> as ShlSpec<u32>>::obeys_shl_spec(),
        (s as int) < 64 * N ==> uv(a.shl_spec(s)) == (uv(a) * vstd::arithmetic::power2::pow2(s as nat)) % pow_w(N as nat),
{}
#[verifier::external_body]
pub proof fn axiom_buint_eq<const N: usize>(a: BUint<N>, b: BUint<N>)
    ensures <BUint<N> as vstd::std_specs::cmp::PartialEqSpec<BUint<N>>>::obeys_eq_spec(),
        a.eq_spec(&b) == (uv(a) == uv(b)),
{}
#[verifier::external_body]
pub proof fn axiom_buint_cmp<const N: usize>(a: BUint<N>, b: BUint<N>)
    ensures <BUint<N> as vstd::std_specs::cmp::PartialOrdSpec<BUint<N>>>::obeys_partial_cmp_spec(),
        a.partial_cmp_spec(&b) == Some(if uv(a) < uv(b) { core::cmp::Ordering::Less } else if uv(a) == uv(b) { core::cmp::Ordering::Equal } else { core::cmp::Ordering::Greater }),
{}

/// bnum integers are `Copy`; their derived `Clone` is the identity
pub assume_specification<const N: usize> [ <BUint<N> as core::clone::Clone>::clone ] (a: &BUint<N>) -> (r: BUint<N>)
    ensures r == *a;

/// vstd's array clone yields `cloned` elements; for u64 that is equality
pub proof fn lemma_array_clone_u64<const N: usize>(a: [u64; N], b: [u64; N])
    requires forall|i: int| 0 <= i < N ==> vstd::pervasive::cloned::<u64>(#[trigger] a@[i], b@[i])
    ensures a@ == b@
{
    assert(a@ =~= b@);
}


pub assume_specification<const N: usize> [ BUint::<N>::bits ] (a: &BUint<N>) -> (r: u32)
    ensures r as nat == bitlen(uv(*a)), r <= 64 * N;

/// number of significant bits
pub open spec fn bitlen(x: nat) -> nat decreases x { if x == 0 { 0 } else { 1 + bitlen(x / 2) } }

pub proof fn lemma_bitlen_bound(x: nat, k: nat)
    requires bitlen(x) <= k
    ensures x < vstd::arithmetic::power2::pow2(k)
    decreases k
{
    vstd::arithmetic::power2::lemma2_to64();
    if x == 0 { vstd::arithmetic::power2::lemma_pow2_pos(k); }
    else {
        lemma_bitlen_bound(x / 2, (k - 1) as nat);
        vstd::arithmetic::power2::lemma_pow2_unfold(k);
        vstd::arithmetic::div_mod::lemma_fundamental_div_mod(x as int, 2);
    }
}

pub assume_specification<const N: usize> [ BUint::<N>::from_digit ] (x: u64) -> (r: BUint<N>)
    ensures N >= 1 ==> uv(r) == x as nat;

#[verifier::external_body]
pub proof fn axiom_buint_mul_assign<const N: usize>(a: BUint<N>, b: BUint<N>)
    ensures a.mul_assign_req(b) == (uv(a) * uv(b) < pow_w(N as nat)), <BUint<N> as MulAssignSpec<BUint<N>>>::obeys_mul_assign_spec(),
        uv(a) * uv(b) < pow_w(N as nat) ==> uv(*a.mul_assign_spec(b)) == uv(a) * uv(b),
{}

pub assume_specification<const N: usize> [ <BUint<N> as core::convert::From<u64>>::from ] (x: u64) -> (r: BUint<N>)
    ensures N >= 1 ==> uv(r) == x as nat;


/// bit length and value: 2^(bits-1) <= x < 2^bits for x > 0
pub proof fn lemma_bitlen_le(x: nat, k: nat)
    requires x < vstd::arithmetic::power2::pow2(k)
    ensures bitlen(x) <= k
    decreases k
{
    if x > 0 {
        if k == 0 {
            vstd::arithmetic::power2::lemma2_to64();
        } else {
            vstd::arithmetic::power2::lemma_pow2_unfold(k);
            vstd::arithmetic::div_mod::lemma_fundamental_div_mod(x as int, 2);
            lemma_bitlen_le(x / 2, (k - 1) as nat);
        }
    }
}

pub proof fn lemma_bitlen_lower(x: nat)
    requires x > 0
    ensures vstd::arithmetic::power2::pow2((bitlen(x) - 1) as nat) <= x
    decreases x
{
    vstd::arithmetic::power2::lemma2_to64();
    if x == 1 { assert(bitlen(1) == 1) by { assert(bitlen(0) == 0); }; }
    else {
        lemma_bitlen_lower(x / 2);
        vstd::arithmetic::power2::lemma_pow2_unfold((bitlen(x) - 1) as nat);
        vstd::arithmetic::div_mod::lemma_fundamental_div_mod(x as int, 2);
    }
}


// ---- signed integers (BInt) as far as relations::try_factor needs them

pub assume_specification<const N: usize> [ BInt::<N>::from_bits ] (x: BUint<N>) -> (r: BInt<N>)
    ensures uv(x) < pow_w(N as nat) / 2 ==> iv(r) == uv(x) as int;

pub assume_specification<const N: usize> [ BInt::<N>::to_bits ] (x: BInt<N>) -> (r: BUint<N>)
    ensures iv(x) >= 0 ==> uv(r) == iv(x) as nat;

/// num_integer::Integer::gcd on bnum signed integers: the (non-negative) gcd of the absolute values
pub assume_specification<const N: usize> [ <BInt<N> as num_integer::Integer>::gcd ] (a: &BInt<N>, b: &BInt<N>) -> (r: BInt<N>)
    ensures iv(*a) >= 0 && iv(*b) >= 0 ==> iv(r) == super::numint::gcd_spec(iv(*a) as nat, iv(*b) as nat) as int;

pub assume_specification<const N: usize> [ <BInt<N> as num_traits::One>::one ] () -> (r: BInt<N>)
    ensures N >= 1 ==> iv(r) == 1;

#[verifier::external_body]
pub proof fn axiom_bint_cmp<const N: usize>(a: BInt<N>, b: BInt<N>)
    ensures <BInt<N> as vstd::std_specs::cmp::PartialOrdSpec<BInt<N>>>::obeys_partial_cmp_spec(),
        a.partial_cmp_spec(&b) == Some(if iv(a) < iv(b) { core::cmp::Ordering::Less } else if iv(a) == iv(b) { core::cmp::Ordering::Equal } else { core::cmp::Ordering::Greater }),
{}


pub proof fn lemma_bitlen_ge2(x: nat)
    requires x >= 2
    ensures bitlen(x) >= 2
{
    assert(bitlen(x) == 1 + bitlen(x / 2));
    assert(x / 2 >= 1);
    assert(bitlen(x / 2) == 1 + bitlen(x / 2 / 2));
}

} // verus!
