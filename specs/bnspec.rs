//! Assumed contracts on the bnum API (T-bnum): arithmetic on the mathematical views `uv` / `iv`.
//! Overflow is a precondition wherever bnum panics in the overflow-checked profile, so debug-profile panics are obligations.
#![allow(unused_imports, dead_code, unused_variables, non_snake_case)]
use vstd::prelude::*;
use bnum::{BUint, BInt};
use super::limbs::*;
use vstd::std_specs::ops::*;
use vstd::std_specs::cmp::*;
verus! {

/// 2^(64 N): the modulus of BUint<N> arithmetic
pub open spec fn umod<const N: usize>() -> nat { pow_w(N as nat) }

#[verifier::external_body]
pub proof fn axiom_uv_bound<const N: usize>(x: BUint<N>)
    ensures uv(x) < pow_w(N as nat)
{}

/// equal views <=> equal values (BUint is a plain array of digits)
#[verifier::external_body]
pub proof fn axiom_uv_inj<const N: usize>(x: BUint<N>, y: BUint<N>)
    ensures (uv(x) == uv(y)) == (x == y)
{}

pub assume_specification<const N: usize> [ BUint::<N>::is_zero ] (a: &BUint<N>) -> (r: bool)
    ensures r == (uv(*a) == 0);
pub assume_specification<const N: usize> [ BUint::<N>::is_one ] (a: &BUint<N>) -> (r: bool)
    ensures r == (uv(*a) == 1);
pub assume_specification<const N: usize> [ BUint::<N>::bit ] (a: &BUint<N>, i: u32) -> (r: bool)
    ensures i == 0 ==> r == (uv(*a) % 2 == 1),
        r == ((uv(*a) / vstd::arithmetic::power2::pow2(i as nat)) % 2 == 1);
pub assume_specification<const N: usize> [ <BUint<N> as core::cmp::PartialEq>::eq ] (a: &BUint<N>, b: &BUint<N>) -> (r: bool)
    ensures r == (uv(*a) == uv(*b));


pub assume_specification<const N: usize> [ BUint::<N>::from_digits ] (d: [u64; N]) -> (r: BUint<N>)
    ensures udigits(r) == d@, uv(r) == limbs(d@);

/// `Num::low_u64` for BUint: the least significant digit
pub assume_specification<const N: usize> [ <BUint<N> as crate::arith::Num>::low_u64 ] (a: &BUint<N>) -> (r: u64)
    ensures r == udigits(*a)[0], N >= 1 ==> r as nat == uv(*a) % W();


// ---- operators, through vstd's operator specs. The axioms are stated on values; Verus normalises reference operands
// (`&a / &b`, `a *= &b`) to the same instances. `*_req` is the call-site obligation: where bnum panics in the
// overflow-checked profile (overflow, division by zero, oversized shift) the operation is simply not allowed.

#[verifier::external_body]
pub proof fn axiom_buint_add<const N: usize>(a: BUint<N>, b: BUint<N>)
    ensures a.add_req(b) == (uv(a) + uv(b) < pow_w(N as nat)), <BUint<N> as AddSpec<BUint<N>>>::obeys_add_spec(),
        uv(a.add_spec(b)) == (uv(a) + uv(b)) % pow_w(N as nat),
{}
#[verifier::external_body]
pub proof fn axiom_buint_sub<const N: usize>(a: BUint<N>, b: BUint<N>)
    ensures a.sub_req(b) == (uv(a) >= uv(b)), <BUint<N> as SubSpec<BUint<N>>>::obeys_sub_spec(),
        uv(a) >= uv(b) ==> uv(a.sub_spec(b)) == uv(a) - uv(b),
{}
#[verifier::external_body]
pub proof fn axiom_buint_mul<const N: usize>(a: BUint<N>, b: BUint<N>)
    ensures a.mul_req(b) == (uv(a) * uv(b) < pow_w(N as nat)), <BUint<N> as MulSpec<BUint<N>>>::obeys_mul_spec(),
        uv(a.mul_spec(b)) == (uv(a) * uv(b)) % pow_w(N as nat),
{}
#[verifier::external_body]
pub proof fn axiom_buint_div<const N: usize>(a: BUint<N>, b: BUint<N>)
    ensures a.div_req(b) == (uv(b) != 0), <BUint<N> as DivSpec<BUint<N>>>::obeys_div_spec(),
        uv(b) != 0 ==> uv(a.div_spec(b)) == uv(a) / uv(b),
{}
#[verifier::external_body]
pub proof fn axiom_buint_div_assign<const N: usize>(a: BUint<N>, b: BUint<N>)
    ensures a.div_assign_req(b) == (uv(b) != 0), <BUint<N> as DivAssignSpec<BUint<N>>>::obeys_div_assign_spec(),
        uv(b) != 0 ==> uv(*a.div_assign_spec(b)) == uv(a) / uv(b),
{}
#[verifier::external_body]
pub proof fn axiom_buint_rem<const N: usize>(a: BUint<N>, b: BUint<N>)
    ensures a.rem_req(b) == (uv(b) != 0), <BUint<N> as RemSpec<BUint<N>>>::obeys_rem_spec(),
        uv(b) != 0 ==> uv(a.rem_spec(b)) == uv(a) % uv(b),
{}
#[verifier::external_body]
pub proof fn axiom_buint_shr_i32<const N: usize>(a: BUint<N>, s: i32)
    ensures a.shr_req(s) == (0 <= s && (s as int) < 64 * N), <BUint<N> as ShrSpec<i32>>::obeys_shr_spec(),
        0 <= s && (s as int) < 64 * N ==> uv(a.shr_spec(s)) == uv(a) / (vstd::arithmetic::power2::pow2(s as nat)),
{}
#[verifier::external_body]
pub proof fn axiom_buint_shr_u32<const N: usize>(a: BUint<N>, s: u32)
    ensures a.shr_req(s) == ((s as int) < 64 * N), <BUint<N> as ShrSpec<u32>>::obeys_shr_spec(),
        (s as int) < 64 * N ==> uv(a.shr_spec(s)) == uv(a) / (vstd::arithmetic::power2::pow2(s as nat)),
{}
#[verifier::external_body]
pub proof fn axiom_buint_shl_u32<const N: usize>(a: BUint<N>, s: u32)
    ensures a.shl_req(s) == ((s as int) < 64 * N), <BUint<N> as ShlSpec<u32>>::obeys_shl_spec(),
        (s as int) < 64 * N ==> uv(a.shl_spec(s)) == (uv(a) * vstd::arithmetic::power2::pow2(s as nat)) % pow_w(N as nat),
{}
#[verifier::external_body]
pub proof fn axiom_buint_eq<const N: usize>(a: BUint<N>, b: BUint<N>)
    ensures <BUint<N> as vstd::std_specs::cmp::PartialEqSpec<BUint<N>>>::obeys_eq_spec(),
        a.eq_spec(&b) == (uv(a) == uv(b)),
{}
#[verifier::external_body]
pub proof fn axiom_buint_cmp<const N: usize>(a: BUint<N>, b: BUint<N>)
    ensures <BUint<N> as vstd::std_specs::cmp::PartialOrdSpec<BUint<N>>>::obeys_partial_cmp_spec(),
        a.partial_cmp_spec(&b) == Some(if uv(a) < uv(b) { core::cmp::Ordering::Less } else if uv(a) == uv(b) { core::cmp::Ordering::Equal } else { core::cmp::Ordering::Greater }),
{}

/// bnum integers are `Copy`; their derived `Clone` is the identity
pub assume_specification<const N: usize> [ <BUint<N> as core::clone::Clone>::clone ] (a: &BUint<N>) -> (r: BUint<N>)
    ensures r == *a;

/// vstd's array clone yields `cloned` elements; for u64 that is equality
pub proof fn lemma_array_clone_u64<const N: usize>(a: [u64; N], b: [u64; N])
    requires forall|i: int| 0 <= i < N ==> vstd::pervasive::cloned::<u64>(#[trigger] a@[i], b@[i])
    ensures a@ == b@
{
    assert(a@ =~= b@);
}


pub assume_specification<const N: usize> [ BUint::<N>::bits ] (a: &BUint<N>) -> (r: u32)
    ensures r as nat == bitlen(uv(*a)), r <= 64 * N;

/// number of significant bits
pub open spec fn bitlen(x: nat) -> nat decreases x { if x == 0 { 0 } else { 1 + bitlen(x / 2) } }

pub proof fn lemma_bitlen_bound(x: nat, k: nat)
    requires bitlen(x) <= k
    ensures x < vstd::arithmetic::power2::pow2(k)
    decreases k
{
    vstd::arithmetic::power2::lemma2_to64();
    if x == 0 { vstd::arithmetic::power2::lemma_pow2_pos(k); }
    else {
        lemma_bitlen_bound(x / 2, (k - 1) as nat);
        vstd::arithmetic::power2::lemma_pow2_unfold(k);
        vstd::arithmetic::div_mod::lemma_fundamental_div_mod(x as int, 2);
    }
}

pub assume_specification<const N: usize> [ BUint::<N>::from_digit ] (x: u64) -> (r: BUint<N>)
    ensures N >= 1 ==> uv(r) == x as nat;

#[verifier::external_body]
pub proof fn axiom_buint_mul_assign<const N: usize>(a: BUint<N>, b: BUint<N>)
    ensures a.mul_assign_req(b) == (uv(a) * uv(b) < pow_w(N as nat)), <BUint<N> as MulAssignSpec<BUint<N>>>::obeys_mul_assign_spec(),
        uv(a) * uv(b) < pow_w(N as nat) ==> uv(*a.mul_assign_spec(b)) == uv(a) * uv(b),
{}

pub assume_specification<const N: usize> [ <BUint<N> as core::convert::From<u64>>::from ] (x: u64) -> (r: BUint<N>)
    ensures N >= 1 ==> uv(r) == x as nat;


/// bit length and value: 2^(bits-1) <= x < 2^bits for x > 0
pub proof fn lemma_bitlen_le(x: nat, k: nat)
    requires x < vstd::arithmetic::power2::pow2(k)
    ensures bitlen(x) <= k
    decreases k
{
    if x > 0 {
        if k == 0 {
            vstd::arithmetic::power2::lemma2_to64();
        } else {
            vstd::arithmetic::power2::lemma_pow2_unfold(k);
            vstd::arithmetic::div_mod::lemma_fundamental_div_mod(x as int, 2);
            lemma_bitlen_le(x / 2, (k - 1) as nat);
        }
    }
}

pub proof fn lemma_bitlen_lower(x: nat)
    requires x > 0
    ensures vstd::arithmetic::power2::pow2((bitlen(x) - 1) as nat) <= x
    decreases x
{
    vstd::arithmetic::power2::lemma2_to64();
    if x == 1 { assert(bitlen(1) == 1) by { assert(bitlen(0) == 0); }; }
    else {
        lemma_bitlen_lower(x / 2);
        vstd::arithmetic::power2::lemma_pow2_unfold((bitlen(x) - 1) as nat);
        vstd::arithmetic::div_mod::lemma_fundamental_div_mod(x as int, 2);
    }
}


// ---- signed integers (BInt) as far as relations::try_factor needs them

pub assume_specification<const N: usize> [ BInt::<N>::from_bits ] (x: BUint<N>) -> (r: BInt<N>)
    ensures uv(x) < pow_w(N as nat) / 2 ==> iv(r) == uv(x) as int;

pub assume_specification<const N: usize> [ BInt::<N>::to_bits ] (x: BInt<N>) -> (r: BUint<N>)
    ensures iv(x) >= 0 ==> uv(r) == iv(x) as nat;

/// num_integer::Integer::gcd on bnum signed integers: the (non-negative) gcd of the absolute values
pub assume_specification<const N: usize> [ <BInt<N> as num_integer::Integer>::gcd ] (a: &BInt<N>, b: &BInt<N>) -> (r: BInt<N>)
    ensures iv(*a) >= 0 && iv(*b) >= 0 ==> iv(r) == super::numint::gcd_spec(iv(*a) as nat, iv(*b) as nat) as int;

pub assume_specification<const N: usize> [ <BInt<N> as num_traits::One>::one ] () -> (r: BInt<N>)
    ensures N >= 1 ==> iv(r) == 1;

#[verifier::external_body]
pub proof fn axiom_bint_cmp<const N: usize>(a: BInt<N>, b: BInt<N>)
    ensures <BInt<N> as vstd::std_specs::cmp::PartialOrdSpec<BInt<N>>>::obeys_partial_cmp_spec(),
        a.partial_cmp_spec(&b) == Some(if iv(a) < iv(b) { core::cmp::Ordering::Less } else if iv(a) == iv(b) { core::cmp::Ordering::Equal } else { core::cmp::Ordering::Greater }),
{}


pub proof fn lemma_bitlen_ge2(x: nat)
    requires x >= 2
    ensures bitlen(x) >= 2
{
    assert(bitlen(x) == 1 + bitlen(x / 2));
    assert(x / 2 >= 1);
    assert(bitlen(x / 2) == 1 + bitlen(x / 2 / 2));
}

} // verus!

verus! {
// ---- signed integers (BInt) as arith_gcd uses them: WRAPPING semantics. The operators are given no overflow precondition
// and their results are specified modulo 2^(64 N) only (what the optimised build computes); the overflow panics of bnum in
// overflow-checked builds are therefore NOT obligations of a caller that uses these axioms (stated in evidence for C09).

/// range of the signed view
#[verifier::external_body]
pub proof fn axiom_iv_range<const N: usize>(x: BInt<N>)
    ensures -(pow_w(N as nat) as int) <= 2 * iv(x) < pow_w(N as nat) as int
{}

#[verifier::external_body]
pub proof fn axiom_bint_mul<const N: usize>(a: BInt<N>, b: BInt<N>)
    ensures a.mul_req(b), <BInt<N> as MulSpec<BInt<N>>>::obeys_mul_spec(),
        super::modarith::cong(iv(a.mul_spec(b)), iv(a) * iv(b), pow_w(N as nat) as int),
{}
#[verifier::external_body]
pub proof fn axiom_bint_add<const N: usize>(a: BInt<N>, b: BInt<N>)
    ensures a.add_req(b), <BInt<N> as AddSpec<BInt<N>>>::obeys_add_spec(),
        super::modarith::cong(iv(a.add_spec(b)), iv(a) + iv(b), pow_w(N as nat) as int),
{}
#[verifier::external_body]
pub proof fn axiom_bint_sub<const N: usize>(a: BInt<N>, b: BInt<N>)
    ensures a.sub_req(b), <BInt<N> as SubSpec<BInt<N>>>::obeys_sub_spec(),
        super::modarith::cong(iv(a.sub_spec(b)), iv(a) - iv(b), pow_w(N as nat) as int),
{}
#[verifier::external_body]
pub proof fn axiom_bint_neg<const N: usize>(a: BInt<N>)
    ensures a.neg_req(), <BInt<N> as NegSpec>::obeys_neg_spec(),
        super::modarith::cong(iv(a.neg_spec()), -iv(a), pow_w(N as nat) as int),
{}

pub assume_specification<const N: usize> [ <BInt<N> as core::convert::From<i64>>::from ] (x: i64) -> (r: BInt<N>)
    ensures N >= 1 ==> iv(r) == x as int;

/// reinterpretation of an unsigned value of the same width
pub assume_specification<const N: usize, const M: usize> [ <BInt<N> as bnum::cast::CastFrom<BUint<M>>>::cast_from ] (x: BUint<M>) -> (r: BInt<N>)
    ensures N == M ==> super::modarith::cong(iv(r), uv(x) as int, pow_w(N as nat) as int);

pub assume_specification<const N: usize> [ BInt::<N>::is_negative ] (x: BInt<N>) -> (r: bool)
    ensures r == (iv(x) < 0);

/// absolute value; wraps on the minimum value (release semantics)
pub assume_specification<const N: usize> [ BInt::<N>::abs ] (x: BInt<N>) -> (r: BInt<N>)
    ensures 2 * iv(x) != -(pow_w(N as nat) as int) ==> iv(r) == (if iv(x) >= 0 { iv(x) } else { -iv(x) });

#[verifier::external_body]
pub proof fn axiom_buint_shl_i32<const N: usize>(a: BUint<N>, s: i32)
    ensures a.shl_req(s) == (0 <= s && (s as int) < 64 * N), <BUint<N> as ShlSpec<i32>>::obeys_shl_spec(),
        0 <= s && (s as int) < 64 * N ==> uv(a.shl_spec(s)) == (uv(a) * vstd::arithmetic::power2::pow2(s as nat)) % pow_w(N as nat),
{}

/// i64 gcd of num-integer on non-negative operands
pub assume_specification [<i64 as num_integer::Integer>::gcd] (a: &i64, b: &i64) -> (r: i64)
    ensures *a >= 0 && *b >= 0 ==> super::numint::is_gcd(r as int, *a as int, *b as int);
} // verus!

verus! {
/// all BUint operator axioms at once, quantified (for operands that are unnamed intermediate values)
pub proof fn lemma_buint_ops_all<const N: usize>()
    ensures
        <BUint<N> as AddSpec<BUint<N>>>::obeys_add_spec(), <BUint<N> as SubSpec<BUint<N>>>::obeys_sub_spec(),
        <BUint<N> as MulSpec<BUint<N>>>::obeys_mul_spec(), <BUint<N> as DivSpec<BUint<N>>>::obeys_div_spec(),
        <BUint<N> as RemSpec<BUint<N>>>::obeys_rem_spec(), <BUint<N> as ShlSpec<i32>>::obeys_shl_spec(),
        <BUint<N> as vstd::std_specs::cmp::PartialOrdSpec<BUint<N>>>::obeys_partial_cmp_spec(),
        <BUint<N> as vstd::std_specs::cmp::PartialEqSpec<BUint<N>>>::obeys_eq_spec(),
        forall|a: BUint<N>, b: BUint<N>| (#[trigger] a.add_req(b)) == (uv(a) + uv(b) < pow_w(N as nat)),
        forall|a: BUint<N>, b: BUint<N>| uv(#[trigger] a.add_spec(b)) == (uv(a) + uv(b)) % pow_w(N as nat),
        forall|a: BUint<N>, b: BUint<N>| (#[trigger] a.sub_req(b)) == (uv(a) >= uv(b)),
        forall|a: BUint<N>, b: BUint<N>| uv(a) >= uv(b) ==> uv(#[trigger] a.sub_spec(b)) == uv(a) - uv(b),
        forall|a: BUint<N>, b: BUint<N>| (#[trigger] a.mul_req(b)) == (uv(a) * uv(b) < pow_w(N as nat)),
        forall|a: BUint<N>, b: BUint<N>| uv(#[trigger] a.mul_spec(b)) == (uv(a) * uv(b)) % pow_w(N as nat),
        forall|a: BUint<N>, b: BUint<N>| (#[trigger] a.div_req(b)) == (uv(b) != 0),
        forall|a: BUint<N>, b: BUint<N>| uv(b) != 0 ==> uv(#[trigger] a.div_spec(b)) == uv(a) / uv(b),
        forall|a: BUint<N>, b: BUint<N>| (#[trigger] a.rem_req(b)) == (uv(b) != 0),
        forall|a: BUint<N>, b: BUint<N>| uv(b) != 0 ==> uv(#[trigger] a.rem_spec(b)) == uv(a) % uv(b),
        forall|a: BUint<N>, s: i32| (#[trigger] a.shl_req(s)) == (0 <= s && (s as int) < 64 * N),
        forall|a: BUint<N>, b: BUint<N>| (#[trigger] a.partial_cmp_spec(&b)) == Some(if uv(a) < uv(b) { core::cmp::Ordering::Less } else if uv(a) == uv(b) { core::cmp::Ordering::Equal } else { core::cmp::Ordering::Greater }),
        forall|a: BUint<N>, b: BUint<N>| (#[trigger] a.eq_spec(&b)) == (uv(a) == uv(b)),
{
    let z = arbitrary::<BUint<N>>();
    axiom_buint_add(z, z); axiom_buint_sub(z, z); axiom_buint_mul(z, z); axiom_buint_div(z, z); axiom_buint_rem(z, z);
    axiom_buint_shl_i32(z, 0i32); axiom_buint_cmp(z, z); axiom_buint_eq(z, z);
    assert forall|a: BUint<N>, b: BUint<N>| (#[trigger] a.add_req(b)) == (uv(a) + uv(b) < pow_w(N as nat)) by { axiom_buint_add(a, b); }
    assert forall|a: BUint<N>, b: BUint<N>| uv(#[trigger] a.add_spec(b)) == (uv(a) + uv(b)) % pow_w(N as nat) by { axiom_buint_add(a, b); }
    assert forall|a: BUint<N>, b: BUint<N>| (#[trigger] a.sub_req(b)) == (uv(a) >= uv(b)) by { axiom_buint_sub(a, b); }
    assert forall|a: BUint<N>, b: BUint<N>| uv(a) >= uv(b) implies uv(#[trigger] a.sub_spec(b)) == uv(a) - uv(b) by { axiom_buint_sub(a, b); }
    assert forall|a: BUint<N>, b: BUint<N>| (#[trigger] a.mul_req(b)) == (uv(a) * uv(b) < pow_w(N as nat)) by { axiom_buint_mul(a, b); }
    assert forall|a: BUint<N>, b: BUint<N>| uv(#[trigger] a.mul_spec(b)) == (uv(a) * uv(b)) % pow_w(N as nat) by { axiom_buint_mul(a, b); }
    assert forall|a: BUint<N>, b: BUint<N>| (#[trigger] a.div_req(b)) == (uv(b) != 0) by { axiom_buint_div(a, b); }
    assert forall|a: BUint<N>, b: BUint<N>| uv(b) != 0 implies uv(#[trigger] a.div_spec(b)) == uv(a) / uv(b) by { axiom_buint_div(a, b); }
    assert forall|a: BUint<N>, b: BUint<N>| (#[trigger] a.rem_req(b)) == (uv(b) != 0) by { axiom_buint_rem(a, b); }
    assert forall|a: BUint<N>, b: BUint<N>| uv(b) != 0 implies uv(#[trigger] a.rem_spec(b)) == uv(a) % uv(b) by { axiom_buint_rem(a, b); }
    assert forall|a: BUint<N>, s: i32| (#[trigger] a.shl_req(s)) == (0 <= s && (s as int) < 64 * N) by { axiom_buint_shl_i32(a, s); }
    assert forall|a: BUint<N>, b: BUint<N>| (#[trigger] a.partial_cmp_spec(&b)) == Some(if uv(a) < uv(b) { core::cmp::Ordering::Less } else if uv(a) == uv(b) { core::cmp::Ordering::Equal } else { core::cmp::Ordering::Greater }) by { axiom_buint_cmp(a, b); }
    assert forall|a: BUint<N>, b: BUint<N>| (#[trigger] a.eq_spec(&b)) == (uv(a) == uv(b)) by { axiom_buint_eq(a, b); }
}

/// all BInt operator axioms at once (wrapping semantics: no overflow precondition, results modulo 2^(64 N))
pub proof fn lemma_bint_ops_all<const N: usize>()
    ensures
        <BInt<N> as AddSpec<BInt<N>>>::obeys_add_spec(), <BInt<N> as SubSpec<BInt<N>>>::obeys_sub_spec(),
        <BInt<N> as MulSpec<BInt<N>>>::obeys_mul_spec(), <BInt<N> as NegSpec>::obeys_neg_spec(),
        forall|a: BInt<N>, b: BInt<N>| #[trigger] a.add_req(b),
        forall|a: BInt<N>, b: BInt<N>| #[trigger] a.sub_req(b),
        forall|a: BInt<N>, b: BInt<N>| #[trigger] a.mul_req(b),
        forall|a: BInt<N>| #[trigger] a.neg_req(),
        forall|a: BInt<N>, b: BInt<N>| super::modarith::cong(iv(#[trigger] a.add_spec(b)), iv(a) + iv(b), pow_w(N as nat) as int),
        forall|a: BInt<N>, b: BInt<N>| super::modarith::cong(iv(#[trigger] a.sub_spec(b)), iv(a) - iv(b), pow_w(N as nat) as int),
        forall|a: BInt<N>, b: BInt<N>| super::modarith::cong(iv(#[trigger] a.mul_spec(b)), iv(a) * iv(b), pow_w(N as nat) as int),
        forall|a: BInt<N>| super::modarith::cong(iv(#[trigger] a.neg_spec()), -iv(a), pow_w(N as nat) as int),
{
    let z = arbitrary::<BInt<N>>();
    axiom_bint_add(z, z); axiom_bint_sub(z, z); axiom_bint_mul(z, z); axiom_bint_neg(z);
    assert forall|a: BInt<N>, b: BInt<N>| #[trigger] a.add_req(b) by { axiom_bint_add(a, b); }
    assert forall|a: BInt<N>, b: BInt<N>| #[trigger] a.sub_req(b) by { axiom_bint_sub(a, b); }
    assert forall|a: BInt<N>, b: BInt<N>| #[trigger] a.mul_req(b) by { axiom_bint_mul(a, b); }
    assert forall|a: BInt<N>| #[trigger] a.neg_req() by { axiom_bint_neg(a); }
    assert forall|a: BInt<N>, b: BInt<N>| super::modarith::cong(iv(#[trigger] a.add_spec(b)), iv(a) + iv(b), pow_w(N as nat) as int) by { axiom_bint_add(a, b); }
    assert forall|a: BInt<N>, b: BInt<N>| super::modarith::cong(iv(#[trigger] a.sub_spec(b)), iv(a) - iv(b), pow_w(N as nat) as int) by { axiom_bint_sub(a, b); }
    assert forall|a: BInt<N>, b: BInt<N>| super::modarith::cong(iv(#[trigger] a.mul_spec(b)), iv(a) * iv(b), pow_w(N as nat) as int) by { axiom_bint_mul(a, b); }
    assert forall|a: BInt<N>| super::modarith::cong(iv(#[trigger] a.neg_spec()), -iv(a), pow_w(N as nat) as int) by { axiom_bint_neg(a); }
}
} // verus!

verus! {
/// linear forms of wrapping BInt products (for unnamed intermediate values)
pub proof fn lemma_bint_lin_all<const N: usize>()
    ensures
        forall|f1: BInt<N>, a: BInt<N>, f2: BInt<N>, c: BInt<N>| super::modarith::cong(iv(#[trigger] f1.mul_spec(a).add_spec(f2.mul_spec(c))), iv(f1) * iv(a) + iv(f2) * iv(c), pow_w(N as nat) as int),
        forall|f1: BInt<N>, a: BInt<N>, b: BInt<N>| super::modarith::cong(iv(#[trigger] f1.mul_spec(a).sub_spec(b)), iv(f1) * iv(a) - iv(b), pow_w(N as nat) as int),
        forall|f1: BInt<N>, a: BInt<N>, b: BInt<N>| super::modarith::cong(iv(#[trigger] b.sub_spec(f1.mul_spec(a))), iv(b) - iv(f1) * iv(a), pow_w(N as nat) as int),
{
    let m = pow_w(N as nat) as int;
    lemma_pow_w_pos(N as nat);
    assert forall|f1: BInt<N>, a: BInt<N>, f2: BInt<N>, c: BInt<N>| super::modarith::cong(iv(#[trigger] f1.mul_spec(a).add_spec(f2.mul_spec(c))), iv(f1) * iv(a) + iv(f2) * iv(c), m) by {
        axiom_bint_mul(f1, a); axiom_bint_mul(f2, c); axiom_bint_add(f1.mul_spec(a), f2.mul_spec(c));
        super::modarith::lemma_cong_add(iv(f1.mul_spec(a)), iv(f1) * iv(a), iv(f2.mul_spec(c)), iv(f2) * iv(c), m);
    }
    assert forall|f1: BInt<N>, a: BInt<N>, b: BInt<N>| super::modarith::cong(iv(#[trigger] f1.mul_spec(a).sub_spec(b)), iv(f1) * iv(a) - iv(b), m) by {
        axiom_bint_mul(f1, a); axiom_bint_sub(f1.mul_spec(a), b);
        super::modarith::lemma_cong_add(iv(f1.mul_spec(a)), iv(f1) * iv(a), iv(b), iv(b), m);
    }
    assert forall|f1: BInt<N>, a: BInt<N>, b: BInt<N>| super::modarith::cong(iv(#[trigger] b.sub_spec(f1.mul_spec(a))), iv(b) - iv(f1) * iv(a), m) by {
        axiom_bint_mul(f1, a); axiom_bint_sub(b, f1.mul_spec(a));
        super::modarith::lemma_cong_add(iv(b), iv(b), iv(f1.mul_spec(a)), iv(f1) * iv(a), m);
    }
}
} // verus!

verus! {
/// T-bnum: number of trailing zero bits, in arithmetic form (64 N for zero)
pub assume_specification<const N: usize> [ BUint::<N>::trailing_zeros ] (a: BUint<N>) -> (r: u32)
    ensures
        uv(a) == 0 ==> r as int == 64 * N,
        uv(a) != 0 ==> (r as int) < 64 * N && uv(a) % vstd::arithmetic::power2::pow2(r as nat) == 0
            && (uv(a) / vstd::arithmetic::power2::pow2(r as nat)) % 2 == 1;
} // verus!
