//! Assumed contracts on the bnum API (T-bnum): arithmetic on the mathematical views `uv` / `iv`.
//! Overflow is a precondition wherever bnum panics in the overflow-checked profile, so debug-profile panics are obligations.
#![allow(unused_imports, dead_code, unused_variables, non_snake_case)]
use vstd::prelude::*;
use bnum::{BUint, BInt};
use super::limbs::*;
verus! {

/// 2^(64 N): the modulus of BUint<N> arithmetic
pub open spec fn umod<const N: usize>() -> nat { pow_w(N as nat) }

#[verifier::external_body]
pub proof fn axiom_uv_bound<const N: usize>(x: BUint<N>)
    ensures uv(x) < pow_w(N as nat)
{}

/// equal views <=> equal values (BUint is a plain array of digits)
#[verifier::external_body]
pub proof fn axiom_uv_inj<const N: usize>(x: BUint<N>, y: BUint<N>)
    ensures (uv(x) == uv(y)) == (x == y)
{}

pub assume_specification<const N: usize> [ BUint::<N>::is_zero ] (a: &BUint<N>) -> (r: bool)
    ensures r == (uv(*a) == 0);
pub assume_specification<const N: usize> [ BUint::<N>::is_one ] (a: &BUint<N>) -> (r: bool)
    ensures r == (uv(*a) == 1);
pub assume_specification<const N: usize> [ BUint::<N>::bit ] (a: &BUint<N>, i: u32) -> (r: bool)
    ensures i == 0 ==> r == (uv(*a) % 2 == 1);
pub assume_specification<const N: usize> [ <BUint<N> as core::cmp::PartialEq>::eq ] (a: &BUint<N>, b: &BUint<N>) -> (r: bool)
    ensures r == (uv(*a) == uv(*b));

} // verus!
