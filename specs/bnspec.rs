//! Assumed contracts on the bnum API (T-bnum): arithmetic on the mathematical views `uv` / `iv`.
//! Overflow is a precondition wherever bnum panics in the overflow-checked profile, so debug-profile panics are obligations.
#![allow(unused_imports, dead_code, unused_variables, non_snake_case)]
use vstd::prelude::*;
use bnum::{BUint, BInt};
use super::limbs::*;
use vstd::std_specs::ops::*;
verus! {

/// 2^(64 N): the modulus of BUint<N> arithmetic
pub open spec fn umod<const N: usize>() -> nat { pow_w(N as nat) }

#[verifier::external_body]
pub proof fn axiom_uv_bound<const N: usize>(x: BUint<N>)
    ensures uv(x) < pow_w(N as nat)
{}

/// equal views <=> equal values (BUint is a plain array of digits)
#[verifier::external_body]
pub proof fn axiom_uv_inj<const N: usize>(x: BUint<N>, y: BUint<N>)
    ensures (uv(x) == uv(y)) == (x == y)
{}

pub assume_specification<const N: usize> [ BUint::<N>::is_zero ] (a: &BUint<N>) -> (r: bool)
    ensures r == (uv(*a) == 0);
pub assume_specification<const N: usize> [ BUint::<N>::is_one ] (a: &BUint<N>) -> (r: bool)
    ensures r == (uv(*a) == 1);
pub assume_specification<const N: usize> [ BUint::<N>::bit ] (a: &BUint<N>, i: u32) -> (r: bool)
    ensures i == 0 ==> r == (uv(*a) % 2 == 1);
pub assume_specification<const N: usize> [ <BUint<N> as core::cmp::PartialEq>::eq ] (a: &BUint<N>, b: &BUint<N>) -> (r: bool)
    ensures r == (uv(*a) == uv(*b));


pub assume_specification<const N: usize> [ BUint::<N>::from_digits ] (d: [u64; N]) -> (r: BUint<N>)
    ensures udigits(r) == d@, uv(r) == limbs(d@);

/// `Num::low_u64` for BUint: the least significant digit
pub assume_specification<const N: usize> [ <BUint<N> as crate::arith::Num>::low_u64 ] (a: &BUint<N>) -> (r: u64)
    ensures r == udigits(*a)[0], N >= 1 ==> r as nat == uv(*a) % W();


/// `&BUint >> u32` through vstd's operator specs (bnum panics when the shift exceeds the width in the
/// overflow-checked profile: that is the call-site obligation `shr_req`)
#[verifier::external_body]
pub proof fn axiom_buint_shr_ref<'a, const N: usize>(a: &'a BUint<N>, s: u32)
    ensures
        <&'a BUint<N> as vstd::std_specs::ops::ShrSpec<u32>>::shr_req(a, s) == ((s as int) < 64 * N),
        <&'a BUint<N> as vstd::std_specs::ops::ShrSpec<u32>>::obeys_shr_spec(),
        (s as int) < 64 * N ==> uv(<&'a BUint<N> as vstd::std_specs::ops::ShrSpec<u32>>::shr_spec(a, s)) == uv(*a) / (vstd::arithmetic::power2::pow2(s as nat)),
{}

#[verifier::external_body]
pub proof fn axiom_buint_shr_ref_i32<'a, const N: usize>(a: &'a BUint<N>, s: i32)
    ensures
        <&'a BUint<N> as vstd::std_specs::ops::ShrSpec<i32>>::shr_req(a, s) == (0 <= s && (s as int) < 64 * N),
        <&'a BUint<N> as vstd::std_specs::ops::ShrSpec<i32>>::obeys_shr_spec(),
        0 <= s && (s as int) < 64 * N ==> uv(<&'a BUint<N> as vstd::std_specs::ops::ShrSpec<i32>>::shr_spec(a, s)) == uv(*a) / (vstd::arithmetic::power2::pow2(s as nat)),
{}

/// vstd's array clone yields `cloned` elements; for u64 that is equality
pub proof fn lemma_array_clone_u64<const N: usize>(a: [u64; N], b: [u64; N])
    requires forall|i: int| 0 <= i < N ==> vstd::pervasive::cloned::<u64>(#[trigger] a@[i], b@[i])
    ensures a@ == b@
{
    assert(a@ =~= b@);
}

} // verus!
