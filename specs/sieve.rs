//! Sieve of Eratosthenes (fbase::primes): divisibility vocabulary and lemmas (C17).
#![allow(unused_imports, dead_code, unused_variables, non_snake_case)]
use vstd::prelude::*;
use vstd::arithmetic::div_mod::*;
use vstd::arithmetic::mul::*;
use super::primes::*;
verus! {

pub open spec fn divides(d: nat, n: nat) -> bool { d > 0 && n % d == 0 }
pub open spec fn is_prime_dv(n: nat) -> bool { n >= 2 && forall|d: nat| 2 <= d < n ==> !#[trigger] divides(d, n) }
pub open spec fn is_composite(n: nat) -> bool { exists|d: nat| 2 <= d < n && #[trigger] divides(d, n) }

// every n >= 2 that is not prime has a prime divisor d with d*d <= n
pub proof fn lemma_least_divisor(n: nat, c: nat) -> (d: nat)
    requires n >= 2, 2 <= c <= n, forall|e: nat| 2 <= e < c ==> !#[trigger] divides(e, n),
    ensures 2 <= d <= n, divides(d, n), forall|e: nat| 2 <= e < d ==> !#[trigger] divides(e, n),
    decreases n - c
{
    if divides(c, n) { c }
    else {
        if c == n { lemma_mod_self_0(n as int); assert(divides(n, n)); assert(false); }
        assert forall|e: nat| 2 <= e < c + 1 implies !#[trigger] divides(e, n) by { }
        lemma_least_divisor(n, c + 1)
    }
}

pub proof fn lemma_divides_trans(a: nat, b: nat, c: nat)
    requires divides(a, b), divides(b, c)
    ensures divides(a, c)
{
    lemma_fundamental_div_mod(b as int, a as int); lemma_fundamental_div_mod(c as int, b as int);
    let x = b as int / a as int; let y = c as int / b as int;
    assert(c as int == (a as int) * (x * y)) by (nonlinear_arith) requires b as int == (a as int) * x, c as int == (b as int) * y;
    lemma_mod_multiples_basic(x * y, a as int);
    assert((x * y) * (a as int) == (a as int) * (x * y)) by (nonlinear_arith);
}

pub proof fn lemma_prime_factor_le_sqrt(n: nat) -> (d: nat)
    requires n >= 2, !is_prime_dv(n),
    ensures is_prime_dv(d), divides(d, n), d * d <= n, d < n,
{
    let d = lemma_least_divisor(n, 2);
    // d < n because n is not prime
    if d == n {
        assert forall|e: nat| 2 <= e < n implies !#[trigger] divides(e, n) by { }
        assert(is_prime_dv(n));
    }
    // d is prime: a divisor e of d divides n and e < d
    assert forall|e: nat| 2 <= e < d implies !#[trigger] divides(e, d) by {
        if divides(e, d) { lemma_divides_trans(e, d, n); }
    }
    // n = d * m, m >= 2, m divides n, so m >= d
    lemma_fundamental_div_mod(n as int, d as int);
    let m = (n / d) as nat;
    assert(n == d * m);
    assert(m >= 2) by (nonlinear_arith) requires n == d * m, d < n, d >= 2, m >= 0;
    assert(m <= n) by (nonlinear_arith) requires n == d * m, d >= 2, m >= 0;
    lemma_mod_multiples_basic(d as int, m as int);
    assert(divides(m, n)) by { assert((d as int) * (m as int) == n as int); };
    if m < d { assert(!divides(m, n)); }
    assert(d * d <= n) by (nonlinear_arith) requires n == d * m, m >= d;
    d
}


// index arithmetic: 2k+1 is a multiple of odd p  <=>  k % p == p/2
pub proof fn lemma_mult_to_idx(p: nat, k: nat)
    requires p >= 3, p % 2 == 1, divides(p, 2 * k + 1)
    ensures k % p == p / 2
{
    let n = 2 * k + 1;
    lemma_fundamental_div_mod(n as int, p as int);
    let m = n as int / p as int;
    assert(n as int == (p as int) * m);
    assert(m >= 1) by (nonlinear_arith) requires n as int == (p as int) * m, n >= 1, p >= 3;
    // m odd
    if m % 2 == 0 {
        lemma_fundamental_div_mod(m, 2);
        let h = m / 2;
        assert(n as int == 2 * ((p as int) * h)) by (nonlinear_arith) requires n as int == (p as int) * m, m == 2 * h;
        assert(false);
    }
    lemma_fundamental_div_mod(m, 2); lemma_fundamental_div_mod(p as int, 2);
    let t = m / 2; let hp = p as int / 2;
    assert(m == 2 * t + 1); assert(p as int == 2 * hp + 1);
    assert(k as int == (p as int) * t + hp) by (nonlinear_arith)
        requires 2 * (k as int) + 1 == (p as int) * m, m == 2 * t + 1, p as int == 2 * hp + 1;
    assert(t >= 0);
    lemma_mod_multiples_vanish(t, hp, p as int);
    lemma_small_mod(hp as nat, p);
}

pub proof fn lemma_idx_to_mult(p: nat, k: nat)
    requires p >= 3, p % 2 == 1, k % p == p / 2
    ensures divides(p, 2 * k + 1)
{
    lemma_fundamental_div_mod(k as int, p as int); lemma_fundamental_div_mod(p as int, 2);
    let t = k as int / p as int; let hp = p as int / 2;
    assert(2 * (k as int) + 1 == (p as int) * (2 * t + 1)) by (nonlinear_arith)
        requires k as int == (p as int) * t + hp, p as int == 2 * hp + 1;
    lemma_mod_multiples_basic(2 * t + 1, p as int);
    assert((2 * t + 1) * (p as int) == (p as int) * (2 * t + 1)) by (nonlinear_arith);
}

pub proof fn lemma_same_residue_close(p: nat, a: nat, b: nat)
    requires p > 0, a % p == b % p, a <= b, b < a + p
    ensures a == b
{
    lemma_fundamental_div_mod(a as int, p as int); lemma_fundamental_div_mod(b as int, p as int);
    let x = a as int / p as int; let y = b as int / p as int;
    assert(b as int - a as int == (p as int) * (y - x)) by (nonlinear_arith)
        requires a as int == (p as int) * x + (a % p) as int, b as int == (p as int) * y + (b % p) as int, a % p == b % p;
    assert(y - x == 0) by (nonlinear_arith) requires 0 <= (p as int) * (y - x) < p as int, p > 0;
}

pub open spec fn marked_ok(sv: Seq<bool>) -> bool {
    forall|k: int| 0 <= k < sv.len() && #[trigger] sv[k] ==> !is_prime_dv((2 * k + 1) as nat)
}
pub open spec fn covered(sv: Seq<bool>, p: nat) -> bool {
    forall|k: int| 0 <= k < sv.len() && k >= p + p / 2 && (k as nat) % p == p / 2 ==> #[trigger] sv[k]
}

pub open spec fn complete(v: Seq<u32>) -> bool {
    forall|q: nat| #[trigger] is_prime_dv(q) && v.len() > 0 && q <= v[v.len() - 1] ==> in_list(v, q as int)
}
pub open spec fn all_prime(v: Seq<u32>) -> bool { forall|idx: int| 0 <= idx < v.len() ==> is_prime_dv(#[trigger] v[idx] as nat) }
pub open spec fn increasing(v: Seq<u32>) -> bool { forall|a: int, b: int| 0 <= a < b < v.len() ==> v[a] < v[b] }

pub proof fn lemma_in_list_push(v: Seq<u32>, x: u32, q: int)
    requires in_list(v, q) ensures in_list(v.push(x), q)
{
    let idx = choose|idx: int| 0 <= idx < v.len() && #[trigger] v[idx] as int == q;
    assert(v.push(x)[idx] as int == q);
}

pub proof fn lemma_odd_prime_shape(q: nat) -> (j: int)
    requires is_prime_dv(q), q != 2
    ensures q as int == 2 * j + 1, j >= 1
{
    lemma_fundamental_div_mod(q as int, 2);
    if q % 2 == 0 { assert(divides(2, q)); assert(false); }
    let j = q as int / 2;
    if j == 0 { assert(q == 1); assert(false); }
    j
}

pub open spec fn in_list(v: Seq<u32>, q: int) -> bool { exists|idx: int| 0 <= idx < v.len() && #[trigger] v[idx] as int == q }


/// the divisor-based definition used by the sieve proof is the definition of `is_prime`
pub proof fn lemma_is_prime_dv(n: nat)
    ensures is_prime_dv(n) == is_prime(n)
{
    if is_prime_dv(n) {
        assert forall|d: nat| 2 <= d < n implies #[trigger] (n % d) != 0 by { assert(!divides(d, n)); }
    }
    if is_prime(n) {
        assert forall|d: nat| 2 <= d < n implies !#[trigger] divides(d, n) by { assert(n % d != 0); }
    }
}


// ---------------------------------------------------------------- segmented sieve (fbase::PrimeSieve)

/// p divides the k-th number of the block that starts at `base`
pub open spec fn marks(p: nat, base: int, k: int) -> bool { divides(p, (base + k) as nat) }

/// one of sm[0..i] divides base + k
pub open spec fn hit(sm: Seq<u32>, i: int, base: int, k: int) -> bool {
    exists|j: int| 0 <= j < i && #[trigger] marks(sm[j] as nat, base, k)
}

/// sm holds exactly the primes below 2^16, in increasing order
pub open spec fn small_table(sm: Seq<u32>) -> bool {
    &&& all_prime(sm)
    &&& increasing(sm)
    &&& forall|j: int| 0 <= j < sm.len() ==> (#[trigger] sm[j]) < 65536
    &&& forall|q: nat| #[trigger] is_prime_dv(q) && q < 65536 ==> in_list(sm, q as int)
}

/// r is the increasing list of all primes of [lo, lo + 65536)
pub open spec fn primes_of_block(r: Seq<u32>, lo: int) -> bool {
    &&& all_prime(r)
    &&& increasing(r)
    &&& forall|k: int| 0 <= k < r.len() ==> lo <= (#[trigger] r[k]) < lo + 65536
    &&& forall|q: nat| #[trigger] is_prime_dv(q) && lo <= q < lo + 65536 ==> in_list(r, q as int)
}

/// a number of [2^16, 2^32) is prime iff no prime below 2^16 divides it
pub proof fn lemma_segment_prime(sm: Seq<u32>, base: int, k: int)
    requires small_table(sm), 65536 <= base + k < 0x1_0000_0000
    ensures is_prime_dv((base + k) as nat) <==> !hit(sm, sm.len() as int, base, k)
{
    let x = (base + k) as nat;
    if hit(sm, sm.len() as int, base, k) {
        let j = choose|j: int| 0 <= j < sm.len() && #[trigger] marks(sm[j] as nat, base, k);
        assert(is_prime_dv(sm[j] as nat));
        assert(divides(sm[j] as nat, x));
        assert(!is_prime_dv(x));
    }
    if !is_prime_dv(x) {
        let d = lemma_prime_factor_le_sqrt(x);
        assert(d < 65536) by (nonlinear_arith) requires d * d <= x, x < 0x1_0000_0000;
        assert(in_list(sm, d as int));
        let idx = choose|idx: int| 0 <= idx < sm.len() && #[trigger] sm[idx] as int == d as int;
        assert(marks(sm[idx] as nat, base, k));
        assert(hit(sm, sm.len() as int, base, k));
    }
}

/// two multiples of p less than p apart are equal
pub proof fn lemma_window1(p: nat, base: int, o: int, k: int)
    requires p > 0, base >= 0, o >= 0, k >= 0, (base + o) % (p as int) == 0, marks(p, base, k), o <= k < o + p
    ensures k == o
{
    lemma_same_residue_close(p, (base + o) as nat, (base + k) as nat);
}

/// no multiple of p below the first one
pub proof fn lemma_window0(p: nat, base: int, o: int, k: int)
    requires p > 0, base >= 0, 0 <= k < o < p, (base + o) % (p as int) == 0, marks(p, base, k)
    ensures false
{
    lemma_same_residue_close(p, (base + k) as nat, (base + o) as nat);
}

pub proof fn lemma_next_multiple(p: nat, base: int, o: int)
    requires p > 0, base >= 0, o >= 0, (base + o) % (p as int) == 0
    ensures (base + (o + p)) % (p as int) == 0, marks(p, base, o)
{
    lemma_mod_add_multiples_vanish(base + o, p as int);
    assert(p as int + (base + o) == base + (o + p));
}

/// p | base + o, p | base + k, o <= k < o + 3p  ==>  k is o, o + p or o + 2p
pub proof fn lemma_window3(p: nat, base: int, o: int, k: int)
    requires p > 0, base >= 0, o >= 0, (base + o) % (p as int) == 0, marks(p, base, k), o <= k < o + 3 * p
    ensures k == o || k == o + p || k == o + 2 * p
{
    lemma_next_multiple(p, base, o);
    lemma_next_multiple(p, base, o + p);
    if k < o + p { lemma_window1(p, base, o, k); }
    else if k < o + 2 * p { lemma_window1(p, base, o + p, k); }
    else { lemma_window1(p, base, o + 2 * p, k); }
}

/// the offset stored by `PrimeSieve::new`: p - 1 - 65535 % p is the first multiple of p at or after 65536, relative to 65536
pub proof fn lemma_first_offset(p: nat)
    requires 1 <= p
    ensures 0 <= p - 1 - 65535nat % p < p, (65536 + (p - 1 - 65535nat % p)) % (p as int) == 0
{
    lemma_fundamental_div_mod(65535, p as int);
    lemma_mod_bound(65535, p as int);
    let q = 65535int / (p as int); let r = 65535int % (p as int);
    assert(65536 + (p - 1 - r) == (p as int) * (q + 1)) by (nonlinear_arith) requires 65535 == (p as int) * q + r;
    lemma_mod_multiples_basic(q + 1, p as int);
    assert((q + 1) * (p as int) == (p as int) * (q + 1)) by (nonlinear_arith);
}


/// block 0 of the segmented sieve is the table itself
pub proof fn lemma_block0(sm: Seq<u32>)
    requires small_table(sm)
    ensures primes_of_block(sm, 0)
{
}


/// the size of the sieve of `fbase::primes(n)`: max(100, n * bitlen(n))
pub open spec fn primes_bound(n: u32) -> int {
    let b = n as int * (32 - vstd::std_specs::bits::u32_leading_zeros(n) as int);
    if b > 100 { b } else { 100 }
}
/// v holds every prime below the (even) sieve bound
pub open spec fn exhaustive(v: Seq<u32>, bound: int) -> bool {
    forall|q: nat| #[trigger] is_prime_dv(q) && q < 2 * (bound / 2) ==> in_list(v, q as int)
}


/// A5 (published table of maximal prime gaps, e.g. OEIS A005250 / A002386): two consecutive primes below 1 349 533 differ
/// by at most 114
#[verifier::external_body]
pub proof fn axiom_prime_gap(p: nat, q: nat)
    requires
        is_prime_dv(p), is_prime_dv(q), p < q, q < 1_349_533,
        forall|m: nat| p < m < q ==> !#[trigger] is_prime_dv(m),
    ensures q - p <= 114
{}

/// two entries of an increasing complete list of primes: nothing prime in between adjacent entries
pub proof fn lemma_adjacent_primes(v: Seq<u32>, a: int, m: nat)
    requires all_prime(v), increasing(v), complete(v), 0 <= a, a + 1 < v.len(), (v[a] as nat) < m < (v[a + 1] as nat)
    ensures !is_prime_dv(m)
{
    if is_prime_dv(m) {
        assert(v[a + 1] <= v[v.len() - 1]) by { if a + 1 < v.len() - 1 { assert(v[a + 1] < v[v.len() - 1]); } }
        assert(in_list(v, m as int));
        let b = choose|b: int| 0 <= b < v.len() && #[trigger] v[b] as int == m as int;
        if b <= a { if b < a { assert(v[b] < v[a]); } }
        else { if b > a + 1 { assert(v[a + 1] < v[b]); } }
    }
}

/// adjacent entries above 2: even gap; below 1 349 533: gap <= 114
pub proof fn lemma_adjacent_gap(v: Seq<u32>, a: int)
    requires all_prime(v), increasing(v), complete(v), 0 <= a, a + 1 < v.len(), v[a] > 2, (v[a + 1] as int) < 1_349_533
    ensures v[a] < v[a + 1], (v[a + 1] - v[a]) % 2 == 0, v[a + 1] - v[a] <= 114
{
    assert(v[a] < v[a + 1]);
    assert(is_prime_dv(v[a] as nat) && is_prime_dv(v[a + 1] as nat));
    let j1 = lemma_odd_prime_shape(v[a] as nat);
    let j2 = lemma_odd_prime_shape(v[a + 1] as nat);
    assert forall|m: nat| (v[a] as nat) < m < (v[a + 1] as nat) implies !#[trigger] is_prime_dv(m) by {
        lemma_adjacent_primes(v, a, m);
    }
    axiom_prime_gap(v[a] as nat, v[a + 1] as nat);
}

/// the table of `primes(70000)`: it holds every prime up to 503 (either it has 70000 entries, the last of which is
/// then >= 70001, or the sieve of size 70000 * 17 was exhausted)
pub proof fn lemma_primes_70000(v: Seq<u32>)
    requires
        all_prime(v), increasing(v), complete(v), v.len() <= 70000, v.len() >= 1,
        v.len() == 70000 || exhaustive(v, primes_bound(70000)),
    ensures
        forall|q: nat| #[trigger] is_prime_dv(q) && q <= 503 ==> in_list(v, q as int),
        is_prime_dv(503), !is_prime_dv(500), !is_prime_dv(501), !is_prime_dv(502),
{
    assert(is_prime_c(503)) by (compute_only);
    lemma_is_prime_c(503); lemma_is_prime_dv(503);
    assert(divides(2, 500)); assert(divides(3, 501)); assert(divides(2, 502));
    if v.len() == 70000 {
        lemma_increasing_lower(v, 69999);
        assert forall|q: nat| #[trigger] is_prime_dv(q) && q <= 503 implies in_list(v, q as int) by { }
    } else {
        vstd::std_specs::bits::axiom_u32_leading_zeros(70000);
        super::bits::axiom_u32_lz_arith(70000);
        let lz = vstd::std_specs::bits::u32_leading_zeros(70000);
        vstd::arithmetic::power2::lemma2_to64();
        if lz < 15 { vstd::arithmetic::power2::lemma_pow2_strictly_increases(16, (31 - lz) as nat); }
        if lz > 15 { if lz < 16 { } else if lz > 16 { vstd::arithmetic::power2::lemma_pow2_strictly_increases((32 - lz) as nat, 16); } }
        assert(lz == 15);
        assert(primes_bound(70000) == 70000 * 17);
    }
}

/// an increasing list of naturals: v[k] >= v[0] + k
pub proof fn lemma_increasing_lower(v: Seq<u32>, k: int)
    requires increasing(v), 0 <= k < v.len()
    ensures v[k] >= v[0] + k
    decreases k
{
    if k > 0 { lemma_increasing_lower(v, k - 1); assert(v[k - 1] < v[k]); }
}

} // verus!
