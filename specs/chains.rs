//! Addition-chain opcodes of the ECM scalar multiplications (C15).
#![allow(unused_imports, dead_code, unused_variables, non_snake_case)]
use vstd::prelude::*;
use vstd::arithmetic::power2::*;
use super::nl::*;
verus! {

/// effect of one opcode on the running multiplier: even 2y: v -> v * 2^y ; odd x: v -> 2v + x
pub open spec fn op_apply(op: int, v: int) -> int {
    if op % 2 == 0 { v * (pow2((op / 2) as nat) as int) } else { 2 * v + op }
}

/// value obtained by starting from v and applying opcodes c[l-1], ..., c[0] in that order
pub open spec fn prefix_apply(c: Seq<i8>, l: int, v: int) -> int
    decreases l
{
    if l <= 0 { v } else { prefix_apply(c, l - 1, op_apply(c[l - 1] as int, v)) }
}

/// the multiplier encoded by c[0..l]: start from the last opcode (an odd gap 1..63) and unwind
pub open spec fn chain_value(c: Seq<i8>, l: int) -> int {
    prefix_apply(c, l - 1, c[l - 1] as int)
}

pub proof fn lemma_prefix_apply_frame(c1: Seq<i8>, c2: Seq<i8>, l: int, v: int)
    requires 0 <= l <= c1.len(), c1.len() == c2.len(), forall|i: int| 0 <= i < l ==> c1[i] == c2[i],
    ensures prefix_apply(c1, l, v) == prefix_apply(c2, l, v)
    decreases l
{
    if l > 0 { lemma_prefix_apply_frame(c1, c2, l - 1, op_apply(c1[l - 1] as int, v)); }
}

/// appending opcode op at index l with new multiplier v2, where op_apply(op, v2) == v, preserves the encoded value
pub proof fn lemma_prefix_apply_push(c1: Seq<i8>, c2: Seq<i8>, l: int, v: int, v2: int)
    requires 0 <= l < c1.len(), c2 == c1.update(l, c2[l]), op_apply(c2[l] as int, v2) == v,
    ensures prefix_apply(c2, l + 1, v2) == prefix_apply(c1, l, v)
{
    lemma_prefix_apply_frame(c1, c2, l, v);
}


// ---------------------------------------------------------------- length of the 64-bit chain (make_addition_chain)

/// opcodes needed from an odd multiplier below 2^b: one if b <= 3, else two per 4 bits plus the last one
pub open spec fn chain_t(b: int) -> int { if b <= 3 { 1 } else { 2 * (b / 4) + 1 } }

/// the potential carried by the loop: with l opcodes emitted and kk < 2^gb left,
///  - kk odd: l + chain_t(gb) <= 33
///  - kk even, nothing emitted yet (k itself is even)
///  - kk even after an odd opcode: kk is a multiple of 8 and l + 1 + chain_t(gb - 3) <= 33,
///    or kk = 2^(gb-1) (carry out of the top bit: an even opcode and the final one remain)
pub open spec fn chain_pot(l: int, kk: int, gb: nat) -> bool {
    if kk % 2 == 1 { l + chain_t(gb as int) <= 33 }
    else {
        ||| l == 0
        ||| (kk % 8 == 0 && gb >= 3 && l + 1 + chain_t(gb as int - 3) <= 33)
        ||| (gb >= 4 && kk == pow2((gb - 1) as nat) as int && l + 2 <= 33)
    }
}

pub proof fn lemma_chain_t_mono(a: int, b: int)
    requires a <= b
    ensures chain_t(a) <= chain_t(b), chain_t(a) >= 1
{
    if a > 3 { vstd::arithmetic::div_mod::lemma_div_is_ordered(a, b, 4); }
    if b > 3 && a <= 3 { vstd::arithmetic::div_mod::lemma_div_is_ordered(4, b, 4); }
}

/// the potential bounds the number of opcodes emitted so far
pub proof fn lemma_chain_pot_bound(l: int, kk: int, gb: nat)
    requires chain_pot(l, kk, gb), l >= 0
    ensures l <= 32
{
    lemma_chain_t_mono(gb as int, gb as int);
    lemma_chain_t_mono(gb as int - 3, gb as int - 3);
}

/// even step: kk = m 2^tz, m odd; the odd multiplier m < 2^(gb - tz) keeps the potential with one more opcode
pub proof fn lemma_chain_pot_even(l: int, kk: int, gb: nat, tz: nat)
    requires
        kk >= 1, kk % 2 == 0, kk < pow2(gb) as int, gb <= 64, chain_pot(l, kk, gb), l >= 0,
        tz >= 1, kk % (pow2(tz) as int) == 0, (kk / (pow2(tz) as int)) % 2 == 1,
    ensures
        tz < gb,
        kk / (pow2(tz) as int) < pow2((gb - tz) as nat) as int,
        chain_pot(l + 1, kk / (pow2(tz) as int), (gb - tz) as nat),
{
    let pt = pow2(tz) as int;
    lemma_pow2_pos(tz);
    vstd::arithmetic::div_mod::lemma_fundamental_div_mod(kk, pt);
    let m = kk / pt;
    assert(kk == pt * m);
    assert(m >= 1);
    assert(pt <= kk) by (nonlinear_arith) requires kk == pt * m, m >= 1, pt >= 1;
    if tz >= gb { if tz > gb { lemma_pow2_strictly_increases(gb, tz); } assert(false); }
    lemma_pow2_adds(tz, (gb - tz) as nat);
    let pr = pow2((gb - tz) as nat) as int;
    assert(m < pr) by (nonlinear_arith) requires pt * m < pt * pr, pt >= 1;
    let g2 = gb as int - tz as int;
    if l == 0 {
        lemma_chain_t_mono(g2, 63);
        assert(chain_t(63) == 31);
    } else if kk % 8 == 0 && gb >= 3 && l + 1 + chain_t(gb as int - 3) <= 33 {
        if tz < 3 {
            lemma2_to64();
            let a = m / 2;
            assert(m == 2 * a + 1);
            if tz == 1 { assert(pt == 2); assert(kk == 4 * a + 2) by (nonlinear_arith) requires kk == pt * m, pt == 2, m == 2 * a + 1; }
            else { assert(pt == 4); assert(kk == 8 * a + 4) by (nonlinear_arith) requires kk == pt * m, pt == 4, m == 2 * a + 1; }
            assert(false);
        }
        lemma_chain_t_mono(g2, gb as int - 3);
    } else {
        // kk = 2^(gb-1) = 2^tz m, m odd: tz = gb - 1 and m = 1
        let j = (gb - 1) as nat;
        if tz < j {
            lemma_pow2_adds(tz, (j - tz) as nat);
            lemma_pow2_pos((j - tz) as nat);
            assert(m == pow2((j - tz) as nat) as int) by (nonlinear_arith) requires pt * m == pt * (pow2((j - tz) as nat) as int), pt >= 1;
            lemma_pow2_unfold((j - tz) as nat);
            let h = pow2((j - tz - 1) as nat) as int;
            assert(m == 2 * h);
            assert(m % 2 == 0) by (nonlinear_arith) requires m == 2 * h;
            assert(false);
        }
        assert(tz == j);
        assert(g2 == 1);
        assert(chain_t(1) == 1);
    }
}

/// odd step (kk > 7): what both encodings need
pub proof fn lemma_chain_pot_odd(l: int, kk: int, gb: nat)
    requires kk >= 9, kk % 2 == 1, kk < pow2(gb) as int, gb <= 64, chain_pot(l, kk, gb), l >= 0
    ensures gb >= 4, l + 2 + chain_t(gb as int - 4) <= 33, l + 3 <= 33
{
    lemma2_to64();
    if gb < 4 { if gb < 3 { lemma_pow2_strictly_increases(gb, 3); } assert(false); }
    if gb as int - 4 > 3 {
        vstd::arithmetic::div_mod::lemma_div_plus_one(gb as int - 4, 4);
    }
}

/// negative encoding: (kk + rop) / 2 is below 2^(gb-1), or kk + rop = 2^gb exactly (carry out of the top bit)
pub proof fn lemma_chain_carry(kk: int, rop: int, gb: nat)
    requires kk >= 9, kk < pow2(gb) as int, gb >= 4, 1 <= rop <= 8, (kk + rop) % 16 == 0
    ensures kk + rop < pow2(gb) as int || kk + rop == pow2(gb) as int
{
    lemma_pow2_adds(4, (gb - 4) as nat);
    lemma2_to64();
    let q = pow2((gb - 4) as nat) as int;
    assert(pow2(gb) as int == 16 * q);
    vstd::arithmetic::div_mod::lemma_fundamental_div_mod(kk + rop, 16);
    let m = (kk + rop) / 16;
    assert(kk + rop == 16 * m);
    if kk + rop > 16 * q { assert(m >= q + 1); assert(false); }
}

} // verus!
