//! Addition-chain opcodes of the ECM scalar multiplications (C15).
#![allow(unused_imports, dead_code, unused_variables, non_snake_case)]
use vstd::prelude::*;
use vstd::arithmetic::power2::*;
use super::nl::*;
verus! {

/// effect of one opcode on the running multiplier: even 2y: v -> v * 2^y ; odd x: v -> 2v + x
pub open spec fn op_apply(op: int, v: int) -> int {
    if op % 2 == 0 { v * (pow2((op / 2) as nat) as int) } else { 2 * v + op }
}

/// value obtained by starting from v and applying opcodes c[l-1], ..., c[0] in that order
pub open spec fn prefix_apply(c: Seq<i8>, l: int, v: int) -> int
    decreases l
{
    if l <= 0 { v } else { prefix_apply(c, l - 1, op_apply(c[l - 1] as int, v)) }
}

/// the multiplier encoded by c[0..l]: start from the last opcode (an odd gap 1..63) and unwind
pub open spec fn chain_value(c: Seq<i8>, l: int) -> int {
    prefix_apply(c, l - 1, c[l - 1] as int)
}

pub proof fn lemma_prefix_apply_frame(c1: Seq<i8>, c2: Seq<i8>, l: int, v: int)
    requires 0 <= l <= c1.len(), c1.len() == c2.len(), forall|i: int| 0 <= i < l ==> c1[i] == c2[i],
    ensures prefix_apply(c1, l, v) == prefix_apply(c2, l, v)
    decreases l
{
    if l > 0 { lemma_prefix_apply_frame(c1, c2, l - 1, op_apply(c1[l - 1] as int, v)); }
}

/// appending opcode op at index l with new multiplier v2, where op_apply(op, v2) == v, preserves the encoded value
pub proof fn lemma_prefix_apply_push(c1: Seq<i8>, c2: Seq<i8>, l: int, v: int, v2: int)
    requires 0 <= l < c1.len(), c2 == c1.update(l, c2[l]), op_apply(c2[l] as int, v2) == v,
    ensures prefix_apply(c2, l + 1, v2) == prefix_apply(c1, l, v)
{
    lemma_prefix_apply_frame(c1, c2, l, v);
}

} // verus!
