//! Modular exponentiation in Montgomery form and the bookkeeping of one Miller round (all proved; no axiom here).
#![allow(unused_imports, dead_code, unused_variables, non_snake_case)]
use vstd::prelude::*;
use vstd::arithmetic::power::*;
use vstd::arithmetic::power2::*;
use vstd::arithmetic::div_mod::*;
use vstd::arithmetic::mul::*;
use vstd::std_specs::bits::*;
use vstd::bits::*;
use super::nl::*;
use super::bits::*;
use super::modarith::*;
use super::primes::*;
use super::divide::*;
verus! {

// ------------------------------------------------------------------ pow_mod_spec against vstd's pow

pub proof fn lemma_pms_lt(b: nat, e: nat, n: nat)
    requires n > 0
    ensures pow_mod_spec(b, e, n) < n
    decreases e
{
    if e == 0 {
        lemma_mod_bound(1, n as int);
    } else {
        lemma_mod_bound((b * pow_mod_spec(b, (e - 1) as nat, n)) as int, n as int);
    }
}

pub proof fn lemma_pms_pow(b: nat, e: nat, n: nat)
    requires n > 0
    ensures pow_mod_spec(b, e, n) as int == pow(b as int, e) % (n as int)
    decreases e
{
    reveal(pow);
    if e == 0 {
    } else {
        lemma_pms_pow(b, (e - 1) as nat, n);
        let q = pow(b as int, (e - 1) as nat);
        lemma_mul_mod_noop_right(b as int, q, n as int);
    }
}

pub proof fn lemma_pow_nonneg(b: nat, e: nat)
    ensures pow(b as int, e) >= 0
    decreases e
{
    reveal(pow);
    if e > 0 {
        lemma_pow_nonneg(b, (e - 1) as nat);
        lemma_mul_nonneg(b as int, pow(b as int, (e - 1) as nat));
    }
}

/// b^(e1+e2) = b^e1 * b^e2 (mod n)
pub proof fn lemma_pms_add(b: nat, e1: nat, e2: nat, n: nat)
    requires n > 0
    ensures pow_mod_spec(b, e1 + e2, n) == (pow_mod_spec(b, e1, n) * pow_mod_spec(b, e2, n)) % n
{
    lemma_pms_pow(b, e1 + e2, n);
    lemma_pms_pow(b, e1, n);
    lemma_pms_pow(b, e2, n);
    lemma_pow_adds(b as int, e1, e2);
    lemma_mul_mod_noop(pow(b as int, e1), pow(b as int, e2), n as int);
}

/// doubling the exponent squares the value
pub proof fn lemma_pms_double(b: nat, e: nat, n: nat)
    requires n > 0
    ensures pow_mod_spec(b, 2 * e, n) == (pow_mod_spec(b, e, n) * pow_mod_spec(b, e, n)) % n
{
    lemma_pms_add(b, e, e, n);
}

pub proof fn lemma_pow2n_is_pow2(e: nat)
    ensures pow2n(e) == pow2(e)
    decreases e
{
    lemma2_to64();
    if e > 0 {
        lemma_pow2n_is_pow2((e - 1) as nat);
        lemma_pow2_unfold(e);
    }
}

// ------------------------------------------------------------------ 2-adic valuation

/// n = m * 2^t with m odd determines val2 and odd_part
pub proof fn lemma_val2_char(n: nat, t: nat, m: nat)
    requires n == m * pow2(t), m % 2 == 1
    ensures val2(n) == t, odd_part(n) == m
    decreases t
{
    lemma2_to64();
    if t == 0 {
        lemma_mul_one(m as int);
    } else {
        lemma_pow2_unfold(t);
        let h = pow2((t - 1) as nat);
        // n = m * (2 * h) = 2 * (m * h)
        lemma_mul_assoc(m as int, 2, h as int);
        lemma_mul_comm(m as int, 2);
        lemma_mul_assoc(2, m as int, h as int);
        let k = m * h;
        assert(n == 2 * k);
        lemma_pow2_pos((t - 1) as nat);
        lemma_mul_pos(m as int, h as int);
        assert(n % 2 == 0 && n / 2 == k);
        lemma_val2_char(k, (t - 1) as nat, m);
    }
}

/// the decomposition computed by `(p - 1).trailing_zeros()` and `p >> tz` for odd p >= 3
pub proof fn lemma_miller_decomp(p: u64, tz: u32, podd: u64)
    requires p >= 3, p % 2 == 1, tz == u64_trailing_zeros((p - 1) as u64), tz < 64 ==> podd == p >> (tz as u64),
    ensures
        1 <= tz < 64,
        val2((p - 1) as nat) == tz as nat,
        odd_part((p - 1) as nat) == podd as nat,
        podd >= 1,
{
    let q = (p - 1) as u64;
    lemma_tz_arith(q, tz);
    let d = pow2(tz as nat) as int;
    lemma_pow2_pos(tz as nat);
    lemma2_to64();
    let m = q as int / d;
    lemma_fundamental_div_mod(q as int, d);
    assert(q as int == d * m);
    if tz == 0 {
        assert(d == 1);
        lemma_mul_one(m);
        assert(false);
    }
    lemma_pow2_unfold(tz as nat);
    assert(d >= 2) by { lemma_pow2_pos((tz - 1) as nat); }
    // p = d * m + 1 with 1 < d: p / d == m
    lemma_fundamental_div_mod_converse(p as int, d, m, 1);
    lemma_u64_shr_is_div(p, tz as u64);
    assert(podd as int == m);
    lemma_mul_comm(d, m);
    lemma_val2_char(q as nat, tz as nat, m as nat);
}

// ------------------------------------------------------------------ Montgomery representatives modulo an odd p (R = 2^64)

/// m represents v: m = v * 2^64 mod p
pub open spec fn mrep(m: u64, v: nat, p: nat) -> bool {
    (m as nat) < p && v < p && m as int == (v as int * two64()) % (p as int)
}

pub proof fn lemma_two64_is_pow2()
    ensures two64() == pow2(64) as int
{
    lemma2_to64();
}

/// the representative determines the value and conversely
pub proof fn lemma_mrep_inj(m1: u64, v1: nat, m2: u64, v2: nat, p: nat)
    requires p % 2 == 1, p > 0, mrep(m1, v1, p), mrep(m2, v2, p)
    ensures (m1 == m2) == (v1 == v2)
{
    if m1 == m2 && v1 != v2 {
        lemma_two64_is_pow2();
        assert(cong(v1 as int * pow2(64) as int, v2 as int * pow2(64) as int, p as int)) by {
            lemma_mod_twice(v1 as int * two64(), p as int);
            lemma_mod_twice(v2 as int * two64(), p as int);
        }
        lemma_cancel_pow2(v1 as int, v2 as int, p as int, 64);
        lemma_cong_small(v1 as int, v2 as int, p as int);
    }
}

/// what `mg_mul` returns for two representatives is the representative of the product
pub proof fn lemma_mrep_mul(x: u64, vx: nat, y: u64, vy: nat, z: u64, p: nat)
    requires
        p % 2 == 1, p > 0, mrep(x, vx, p), mrep(y, vy, p), (z as nat) < p,
        (z as int * two64()) % (p as int) == ((x as int) * (y as int)) % (p as int),
    ensures mrep(z, (vx * vy) % p, p)
{
    let pi = p as int;
    let r = two64();
    lemma_two64_is_pow2();
    // x ≡ vx r, y ≡ vy r  =>  x y ≡ (vx r)(vy r) = (vx vy r) r
    lemma_cong_mod(vx as int * r, pi);
    lemma_cong_mod(vy as int * r, pi);
    assert(cong(x as int, vx as int * r, pi));
    assert(cong(y as int, vy as int * r, pi));
    lemma_cong_mul(x as int, vx as int * r, y as int, pi);
    lemma_cong_mul(y as int, vy as int * r, vx as int * r, pi);
    // x*y ≡ (vx r) * y ≡ (vx r) * (vy r)
    assert(cong(x as int * y as int, (vx as int * r) * (vy as int * r), pi));
    let w = (vx * vy) % p;
    lemma_cong_mod(vx as int * vy as int, pi);
    // (vx r)(vy r) = (vx vy) r r
    assert((vx as int * r) * (vy as int * r) == ((vx as int * vy as int) * r) * r) by {
        lemma_mul_assoc(vx as int * r, vy as int, r);
        lemma_mul_assoc(vx as int, r, vy as int);
        lemma_mul_comm(r, vy as int);
        lemma_mul_assoc(vx as int, vy as int, r);
    }
    // (vx vy) ≡ w  =>  (vx vy) r r ≡ w r r
    lemma_cong_mul((vx * vy) as int, w as int, r, pi);
    lemma_cong_mul((vx * vy) as int * r, w as int * r, r, pi);
    assert(cong(z as int * r, (w as int * r) * r, pi));
    lemma_cancel_pow2(z as int, w as int * r, pi, 64);
    lemma_mod_bound((vx * vy) as int, pi);
    lemma_small_mod(z as nat, p);
    assert(z as int == (w as int * r) % pi);
}

/// 2^64 mod p represents 1 and p - (2^64 mod p) represents p - 1
pub proof fn lemma_mrep_one(p: u64, r1: u64)
    requires p >= 3, p % 2 == 1, r1 as int == two64() % (p as int)
    ensures mrep(r1, 1, p as nat), 0 < r1 < p, mrep((p - r1) as u64, (p - 1) as nat, p as nat)
{
    let pi = p as int;
    let r = two64();
    lemma_mod_bound(r, pi);
    lemma_mul_one(r);
    if r1 == 0 {
        // p | 2^64 with p odd >= 3: impossible
        lemma_fundamental_div_mod(r, pi);
        lemma_two64_is_pow2();
        lemma_odd_not_div_pow2(pi, r / pi, 64, r);
    }
    // (p - 1) r = p r - r ≡ -r ≡ p - r1
    lemma_distrib_r_sub(pi, 1, r);
    lemma_cong_add_multiple(-r, r, pi);
    assert(cong((pi - 1) * r, -r, pi));
    lemma_fundamental_div_mod(r, pi);
    let k = r / pi;
    // -r = -(p k + r1) = (p - r1) - p (k + 1)
    assert(-r == (pi - r1 as int) - pi * (k + 1)) by { lemma_distrib_l(pi, k, 1); lemma_mul_one(pi); }
    lemma_cong_add_multiple(pi - r1 as int, k + 1, pi);
    lemma_mul_comm(pi, k + 1);
    lemma_small_mod((p - r1) as nat, p as nat);
    assert(((pi - 1) * r) % pi == pi - r1 as int);
}

/// r1^2 mod p is the representative of 2^64 mod p ... as a value: mg_mul(b, r2) represents b
pub proof fn lemma_mrep_enter(b: u64, r1: u64, r2: u64, z: u64, p: nat)
    requires
        p % 2 == 1, p >= 3, (b as nat) < p, (z as nat) < p,
        r1 as int == two64() % (p as int),
        r2 as int == ((r1 as int) * (r1 as int)) % (p as int),
        (z as int * two64()) % (p as int) == ((b as int) * (r2 as int)) % (p as int),
    ensures mrep(z, b as nat, p)
{
    let pi = p as int;
    let r = two64();
    lemma_two64_is_pow2();
    // r2 ≡ r1 r1 ≡ r r
    lemma_cong_mod(r, pi);
    lemma_cong_mod(r1 as int * r1 as int, pi);
    assert(cong(r1 as int, r, pi));
    lemma_cong_mul(r1 as int, r, r1 as int, pi);
    lemma_cong_mul(r1 as int, r, r, pi);
    assert(cong(r2 as int, r * r, pi));
    lemma_cong_mul(r2 as int, r * r, b as int, pi);
    // z r ≡ b r2 ≡ b (r r) = (b r) r
    lemma_mul_assoc(b as int, r, r);
    assert(cong(z as int * r, (b as int * r) * r, pi));
    lemma_cancel_pow2(z as int, b as int * r, pi, 64);
    lemma_small_mod(z as nat, p);
}

// ------------------------------------------------------------------ square-and-multiply

/// invariant of the binary exponentiation: b^e ≡ x * sq^exp
pub open spec fn sqmul_inv(b: nat, e: nat, x: nat, sq: nat, exp: nat, p: nat) -> bool {
    pow_mod_spec(b, e, p) == (x * pow_mod_spec(sq, exp, p)) % p
}

pub proof fn lemma_sqmul_init(b: nat, e: nat, p: nat)
    requires p > 1, b < p
    ensures sqmul_inv(b, e, 1, b, e, p)
{
    lemma_mul_one(pow_mod_spec(b, e, p) as int);
    lemma_pms_lt(b, e, p);
    lemma_small_mod(pow_mod_spec(b, e, p), p);
}

pub proof fn lemma_pms_base_mod(b: nat, e: nat, p: nat)
    requires p > 0
    ensures pow_mod_spec(b % p, e, p) == pow_mod_spec(b, e, p)
{
    lemma_pms_pow(b % p, e, p);
    lemma_pms_pow(b, e, p);
    lemma_pow_mod_noop(b as int, e, p as int);
}

/// one iteration: exp odd multiplies x by sq; sq is squared; exp is halved
pub proof fn lemma_sqmul_step(b: nat, e: nat, x: nat, sq: nat, exp: nat, p: nat)
    requires p > 1, exp > 0, sqmul_inv(b, e, x, sq, exp, p)
    ensures
        exp % 2 == 1 ==> sqmul_inv(b, e, (x * sq) % p, (sq * sq) % p, exp / 2, p),
        exp % 2 == 0 ==> sqmul_inv(b, e, x, (sq * sq) % p, exp / 2, p),
{
    let h = exp / 2;
    let s2 = (sq * sq) % p;
    let pi = p as int;
    // sq^(2h) == (sq^2)^h
    lemma_pms_pow(sq, 2 * h, p);
    lemma_pms_pow(s2, h, p);
    lemma_pms_pow(sq * sq, h, p);
    lemma_pms_base_mod(sq * sq, h, p);
    lemma_pow_multiplies(sq as int, 2, h);
    assert(pow(sq as int, 2) == sq as int * sq as int) by { reveal(pow); lemma_pow1(sq as int); lemma_pow_adds(sq as int, 1, 1); }
    assert(pow_mod_spec(sq, 2 * h, p) == pow_mod_spec(s2, h, p));
    if exp % 2 == 0 {
        assert(exp == 2 * h);
    } else {
        assert(exp == 2 * h + 1);
        // sq^(2h+1) = sq * sq^(2h)
        let t = pow_mod_spec(s2, h, p);
        assert(pow_mod_spec(sq, exp, p) == (sq * t) % p);
        // x * ((sq t) % p) ≡ x sq t ≡ ((x sq) % p) t
        lemma_mul_mod_noop_right(x as int, (sq * t) as int, pi);
        lemma_mul_assoc(x as int, sq as int, t as int);
        lemma_mul_mod_noop_left((x * sq) as int, t as int, pi);
    }
}

pub proof fn lemma_sqmul_done(b: nat, e: nat, x: nat, sq: nat, p: nat)
    requires p > 1, x < p, sqmul_inv(b, e, x, sq, 0, p)
    ensures pow_mod_spec(b, e, p) == x
{
    lemma_small_mod(1, p);
    lemma_mul_one(x as int);
    lemma_small_mod(x, p);
}

// ------------------------------------------------------------------ the squaring chain of a Miller round

/// V_j = b^(d * 2^j) mod n
pub open spec fn mchain(b: nat, d: nat, n: nat, j: nat) -> nat {
    pow_mod_spec(b, d * pow2n(j), n)
}

/// some V_r with r <= j equals n - 1
pub open spec fn mwit(b: nat, d: nat, n: nat, j: nat) -> bool
    decreases j
{
    mchain(b, d, n, j) == (n - 1) as nat || (j > 0 && mwit(b, d, n, (j - 1) as nat))
}

pub proof fn lemma_mwit_exists(b: nat, d: nat, n: nat, j: nat)
    ensures mwit(b, d, n, j) == (exists|r: nat| r <= j && #[trigger] pow_mod_spec(b, d * pow2n(r), n) == (n - 1) as nat)
    decreases j
{
    if j > 0 {
        lemma_mwit_exists(b, d, n, (j - 1) as nat);
    }
    if mwit(b, d, n, j) {
        if mchain(b, d, n, j) == (n - 1) as nat {
            assert(j <= j && pow_mod_spec(b, d * pow2n(j), n) == (n - 1) as nat);
        } else {
            let r = choose|r: nat| r <= (j - 1) as nat && #[trigger] pow_mod_spec(b, d * pow2n(r), n) == (n - 1) as nat;
            assert(r <= j && pow_mod_spec(b, d * pow2n(r), n) == (n - 1) as nat);
        }
    }
    if exists|r: nat| r <= j && #[trigger] pow_mod_spec(b, d * pow2n(r), n) == (n - 1) as nat {
        let r = choose|r: nat| r <= j && #[trigger] pow_mod_spec(b, d * pow2n(r), n) == (n - 1) as nat;
        if r < j {
            assert(r <= (j - 1) as nat && pow_mod_spec(b, d * pow2n(r), n) == (n - 1) as nat);
        }
    }
}

/// sprp in terms of the chain
pub proof fn lemma_sprp_chain(n: nat, b: nat)
    ensures sprp(n, b) == (mchain(b, odd_part((n - 1) as nat), n, 0) == 1nat % n
        || mwit(b, odd_part((n - 1) as nat), n, val2((n - 1) as nat)))
{
    let d = odd_part((n - 1) as nat);
    lemma_mwit_exists(b, d, n, val2((n - 1) as nat));
    lemma_mul_one(d as int);
    assert(pow2n(0) == 1);
}

pub proof fn lemma_mwit_mono(b: nat, d: nat, n: nat, j: nat, s: nat)
    requires j <= s, mwit(b, d, n, j)
    ensures mwit(b, d, n, s)
    decreases s - j
{
    if s > j {
        lemma_mwit_mono(b, d, n, j, (s - 1) as nat);
    }
}

pub proof fn lemma_mchain_next(b: nat, d: nat, n: nat, j: nat)
    requires n > 0
    ensures mchain(b, d, n, j + 1) == (mchain(b, d, n, j) * mchain(b, d, n, j)) % n
{
    let e = d * pow2n(j);
    assert(pow2n(j + 1) == 2 * pow2n(j));
    lemma_mul_assoc(d as int, 2, pow2n(j) as int);
    lemma_mul_comm(d as int, 2);
    lemma_mul_assoc(2, d as int, pow2n(j) as int);
    assert(d * pow2n(j + 1) == 2 * e);
    lemma_pms_double(b, e, n);
}

/// once the chain reaches 1 it stays there, so no later witness appears
pub proof fn lemma_mchain_one(b: nat, d: nat, n: nat, j: nat, s: nat)
    requires n > 2, j <= s, mchain(b, d, n, j) == 1
    ensures mwit(b, d, n, s) == (j > 0 && mwit(b, d, n, (j - 1) as nat)), mchain(b, d, n, s) == 1
    decreases s - j
{
    assert(mwit(b, d, n, s) == (mchain(b, d, n, s) == (n - 1) as nat || (s > 0 && mwit(b, d, n, (s - 1) as nat))));
    if s > j {
        lemma_mchain_one(b, d, n, j, (s - 1) as nat);
        lemma_mchain_next(b, d, n, (s - 1) as nat);
        lemma_small_mod(1, n);
    }
}


// ------------------------------------------------------------------ the same, for any Montgomery radix R = 2^e (multiword ZmodN)

/// m represents v for the radix r: m = v * r mod p
pub open spec fn grep(m: nat, v: nat, p: nat, r: nat) -> bool {
    m < p && v < p && m as int == (v as int * r as int) % (p as int)
}

pub proof fn lemma_grep_inj(m1: nat, v1: nat, m2: nat, v2: nat, p: nat, r: nat, e: nat)
    requires p % 2 == 1, p > 0, r == pow2(e), grep(m1, v1, p, r), grep(m2, v2, p, r)
    ensures (m1 == m2) == (v1 == v2)
{
    if m1 == m2 && v1 != v2 {
        assert(cong(v1 as int * pow2(e) as int, v2 as int * pow2(e) as int, p as int)) by {
            lemma_mod_twice(v1 as int * r as int, p as int);
            lemma_mod_twice(v2 as int * r as int, p as int);
        }
        lemma_cancel_pow2(v1 as int, v2 as int, p as int, e);
        lemma_cong_small(v1 as int, v2 as int, p as int);
    }
}

pub proof fn lemma_grep_mul(x: nat, vx: nat, y: nat, vy: nat, z: nat, p: nat, r: nat, e: nat)
    requires
        p % 2 == 1, p > 0, r == pow2(e), grep(x, vx, p, r), grep(y, vy, p, r), z < p,
        (z * r) % p == (x * y) % p,
    ensures grep(z, (vx * vy) % p, p, r)
{
    let pi = p as int;
    let ri = r as int;
    lemma_cong_mod(vx as int * ri, pi);
    lemma_cong_mod(vy as int * ri, pi);
    lemma_cong_mul(x as int, vx as int * ri, y as int, pi);
    lemma_cong_mul(y as int, vy as int * ri, vx as int * ri, pi);
    assert(cong(x as int * y as int, (vx as int * ri) * (vy as int * ri), pi));
    let w = (vx * vy) % p;
    lemma_cong_mod(vx as int * vy as int, pi);
    assert((vx as int * ri) * (vy as int * ri) == ((vx as int * vy as int) * ri) * ri) by {
        lemma_mul_assoc(vx as int * ri, vy as int, ri);
        lemma_mul_assoc(vx as int, ri, vy as int);
        lemma_mul_comm(ri, vy as int);
        lemma_mul_assoc(vx as int, vy as int, ri);
    }
    lemma_cong_mul((vx * vy) as int, w as int, ri, pi);
    lemma_cong_mul((vx * vy) as int * ri, w as int * ri, ri, pi);
    assert(cong(z as int * ri, (w as int * ri) * ri, pi));
    lemma_cancel_pow2(z as int, w as int * ri, pi, e);
    lemma_mod_bound((vx * vy) as int, pi);
    lemma_small_mod(z, p);
}

/// r mod p represents 1 and p - (r mod p) represents p - 1
pub proof fn lemma_grep_one(p: nat, r: nat, e: nat, r1: nat)
    requires p >= 3, p % 2 == 1, r == pow2(e), r1 == r % p
    ensures grep(r1, 1, p, r), 0 < r1 < p, grep((p - r1) as nat, (p - 1) as nat, p, r)
{
    let pi = p as int;
    let ri = r as int;
    lemma_mod_bound(ri, pi);
    lemma_mul_one(ri);
    if r1 == 0 {
        lemma_fundamental_div_mod(ri, pi);
        lemma_odd_not_div_pow2(pi, ri / pi, e, ri);
    }
    lemma_distrib_r_sub(pi, 1, ri);
    lemma_cong_add_multiple(-ri, ri, pi);
    lemma_fundamental_div_mod(ri, pi);
    let k = ri / pi;
    assert(-ri == (pi - r1 as int) - pi * (k + 1)) by { lemma_distrib_l(pi, k, 1); lemma_mul_one(pi); }
    lemma_cong_add_multiple(pi - r1 as int, k + 1, pi);
    lemma_mul_comm(pi, k + 1);
    lemma_small_mod((p - r1) as nat, p);
    assert(((pi - 1) * ri) % pi == pi - r1 as int);
}

// ------------------------------------------------------------------ LSB-first binary exponentiation (pseudoprime::pow_mod)

/// e mod 2^(b+1) = e mod 2^b + 2^b * bit_b(e)
pub proof fn lemma_low_bits_step(e: nat, b: nat)
    ensures e % pow2(b + 1) == e % pow2(b) + pow2(b) * ((e / pow2(b)) % 2),
        (e / pow2(b)) % 2 == 0 ==> e % pow2(b + 1) == e % pow2(b),
        (e / pow2(b)) % 2 == 1 ==> e % pow2(b + 1) == e % pow2(b) + pow2(b),
{
    lemma_mul_one(pow2(b) as int);
    lemma_pow2_pos(b);
    lemma_pow2_unfold(b + 1);
    lemma_mul_comm(2, pow2(b) as int);
    lemma_breakdown(e as int, pow2(b) as int, 2);
}

/// squaring the base power: X^(2^b) squared is X^(2^(b+1))
pub proof fn lemma_pms_pow2_step(x: nat, b: nat, n: nat)
    requires n > 0
    ensures pow_mod_spec(x, pow2(b + 1), n) == (pow_mod_spec(x, pow2(b), n) * pow_mod_spec(x, pow2(b), n)) % n
{
    lemma_pow2_unfold(b + 1);
    lemma_pms_double(x, pow2(b), n);
}

// ------------------------------------------------------------------ a Miller round started from an even multiple of the odd part

/// n = odd_part(n) * 2^val2(n) for n > 0
pub proof fn lemma_val2_decomp(n: nat)
    requires n > 0
    ensures n == odd_part(n) * pow2(val2(n)), odd_part(n) % 2 == 1
    decreases n
{
    lemma2_to64();
    if n % 2 == 1 {
        lemma_mul_one(n as int);
    } else {
        lemma_val2_decomp(n / 2);
        lemma_pow2_unfold(val2(n));
        let o = odd_part(n / 2);
        let h = pow2(val2(n / 2));
        lemma_mul_assoc(o as int, 2, h as int);
        lemma_mul_comm(o as int, 2);
        lemma_mul_assoc(2, o as int, h as int);
    }
}

/// chain started at d' = d 2^o is the chain of d shifted by o
pub proof fn lemma_mchain_shift(b: nat, d: nat, o: nat, n: nat, j: nat)
    ensures mchain(b, d * pow2n(o), n, j) == mchain(b, d, n, j + o)
{
    lemma_pow2n_is_pow2(o); lemma_pow2n_is_pow2(j); lemma_pow2n_is_pow2(j + o);
    lemma_pow2_adds(o, j);
    lemma_mul_assoc(d as int, pow2(o) as int, pow2(j) as int);
}

pub proof fn lemma_mchain_one_fwd(b: nat, d: nat, n: nat, j: nat, s: nat)
    requires n > 2, j <= s, mchain(b, d, n, j) == 1
    ensures mchain(b, d, n, s) == 1
{
    lemma_mchain_one(b, d, n, j, s);
}

/// a witness in the shifted chain, from a witness in the true chain
pub proof fn lemma_mwit_shift(b: nat, d: nat, o: nat, n: nat, s: nat, r: nat)
    requires n > 2, r <= s + o, mchain(b, d, n, r) == (n - 1) as nat
    ensures mchain(b, d * pow2n(o), n, 0) == 1 || mwit(b, d * pow2n(o), n, s)
{
    let dd = d * pow2n(o);
    if r >= o {
        lemma_mchain_shift(b, d, o, n, (r - o) as nat);
        assert(mwit(b, dd, n, (r - o) as nat));
        lemma_mwit_mono(b, dd, n, (r - o) as nat, s);
    } else {
        // V_r = -1, so V_(r+1) = 1 and the shifted chain starts at 1
        lemma_mchain_next(b, d, n, r);
        let m = (n - 1) as nat;
        assert((m * m) % n == 1) by {
            assert(m * m == n * (n - 2) + 1) by (nonlinear_arith) requires m == n - 1, n > 2;
            lemma_mod_multiples_vanish((n - 2) as int, 1, n as int);
            lemma_mul_comm(n as int, (n - 2) as int);
            lemma_small_mod(1, n);
        }
        lemma_mchain_one_fwd(b, d, n, r + 1, o);
        lemma_mchain_shift(b, d, o, n, 0);
    }
}

/// sprp for the true decomposition implies acceptance by the round started at d' = d 2^o with s squarings (s + o = val2)
pub proof fn lemma_sprp_shift(n: nat, b: nat, dd: nat, s: nat)
    requires n > 2, n % 2 == 1, sprp(n, b), dd > 0, (n - 1) as nat == dd * pow2(s)
    ensures mchain(b, dd, n, 0) == 1 || mwit(b, dd, n, s)
{
    let d = odd_part((n - 1) as nat);
    let st = val2((n - 1) as nat);
    lemma_val2_decomp(dd);
    let o = val2(dd);
    let d2 = odd_part(dd);
    // n - 1 = d2 2^o 2^s = d2 2^(o+s)
    lemma_pow2_adds(o, s);
    lemma_mul_assoc(d2 as int, pow2(o) as int, pow2(s) as int);
    lemma_val2_char((n - 1) as nat, o + s, d2);
    assert(d == d2 && st == o + s);
    lemma_pow2n_is_pow2(o);
    assert(dd == d * pow2n(o));
    lemma_sprp_chain(n, b);
    lemma_small_mod(1, n);
    if mchain(b, d, n, 0) == 1 {
        lemma_mchain_one_fwd(b, d, n, 0, o);
        lemma_mchain_shift(b, d, o, n, 0);
    } else {
        lemma_mwit_exists(b, d, n, st);
        let r = choose|r: nat| r <= st && #[trigger] pow_mod_spec(b, d * pow2n(r), n) == (n - 1) as nat;
        lemma_mwit_shift(b, d, o, n, s, r);
    }
}


/// the decomposition computed by `pseudoprime` for a multiword odd p: s = tz(low word - 1), d' = p >> s
pub proof fn lemma_miller_decomp_big(pv: nat, low: u64, s: u32)
    requires
        pv % 2 == 1, pv >= 0x1_0000_0000_0000_0000, low as nat == pv % 0x1_0000_0000_0000_0000, low >= 1,
        s == u64_trailing_zeros((low - 1) as u64),
    ensures
        1 <= s <= 64,
        (pv - 1) as nat == (pv / pow2(s as nat)) * pow2(s as nat),
        pv / pow2(s as nat) > 0,
{
    let w = 0x1_0000_0000_0000_0000int;
    lemma2_to64();
    lemma_fundamental_div_mod(pv as int, w);
    let hi = pv as int / w;
    let q = (low - 1) as u64;
    lemma_mod_of_mod(pv as int, w, 2);
    assert(low % 2 == 1);
    if q == 0 {
        axiom_u64_trailing_zeros(0);
        assert(u64_trailing_zeros(0) == 64);
        lemma_mul_comm(w, hi);
        assert(pv as int - 1 == hi * w);
        assert(hi > 0);
    } else {
        lemma_tz_arith(q, s);
        let ps = pow2(s as nat) as int;
        lemma_pow2_pos(s as nat);
        if s == 0 { assert(ps == 1); }
        lemma_pow2_adds(s as nat, (64 - s) as nat);
        let pr = pow2((64 - s) as nat) as int;
        lemma_fundamental_div_mod(q as int, ps);
        let qq = q as int / ps;
        let m = pr * hi + qq;
        // pv - 1 = w hi + q = ps (pr hi) + ps qq = ps m
        lemma_mul_assoc(ps, pr, hi);
        lemma_distrib_l(ps, pr * hi, qq);
        assert(pv as int - 1 == ps * m);
        lemma_pow2_pos((64 - s) as nat);
        lemma_mul_pos(pr, hi);
        assert(ps >= 2) by { lemma_pow2_unfold(s as nat); lemma_pow2_pos((s - 1) as nat); }
        lemma_fundamental_div_mod_converse(pv as int, ps, m, 1);
        lemma_mul_comm(ps, m);
    }
}

} // verus!
verus! {
/// Miller decomposition of an odd multiword p: p - 1 = d 2^s with s the number of trailing zeros of p - 1 and d = p >> s odd
pub proof fn lemma_miller_decomp_full(pv: nat, s: u32)
    requires pv % 2 == 1, pv >= 3, (pv - 1) as nat % pow2(s as nat) == 0, (((pv - 1) as nat) / pow2(s as nat)) % 2 == 1,
    ensures
        s >= 1,
        (pv - 1) as nat == (pv / pow2(s as nat)) * pow2(s as nat),
        pv / pow2(s as nat) > 0, (pv / pow2(s as nat)) % 2 == 1,
{
    let m = (pv - 1) as nat;
    let ps = pow2(s as nat);
    lemma_pow2_pos(s as nat);
    lemma2_to64();
    if s == 0 { assert(m / 1 == m); assert(false); }
    lemma_pow2_unfold(s as nat);
    lemma_fundamental_div_mod(m as int, ps as int);
    let d = m / ps;
    // pv = d ps + 1 with 1 < ps: pv / ps == d
    lemma_mul_comm(ps as int, d as int);
    lemma_fundamental_div_mod_converse(pv as int, ps as int, d as int, 1);
}
} // verus!
