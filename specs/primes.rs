//! Primality vocabulary and the two number-theoretic axioms behind the deterministic Miller test (T-math).
#![allow(unused_imports, dead_code, unused_variables, non_snake_case)]
use vstd::prelude::*;
use super::nl::*;
use super::modarith::*;
verus! {

pub open spec fn is_prime(n: nat) -> bool {
    n >= 2 && forall|d: nat| 2 <= d < n ==> #[trigger] (n % d) != 0
}

/// b^e mod n
pub open spec fn pow_mod_spec(b: nat, e: nat, n: nat) -> nat
    decreases e
{
    if e == 0 { 1nat % n } else { (b * pow_mod_spec(b, (e - 1) as nat, n)) % n }
}

/// 2-adic valuation and odd part
pub open spec fn val2(n: nat) -> nat decreases n { if n == 0 || n % 2 == 1 { 0 } else { 1 + val2(n / 2) } }
pub open spec fn pow2n(e: nat) -> nat decreases e { if e == 0 { 1 } else { 2 * pow2n((e - 1) as nat) } }
pub open spec fn odd_part(n: nat) -> nat decreases n { if n == 0 || n % 2 == 1 { n } else { odd_part(n / 2) } }

/// The test performed by a Miller round for base b on an odd n > 2 (n - 1 = d * 2^s, d odd):
/// b^d ≡ 1, or b^(d*2^r) ≡ -1 for some 0 <= r <= s.
/// Classical strong probable primality quantifies r < s; the extra case r = s (b^(n-1) ≡ -1) cannot occur for
/// any n: it would force v2(p-1) > v2(n-1) for every prime p | n, contradicting n ≡ 1 (mod 2^(v2(n-1)+1)).
/// The real code squares s times, so this is the predicate it computes; A2 is stated for it.
pub open spec fn sprp(n: nat, b: nat) -> bool {
    let s = val2((n - 1) as nat);
    let d = odd_part((n - 1) as nat);
    pow_mod_spec(b, d, n) == 1nat % n
        || exists|r: nat| r <= s && #[trigger] pow_mod_spec(b, d * pow2n(r), n) == (n - 1) as nat
}

/// A1 (Miller / Fermat + square roots of 1 modulo a prime): a prime passes the round for every base it does not divide.
#[verifier::external_body]
pub proof fn axiom_miller(p: nat, b: nat)
    requires is_prime(p), p % 2 == 1, 0 < b < p,
    ensures sprp(p, b)
{}

/// A2 (Pomerance-Selfridge-Wagstaff 1980, Jaeschke 1993, Sorenson-Webster 2015): the least odd composite
/// passing the rounds for the first k prime bases is psi_k; psi_2 = 1373653, psi_5 = 2152302898747,
/// psi_12 = 318665857834031151167461 (= psi_13).
#[verifier::external_body]
pub proof fn axiom_psi2(n: nat)
    requires n % 2 == 1, 3 < n < 1373653, sprp(n, 2), sprp(n, 3),
    ensures is_prime(n)
{}
#[verifier::external_body]
pub proof fn axiom_psi5(n: nat)
    requires n % 2 == 1, 11 < n < 2152302898747, sprp(n, 2), sprp(n, 3), sprp(n, 5), sprp(n, 7), sprp(n, 11),
    ensures is_prime(n)
{}
#[verifier::external_body]
pub proof fn axiom_psi12(n: nat)
    requires n % 2 == 1, 37 < n < 318665857834031151167461,
        sprp(n, 2), sprp(n, 3), sprp(n, 5), sprp(n, 7), sprp(n, 11), sprp(n, 13), sprp(n, 17), sprp(n, 19),
        sprp(n, 23), sprp(n, 29), sprp(n, 31), sprp(n, 37),
    ensures is_prime(n)
{}

pub proof fn lemma_even_not_prime(n: nat)
    requires n > 2, n % 2 == 0
    ensures !is_prime(n)
{
    assert(n % 2 == 0);
}


/// computable trial division: no divisor of n in [2, d)
pub open spec fn no_div_below(n: nat, d: nat) -> bool
    decreases d
{
    if d <= 2 { true } else { n % ((d - 1) as nat) != 0 && no_div_below(n, (d - 1) as nat) }
}
pub open spec fn is_prime_c(n: nat) -> bool { n >= 2 && no_div_below(n, n) }

pub proof fn lemma_no_div_below(n: nat, d: nat)
    ensures no_div_below(n, d) <==> (forall|k: nat| 2 <= k < d ==> #[trigger] (n % k) != 0)
    decreases d
{
    if d > 2 {
        lemma_no_div_below(n, (d - 1) as nat);
        if no_div_below(n, d) {
            assert forall|k: nat| 2 <= k < d implies #[trigger] (n % k) != 0 by {
                if k == d - 1 { } else { }
            }
        } else {
            if n % ((d - 1) as nat) != 0 {
                assert(!no_div_below(n, (d - 1) as nat));
            }
        }
    }
}

pub proof fn lemma_is_prime_c(n: nat)
    ensures is_prime_c(n) == is_prime(n)
{
    lemma_no_div_below(n, n);
}

} // verus!
