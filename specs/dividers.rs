//! Arithmetic behind `arith::Dividers::new`: the reciprocal 2^127 / p, its normalisation, and the derived constants.
#![allow(unused_imports, dead_code, unused_variables, non_snake_case)]
use vstd::prelude::*;
use vstd::arithmetic::div_mod::*;
use vstd::arithmetic::mul::*;
use vstd::arithmetic::power2::*;
use super::nl::*;
use super::divide::*;
verus! {

/// floor(floor(2^a / p) / 2^k) = floor(2^(a-k) / p)
pub proof fn lemma_recip_shift(a: nat, k: nat, p: int)
    requires p > 0, k <= a
    ensures (pow2(a) as int / p) / (pow2(k) as int) == pow2((a - k) as nat) as int / p
{
    let x = pow2(a) as int;
    let c = pow2(k) as int;
    lemma_pow2_pos(k);
    lemma_pow2_pos(a);
    lemma_div_denominator(x, p, c);
    lemma_mul_comm(p, c);
    lemma_div_denominator(x, c, p);
    // 2^a / 2^k = 2^(a-k)
    lemma_pow2_adds((a - k) as nat, k);
    lemma_div_by_multiple(pow2((a - k) as nat) as int, c);
}

/// the bit length of m = floor(2^127 / p) pins p between two consecutive powers of two
pub proof fn lemma_recip_size(p: int, m: int, sz: nat)
    requires
        3 <= p < 0x4000_0000, p % 2 == 1, m == pow2(127) as int / p,
        1 <= sz <= 127, pow2((sz - 1) as nat) as int <= m, m < pow2(sz) as int,
    ensures
        1 <= 127 - sz < 30,
        (pow2((127 - sz) as nat) as int) < p, p < pow2((128 - sz) as nat) as int,
{
    let x = pow2(127) as int;
    let s = (127 - sz) as nat;
    lemma_fundamental_div_mod(x, p);
    lemma_mod_bound(x, p);
    lemma_pow2_pos((sz - 1) as nat);
    lemma_pow2_pos(sz);
    lemma_pow2_pos(s);
    // p 2^(sz-1) <= p m <= 2^127 = 2^(s+1) 2^(sz-1)
    lemma_mul_le2(p, p, pow2((sz - 1) as nat) as int, m);
    lemma_pow2_adds(s + 1, (sz - 1) as nat);
    lemma_mul_comm(pow2(s + 1) as int, pow2((sz - 1) as nat) as int);
    if p > pow2(s + 1) as int {
        lemma_mul_lt_pos(pow2(s + 1) as int, p, pow2((sz - 1) as nat) as int);
        assert(false);
    }
    // p odd >= 3 is not the power of two 2^(s+1)
    if p == pow2(s + 1) as int {
        lemma_odd_not_div_pow2(p, 1, s + 1, p);
        lemma_mul_one(p);
        assert(false);
    }
    // p 2^sz >= p (m + 1) > 2^127 = 2^s 2^sz
    lemma_mul_le2(p, p, m + 1, pow2(sz) as int);
    lemma_distrib_l(p, m, 1);
    lemma_mul_one(p);
    lemma_pow2_adds(s, sz);
    if p <= pow2(s) as int {
        lemma_mul_le2(p, pow2(s) as int, pow2(sz) as int, pow2(sz) as int);
        assert(false);
    }
    // 2^s < p < 2^30 gives s < 30; p >= 3 with p < 2^(s+1) gives s >= 1
    lemma2_to64();
    if s >= 30 { if s > 30 { lemma_pow2_strictly_increases(30, s); } assert(false); }
    if s == 0 { assert(false); }
}

/// floor(2^(64+s) / p) <= 2^64 - 2 when 2^s < p
pub proof fn lemma_recip_fits(p: int, s: nat)
    requires (pow2(s) as int) < p, p < 0x4000_0000
    ensures pow2(64 + s) as int / p <= 0xffff_ffff_ffff_fffe, pow2(64 + s) as int / p >= 0
{
    let x = pow2(64 + s) as int;
    lemma_pow2_pos(64 + s);
    lemma_pow2_pos(s);
    lemma_pow2_adds(64, s);
    lemma2_to64();
    lemma_fundamental_div_mod(x, p);
    lemma_mod_bound(x, p);
    let q = x / p;
    if q >= 0xffff_ffff_ffff_ffff {
        // p q >= p (2^64 - 1) = p 2^64 - p >= (2^s + 1) 2^64 - p > 2^(64+s)
        lemma_mul_le2(p, p, 0xffff_ffff_ffff_ffff, q);
        lemma_distrib_l_sub(p, 0x1_0000_0000_0000_0000, 1);
        lemma_mul_one(p);
        lemma_mul_le2(pow2(s) as int + 1, p, 0x1_0000_0000_0000_0000, 0x1_0000_0000_0000_0000);
        lemma_distrib_r(pow2(s) as int, 1, 0x1_0000_0000_0000_0000);
        lemma_mul_one(0x1_0000_0000_0000_0000);
        lemma_mul_comm(pow2(s) as int, 0x1_0000_0000_0000_0000);
        assert(false);
    }
    lemma_div_pos_is_pos(x, p);
}

/// (2^64 - 1) % p + 1 == 2^64 % p for odd p >= 3
pub proof fn lemma_r64(p: int)
    requires 3 <= p, p % 2 == 1
    ensures (0xffff_ffff_ffff_ffffint % p) + 1 == 0x1_0000_0000_0000_0000int % p, 0 < 0x1_0000_0000_0000_0000int % p < p
{
    let w = 0x1_0000_0000_0000_0000int;
    lemma_fundamental_div_mod(w - 1, p);
    lemma_mod_bound(w - 1, p);
    lemma_mod_bound(w, p);
    let t = (w - 1) % p;
    let q = (w - 1) / p;
    lemma2_to64();
    if w % p == 0 {
        lemma_fundamental_div_mod(w, p);
        lemma_odd_not_div_pow2(p, w / p, 64, w);
    }
    if t + 1 < p {
        lemma_fundamental_div_mod_converse(w, p, q, t + 1);
    } else {
        // w = p q + p = p (q + 1): p | 2^64
        lemma_distrib_l(p, q, 1);
        lemma_mul_one(p);
        lemma_odd_not_div_pow2(p, q + 1, 64, w);
    }
}

/// the sanity check of Dividers::new: m = floor(2^64 / p), 2^64 - m p == 2^64 % p, m p < 2^64
pub proof fn lemma_sanity(p: int, m: int)
    requires 3 <= p < 0x4000_0000, p % 2 == 1, m == 0x1_0000_0000_0000_0000int / p
    ensures 0 < m * p < 0x1_0000_0000_0000_0000int, 0x1_0000_0000_0000_0000int - m * p == 0x1_0000_0000_0000_0000int % p
{
    let w = 0x1_0000_0000_0000_0000int;
    lemma_fundamental_div_mod(w, p);
    lemma_r64(p);
    lemma_mul_comm(p, m);
    lemma_mod_bound(w, p);
    if m <= 0 {
        // w = p m + r <= r < p < w
        lemma_mul_nonneg(p, -m);
        lemma_mul_neg(p, m);
        assert(false);
    }
    lemma_mul_pos(m, p);
}

} // verus!
