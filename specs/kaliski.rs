//! Integer facts behind `arith::Inverter` (Kaliski's almost-inverse with precomputed inverse powers of two).
#![allow(unused_imports, dead_code, unused_variables, non_snake_case)]
use vstd::prelude::*;
use vstd::arithmetic::div_mod::*;
use vstd::arithmetic::mul::*;
use vstd::arithmetic::power2::*;
use super::nl::*;
use super::modarith::*;
use super::numint::*;
use super::qsroots::*;
verus! {

/// no common divisor >= 2
pub open spec fn coprime(a: nat, b: nat) -> bool {
    forall|e: nat| e >= 2 ==> !(#[trigger] dvd(e, a) && dvd(e, b))
}

pub proof fn lemma_coprime_sym(a: nat, b: nat)
    requires coprime(a, b)
    ensures coprime(b, a)
{
    assert forall|e: nat| e >= 2 implies !(#[trigger] dvd(e, b) && dvd(e, a)) by {
        if dvd(e, b) && dvd(e, a) { assert(dvd(e, a) && dvd(e, b)); }
    }
}

/// u > v, u - v = w * 2^t: a common divisor of w and v divides u
pub proof fn lemma_coprime_step(u: nat, v: nat, w: nat, t: nat)
    requires coprime(u, v), u >= v, u - v == w * pow2(t)
    ensures coprime(w, v)
{
    assert forall|e: nat| e >= 2 implies !(#[trigger] dvd(e, w) && dvd(e, v)) by {
        if dvd(e, w) && dvd(e, v) {
            lemma_dvd_mul_right(e, w, pow2(t));
            // e | u - v and e | v  =>  e | u
            lemma_dvd_add_mul(e, (u - v) as nat, v, 1);
            lemma_mul_one(v as int);
            assert(dvd(e, u) && dvd(e, v));
        }
    }
}

pub proof fn lemma_coprime_same(u: nat)
    requires coprime(u, u), u >= 1
    ensures u == 1
{
    if u >= 2 {
        lemma_mod_self_0(u as int);
        assert(dvd(u, u) && dvd(u, u));
    }
}

/// dividing an even number by a power of two that divides it keeps it coprime to anything
pub proof fn lemma_coprime_shift(a: nat, b: nat, w: nat, t: nat)
    requires coprime(a, b), a == w * pow2(t)
    ensures coprime(w, b)
{
    assert forall|e: nat| e >= 2 implies !(#[trigger] dvd(e, w) && dvd(e, b)) by {
        if dvd(e, w) && dvd(e, b) {
            lemma_dvd_mul_right(e, w, pow2(t));
            assert(dvd(e, a) && dvd(e, b));
        }
    }
}

/// the two congruences carried by the loop:  r x ≡ -u 2^k  and  s x ≡ v 2^k  (mod p)
pub open spec fn kal_cong(r: int, s: int, u: int, v: int, k: nat, x: int, p: int) -> bool {
    cong(r * x, -(u * pow2(k) as int), p) && cong(s * x, v * pow2(k) as int, p)
}

/// step `diff > 0`: (u, r, s) <- ((u - v) / 2^t, r + s, s 2^t)
pub proof fn lemma_kal_step_u(r: int, s: int, u: int, v: int, w: int, k: nat, t: nat, x: int, p: int)
    requires p > 0, kal_cong(r, s, u, v, k, x, p), u - v == w * pow2(t) as int
    ensures kal_cong(r + s, s * pow2(t) as int, w, v, k + t, x, p)
{
    let pk = pow2(k) as int;
    let pt = pow2(t) as int;
    lemma_pow2_adds(k, t);
    // (r + s) x = r x + s x ≡ -u pk + v pk = -(u - v) pk = -(w pt) pk = -(w (pk pt))
    lemma_distrib_r(r, s, x);
    lemma_cong_add(r * x, -(u * pk), s * x, v * pk, p);
    assert(-(u * pk) + v * pk == -(w * (pk * pt))) by (nonlinear_arith) requires u - v == w * pt;
    // (s pt) x = (s x) pt ≡ (v pk) pt = v (pk pt)
    lemma_cong_mul(s * x, v * pk, pt, p);
    assert((s * pt) * x == (s * x) * pt) by (nonlinear_arith);
    assert((v * pk) * pt == v * (pk * pt)) by (nonlinear_arith);
}

/// step `diff < 0`: (v, r, s) <- ((v - u) / 2^t, r 2^t, r + s)
pub proof fn lemma_kal_step_v(r: int, s: int, u: int, v: int, w: int, k: nat, t: nat, x: int, p: int)
    requires p > 0, kal_cong(r, s, u, v, k, x, p), v - u == w * pow2(t) as int
    ensures kal_cong(r * pow2(t) as int, r + s, u, w, k + t, x, p)
{
    let pk = pow2(k) as int;
    let pt = pow2(t) as int;
    lemma_pow2_adds(k, t);
    // (r pt) x = (r x) pt ≡ -(u pk) pt = -(u (pk pt))
    lemma_cong_mul(r * x, -(u * pk), pt, p);
    assert((r * pt) * x == (r * x) * pt) by (nonlinear_arith);
    assert((-(u * pk)) * pt == -(u * (pk * pt))) by (nonlinear_arith);
    // (r + s) x ≡ -u pk + v pk = (v - u) pk = w pt pk
    lemma_distrib_r(r, s, x);
    lemma_cong_add(r * x, -(u * pk), s * x, v * pk, p);
    assert(-(u * pk) + v * pk == w * (pk * pt)) by (nonlinear_arith) requires v - u == w * pt;
}

/// the debug assertion of `Inverter::invert`: r x + u 2^k is a multiple of p
pub proof fn lemma_kal_debug(r: int, u: int, k: nat, x: int, p: int)
    requires p > 0, cong(r * x, -(u * pow2(k) as int), p)
    ensures (r * x + u * pow2(k) as int) % p == 0
{
    let b = u * pow2(k) as int;
    lemma_cong_refl(b, p);
    lemma_cong_add(r * x, -b, b, b, p);
    lemma_small_mod(0, p as nat);
}

/// the exact invariant u s + v r = p bounds r and s (u, v >= 1)
pub proof fn lemma_kal_bounds(u: int, v: int, r: int, s: int, p: int)
    requires u >= 1, v >= 1, r >= 0, s >= 0, u * s + v * r == p
    ensures r + s <= p, s <= p, r <= p
{
    lemma_mul_le2(1, u, s, s);
    lemma_mul_le2(1, v, r, r);
    lemma_mul_one(s);
    lemma_mul_one(r);
}

/// step u keeps  u s + v r = p  and shrinks  u v 2^k
pub proof fn lemma_kal_exact_u(u: int, v: int, w: int, r: int, s: int, pt: int, p: int)
    requires u * s + v * r == p, u - v == w * pt, pt >= 1, w >= 1, s >= 0, v >= 1, r >= 0
    ensures w * (s * pt) + v * (r + s) == p, s * pt <= p
{
    assert(w * (s * pt) + v * (r + s) == (u * s + v * r)) by (nonlinear_arith) requires u - v == w * pt;
    lemma_mul_nonneg(v, r + s);
    lemma_mul_le2(1, w, s * pt, s * pt);
    lemma_mul_one(s * pt);
    lemma_mul_nonneg(s, pt);
}

pub proof fn lemma_kal_exact_v(u: int, v: int, w: int, r: int, s: int, pt: int, p: int)
    requires u * s + v * r == p, v - u == w * pt, pt >= 1, w >= 1, r >= 0, u >= 1, s >= 0
    ensures u * (r + s) + w * (r * pt) == p, r * pt <= p
{
    assert(u * (r + s) + w * (r * pt) == (u * s + v * r)) by (nonlinear_arith) requires v - u == w * pt;
    lemma_mul_nonneg(u, r + s);
    lemma_mul_le2(1, w, r * pt, r * pt);
    lemma_mul_one(r * pt);
    lemma_mul_nonneg(r, pt);
}

/// the potential  u v 2^k  does not grow:  w 2^t = |u - v| < max(u, v)
pub proof fn lemma_kal_potential(a: int, w: int, b: int, pk: int, pt: int)
    requires w >= 1, pt >= 1, pk >= 1, b >= 1, w * pt <= a
    ensures w * b * (pk * pt) <= a * b * pk
{
    assert(w * b * (pk * pt) == (w * pt) * (b * pk)) by (nonlinear_arith);
    lemma_mul_pos(b, pk);
    lemma_mul_le2(w * pt, a, b * pk, b * pk);
    lemma_mul_pos(w, pt);
    assert(a * (b * pk) == a * b * pk) by (nonlinear_arith);
}

/// u = v = 1 at the end: 2^k <= p x < 2^56
pub proof fn lemma_kal_kbound(k: nat, bound: int)
    requires pow2(k) as int <= bound, bound < 0x100_0000_0000_0000
    ensures k < 56
{
    lemma2_to64_rest();
    if k >= 56 {
        if k > 56 { lemma_pow2_strictly_increases(56, k); }
    }
}

/// the final correction:  r x ≡ -2^k,  ip 2^(8j+8) ≡ -1,  k + e = 8j + 8  =>  (r 2^e ip) x ≡ 1
pub proof fn lemma_kal_final(r: int, x: int, k: nat, e: nat, j: nat, ip: int, p: int)
    requires
        p > 0,
        cong(r * x, -(pow2(k) as int), p),
        cong(ip * pow2(8 * j + 8) as int, -1, p),
        k + e == 8 * j + 8,
    ensures cong(((r * pow2(e) as int) * ip) * x, 1, p)
{
    let pk = pow2(k) as int;
    let pe = pow2(e) as int;
    lemma_pow2_adds(k, e);
    // ((r pe) ip) x = (r x) (pe ip) ≡ (-pk)(pe ip) = -(ip (pk pe)) ≡ -(-1) = 1
    assert(((r * pe) * ip) * x == (r * x) * (pe * ip)) by (nonlinear_arith);
    lemma_cong_mul(r * x, -pk, pe * ip, p);
    assert((-pk) * (pe * ip) == (ip * (pk * pe)) * (-1)) by (nonlinear_arith);
    lemma_cong_mul(ip * (pk * pe), -1, -1, p);
}

/// halving modulo an odd p, as `Inverter::new` does it: x even -> x/2, x odd -> (x+p)/2
pub proof fn lemma_inv_half_step(x: int, h: int, k: nat, p: int)
    requires
        p > 0, p % 2 == 1, 0 <= x < p,
        cong(x * pow2(k) as int, 1, p),
        x % 2 == 0 ==> h == x / 2,
        x % 2 == 1 ==> h == (x + p) / 2,
    ensures 0 <= h < p, cong(h * pow2(k + 1) as int, 1, p)
{
    lemma_half_mod(x, h, p);
    lemma_pow2_unfold(k + 1);
    let pk = pow2(k) as int;
    // h 2^(k+1) = (2h) pk ≡ x pk ≡ 1
    lemma_cong_mul(2 * h, x, pk, p);
    assert(h * (2 * pk) == (2 * h) * pk) by (nonlinear_arith);
}

/// p - x represents -x:  (p - x) 2^k ≡ -1 when x 2^k ≡ 1
pub proof fn lemma_inv_neg(x: int, k: nat, p: int)
    requires p > 0, cong(x * pow2(k) as int, 1, p)
    ensures cong((p - x) * pow2(k) as int, -1, p)
{
    let pk = pow2(k) as int;
    lemma_distrib_r_sub(p, x, pk);
    lemma_cong_add_multiple(-(x * pk), pk, p);
    lemma_cong_mul(x * pk, 1, -1, p);
    assert((x * pk) * (-1) == -(x * pk)) by (nonlinear_arith);
    assert(p * pk - x * pk == -(x * pk) + pk * p) by (nonlinear_arith);
}


/// Bezout:  x n + y p = 1  ==>  (x mod p) n ≡ 1 (mod p)
pub proof fn lemma_bezout_inverse(x: int, y: int, n: int, p: int, xr: int)
    requires p >= 1, x * n + y * p == 1, xr == x % p
    ensures 0 <= xr < p, cong(xr * n, 1, p)
{
    lemma_mod_bound(x, p);
    lemma_cong_add_multiple(1, -y, p);
    assert(x * n == 1 + (-y) * p) by (nonlinear_arith) requires x * n + y * p == 1;
    lemma_cong_mod(x, p);
    lemma_cong_mul(xr, x, n, p);
}

pub proof fn lemma_common_divisor(g: nat, n: nat, p: nat)
    requires g >= 2, dvd(g, n), dvd(g, p)
    ensures !coprime(n, p)
{
    assert(dvd(g, n) && dvd(g, p));
}


/// the algebra of `mg_inv`:  mm R ≡ x,  mi mm ≡ 1,  y R ≡ mi r2,  r2 ≡ R²   ==>   y x ≡ R²   (mod n)
pub proof fn lemma_mg_inv(y: int, x: int, mm: int, mi: int, r2: int, big_r: int, n: int)
    requires
        n > 0,
        cong(mm * big_r, x, n),
        cong(mi * mm, 1, n),
        cong(y * big_r, mi * r2, n),
        cong(r2, big_r * big_r, n),
    ensures cong(y * x, big_r * big_r, n)
{
    // y x ≡ y (mm R) = (y R) mm ≡ (mi r2) mm = (mi mm) r2 ≡ r2 ≡ R²
    lemma_cong_mul(mm * big_r, x, y, n);
    assert(y * (mm * big_r) == (y * big_r) * mm) by (nonlinear_arith);
    lemma_cong_mul(y * big_r, mi * r2, mm, n);
    assert((mi * r2) * mm == (mi * mm) * r2) by (nonlinear_arith);
    lemma_cong_mul(mi * mm, 1, r2, n);
    assert(1 * r2 == r2);
    lemma_cong_trans(y * x, (y * big_r) * mm, (mi * mm) * r2, n);
    lemma_cong_trans(y * x, (mi * mm) * r2, r2, n);
    lemma_cong_trans(y * x, r2, big_r * big_r, n);
}

/// a common divisor of mm and n divides every x ≡ mm R (mod n)
pub proof fn lemma_not_coprime_transfer(mm: nat, big_r: nat, x: nat, n: nat)
    requires n > 0, !coprime(mm, n), cong(mm as int * big_r as int, x as int, n as int)
    ensures !coprime(x, n)
{
    let e = choose|e: nat| e >= 2 && #[trigger] dvd(e, mm) && dvd(e, n);
    lemma_dvd_mul_right(e, mm, big_r);
    // x = mm R - k n  for k = (mm R) / n - x / n
    let a = mm * big_r;
    lemma_mul_nonneg(mm as int, big_r as int);
    lemma_fundamental_div_mod(a as int, n as int);
    lemma_fundamental_div_mod(x as int, n as int);
    let qa = a as int / n as int; let qx = x as int / n as int;
    // x + n qa = a + n qx
    if qa >= qx {
        lemma_dvd_mul_right(e, n, (qa - qx) as nat);
        assert(a as int - x as int == (n as int) * (qa - qx)) by (nonlinear_arith)
            requires a as int == (n as int) * qa + (a as int) % (n as int), x as int == (n as int) * qx + (x as int) % (n as int), (a as int) % (n as int) == (x as int) % (n as int);
        lemma_mul_nonneg(n as int, qa - qx);
        lemma_dvd_sub(e, a as nat, (n * ((qa - qx) as nat)) as nat);
        assert(dvd(e, x) && dvd(e, n));
    } else {
        lemma_dvd_mul_right(e, n, (qx - qa) as nat);
        assert(x as int - a as int == (n as int) * (qx - qa)) by (nonlinear_arith)
            requires a as int == (n as int) * qa + (a as int) % (n as int), x as int == (n as int) * qx + (x as int) % (n as int), (a as int) % (n as int) == (x as int) % (n as int);
        lemma_dvd_add_mul(e, a as nat, n, (qx - qa) as nat);
        assert(dvd(e, x) && dvd(e, n));
    }
}

} // verus!
