//! Lucas sequence V_k(g) (V_0 = 2, V_1 = g, V_(k+2) = g V_(k+1) - V_k) and its binary doubling rules (pp1::chebyshev_modn).
#![allow(unused_imports, dead_code, unused_variables, non_snake_case)]
use vstd::prelude::*;
use vstd::arithmetic::div_mod::*;
use vstd::arithmetic::mul::*;
use vstd::arithmetic::power2::*;
use super::nl::*;
use super::modarith::*;
use super::miller::*;
use super::qsroots::*;
verus! {

pub open spec fn lv(g: int, k: nat) -> int
    decreases k
{
    if k == 0 { 2 } else if k == 1 { g } else { g * lv(g, (k - 1) as nat) - lv(g, (k - 2) as nat) }
}

/// V_m V_n = V_(m+n) + V_(m-n)  for m >= n
pub proof fn lemma_lv_product(g: int, m: nat, n: nat)
    requires m >= n
    ensures lv(g, m) * lv(g, n) == lv(g, m + n) + lv(g, (m - n) as nat)
    decreases n
{
    if n == 0 {
        assert(lv(g, m) * 2 == lv(g, m) + lv(g, m)) by (nonlinear_arith);
    } else if n == 1 {
        // V_(m+1) = g V_m - V_(m-1)
        assert(lv(g, m + 1) == g * lv(g, m) - lv(g, (m - 1) as nat));
        lemma_mul_comm(lv(g, m), g);
    } else {
        lemma_lv_product(g, m, (n - 1) as nat);
        lemma_lv_product(g, m, (n - 2) as nat);
        let a = lv(g, m);
        let x1 = lv(g, (n - 1) as nat);
        let x2 = lv(g, (n - 2) as nat);
        // V_n = g V_(n-1) - V_(n-2)
        assert(a * (g * x1 - x2) == g * (a * x1) - a * x2) by (nonlinear_arith);
        // g (V_(m+n-1) + V_(m-n+1)) - (V_(m+n-2) + V_(m-n+2))
        let p1 = lv(g, (m + n - 1) as nat);
        let q1 = lv(g, (m - n + 1) as nat);
        let p2 = lv(g, (m + n - 2) as nat);
        let q2 = lv(g, (m - n + 2) as nat);
        lemma_distrib_l(g, p1, q1);
        // V_(m+n) = g p1 - p2
        assert(lv(g, m + n) == g * p1 - p2);
        // V_(m-n+2) = g V_(m-n+1) - V_(m-n):  V_(m-n) = g q1 - q2
        assert(q2 == g * q1 - lv(g, (m - n) as nat));
    }
}

pub proof fn lemma_lv_double(g: int, k: nat)
    ensures
        lv(g, 2 * k) == lv(g, k) * lv(g, k) - 2,
        lv(g, 2 * k + 1) == lv(g, k) * lv(g, k + 1) - g,
        lv(g, 2 * k + 2) == lv(g, k + 1) * lv(g, k + 1) - 2,
{
    lemma_lv_product(g, k, k);
    lemma_lv_product(g, k + 1, k);
    lemma_lv_product(g, k + 1, k + 1);
    lemma_mul_comm(lv(g, k + 1), lv(g, k));
}

/// representatives under subtraction / addition (values taken modulo p, possibly from negative integers)
pub proof fn lemma_grep_sub(x: nat, vx: int, y: nat, vy: int, z: nat, p: nat, r: nat)
    requires
        p > 0, x < p, y < p, z < p,
        x as int == (vx * r as int) % (p as int), y as int == (vy * r as int) % (p as int),
        z as int == (x as int - y as int) % (p as int),
    ensures z as int == ((vx - vy) * r as int) % (p as int)
{
    let pi = p as int;
    let ri = r as int;
    lemma_cong_mod(vx * ri, pi);
    lemma_cong_mod(vy * ri, pi);
    lemma_cong_add(x as int, vx * ri, y as int, vy * ri, pi);
    lemma_distrib_r_sub(vx, vy, ri);
    lemma_mod_twice(x as int - y as int, pi);
}


/// m represents the integer v (any sign) modulo p for the radix r
pub open spec fn irep(m: nat, v: int, p: nat, r: nat) -> bool {
    grep(m, (v % (p as int)) as nat, p, r)
}

pub proof fn lemma_irep_mul(x: nat, vx: int, y: nat, vy: int, z: nat, p: nat, r: nat, e: nat)
    requires
        p % 2 == 1, p > 0, r == pow2(e), irep(x, vx, p, r), irep(y, vy, p, r), z < p,
        (z * r) % p == (x * y) % p,
    ensures irep(z, vx * vy, p, r)
{
    let pi = p as int;
    lemma_mod_bound(vx, pi);
    lemma_mod_bound(vy, pi);
    lemma_grep_mul(x, (vx % pi) as nat, y, (vy % pi) as nat, z, p, r, e);
    lemma_mul_mod_noop(vx, vy, pi);
}

pub proof fn lemma_irep_sub(x: nat, vx: int, y: nat, vy: int, z: nat, p: nat, r: nat)
    requires
        p > 0, irep(x, vx, p, r), irep(y, vy, p, r), z < p,
        z as int == (x as int - y as int) % (p as int),
    ensures irep(z, vx - vy, p, r)
{
    let pi = p as int;
    let ri = r as int;
    lemma_mod_bound(vx, pi);
    lemma_mod_bound(vy, pi);
    lemma_mod_bound(vx - vy, pi);
    lemma_grep_sub(x, vx % pi, y, vy % pi, z, p, r);
    // (vx % p - vy % p) r ≡ (vx - vy) r ≡ ((vx - vy) % p) r
    lemma_sub_mod_noop(vx, vy, pi);
    lemma_mul_mod_noop_left(vx % pi - vy % pi, ri, pi);
    lemma_mul_mod_noop_left(vx - vy, ri, pi);
    lemma_mul_mod_noop_left((vx - vy) % pi, ri, pi);
    lemma_mod_twice(vx - vy, pi);
}

} // verus!
