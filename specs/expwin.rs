//! Windowed left-to-right exponentiation on the bit-reversed exponent (pollard_pm1::exp_modn).
#![allow(unused_imports, dead_code, unused_variables, non_snake_case)]
use vstd::prelude::*;
use vstd::arithmetic::div_mod::*;
use vstd::arithmetic::mul::*;
use vstd::arithmetic::power2::*;
use super::nl::*;
use super::primes::*;
use super::miller::*;
verus! {

/// value of the binary numeral whose digits, most significant first, are bits 0, 1, .., m-1 of r
pub open spec fn msb_val(r: nat, m: nat) -> nat
    decreases m
{
    if m == 0 { 0 } else { 2 * msb_val(r, (m - 1) as nat) + (r / pow2((m - 1) as nat)) % 2 }
}

/// u64::reverse_bits: reading the result from bit 0 upwards spells x from its most significant bit down (T-std)
pub uninterp spec fn rev64(x: u64) -> u64;
#[verifier::external_body]
pub proof fn axiom_rev64(x: u64)
    ensures msb_val(rev64(x) as nat, 64) == x as nat
{}
pub assume_specification [u64::reverse_bits] (x: u64) -> (r: u64)
    ensures r == rev64(x);

/// bits below the trailing zeros contribute nothing
pub proof fn lemma_msb_val_zero(r: nat, m: nat)
    requires r % pow2(m) == 0
    ensures msb_val(r, m) == 0
    decreases m
{
    if m > 0 {
        lemma_pow2_pos(m);
        lemma_pow2_pos((m - 1) as nat);
        lemma_pow2_unfold(m);
        let h = pow2((m - 1) as nat) as int;
        // r = (2h) q, so r % h == 0 and (r / h) % 2 == 0
        lemma_fundamental_div_mod(r as int, 2 * h);
        let q = r as int / (2 * h);
        lemma_mul_assoc(h, 2, q);
        lemma_mul_comm(2, h);
        assert(r as int == h * (2 * q));
        lemma_fundamental_div_mod_converse(r as int, h, 2 * q, 0);
        lemma_msb_val_zero(r, (m - 1) as nat);
    }
}

/// the next bit in terms of the shifted register e = r / 2^i
pub proof fn lemma_msb_step(r: nat, i: nat, j: nat)
    ensures (r / pow2(i + j)) % 2 == ((r / pow2(i)) / pow2(j)) % 2
{
    lemma_pow2_pos(i);
    lemma_pow2_pos(j);
    lemma_pow2_adds(i, j);
    lemma_div_denominator(r as int, pow2(i) as int, pow2(j) as int);
}

/// consuming c bits b_0 .. b_(c-1) (most significant first): the value becomes v 2^c + (b_0 .. b_(c-1))_2
pub proof fn lemma_msb_consume1(r: nat, i: nat)
    ensures msb_val(r, i + 1) == 2 * msb_val(r, i) + ((r / pow2(i)) % 2)
{}

pub proof fn lemma_msb_consume2(r: nat, i: nat)
    ensures msb_val(r, i + 2) == 4 * msb_val(r, i) + 2 * ((r / pow2(i)) % 2) + (((r / pow2(i)) / 2) % 2)
{
    lemma_msb_consume1(r, i);
    lemma_msb_consume1(r, i + 1);
    lemma_msb_step(r, i, 1);
    lemma2_to64();
}

pub proof fn lemma_msb_consume3(r: nat, i: nat)
    ensures msb_val(r, i + 3) == 8 * msb_val(r, i) + 4 * ((r / pow2(i)) % 2) + 2 * (((r / pow2(i)) / 2) % 2) + (((r / pow2(i)) / 4) % 2)
{
    lemma_msb_consume2(r, i);
    lemma_msb_consume1(r, i + 2);
    lemma_msb_step(r, i, 2);
    lemma2_to64();
}

/// x^(e 2^c + w) from x^e by c squarings and one multiplication by x^w  (c <= 3)
pub proof fn lemma_pms_window(x: nat, e: nat, c: nat, w: nat, n: nat)
    requires n > 0, c <= 3
    ensures
        c == 1 ==> pow_mod_spec(x, 2 * e + w, n) == (sq1(x, e, n) * pow_mod_spec(x, w, n)) % n,
        c == 2 ==> pow_mod_spec(x, 4 * e + w, n) == (sq2(x, e, n) * pow_mod_spec(x, w, n)) % n,
        c == 3 ==> pow_mod_spec(x, 8 * e + w, n) == (sq3(x, e, n) * pow_mod_spec(x, w, n)) % n,
{
    lemma_pms_double(x, e, n);
    lemma_pms_double(x, 2 * e, n);
    lemma_pms_double(x, 4 * e, n);
    lemma_pms_add(x, 2 * e, w, n);
    lemma_pms_add(x, 4 * e, w, n);
    lemma_pms_add(x, 8 * e, w, n);
}

/// (x^e)^2, (x^e)^4, (x^e)^8 computed by successive squarings modulo n
pub open spec fn sq1(x: nat, e: nat, n: nat) -> nat { (pow_mod_spec(x, e, n) * pow_mod_spec(x, e, n)) % n }
pub open spec fn sq2(x: nat, e: nat, n: nat) -> nat { (sq1(x, e, n) * sq1(x, e, n)) % n }
pub open spec fn sq3(x: nat, e: nat, n: nat) -> nat { (sq2(x, e, n) * sq2(x, e, n)) % n }

} // verus!
