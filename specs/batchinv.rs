//! Batch inversion modulo a prime (mpqs::Workspace::batch_inversion), C12: Euclid's lemma and prefix products.
#![allow(unused_imports, dead_code, unused_variables, non_snake_case)]
use vstd::prelude::*;
use vstd::arithmetic::div_mod::*;
use vstd::arithmetic::mul::*;
use super::nl::*;
use super::modarith::*;
use super::primes::*;
use super::numint::*;
use super::qsroots::*;
use super::kaliski::*;
verus! {

/// descent step of Euclid's lemma: 0 < c < p, p prime, p | c b  ==>  p | b
proof fn lemma_euclid_descent(p: nat, c: nat, b: nat)
    requires is_prime(p), 0 < c < p, dvd(p, c * b)
    ensures dvd(p, b)
    decreases c
{
    if c == 1 {
        lemma_mul_one(b as int);
        assert(1 * b == b);
    } else {
        let r = p % c;
        lemma_fundamental_div_mod(p as int, c as int);
        lemma_mod_bound(p as int, c as int);
        let q = p / c;
        lemma_div_pos_is_pos(p as int, c as int);
        if r == 0 {
            // c | p with 2 <= c < p contradicts primality
            assert(p % c == 0);
            assert(false);
        }
        // r b = p b - q (c b)
        lemma_mul_nonneg(q as int, c as int);
        lemma_mul_nonneg(c as int, b as int);
        lemma_mul_nonneg(p as int, b as int);
        lemma_mul_nonneg(r as int, b as int);
        assert(p * b == (q * (c * b)) + r * b) by (nonlinear_arith) requires p == c * q + r;
        lemma_dvd_mul(p, b);
        lemma_dvd_mul_right(p, c * b, q);
        lemma_mul_nonneg(q as int, (c * b) as int);
        lemma_dvd_sub(p, p * b, q * (c * b));
        assert(((p * b) - q * (c * b)) as nat == r * b);
        lemma_euclid_descent(p, r, b);
    }
}

/// Euclid's lemma: a prime dividing a product divides one of the factors
pub proof fn lemma_euclid(p: nat, a: nat, b: nat)
    requires is_prime(p), dvd(p, a * b)
    ensures dvd(p, a) || dvd(p, b)
{
    let c = a % p;
    lemma_fundamental_div_mod(a as int, p as int);
    lemma_mod_bound(a as int, p as int);
    if c != 0 {
        let q = a / p;
        lemma_div_pos_is_pos(a as int, p as int);
        // c b = a b - q p b
        lemma_mul_nonneg(q as int, p as int);
        lemma_mul_nonneg(a as int, b as int);
        lemma_mul_nonneg(c as int, b as int);
        lemma_mul_nonneg((q * p) as int, b as int);
        assert(a * b == (q * p) * b + c * b) by (nonlinear_arith) requires a == p * q + c;
        lemma_dvd_mul(p, q);
        lemma_dvd_mul_right(p, q * p, b);
        lemma_dvd_sub(p, a * b, (q * p) * b);
        assert(((a * b) - (q * p) * b) as nat == c * b);
        lemma_euclid_descent(p, c, b);
    }
}

/// a non-zero residue modulo a prime is coprime to it
pub proof fn lemma_prime_coprime(x: nat, p: nat)
    requires is_prime(p), 0 < x < p
    ensures coprime(x, p)
{
    assert forall|e: nat| e >= 2 implies !(#[trigger] dvd(e, x) && dvd(e, p)) by {
        if dvd(e, x) && dvd(e, p) {
            if e < p { assert(p % e == 0); assert(false); }
            if e > p { lemma_small_mod(p, e); assert(false); }
            // e == p divides x < p
            lemma_small_mod(x, p);
            assert(false);
        }
    }
}

/// the product of two non-zero residues modulo a prime is non-zero
pub proof fn lemma_prime_product_nonzero(a: nat, b: nat, p: nat)
    requires is_prime(p), 0 < a < p, 0 < b < p
    ensures 0 < (a * b) % p < p
{
    lemma_mul_nonneg(a as int, b as int);
    lemma_mod_bound((a * b) as int, p as int);
    if (a * b) % p == 0 {
        lemma_euclid(p, a, b);
        lemma_small_mod(a, p); lemma_small_mod(b, p);
        assert(false);
    }
}

/// product modulo p of the non-zero entries of dm[0..=k]
pub open spec fn pp(dm: Seq<u64>, k: int, p: int) -> int
    decreases k + 1
{
    if k < 0 { 1int % p } else if dm[k] == 0 { pp(dm, k - 1, p) } else { (pp(dm, k - 1, p) * (dm[k] as int)) % p }
}

/// pp only looks at the entries up to k
pub proof fn lemma_pp_frame(d1: Seq<u64>, d2: Seq<u64>, k: int, p: int)
    requires k < d1.len(), k < d2.len(), forall|t: int| 0 <= t <= k ==> d1[t] == d2[t]
    ensures pp(d1, k, p) == pp(d2, k, p)
    decreases k + 1
{
    if k >= 0 { lemma_pp_frame(d1, d2, k - 1, p); }
}

/// pp is a non-zero residue when all entries are reduced modulo the prime p
pub proof fn lemma_pp_range(dm: Seq<u64>, k: int, p: nat)
    requires is_prime(p), k < dm.len(), forall|t: int| 0 <= t <= k ==> (#[trigger] dm[t] as int) < p
    ensures 0 < pp(dm, k, p as int) < p
    decreases k + 1
{
    if k < 0 { lemma_small_mod(1, p); }
    else {
        lemma_pp_range(dm, k - 1, p);
        if dm[k] != 0 { lemma_prime_product_nonzero(pp(dm, k - 1, p as int) as nat, dm[k] as nat, p); }
    }
}

/// reverse pass of the batch inversion, entry jrev > 0 with d = dm[jrev] != 0:
/// prodrev pp(jrev) ≡ 1  ==>  (prodrev pp(jrev-1)) d ≡ 1  and  (prodrev d) pp(jrev-1) ≡ 1
pub proof fn lemma_batch_step(prodrev: int, ppm: int, d: int, out: int, pr2: int, p: int)
    requires
        p > 0, cong(prodrev * ((ppm * d) % p), 1, p),
        out == (prodrev * ppm) % p, pr2 == (prodrev * d) % p,
    ensures cong(out * d, 1, p), cong(pr2 * ppm, 1, p)
{
    // prodrev (ppm d) ≡ 1
    lemma_cong_mod(ppm * d, p);
    lemma_cong_mul((ppm * d) % p, ppm * d, prodrev, p);
    lemma_cong_trans(prodrev * (ppm * d), prodrev * ((ppm * d) % p), 1, p);
    // out d ≡ (prodrev ppm) d
    lemma_cong_mod(prodrev * ppm, p);
    lemma_cong_mul(out, prodrev * ppm, d, p);
    assert((prodrev * ppm) * d == prodrev * (ppm * d)) by (nonlinear_arith);
    lemma_cong_trans(out * d, (prodrev * ppm) * d, 1, p);
    // pr2 ppm ≡ (prodrev d) ppm
    lemma_cong_mod(prodrev * d, p);
    lemma_cong_mul(pr2, prodrev * d, ppm, p);
    assert((prodrev * d) * ppm == prodrev * (ppm * d)) by (nonlinear_arith);
    lemma_cong_trans(pr2 * ppm, (prodrev * d) * ppm, 1, p);
}


/// a word below 2^63 has its top bit clear (the precondition of `Dividers::modu63`)
pub proof fn lemma_shr63(x: u64)
    requires x < 0x8000_0000_0000_0000
    ensures x >> 63 == 0
{
    assert(x >> 63 == 0) by (bit_vector) requires x < 0x8000_0000_0000_0000u64;
}

} // verus!
