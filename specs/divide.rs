//! Lemmas behind the precomputed-reciprocal division of `arith::Dividers` (Granlund-Montgomery estimate).
#![allow(unused_imports, dead_code, unused_variables, non_snake_case)]
use vstd::prelude::*;
use vstd::arithmetic::div_mod::*;
use vstd::arithmetic::mul::*;
use vstd::arithmetic::power2::*;
use super::nl::*;
verus! {

pub proof fn lemma_odd_not_div_pow2(p: int, x: int, k: nat, pk: int)
    requires p >= 3, p % 2 == 1, x >= 0, pk == pow2(k) as int,
    ensures p * x != pk
    decreases k
{
    if k == 0 {
        lemma2_to64();
        if p * x == 1 { assert(x >= 1 ==> p * x >= 3) by (nonlinear_arith) requires p >= 3, x >= 0; assert(x == 0 ==> p * x == 0) by (nonlinear_arith); }
    } else {
        lemma_pow2_unfold(k);
        let pk1 = pow2((k - 1) as nat) as int;
        if p * x == pk {
            if x % 2 == 1 {
                let a = p / 2; let b = x / 2;
                lemma_fundamental_div_mod(p, 2); lemma_fundamental_div_mod(x, 2);
                assert(p * x == 2 * (2 * a * b + a + b) + 1) by (nonlinear_arith) requires p == 2 * a + 1, x == 2 * b + 1;
                assert(false);
            }
            let b = x / 2;
            lemma_fundamental_div_mod(x, 2);
            assert(p * x == 2 * (p * b)) by (nonlinear_arith) requires x == 2 * b;
            lemma_odd_not_div_pow2(p, b, (k - 1) as nat, pk1);
        }
    }
}

pub proof fn lemma_estimate(n: int, p: int, t: int, m: int)
    requires 0 <= n < 0x1_0000_0000_0000_0000, p >= 3, p % 2 == 1, t > 0, 2 * t > 0x1_0000_0000_0000_0000 * p, m == t / p + 1,
    ensures ({ let qh = (n * m) / t; let q = n / p; (qh == q || qh == q + 1) && qh * p <= n + 1 && 0 <= qh }),
{
    let e = t % p;
    lemma_fundamental_div_mod(t, p);
    lemma_mod_bound(t, p);
    let qh = (n * m) / t; let rh = (n * m) % t;
    lemma_fundamental_div_mod(n * m, t);
    lemma_mod_bound(n * m, t);
    assert(m >= 1) by { lemma_div_pos_is_pos(t, p); };
    assert(n * m >= 0) by (nonlinear_arith) requires n >= 0, m >= 1;
    assert(qh >= 0) by { lemma_div_pos_is_pos(n * m, t); };
    assert(qh * p * t == n * t + n * (p - e) - rh * p) by (nonlinear_arith)
        requires n * m == t * qh + rh, t == p * (m - 1) + e;
    assert(n * (p - e) < 2 * t) by (nonlinear_arith) requires 0 <= n < 0x1_0000_0000_0000_0000, 0 <= e < p, 2 * t > 0x1_0000_0000_0000_0000 * p, p >= 3;
    assert(rh * p >= 0) by (nonlinear_arith) requires rh >= 0, p >= 3;
    assert(qh * p * t < (n + 2) * t) by (nonlinear_arith)
        requires qh * p * t == n * t + n * (p - e) - rh * p, n * (p - e) < 2 * t, rh * p >= 0;
    assert(qh * p < n + 2) by (nonlinear_arith) requires (qh * p) * t < (n + 2) * t, t > 0;
    assert(n * (p - e) >= 0) by (nonlinear_arith) requires n >= 0, e < p;
    assert(rh * p < t * p) by (nonlinear_arith) requires rh < t, p >= 3;
    assert(qh * p * t > (n - p) * t) by (nonlinear_arith)
        requires qh * p * t == n * t + n * (p - e) - rh * p, n * (p - e) >= 0, rh * p < t * p;
    assert(qh * p > n - p) by (nonlinear_arith) requires (qh * p) * t > (n - p) * t, t > 0;
    let q = n / p; let r = n % p;
    lemma_fundamental_div_mod(n, p); lemma_mod_bound(n, p);
    assert(qh >= q) by (nonlinear_arith) requires qh * p > n - p, n == p * q + r, r >= 0, p >= 3;
    assert(qh <= q + 1) by (nonlinear_arith) requires qh * p < n + 2, n == p * q + r, r < p, p >= 3;
}

pub proof fn lemma_estimate_exact(n: int, p: int, t: int, m: int)
    requires 0 <= n, p >= 3, p % 2 == 1, t > 0, n * p < t, m == t / p + 1,
    ensures (n * m) / t == n / p,
{
    let e = t % p;
    lemma_fundamental_div_mod(t, p);
    lemma_mod_bound(t, p);
    let qh = (n * m) / t; let rh = (n * m) % t;
    lemma_fundamental_div_mod(n * m, t);
    lemma_mod_bound(n * m, t);
    assert(m >= 1) by { lemma_div_pos_is_pos(t, p); };
    assert(n * m >= 0) by (nonlinear_arith) requires n >= 0, m >= 1;
    assert(qh * p * t == n * t + n * (p - e) - rh * p) by (nonlinear_arith)
        requires n * m == t * qh + rh, t == p * (m - 1) + e;
    assert(n * (p - e) < t) by (nonlinear_arith) requires 0 <= n, 0 <= e < p, n * p < t;
    assert(rh * p >= 0) by (nonlinear_arith) requires rh >= 0, p >= 3;
    assert(qh * p * t < (n + 1) * t) by (nonlinear_arith)
        requires qh * p * t == n * t + n * (p - e) - rh * p, n * (p - e) < t, rh * p >= 0;
    assert(qh * p < n + 1) by (nonlinear_arith) requires (qh * p) * t < (n + 1) * t, t > 0;
    assert(n * (p - e) >= 0) by (nonlinear_arith) requires n >= 0, e < p;
    assert(rh * p < t * p) by (nonlinear_arith) requires rh < t, p >= 3;
    assert(qh * p * t > (n - p) * t) by (nonlinear_arith)
        requires qh * p * t == n * t + n * (p - e) - rh * p, n * (p - e) >= 0, rh * p < t * p;
    assert(qh * p > n - p) by (nonlinear_arith) requires (qh * p) * t > (n - p) * t, t > 0;
    let q = n / p; let r = n % p;
    lemma_fundamental_div_mod(n, p); lemma_mod_bound(n, p);
    assert(qh >= q) by (nonlinear_arith) requires qh * p > n - p, n == p * q + r, r >= 0, p >= 3;
    assert(qh <= q) by (nonlinear_arith) requires qh * p < n + 1, n == p * q + r, r < p, p >= 3;
}


} // verus!
