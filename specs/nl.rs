//! Small nonlinear-arithmetic lemmas. Each is one isolated, tiny query: the proofs of the real functions
//! never ask the solver for a multi-hypothesis nonlinear derivation (those proved unstable).
#![allow(unused_imports, dead_code, unused_variables, non_snake_case)]
use vstd::prelude::*;
verus! {

pub proof fn lemma_mul_comm(a: int, b: int) ensures a * b == b * a { assert(a * b == b * a) by (nonlinear_arith); }
pub proof fn lemma_mul_assoc(a: int, b: int, c: int) ensures (a * b) * c == a * (b * c) { assert((a * b) * c == a * (b * c)) by (nonlinear_arith); }
pub proof fn lemma_distrib_l(a: int, b: int, c: int) ensures a * (b + c) == a * b + a * c { assert(a * (b + c) == a * b + a * c) by (nonlinear_arith); }
pub proof fn lemma_distrib_r(a: int, b: int, c: int) ensures (a + b) * c == a * c + b * c { assert((a + b) * c == a * c + b * c) by (nonlinear_arith); }
pub proof fn lemma_distrib_l_sub(a: int, b: int, c: int) ensures a * (b - c) == a * b - a * c { assert(a * (b - c) == a * b - a * c) by (nonlinear_arith); }
pub proof fn lemma_distrib_r_sub(a: int, b: int, c: int) ensures (a - b) * c == a * c - b * c { assert((a - b) * c == a * c - b * c) by (nonlinear_arith); }
pub proof fn lemma_mul_one(x: int) ensures x * 1 == x, 1 * x == x, x * 0 == 0, 0 * x == 0 { assert(x * 1 == x && 1 * x == x && x * 0 == 0 && 0 * x == 0) by (nonlinear_arith); }
pub proof fn lemma_mul_neg(a: int, b: int) ensures a * (-b) == -(a * b), (-a) * b == -(a * b) { assert(a * (-b) == -(a * b) && (-a) * b == -(a * b)) by (nonlinear_arith); }
pub proof fn lemma_mul_nonneg(a: int, b: int) requires a >= 0, b >= 0 ensures a * b >= 0 { assert(a * b >= 0) by (nonlinear_arith) requires a >= 0, b >= 0; }
pub proof fn lemma_mul_pos(a: int, b: int) requires a > 0, b > 0 ensures a * b > 0 { assert(a * b > 0) by (nonlinear_arith) requires a > 0, b > 0; }

/// a <= A, n >= 0  ==>  a*n <= A*n  and  n*a <= n*A
pub proof fn lemma_mul_le(a: int, aa: int, n: int)
    requires a <= aa, n >= 0
    ensures a * n <= aa * n, n * a <= n * aa
{
    assert(a * n <= aa * n) by (nonlinear_arith) requires a <= aa, n >= 0;
    assert(n * a <= n * aa) by (nonlinear_arith) requires a <= aa, n >= 0;
}
/// a < A, n > 0  ==>  a*n < A*n  and  n*a < n*A
pub proof fn lemma_mul_lt_pos(a: int, aa: int, n: int)
    requires a < aa, n > 0
    ensures a * n < aa * n, n * a < n * aa
{
    assert(a * n < aa * n) by (nonlinear_arith) requires a < aa, n > 0;
    assert(n * a < n * aa) by (nonlinear_arith) requires a < aa, n > 0;
}
/// 0 <= a < A, 0 <= b < B  ==>  a*b < A*B
pub proof fn lemma_mul_lt(a: int, aa: int, b: int, bb: int)
    requires 0 <= a < aa, 0 <= b < bb
    ensures a * b < aa * bb
{
    lemma_mul_le(a, aa, b);        // a*b <= aa*b
    lemma_mul_lt_pos(b, bb, aa);   // aa*b < aa*bb
}
/// 0 <= a <= A, 0 <= b <= B  ==>  a*b <= A*B
pub proof fn lemma_mul_le2(a: int, aa: int, b: int, bb: int)
    requires 0 <= a <= aa, 0 <= b <= bb
    ensures a * b <= aa * bb
{
    lemma_mul_le(a, aa, b);
    lemma_mul_le(b, bb, aa);
}
/// cancellation: n > 0, n*a < n*b ==> a < b ; n*a <= n*b ==> a <= b ; n*a == n*b ==> a == b
pub proof fn lemma_mul_cancel_lt(n: int, a: int, b: int)
    requires n > 0, n * a < n * b
    ensures a < b
{
    if a >= b { lemma_mul_le(b, a, n); }
}
pub proof fn lemma_mul_cancel_le(n: int, a: int, b: int)
    requires n > 0, n * a <= n * b
    ensures a <= b
{
    if a > b { lemma_mul_lt_pos(b, a, n); }
}
pub proof fn lemma_mul_cancel_eq(n: int, a: int, b: int)
    requires n > 0, n * a == n * b
    ensures a == b
{
    if a > b { lemma_mul_lt_pos(b, a, n); }
    if a < b { lemma_mul_lt_pos(a, b, n); }
}
/// (x0 + p*x)*y == x0*y + p*(x*y)
pub proof fn lemma_distrib_scaled(x0: int, p: int, x: int, y: int)
    ensures (x0 + p * x) * y == x0 * y + p * (x * y)
{
    lemma_distrib_r(x0, p * x, y);
    lemma_mul_assoc(p, x, y);
}
/// product of two words fits in 128 bits with room for two more words
pub proof fn lemma_u64_mul_bound(a: int, b: int)
    requires 0 <= a <= 0xffff_ffff_ffff_ffff, 0 <= b <= 0xffff_ffff_ffff_ffff
    ensures 0 <= a * b <= 0xffff_ffff_ffff_fffe_0000_0000_0000_0001
{
    lemma_mul_le2(a, 0xffff_ffff_ffff_ffff, b, 0xffff_ffff_ffff_ffff);
    lemma_mul_nonneg(a, b);
    assert(0xffff_ffff_ffff_ffff * 0xffff_ffff_ffff_ffff == 0xffff_ffff_ffff_fffe_0000_0000_0000_0001int) by (compute_only);
}

} // verus!
