//! C15: the streaming multiword addition-chain builder `Curve::make_addition_chain_long` (signed 7-bit windows over a 128-bit
//! sliding window of the scalar). Step lemmas for its loop invariant:
//!   rem   = exp + 2^curbits * hi     the multiplier still to encode (window + unread words)
//!   value : prefix_apply(chain, idx, rem) == N
//!   size  : 2 |N - rem 2^bits| < 2^(bits + owed), 2^owed | rem, rem >= 1   (owed = 6 right after an odd opcode)
//!   length: 7 idx <= 2 bits + 5 [owed > 0] + 7 big - 7 [free]   (two opcodes per 7 bits, one spare opcode per 33-bit jump)
#![allow(unused_imports, dead_code, unused_variables, non_snake_case)]
use vstd::prelude::*;
use vstd::arithmetic::power2::*;
use vstd::arithmetic::div_mod::*;
use super::nl::*;
use super::chains::*;
use super::bnspec::*;
use super::gcdred::iabs;
verus! {

pub proof fn lemma_pow2_mono(a: nat, b: nat)
    requires a <= b
    ensures pow2(a) <= pow2(b), pow2(a) > 0
{
    lemma_pow2_pos(a);
    if a < b { lemma_pow2_strictly_increases(a, b); }
}

/// 2^a divides 2^b x for a <= b
pub proof fn lemma_pow2_div_mul(a: nat, b: nat, x: int)
    requires a <= b
    ensures (pow2(b) as int * x) % (pow2(a) as int) == 0, pow2(b) as int == pow2(a) as int * pow2((b - a) as nat) as int
{
    lemma_pow2_adds(a, (b - a) as nat);
    lemma_pow2_pos(a);
    lemma_mul_assoc(pow2(a) as int, pow2((b - a) as nat) as int, x);
    lemma_mod_multiples_basic(pow2((b - a) as nat) as int * x, pow2(a) as int);
    lemma_mul_comm(pow2(a) as int, pow2((b - a) as nat) as int * x);
}

/// refill of the window with the next word
pub proof fn lemma_cl_refill(exp: int, c: nat, w: int, hi1: int, exp2: int)
    requires 0 <= exp <= pow2(c) as int, 0 <= w < 0x1_0000_0000_0000_0000, exp2 == exp + w * (pow2(c) as int), hi1 >= 0
    ensures 0 <= exp2 <= pow2(c + 64) as int,
        exp2 + (pow2(c + 64) as int) * hi1 == exp + (pow2(c) as int) * (w + 0x1_0000_0000_0000_0000 * hi1),
{
    lemma2_to64();
    lemma_pow2_adds(c, 64);
    lemma_pow2_pos(c);
    let pc = pow2(c) as int;
    lemma_mul_nonneg(w, pc);
    lemma_mul_le(w, 0xffff_ffff_ffff_ffff, pc);
    lemma_distrib_r(0xffff_ffff_ffff_ffff, 1, pc); lemma_mul_one(pc);
    lemma_mul_comm(pc, 0x1_0000_0000_0000_0000);
    lemma_distrib_l(pc, w, 0x1_0000_0000_0000_0000 * hi1);
    lemma_mul_assoc(pc, 0x1_0000_0000_0000_0000, hi1);
    lemma_mul_comm(w, pc);
}

/// bits <= nbits as long as something is left to encode
pub proof fn lemma_cl_bits(nn: int, rem: int, bits: nat, owed: nat, nbits: nat)
    requires rem >= 1, rem % (pow2(owed) as int) == 0, 2 * iabs(nn - rem * (pow2(bits) as int)) < pow2(bits + owed) as int,
        0 < nn < pow2(nbits) as int,
    ensures bits + owed <= nbits
{
    lemma_pow2_pos(owed); lemma_pow2_pos(bits);
    let po = pow2(owed) as int; let pb = pow2(bits) as int;
    // rem >= 2^owed
    lemma_fundamental_div_mod(rem, po);
    let k = rem / po;
    if k <= 0 { lemma_mul_le(k, 0, po); lemma_mul_one(po); lemma_mul_comm(po, k); }
    lemma_mul_le(1, k, po); lemma_mul_one(po); lemma_mul_comm(po, k);
    assert(rem >= po);
    lemma_mul_le(po, rem, pb);
    lemma_pow2_adds(bits, owed); lemma_mul_comm(po, pb);
    let pbo = pow2(bits + owed) as int;
    assert(rem * pb >= pbo);
    // 2 N > 2 rem 2^bits - 2^(bits+owed) >= 2^(bits+owed)
    assert(2 * nn > pbo);
    if bits + owed > nbits {
        lemma_pow2_mono(nbits + 1, bits + owed);
        lemma_pow2_unfold(nbits + 1);
        assert(false);
    }
}

/// an even step: tz bits leave the window
pub proof fn lemma_cl_even(nn: int, rem: int, bits: nat, owed: nat, tz: nat, rem2: int)
    requires rem >= 1, tz >= owed, rem == rem2 * (pow2(tz) as int),
        2 * iabs(nn - rem * (pow2(bits) as int)) < pow2(bits + owed) as int,
    ensures rem2 >= 1, rem2 * (pow2(bits + tz) as int) == rem * (pow2(bits) as int),
        2 * iabs(nn - rem2 * (pow2(bits + tz) as int)) < pow2(bits + tz) as int,
        op_apply(2 * tz as int, rem2) == rem,
{
    lemma_pow2_pos(tz);
    let pt = pow2(tz) as int;
    if rem2 <= 0 { lemma_mul_le(rem2, 0, pt); lemma_mul_one(pt); }
    lemma_pow2_adds(tz, bits);
    lemma_mul_assoc(rem2, pt, pow2(bits) as int);
    lemma_pow2_mono(bits + owed, bits + tz);
    assert((2 * tz as int) / 2 == tz as int);
}

/// an odd step with a positive gap low < 64 (low = rem mod 128)
pub proof fn lemma_cl_odd_pos(nn: int, rem: int, bits: nat, low: int, rem2: int)
    requires rem >= 1, 1 <= low < 64, low % 2 == 1, rem == 2 * rem2 + low, rem2 % 64 == 0,
        2 * iabs(nn - rem * (pow2(bits) as int)) < pow2(bits) as int,
    ensures rem2 >= 0, rem2 == 0 || rem2 >= 64, rem2 % (pow2(6) as int) == 0,
        2 * iabs(nn - rem2 * (pow2(bits + 1) as int)) < pow2(bits + 1 + 6) as int,
        op_apply(low, rem2) == rem,
        // the last opcode: what is left is the gap itself
        rem2 == 0 ==> nn < pow2(bits + 6) as int,
{
    lemma2_to64();
    let pb = pow2(bits) as int;
    lemma_pow2_pos(bits);
    lemma_pow2_unfold(bits + 1);
    lemma_pow2_adds(bits, 7); lemma_pow2_adds(bits, 6);
    assert(pow2(7) == 128) by { lemma_pow2_unfold(7); }
    assert(pow2(6) == 64);
    lemma_mul_assoc(rem2, 2, pb); lemma_mul_comm(2, pb);
    lemma_distrib_r(2 * rem2, low, pb);
    lemma_mul_comm(rem2, 2);
    assert(rem * pb == rem2 * (2 * pb) + low * pb);
    lemma_mul_le(low, 63, pb); lemma_mul_nonneg(low, pb);
    lemma_mul_comm(pb, 128); lemma_mul_comm(pb, 64);
    if rem2 < 0 { assert(false); }
    if rem2 == 0 {
        lemma_mul_one(2 * pb);
        // N < rem 2^b + 2^b/2 <= 63 2^b + 2^b = 64 2^b
    }
}

/// an odd step with a negative gap: low > 64, the opcode is -(128 - low)
pub proof fn lemma_cl_odd_neg(nn: int, rem: int, bits: nat, low: int, rem2: int)
    requires rem >= 1, 64 < low < 128, low % 2 == 1, rem + (128 - low) == 2 * rem2, rem2 % 64 == 0,
        2 * iabs(nn - rem * (pow2(bits) as int)) < pow2(bits) as int,
    ensures rem2 >= 64, rem2 % (pow2(6) as int) == 0,
        2 * iabs(nn - rem2 * (pow2(bits + 1) as int)) < pow2(bits + 1 + 6) as int,
        op_apply(-(128 - low), rem2) == rem,
{
    lemma2_to64();
    let pb = pow2(bits) as int;
    let c = 128 - low;
    lemma_pow2_pos(bits);
    lemma_pow2_unfold(bits + 1);
    lemma_pow2_adds(bits, 7);
    assert(pow2(7) == 128) by { lemma_pow2_unfold(7); }
    assert(pow2(6) == 64);
    lemma_mul_assoc(rem2, 2, pb); lemma_mul_comm(2, pb); lemma_mul_comm(rem2, 2);
    lemma_distrib_r(rem, c, pb);
    assert(rem2 * (2 * pb) == rem * pb + c * pb);
    lemma_mul_le(c, 63, pb); lemma_mul_nonneg(c, pb);
    lemma_mul_comm(pb, 128);
    assert((-c) % 2 != 0);
}

/// the window bound survives a negative gap: exp odd, exp <= 2^c, c >= 7  ==>  exp + (128 - exp mod 128) <= 2^c
pub proof fn lemma_cl_round_up(exp: int, c: nat, low: int)
    requires 0 <= exp <= pow2(c) as int, exp % 2 == 1, low == exp % 128, c >= 7
    ensures exp + (128 - low) <= pow2(c) as int, (exp + (128 - low)) % 128 == 0
{
    lemma2_to64();
    assert(pow2(7) == 128) by { lemma_pow2_unfold(7); }
    lemma_pow2_div_mul(7, c, 1); lemma_mul_one(pow2(c) as int);
    let pc = pow2(c) as int;
    lemma_fundamental_div_mod(exp, 128);
    lemma_fundamental_div_mod(pc, 128);
    let (qe, qp) = (exp / 128, pc / 128);
    // exp = 128 qe + low with low odd, pc = 128 qp: exp < pc, so qe < qp and 128 (qe + 1) <= pc
    assert(low % 2 == 1) by { lemma_mod_mod(exp, 2, 64); }
    if qe >= qp { lemma_mul_le(qp, qe, 128); }
    lemma_mul_le(qe + 1, qp, 128);
    lemma_distrib_l(128, qe, 1);
    lemma_mod_multiples_basic(qe + 1, 128);
    lemma_mul_comm(128, qe + 1);
}

/// bit length of a non-zero value below 2^k is at most k, and N < 2^bitlen(N)
pub proof fn lemma_cl_nbits(nn: nat)
    requires nn > 0
    ensures nn < pow2(bitlen(nn)), bitlen(nn) >= 1
{
    lemma_bitlen_bound(nn, bitlen(nn));
}

} // verus!
verus! {
use super::limbs::*;

/// the multiplier still to encode: window + 2^curbits * (unread words)
pub open spec fn cl_rem(exp: int, c: nat, d: Seq<u64>, k: int) -> int { exp + (pow2(c) as int) * (limbs(d.skip(k)) as int) }

/// opcode ranges of the long chain
pub open spec fn cl_op_ok(op: i8) -> bool { (op % 2 == 0 ==> 2 <= op <= 120) && (op % 2 != 0 ==> -63 <= op <= 63) }

pub proof fn lemma_limbs_skip_step(d: Seq<u64>, k: int)
    requires 0 <= k < d.len()
    ensures limbs(d.skip(k)) == d[k] as nat + 0x1_0000_0000_0000_0000nat * limbs(d.skip(k + 1))
{
    let s = d.skip(k);
    lemma_limbs_split(s, 1);
    lemma_limbs_take_step(s, 0);
    assert(s.take(0) =~= Seq::<u64>::empty());
    lemma_limbs_empty();
    assert(s.skip(1) =~= d.skip(k + 1));
    lemma_pow_w_unfold(1); lemma_pow_w_unfold(0);
    assert(pow_w(0) == 1); assert(pow_w(1) == 0x1_0000_0000_0000_0000nat);
    lemma_mul_one(s[0] as int);
}

/// x divisible by 2^T is divisible by 2^t for t <= T
pub proof fn lemma_pow2_div_smaller(x: int, t: nat, tt: nat)
    requires t <= tt, x % (pow2(tt) as int) == 0
    ensures x % (pow2(t) as int) == 0
{
    lemma_pow2_pos(tt); lemma_pow2_pos(t);
    lemma_fundamental_div_mod(x, pow2(tt) as int);
    let k = x / (pow2(tt) as int);
    lemma_pow2_div_mul(t, tt, k);
}

/// x = 2^k m (x != 0) and x / 2^T odd  ==>  T >= k
pub proof fn lemma_tz_ge(x: int, tt: nat, k: nat)
    requires x % (pow2(k) as int) == 0, x % (pow2(tt) as int) == 0, (x / (pow2(tt) as int)) % 2 == 1
    ensures tt >= k
{
    if tt < k {
        lemma_pow2_pos(k); lemma_pow2_pos(tt);
        let pk = pow2(k) as int; let pt = pow2(tt) as int;
        lemma_fundamental_div_mod(x, pk);
        let m = x / pk;
        // x = 2^tt * (2^(k-tt) m), and 2^(k-tt) is even
        lemma_pow2_adds(tt, (k - tt) as nat);
        let e = pow2((k - tt) as nat) as int;
        lemma_mul_assoc(pt, e, m);
        assert(x == pt * (e * m));
        lemma_div_multiples_vanish(e * m, pt);
        assert(x / pt == e * m);
        lemma_pow2_unfold((k - tt) as nat);
        let h = pow2((k - tt - 1) as nat) as int;
        lemma_mul_assoc(2, h, m);
        lemma_mod_multiples_basic(h * m, 2);
        lemma_mul_comm(2, h * m);
        assert(false);
    }
}

/// the window and the unread words after tz bits left
pub proof fn lemma_cl_even_rem(exp: int, c: nat, hi: int, tz: nat, exp2: int)
    requires 0 <= exp <= pow2(c) as int, exp == exp2 * (pow2(tz) as int), tz <= c, hi >= 0
    ensures exp + (pow2(c) as int) * hi == (exp2 + (pow2((c - tz) as nat) as int) * hi) * (pow2(tz) as int),
        0 <= exp2 <= pow2((c - tz) as nat) as int
{
    lemma_pow2_pos(tz);
    let pt = pow2(tz) as int; let pr = pow2((c - tz) as nat) as int;
    lemma_pow2_adds((c - tz) as nat, tz);
    lemma_distrib_r(exp2, pr * hi, pt);
    lemma_mul_assoc(pr, hi, pt); lemma_mul_comm(hi, pt); lemma_mul_assoc(pr, pt, hi);
    if exp2 < 0 { lemma_mul_le(exp2, -1, pt); lemma_mul_neg(1, pt); lemma_mul_one(pt); }
    if exp2 > pr { lemma_mul_le(pr + 1, exp2, pt); lemma_distrib_r(pr, 1, pt); lemma_mul_one(pt); }
}

/// halving after an odd step
pub proof fn lemma_cl_half(ea: int, c: nat, hi: int)
    requires 0 <= ea <= pow2(c) as int, ea % 2 == 0, c >= 1, hi >= 0
    ensures ea + (pow2(c) as int) * hi == 2 * (ea / 2 + (pow2((c - 1) as nat) as int) * hi), 0 <= ea / 2 <= pow2((c - 1) as nat) as int
{
    lemma_pow2_unfold(c);
    let ph = pow2((c - 1) as nat) as int;
    lemma_mul_assoc(2, ph, hi);
}

pub proof fn lemma_pow2_65(c: nat)
    requires pow2(c) >= 65
    ensures c >= 7
{
    lemma2_to64();
    if c <= 6 { lemma_pow2_mono(c, 6); }
}
} // verus!
verus! {
/// rem = low (mod 128)  ==>  128 | rem - low
pub proof fn lemma_mod_sub_multiples_vanish_like(rem: int, low: int)
    requires 0 <= low < 128, rem % 128 == low
    ensures (rem - low) % 128 == 0
{
    lemma_fundamental_div_mod(rem, 128);
    lemma_mod_multiples_basic(rem / 128, 128);
    lemma_mul_comm(128, rem / 128);
}
pub proof fn lemma_mod_add_to_128(rem: int, low: int)
    requires 0 <= low < 128, rem % 128 == low
    ensures (rem + 128 - low) % 128 == 0
{
    lemma_fundamental_div_mod(rem, 128);
    lemma_mod_multiples_basic(rem / 128 + 1, 128);
    lemma_distrib_l(128, rem / 128, 1);
    lemma_mul_comm(128, rem / 128 + 1);
}
pub proof fn lemma_half_of_128(x: int)
    requires x % 128 == 0
    ensures (x / 2) % 64 == 0, x % 2 == 0
{
    lemma_fundamental_div_mod(x, 128);
    let k = x / 128;
    assert(x == 2 * (64 * k));
    lemma_mod_multiples_basic(k, 64);
    lemma_mul_comm(64, k);
}
pub proof fn lemma_cl_mod_adds(a: int, b: int, m: int)
    requires m > 0, b % m == 0
    ensures (a + b) % m == a % m
{
    lemma_fundamental_div_mod(b, m);
    lemma_mod_multiples_vanish(b / m, a, m);
    lemma_mul_comm(m, b / m);
}
} // verus!
verus! {
/// the loop state seen by the step lemmas: window exp <= 2^c, unread words hi, remainder rem = exp + 2^c hi
pub open spec fn cl_state(nn: int, exp: int, c: nat, hi: int, bits: nat, owed: nat, nbits: nat, more: bool) -> bool {
    &&& 0 <= exp <= pow2(c) as int
    &&& hi >= 0
    &&& exp + (pow2(c) as int) * hi >= 1
    &&& (owed == 0 || owed == 6)
    &&& (exp + (pow2(c) as int) * hi) % (pow2(owed) as int) == 0
    &&& 2 * iabs(nn - (exp + (pow2(c) as int) * hi) * (pow2(bits) as int)) < pow2(bits + owed) as int
    &&& 0 < nn < pow2(nbits) as int
    &&& (more ==> c > 32)
    &&& (!more ==> hi == 0)
}

/// EVEN STEP. t = trailing zeros of the window (128 for an empty window), tz = min(60, t, c) bits leave the window.
pub proof fn lemma_cl_step_even(nn: int, exp: int, c: nat, hi: int, bits: nat, owed: nat, nbits: nat, more: bool, t: nat, tz: nat)
    requires
        cl_state(nn, exp, c, hi, bits, owed, nbits, more),
        exp % 2 == 0,
        exp == 0 ==> t == 128,
        exp != 0 ==> t < 128 && exp % (pow2(t) as int) == 0 && (exp / (pow2(t) as int)) % 2 == 1,
        tz == (if t <= c { if t <= 60 { t } else { 60 } } else { if c <= 60 { c } else { 60 } }),
    ensures
        1 <= tz <= 60, tz <= c, tz >= owed,
        exp % (pow2(tz) as int) == 0,
        ({
            let exp2 = exp / (pow2(tz) as int);
            let rem = exp + (pow2(c) as int) * hi;
            let rem2 = exp2 + (pow2((c - tz) as nat) as int) * hi;
            &&& 0 <= exp2 <= pow2((c - tz) as nat) as int
            &&& rem2 >= 1
            &&& op_apply(2 * tz as int, rem2) == rem
            &&& 2 * iabs(nn - rem2 * (pow2(bits + tz) as int)) < pow2(bits + tz) as int
            &&& bits + tz <= nbits
            &&& (tz < 33 ==> exp2 % 2 == 1)
            &&& ((c - tz == 0 && more) ==> tz >= 33)
        }),
{
    lemma2_to64();
    lemma_pow2_pos(c);
    let pc = pow2(c) as int;
    let rem = exp + pc * hi;
    lemma_mul_nonneg(pc, hi);
    // c >= 1
    if c == 0 { lemma_mul_one(hi); assert(exp <= 1); assert(false); }
    if exp != 0 {
        if t == 0 { assert(exp / 1 == exp); assert(false); }
        assert(tz <= t);
        lemma_pow2_div_smaller(exp, tz, t);
    } else {
        lemma_pow2_pos(tz);
        lemma_small_mod(0, pow2(tz));
    }
    assert(1 <= tz <= 60 && tz <= c);
    assert(exp % (pow2(tz) as int) == 0);
    if owed == 6 && tz < 6 {
        if c >= 6 {
            lemma_pow2_div_mul(6, c, hi);
            lemma_cl_mod_adds(exp, pc * hi, 64);
            assert(exp % 64 == 0);
            if exp != 0 { lemma_tz_ge(exp, t, 6); }
        } else {
            lemma_pow2_mono(c, 5);
            lemma_mul_one(pc);
        }
        assert(false);
    }
    lemma_pow2_pos(tz);
    let pt = pow2(tz) as int;
    lemma_fundamental_div_mod(exp, pt);
    let exp2 = exp / pt;
    lemma_mul_comm(pt, exp2);
    lemma_cl_even_rem(exp, c, hi, tz, exp2);
    let rem2 = exp2 + (pow2((c - tz) as nat) as int) * hi;
    lemma_cl_even(nn, rem, bits, owed, tz, rem2);
    assert(pow2(0) == 1);
    assert(rem2 % (pow2(0) as int) == 0);
    lemma_cl_bits(nn, rem2, bits + tz, 0, nbits);
    if tz < 33 {
        if exp == 0 || tz != t {
            // then tz == c < 33: no word is left, the window is the whole remainder
            lemma_mul_one(pc);
            if exp != 0 {
                lemma_pow2_mono(c + 1, t);
                lemma_pow2_unfold(c + 1);
                lemma_fundamental_div_mod(exp, pow2(t) as int);
                let k = exp / (pow2(t) as int);
                lemma_pow2_pos(t);
                if k <= 0 { lemma_mul_le(k, 0, pow2(t) as int); lemma_mul_one(pow2(t) as int); lemma_mul_comm(pow2(t) as int, k); }
                lemma_mul_le(1, k, pow2(t) as int); lemma_mul_one(pow2(t) as int); lemma_mul_comm(pow2(t) as int, k);
            }
            assert(false);
        }
    }
}

/// ODD STEP, common part: nothing is owed, the remainder is odd and agrees with the window modulo 128
pub proof fn lemma_cl_step_odd(nn: int, exp: int, c: nat, hi: int, bits: nat, owed: nat, nbits: nat, more: bool)
    requires cl_state(nn, exp, c, hi, bits, owed, nbits, more), exp % 2 == 1,
    ensures owed == 0, (exp + (pow2(c) as int) * hi) % 128 == exp % 128, (exp % 128) % 2 == 1, 1 <= exp % 128 < 128,
        c == 0 ==> exp == 1 && hi == 0,
{
    lemma2_to64();
    assert(pow2(7) == 128) by { lemma_pow2_unfold(7); }
    lemma_pow2_pos(c);
    let pc = pow2(c) as int;
    let rem = exp + pc * hi;
    lemma_mul_nonneg(pc, hi);
    if c == 0 { lemma_mul_one(hi); }
    if c >= 1 { lemma_pow2_div_mul(1, c, hi); lemma_cl_mod_adds(exp, pc * hi, 2); }
    assert(rem % 2 == 1);
    if owed == 6 { lemma_pow2_div_smaller(rem, 1, 6); assert(false); }
    if c < 7 { lemma_mul_one(pc); } else { lemma_pow2_div_mul(7, c, hi); }
    lemma_cl_mod_adds(exp, pc * hi, 128);
    lemma_mod_mod(exp, 2, 64);
    lemma_fundamental_div_mod(exp, 128);
}

/// ODD STEP, positive gap low = exp mod 128 < 64: the window loses low and one bit
pub proof fn lemma_cl_step_pos(nn: int, exp: int, c: nat, hi: int, bits: nat, nbits: nat, more: bool, low: int)
    requires cl_state(nn, exp, c, hi, bits, 0, nbits, more), exp % 2 == 1, low == exp % 128, low < 64, nbits == bitlen(nn as nat),
    ensures
        bits <= nbits,
        // the window is the gap and no word is left: the chain ends (the test `nbits - bits <= 6` holds)
        (exp == low && hi == 0) ==> nbits <= bits + 6 && exp + (pow2(c) as int) * hi == low,
        ({
            let rem = exp + (pow2(c) as int) * hi;
            let ea = exp - low;
            !(exp == low && hi == 0) ==> {
                let rem2 = ea / 2 + (pow2((c - 1) as nat) as int) * hi;
                &&& c >= 1
                &&& ea % 2 == 0
                &&& 0 <= ea / 2 <= pow2((c - 1) as nat) as int
                &&& rem2 >= 1
                &&& rem2 % (pow2(6) as int) == 0
                &&& op_apply(low, rem2) == rem
                &&& 2 * iabs(nn - rem2 * (pow2(bits + 1) as int)) < pow2(bits + 1 + 6) as int
                &&& bits + 1 + 6 <= nbits
            }
        }),
{
    lemma_cl_step_odd(nn, exp, c, hi, bits, 0, nbits, more);
    lemma2_to64();
    lemma_pow2_pos(c);
    let pc = pow2(c) as int;
    let rem = exp + pc * hi;
    lemma_mul_nonneg(pc, hi);
    assert(pow2(0) == 1);
    lemma_cl_bits(nn, rem, bits, 0, nbits);
    let ea = exp - low;
    lemma_mod_sub_multiples_vanish_like(exp, low);
    lemma_mod_sub_multiples_vanish_like(rem, low);
    lemma_half_of_128(ea);
    lemma_half_of_128(rem - low);
    let r2 = (rem - low) / 2;
    lemma_fundamental_div_mod(rem - low, 2);
    lemma_cl_odd_pos(nn, rem, bits, low, r2);
    if exp == low && hi == 0 {
        lemma_mul_one(pc);
        lemma_bitlen_le(nn as nat, bits + 6);
        // nbits is any bound with nn < 2^nbits... the caller's nbits is the bit length
    }
    if !(exp == low && hi == 0) {
        if c == 0 { assert(false); }
        lemma_fundamental_div_mod(ea, 2);
        lemma_cl_half(ea, c, hi);
        assert(r2 == ea / 2 + (pow2((c - 1) as nat) as int) * hi);
        lemma_fundamental_div_mod(exp, 128);
        if hi > 0 { lemma_mul_pos(pc, hi); }
        assert(r2 != 0);
        assert(r2 >= 64);
        lemma_cl_bits(nn, r2, bits + 1, 6, nbits);
    }
}
} // verus!
verus! {
/// ODD STEP, negative gap: low = exp mod 128 > 64, the window is rounded up to the next multiple of 128 and loses one bit
pub proof fn lemma_cl_step_neg(nn: int, exp: int, c: nat, hi: int, bits: nat, nbits: nat, more: bool, low: int)
    requires cl_state(nn, exp, c, hi, bits, 0, nbits, more), exp % 2 == 1, low == exp % 128, low > 64,
    ensures
        c >= 7, bits <= nbits,
        ({
            let rem = exp + (pow2(c) as int) * hi;
            let ea = exp + (128 - low);
            let rem2 = ea / 2 + (pow2((c - 1) as nat) as int) * hi;
            &&& 0 <= ea <= pow2(c) as int
            &&& ea % 2 == 0
            &&& 0 <= ea / 2 <= pow2((c - 1) as nat) as int
            &&& rem2 >= 1
            &&& rem2 % (pow2(6) as int) == 0
            &&& op_apply(-(128 - low), rem2) == rem
            &&& 2 * iabs(nn - rem2 * (pow2(bits + 1) as int)) < pow2(bits + 1 + 6) as int
            &&& bits + 1 + 6 <= nbits
        }),
{
    lemma_cl_step_odd(nn, exp, c, hi, bits, 0, nbits, more);
    lemma2_to64();
    lemma_pow2_pos(c);
    let pc = pow2(c) as int;
    let rem = exp + pc * hi;
    lemma_mul_nonneg(pc, hi);
    assert(pow2(0) == 1);
    lemma_cl_bits(nn, rem, bits, 0, nbits);
    lemma_fundamental_div_mod(exp, 128);
    assert(exp >= 65);
    lemma_pow2_65(c);
    lemma_cl_round_up(exp, c, low);
    let ea = exp + (128 - low);
    lemma_mod_add_to_128(rem, low);
    lemma_half_of_128(ea);
    lemma_half_of_128(rem + 128 - low);
    let r2 = (rem + 128 - low) / 2;
    lemma_fundamental_div_mod(rem + 128 - low, 2);
    lemma_fundamental_div_mod(ea, 2);
    lemma_cl_odd_neg(nn, rem, bits, low, r2);
    lemma_cl_half(ea, c, hi);
    assert(r2 == ea / 2 + (pow2((c - 1) as nat) as int) * hi);
    lemma_cl_bits(nn, r2, bits + 1, 6, nbits);
}
} // verus!
