//! Integer square root (squfof::isqrt: float-seeded Newton iteration), C08.
#![allow(unused_imports, dead_code, unused_variables, non_snake_case)]
use vstd::prelude::*;
use vstd::arithmetic::div_mod::*;
use vstd::arithmetic::mul::*;
use super::nl::*;
verus! {

/// floor(sqrt(n)) by its defining property
pub open spec fn is_isqrt(s: nat, n: nat) -> bool { s * s <= n && n < (s + 1) * (s + 1) }
pub open spec fn isqrt_spec(n: nat) -> nat {
    choose|s: nat| is_isqrt(s, n)
}

proof fn lemma_isqrt_exists(n: nat, k: nat) -> (s: nat)
    requires k * k <= n
    ensures s * s <= n && n < (s + 1) * (s + 1), s >= k
    decreases n - k * k
{
    if n < (k + 1) * (k + 1) { k } else {
        assert((k + 1) * (k + 1) > k * k) by (nonlinear_arith);
        lemma_isqrt_exists(n, k + 1)
    }
}

pub proof fn lemma_isqrt_spec(n: nat)
    ensures isqrt_spec(n) * isqrt_spec(n) <= n, n < (isqrt_spec(n) + 1) * (isqrt_spec(n) + 1)
{
    let s = lemma_isqrt_exists(n, 0);
    assert(is_isqrt(s, n));
}

pub proof fn lemma_isqrt_unique(n: nat, a: nat, b: nat)
    requires a * a <= n, n < (a + 1) * (a + 1), b * b <= n, n < (b + 1) * (b + 1)
    ensures a == b
{
    if a < b { assert((a + 1) * (a + 1) <= b * b) by (nonlinear_arith) requires a + 1 <= b; }
    if b < a { assert((b + 1) * (b + 1) <= a * a) by (nonlinear_arith) requires b + 1 <= a; }
}

pub proof fn lemma_isqrt_ge2(n: nat)
    requires n >= 4
    ensures isqrt_spec(n) >= 2, n < 0x1_0000_0000_0000_0000 ==> isqrt_spec(n) < 0x1_0000_0000
{
    lemma_isqrt_spec(n);
    let s = isqrt_spec(n);
    if s < 2 { assert((s + 1) * (s + 1) <= 4) by (nonlinear_arith) requires s <= 1; }
    if n < 0x1_0000_0000_0000_0000 && s >= 0x1_0000_0000 {
        assert(s * s >= 0x1_0000_0000_0000_0000) by (nonlinear_arith) requires s >= 0x1_0000_0000;
    }
}

/// does an iteration of the Newton loop return from r
pub open spec fn newton_returns(n: int, r: int) -> bool {
    let q = n / r;
    q == r || q == r + 1 || q == r - 1
}

/// how many more iterations can leave r without returning
pub open spec fn newton_measure(n: int, s: int, r: int) -> int {
    if newton_returns(n, r) { 0 } else if r == s - 1 { 2 } else { 1 }
}

/// one step of `isqrt` from r in [s-1, s+1]: what is returned is s, and a step that does not return moves to a value
/// of [s, s+1] with a smaller measure
pub proof fn lemma_isqrt_newton(n: int, s: int, r: int, q: int)
    requires
        s >= 2, s * s <= n, n < (s + 1) * (s + 1), s - 1 <= r <= s + 1, q == n / r,
        r == s - 1 ==> s >= 1000,
    ensures
        r >= 1, q >= 0,
        (q == r || q == r + 1) ==> r == s,
        (q == r - 1) ==> r - 1 == s,
        !newton_returns(n, r) ==> s <= (r + q) / 2 <= s + 1 && newton_measure(n, s, (r + q) / 2) < newton_measure(n, s, r),
        r + q <= 4 * s + 8,
{
    lemma_fundamental_div_mod(n, r);
    lemma_mod_bound(n, r);
    let m = n % r;
    assert(n == r * q + m && 0 <= m < r);
    assert((s + 1) * (s + 1) == s * s + 2 * s + 1) by (nonlinear_arith);
    if r == s {
        // s q <= n < s^2 + 2s + 1  and  s^2 <= n < s q + s
        assert(q >= s) by (nonlinear_arith) requires s * q + m == n, m < s, n >= s * s, s >= 2;
        assert(q <= s + 2) by (nonlinear_arith) requires s * q + m == n, m >= 0, n < s * s + 2 * s + 1, s >= 2;
        if q == s + 2 {
            // n = s^2 + 2s, next r = s + 1 with n / (s+1) = s
            assert(n == s * s + 2 * s) by (nonlinear_arith) requires s * (s + 2) + m == n, m >= 0, n < s * s + 2 * s + 1;
            let r2 = s + 1;
            assert((r + q) / 2 == r2);
            assert(n == s * r2 + s) by (nonlinear_arith) requires n == s * s + 2 * s, r2 == s + 1;
            lemma_fundamental_div_mod_converse(n, r2, s, s);
            assert(n / r2 == s);
            assert(newton_returns(n, r2));
        }
    } else if r == s + 1 {
        assert(q <= s) by (nonlinear_arith) requires (s + 1) * q + m == n, m >= 0, n < s * s + 2 * s + 1, s >= 2;
        assert(q >= s - 1) by (nonlinear_arith) requires (s + 1) * q + m == n, m < s + 1, n >= s * s, s >= 2;
        if q == s - 1 {
            // n < (s+1)(s-1) + s + 1 = s^2 + s, so n / s = s
            assert(n < s * s + s) by (nonlinear_arith) requires (s + 1) * (s - 1) + m == n, m < s + 1;
            assert((r + q) / 2 == s);
            let m2 = n - s * s;
            assert(n == s * s + m2 && 0 <= m2 < s);
            lemma_fundamental_div_mod_converse(n, s, s, m2);
            assert(n / s == s);
            assert(newton_returns(n, s));
        }
    } else {
        // r = s - 1, s large
        assert(q >= s + 1) by (nonlinear_arith) requires (s - 1) * q + m == n, m < s - 1, n >= s * s, s >= 1000;
        assert(q <= s + 3) by (nonlinear_arith) requires (s - 1) * q + m == n, m >= 0, n < s * s + 2 * s + 1, s >= 1000;
        let r2 = (r + q) / 2;
        assert(s <= r2 <= s + 1);
    }
}


/// n >= 2^52 has an integer square root of at least 2^26
pub proof fn lemma_isqrt_large(n: nat)
    requires n >= 0x10_0000_0000_0000
    ensures isqrt_spec(n) >= 0x400_0000
{
    lemma_isqrt_spec(n);
    let s = isqrt_spec(n);
    if s < 0x400_0000 { assert((s + 1) * (s + 1) <= 0x10_0000_0000_0000) by (nonlinear_arith) requires s + 1 <= 0x400_0000; }
}

} // verus!
