//! Vocabulary of the factoring entry point (C01).
#![allow(unused_imports, dead_code, unused_variables, non_snake_case)]
use vstd::prelude::*;
use bnum::BUint;
use super::limbs::*;
verus! {

/// product of the mathematical values of a list of bnum integers
pub open spec fn seq_prod<const N: usize>(s: Seq<BUint<N>>) -> nat
    decreases s.len()
{
    if s.len() == 0 { 1 } else { uv(s[0]) * seq_prod(s.subrange(1, s.len() as int)) }
}

pub open spec fn sorted_uv<const N: usize>(s: Seq<BUint<N>>) -> bool {
    forall|i: int, j: int| 0 <= i < j < s.len() ==> uv(s[i]) <= uv(s[j])
}

/// `s2` is a rearrangement of `s1` (same multiset of values)
pub open spec fn permutation_of<const N: usize>(s1: Seq<BUint<N>>, s2: Seq<BUint<N>>) -> bool {
    s1.to_multiset() =~= s2.to_multiset()
}

/// R3 (guard mode): a run-time assertion of the original code, used as what it is: the continuing path assumes it.
#[verifier::external_body]
pub fn verif_diverge() -> (r: bool)
    ensures false
{
    panic!("guarded assertion failed")
}


pub proof fn lemma_seq_prod_push<const N: usize>(s: Seq<BUint<N>>, x: BUint<N>)
    ensures seq_prod(s.push(x)) == seq_prod(s) * uv(x)
    decreases s.len()
{
    let sp = s.push(x);
    if s.len() == 0 {
        assert(sp.subrange(1, 1) =~= Seq::<BUint<N>>::empty());
        assert(seq_prod(sp) == uv(sp[0]) * seq_prod(sp.subrange(1, 1)));
        assert(seq_prod(Seq::<BUint<N>>::empty()) == 1);
        super::nl::lemma_mul_one(uv(x) as int);
    } else {
        let t = s.subrange(1, s.len() as int);
        assert(sp.subrange(1, sp.len() as int) =~= t.push(x));
        lemma_seq_prod_push(t, x);
        super::nl::lemma_mul_assoc(uv(s[0]) as int, seq_prod(t) as int, uv(x) as int);
        assert(seq_prod(sp) == uv(sp[0]) * seq_prod(sp.subrange(1, sp.len() as int)));
    }
}

/// removing the element at index i divides the product by it
pub proof fn lemma_seq_prod_remove<const N: usize>(s: Seq<BUint<N>>, i: int)
    requires 0 <= i < s.len()
    ensures seq_prod(s) == uv(s[i]) * seq_prod(s.remove(i))
    decreases s.len()
{
    if i == 0 {
        assert(s.remove(0) =~= s.subrange(1, s.len() as int));
    } else {
        let t = s.subrange(1, s.len() as int);
        lemma_seq_prod_remove(t, i - 1);
        let r = s.remove(i);
        assert(r.subrange(1, r.len() as int) =~= t.remove(i - 1));
        assert(r[0] == s[0]);
        assert(seq_prod(r) == uv(s[0]) * seq_prod(t.remove(i - 1)));
        assert(t[i - 1] == s[i]);
        super::nl::lemma_mul_assoc(uv(s[0]) as int, uv(s[i]) as int, seq_prod(t.remove(i - 1)) as int);
        super::nl::lemma_mul_comm(uv(s[0]) as int, uv(s[i]) as int);
        super::nl::lemma_mul_assoc(uv(s[i]) as int, uv(s[0]) as int, seq_prod(t.remove(i - 1)) as int);
    }
}

/// the product does not depend on the order of the factors
pub proof fn lemma_seq_prod_perm<const N: usize>(s1: Seq<BUint<N>>, s2: Seq<BUint<N>>)
    requires permutation_of(s1, s2)
    ensures seq_prod(s1) == seq_prod(s2)
    decreases s1.len()
{
    s1.to_multiset_ensures();
    s2.to_multiset_ensures();
    assert(s1.len() == s2.len());
    if s1.len() == 0 {
    } else {
        let x = s1[0];
        // x occurs in s2
        assert(s1.to_multiset().count(x) > 0);
        assert(s2.to_multiset().count(x) > 0);
        assert(s2.contains(x));
        let i = choose|i: int| 0 <= i < s2.len() && s2[i] == x;
        lemma_seq_prod_remove(s2, i);
        let t1 = s1.subrange(1, s1.len() as int);
        assert(t1 =~= s1.remove(0));
        let t2 = s2.remove(i);
        // multisets of the remainders agree
        vstd::seq_lib::to_multiset_remove(s1, 0);
        vstd::seq_lib::to_multiset_remove(s2, i);
        assert(t1.to_multiset() =~= t2.to_multiset());
        lemma_seq_prod_perm(t1, t2);
    }
}


/// a zero entry makes the whole product zero
pub proof fn lemma_seq_prod_zero<const N: usize>(s: Seq<BUint<N>>, i: int)
    requires 0 <= i < s.len(), uv(s[i]) == 0
    ensures seq_prod(s) == 0
{
    lemma_seq_prod_remove(s, i);
    super::nl::lemma_mul_one(seq_prod(s.remove(i)) as int);
}


/// peeling the first factor off a product
pub proof fn lemma_seq_prod_skip<const N: usize>(s: Seq<BUint<N>>, i: int)
    requires 0 <= i < s.len()
    ensures seq_prod(s.skip(i)) == uv(s[i]) * seq_prod(s.skip(i + 1))
{
    let t = s.skip(i);
    assert(t.subrange(1, t.len() as int) =~= s.skip(i + 1));
    assert(t[0] == s[i]);
}

} // verus!
