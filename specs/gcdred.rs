//! C09: vocabulary and lemmas for arith_gcd (Lehmer-type multiprecision gcd): unimodular cofactor matrices, the column
//! invariant of the nearest-remainder Euclid iteration of `reduce64`, gcd invariance under unimodular maps.
#![allow(unused_imports, dead_code, unused_variables, non_snake_case)]
use vstd::prelude::*;
use vstd::arithmetic::power2::*;
use super::nl::*;
use super::numint::*;
use super::bnspec::*;
verus! {

pub open spec fn iabs(x: int) -> int { if x >= 0 { x } else { -x } }

/// p and q have opposite signs (zero counts as either sign)
pub open spec fn opp(p: int, q: int) -> bool { (p >= 0 && q <= 0) || (p <= 0 && q >= 0) }

/// 2^36: the bound `reduce64` promises for the entries of its matrix
pub open spec fn lim36() -> int { 0x10_0000_0000 }

/// determinant +-1
pub open spec fn unimod(a: int, b: int, c: int, d: int) -> bool { a * d - b * c == 1 || a * d - b * c == -1 }

/// State of one column (p over q) of the cofactor matrix of the nearest-remainder Euclid iteration, (u, v) being the
/// current remainders: either the untouched unit column, or the lower entry dominates and either the signs alternate or
/// the last step rounded up (then the next quotient is at least 2, which restores domination).
pub open spec fn col_ok(p: int, q: int, u: int, v: int) -> bool {
    (p == 1 && q == 0) || (iabs(p) <= iabs(q) && (opp(p, q) || 2 * v < u))
}

/// One step of the iteration on one column: domination is preserved and the new entry is at most (quotient + 2) times
/// the old maximum.
pub proof fn lemma_col_step(p: int, q: int, u: int, v: int, qq: int, r: int, m: int, up: bool)
    requires
        col_ok(p, q, u, v), v > 0, u >= v, u == qq * v + r, 0 <= r < v,
        iabs(q) <= m, (qq + 2) * m < lim36(),
        up ==> 2 * r > v, !up ==> 2 * r <= v,
    ensures
        qq >= 1,
        col_ok(q, if up { (qq + 1) * q - p } else { p - qq * q }, v, if up { v - r } else { r }),
        iabs(if up { (qq + 1) * q - p } else { p - qq * q }) < lim36(),
{
    if qq <= 0 { lemma_mul_le(qq, 0, v); lemma_mul_one(v); }
    assert(qq >= 1);
    let t = qq * q;
    lemma_distrib_r(qq, 1, q); lemma_mul_one(q);
    assert((qq + 1) * q == t + q);
    let aq = iabs(q);
    let at = qq * aq;
    if q >= 0 { lemma_mul_nonneg(qq, q); assert(t == at); } else { lemma_mul_neg(qq, -q); assert(t == -at); }
    lemma_mul_nonneg(qq, aq);
    lemma_mul_le(1, qq, aq); lemma_mul_one(aq);
    assert(at >= aq);
    lemma_mul_le(aq, m, qq);
    assert(at <= qq * m);
    lemma_distrib_r(qq, 2, m);
    assert(at + 2 * m < lim36());
    if 2 * v < u {
        if qq <= 1 { lemma_mul_le(qq, 1, v); lemma_mul_one(v); }
        assert(qq >= 2);
        lemma_mul_le(2, qq, aq);
        assert(at >= 2 * aq);
    }
    if p == 1 && q == 0 {
        lemma_mul_one(qq);
    }
}

/// One step of the iteration on the pair of rows: the new row evaluates to the new remainder and the matrix stays unimodular.
pub proof fn lemma_red_step(a: int, b: int, c: int, d: int, x: int, y: int, u: int, v: int, qq: int, r: int, up: bool)
    requires a * x + b * y == u, c * x + d * y == v, u == qq * v + r, unimod(a, b, c, d),
    ensures
        (if up { (qq + 1) * c - a } else { a - qq * c }) * x + (if up { (qq + 1) * d - b } else { b - qq * d }) * y
            == (if up { v - r } else { r }),
        unimod(c, d, if up { (qq + 1) * c - a } else { a - qq * c }, if up { (qq + 1) * d - b } else { b - qq * d }),
{
    if up {
        let k = qq + 1;
        assert((k * c - a) * x + (k * d - b) * y == k * (c * x + d * y) - (a * x + b * y)) by (nonlinear_arith);
        assert(c * (k * d - b) - d * (k * c - a) == a * d - b * c) by (nonlinear_arith);
        lemma_distrib_r(qq, 1, v); lemma_mul_one(v);
    } else {
        assert((a - qq * c) * x + (b - qq * d) * y == (a * x + b * y) - qq * (c * x + d * y)) by (nonlinear_arith);
        assert(c * (b - qq * d) - d * (a - qq * c) == -(a * d - b * c)) by (nonlinear_arith);
    }
}

/// bits(A) + bits(B) <= 36  ==>  (A + 1) * B < 2^36
pub proof fn lemma_bits_prod36(a: nat, b: nat)
    requires bitlen(a) + bitlen(b) <= 36
    ensures (a + 1) * b < lim36()
{
    let k1 = bitlen(a); let k2 = bitlen(b);
    lemma_bitlen_bound(a, k1); lemma_bitlen_bound(b, k2);
    lemma_pow2_adds(k1, k2);
    lemma2_to64();
    assert(pow2(36) == 0x10_0000_0000) by { lemma_pow2_adds(32, 4); }
    if k1 + k2 < 36 { lemma_pow2_strictly_increases(k1 + k2, 36); }
    if b > 0 {
        lemma_mul_le((a + 1) as int, pow2(k1) as int, b as int);
        lemma_mul_lt_pos(b as int, pow2(k2) as int, pow2(k1) as int);
    } else {
        lemma_mul_one((a + 1) as int);
    }
}

/// |a| <= 2^36, 0 <= x < 2^64  ==>  |a x| <= 2^100
pub proof fn lemma_prod_bound100(a: int, x: int)
    requires iabs(a) <= lim36(), 0 <= x < 0x1_0000_0000_0000_0000
    ensures -0x10_0000_0000_0000_0000_0000_0000int <= a * x <= 0x10_0000_0000_0000_0000_0000_0000int
{
    let aa = iabs(a);
    lemma_mul_le2(aa, lim36(), x, 0x1_0000_0000_0000_0000);
    lemma_mul_nonneg(aa, x);
    assert(lim36() * 0x1_0000_0000_0000_0000 == 0x10_0000_0000_0000_0000_0000_0000int) by (compute_only);
    if a < 0 { lemma_mul_neg(aa, x); assert(a * x == -(aa * x)); }
}

} // verus!
verus! {
/// q >= 1, |c| <= m, (q + 2) m < 2^36  ==>  |q c| and |(q + 1) c| are below 2^36
pub proof fn lemma_prod_small(q: int, c: int, m: int)
    requires q >= 0, iabs(c) <= m, (q + 2) * m < lim36()
    ensures iabs(q * c) < lim36(), iabs((q + 1) * c) < lim36()
{
    let ac = iabs(c);
    lemma_mul_le(ac, m, q); lemma_mul_le(ac, m, q + 1);
    lemma_distrib_r(q, 2, m); lemma_distrib_r(q, 1, m); lemma_mul_one(m);
    lemma_mul_nonneg(q, ac); lemma_mul_nonneg(q + 1, ac);
    if c < 0 { lemma_mul_neg(q, ac); lemma_mul_neg(q + 1, ac); }
}
} // verus!
verus! {
/// one word of `mulword`: low part stays, carry moves up
pub proof fn lemma_mulword_step(pi: int, l_nd: int, l_o: int, o: int, w: int, c: int, lo: int, hi: int)
    requires l_nd + pi * c == l_o * w, lo + super::bits::two64() * hi == o * w + c
    ensures (l_nd + pi * lo) + (super::bits::two64() * pi) * hi == (l_o + pi * o) * w
{
    let ww = super::bits::two64();
    lemma_distrib_r(l_o, pi * o, w);
    lemma_mul_assoc(pi, o, w);
    lemma_distrib_l(pi, o * w, c);
    lemma_distrib_l(pi, lo, ww * hi);
    lemma_mul_assoc(pi, ww, hi); lemma_mul_comm(pi, ww);
}
} // verus!
verus! {
/// products of signs
pub proof fn lemma_sign_prod()
    ensures forall|p: int, q: int| -1 <= p <= 1 && -1 <= q <= 1 ==> #[trigger] (p * q) == (if p == 0 || q == 0 { 0int } else if p == q { 1int } else { -1int })
{
    assert forall|p: int, q: int| -1 <= p <= 1 && -1 <= q <= 1 implies #[trigger] (p * q) == (if p == 0 || q == 0 { 0int } else if p == q { 1int } else { -1int }) by {
        lemma_mul_one(p); lemma_mul_one(q); lemma_mul_neg(p, 1); lemma_mul_neg(1, q);
    }
}
} // verus!
