//! C09: vocabulary and lemmas for arith_gcd (Lehmer-type multiprecision gcd): unimodular cofactor matrices, the column
//! invariant of the nearest-remainder Euclid iteration of `reduce64`, gcd invariance under unimodular maps.
#![allow(unused_imports, dead_code, unused_variables, non_snake_case)]
use vstd::prelude::*;
use vstd::arithmetic::power2::*;
use super::nl::*;
use super::numint::*;
use super::bnspec::*;
verus! {

pub open spec fn iabs(x: int) -> int { if x >= 0 { x } else { -x } }

/// p and q have opposite signs (zero counts as either sign)
pub open spec fn opp(p: int, q: int) -> bool { (p >= 0 && q <= 0) || (p <= 0 && q >= 0) }

/// 2^36: the bound `reduce64` promises for the entries of its matrix
pub open spec fn lim36() -> int { 0x10_0000_0000 }

/// determinant +-1
pub open spec fn unimod(a: int, b: int, c: int, d: int) -> bool { a * d - b * c == 1 || a * d - b * c == -1 }

/// State of one column (p over q) of the cofactor matrix of the nearest-remainder Euclid iteration, (u, v) being the
/// current remainders: either the untouched unit column, or the lower entry dominates and either the signs alternate or
/// the last step rounded up (then the next quotient is at least 2, which restores domination).
pub open spec fn col_ok(p: int, q: int, u: int, v: int) -> bool {
    (p == 1 && q == 0) || (iabs(p) <= iabs(q) && (opp(p, q) || 2 * v < u))
}

/// One step of the iteration on one column: domination is preserved and the new entry is at most (quotient + 2) times
/// the old maximum.
pub proof fn lemma_col_step(p: int, q: int, u: int, v: int, qq: int, r: int, m: int, up: bool)
    requires
        col_ok(p, q, u, v), v > 0, u >= v, u == qq * v + r, 0 <= r < v,
        iabs(q) <= m, (qq + 2) * m < lim36(),
        up ==> 2 * r > v, !up ==> 2 * r <= v,
    ensures
        qq >= 1,
        col_ok(q, if up { (qq + 1) * q - p } else { p - qq * q }, v, if up { v - r } else { r }),
        iabs(if up { (qq + 1) * q - p } else { p - qq * q }) < lim36(),
{
    if qq <= 0 { lemma_mul_le(qq, 0, v); lemma_mul_one(v); }
    assert(qq >= 1);
    let t = qq * q;
    lemma_distrib_r(qq, 1, q); lemma_mul_one(q);
    assert((qq + 1) * q == t + q);
    let aq = iabs(q);
    let at = qq * aq;
    if q >= 0 { lemma_mul_nonneg(qq, q); assert(t == at); } else { lemma_mul_neg(qq, -q); assert(t == -at); }
    lemma_mul_nonneg(qq, aq);
    lemma_mul_le(1, qq, aq); lemma_mul_one(aq);
    assert(at >= aq);
    lemma_mul_le(aq, m, qq);
    assert(at <= qq * m);
    lemma_distrib_r(qq, 2, m);
    assert(at + 2 * m < lim36());
    if 2 * v < u {
        if qq <= 1 { lemma_mul_le(qq, 1, v); lemma_mul_one(v); }
        assert(qq >= 2);
        lemma_mul_le(2, qq, aq);
        assert(at >= 2 * aq);
    }
    if p == 1 && q == 0 {
        lemma_mul_one(qq);
    }
}

/// One step of the iteration on the pair of rows: the new row evaluates to the new remainder and the matrix stays unimodular.
pub proof fn lemma_red_step(a: int, b: int, c: int, d: int, x: int, y: int, u: int, v: int, qq: int, r: int, up: bool)
    requires a * x + b * y == u, c * x + d * y == v, u == qq * v + r, unimod(a, b, c, d),
    ensures
        (if up { (qq + 1) * c - a } else { a - qq * c }) * x + (if up { (qq + 1) * d - b } else { b - qq * d }) * y
            == (if up { v - r } else { r }),
        unimod(c, d, if up { (qq + 1) * c - a } else { a - qq * c }, if up { (qq + 1) * d - b } else { b - qq * d }),
{
    if up {
        let k = qq + 1;
        assert((k * c - a) * x + (k * d - b) * y == k * (c * x + d * y) - (a * x + b * y)) by (nonlinear_arith);
        assert(c * (k * d - b) - d * (k * c - a) == a * d - b * c) by (nonlinear_arith);
        lemma_distrib_r(qq, 1, v); lemma_mul_one(v);
    } else {
        assert((a - qq * c) * x + (b - qq * d) * y == (a * x + b * y) - qq * (c * x + d * y)) by (nonlinear_arith);
        assert(c * (b - qq * d) - d * (a - qq * c) == -(a * d - b * c)) by (nonlinear_arith);
    }
}

/// bits(A) + bits(B) <= 36  ==>  (A + 1) * B < 2^36
pub proof fn lemma_bits_prod36(a: nat, b: nat)
    requires bitlen(a) + bitlen(b) <= 36
    ensures (a + 1) * b < lim36()
{
    let k1 = bitlen(a); let k2 = bitlen(b);
    lemma_bitlen_bound(a, k1); lemma_bitlen_bound(b, k2);
    lemma_pow2_adds(k1, k2);
    lemma2_to64();
    assert(pow2(36) == 0x10_0000_0000) by { lemma_pow2_adds(32, 4); }
    if k1 + k2 < 36 { lemma_pow2_strictly_increases(k1 + k2, 36); }
    if b > 0 {
        lemma_mul_le((a + 1) as int, pow2(k1) as int, b as int);
        lemma_mul_lt_pos(b as int, pow2(k2) as int, pow2(k1) as int);
    } else {
        lemma_mul_one((a + 1) as int);
    }
}

/// |a| <= 2^36, 0 <= x < 2^64  ==>  |a x| <= 2^100
pub proof fn lemma_prod_bound100(a: int, x: int)
    requires iabs(a) <= lim36(), 0 <= x < 0x1_0000_0000_0000_0000
    ensures -0x10_0000_0000_0000_0000_0000_0000int <= a * x <= 0x10_0000_0000_0000_0000_0000_0000int
{
    let aa = iabs(a);
    lemma_mul_le2(aa, lim36(), x, 0x1_0000_0000_0000_0000);
    lemma_mul_nonneg(aa, x);
    assert(lim36() * 0x1_0000_0000_0000_0000 == 0x10_0000_0000_0000_0000_0000_0000int) by (compute_only);
    if a < 0 { lemma_mul_neg(aa, x); assert(a * x == -(aa * x)); }
}

} // verus!
verus! {
/// q >= 1, |c| <= m, (q + 2) m < 2^36  ==>  |q c| and |(q + 1) c| are below 2^36
pub proof fn lemma_prod_small(q: int, c: int, m: int)
    requires q >= 0, iabs(c) <= m, (q + 2) * m < lim36()
    ensures iabs(q * c) < lim36(), iabs((q + 1) * c) < lim36()
{
    let ac = iabs(c);
    lemma_mul_le(ac, m, q); lemma_mul_le(ac, m, q + 1);
    lemma_distrib_r(q, 2, m); lemma_distrib_r(q, 1, m); lemma_mul_one(m);
    lemma_mul_nonneg(q, ac); lemma_mul_nonneg(q + 1, ac);
    if c < 0 { lemma_mul_neg(q, ac); lemma_mul_neg(q + 1, ac); }
}
} // verus!
verus! {
/// one word of `mulword`: low part stays, carry moves up
pub proof fn lemma_mulword_step(pi: int, l_nd: int, l_o: int, o: int, w: int, c: int, lo: int, hi: int)
    requires l_nd + pi * c == l_o * w, lo + super::bits::two64() * hi == o * w + c
    ensures (l_nd + pi * lo) + (super::bits::two64() * pi) * hi == (l_o + pi * o) * w
{
    let ww = super::bits::two64();
    lemma_distrib_r(l_o, pi * o, w);
    lemma_mul_assoc(pi, o, w);
    lemma_distrib_l(pi, o * w, c);
    lemma_distrib_l(pi, lo, ww * hi);
    lemma_mul_assoc(pi, ww, hi); lemma_mul_comm(pi, ww);
}
} // verus!
verus! {
/// products of signs
pub proof fn lemma_sign_prod()
    ensures forall|p: int, q: int| -1 <= p <= 1 && -1 <= q <= 1 ==> #[trigger] (p * q) == (if p == 0 || q == 0 { 0int } else if p == q { 1int } else { -1int })
{
    assert forall|p: int, q: int| -1 <= p <= 1 && -1 <= q <= 1 implies #[trigger] (p * q) == (if p == 0 || q == 0 { 0int } else if p == q { 1int } else { -1int }) by {
        lemma_mul_one(p); lemma_mul_one(q); lemma_mul_neg(p, 1); lemma_mul_neg(1, q);
    }
}
} // verus!
verus! {
/// e divides x and y  ==>  e divides |a x + b y|
pub proof fn lemma_dvd_lincomb(e: nat, x: nat, y: nat, a: int, b: int)
    requires dvd(e, x), dvd(e, y)
    ensures dvd(e, iabs(a * x + b * y) as nat)
{
    let kx = lemma_dvd_witness(e, x); let ky = lemma_dvd_witness(e, y);
    let k = a * kx + b * ky;
    // a x + b y == e * k
    lemma_mul_assoc(a, e as int, kx as int); lemma_mul_comm(a, e as int); lemma_mul_assoc(e as int, a, kx as int);
    lemma_mul_assoc(b, e as int, ky as int); lemma_mul_comm(b, e as int); lemma_mul_assoc(e as int, b, ky as int);
    lemma_distrib_l(e as int, a * kx, b * ky);
    assert(a * x + b * y == e * k);
    if k >= 0 { lemma_mul_nonneg(e as int, k); lemma_dvd_mul(e, k as nat); }
    else { lemma_mul_neg(e as int, -k); lemma_mul_nonneg(e as int, -k); lemma_dvd_mul(e, (-k) as nat); }
}

/// a unimodular integer map (followed by absolute values) preserves the gcd
pub proof fn lemma_gcd_unimod(x: nat, y: nat, a: int, b: int, c: int, d: int, x2: nat, y2: nat)
    requires unimod(a, b, c, d), x2 == iabs(a * x + b * y), y2 == iabs(c * x + d * y)
    ensures gcd_spec(x2, y2) == gcd_spec(x, y)
{
    let g = gcd_spec(x, y); let g2 = gcd_spec(x2, y2);
    lemma_gcd_spec(x, y); lemma_gcd_spec(x2, y2);
    let u = a * x + b * y; let v = c * x + d * y;
    // inverse map: d u - b v == det x, a v - c u == det y
    assert(d * (a * x + b * y) - b * (c * x + d * y) == (a * d - b * c) * x) by (nonlinear_arith);
    assert(a * (c * x + d * y) - c * (a * x + b * y) == (a * d - b * c) * y) by (nonlinear_arith);
    let det = a * d - b * c;
    // in terms of the absolute values x2, y2 with signs su, sv
    let su: int = if u >= 0 { 1 } else { -1 }; let sv: int = if v >= 0 { 1 } else { -1 };
    assert(u == su * x2) by { lemma_mul_one(x2 as int); lemma_mul_neg(1, x2 as int); }
    assert(v == sv * y2) by { lemma_mul_one(y2 as int); lemma_mul_neg(1, y2 as int); }
    lemma_mul_assoc(d, su, x2 as int); lemma_mul_assoc(b, sv, y2 as int);
    lemma_mul_assoc(a, sv, y2 as int); lemma_mul_assoc(c, su, x2 as int);
    assert(det * x == (d * su) * x2 + (-(b * sv)) * y2) by { lemma_mul_neg(b * sv, y2 as int); }
    assert(det * y == (-(c * su)) * x2 + (a * sv) * y2) by { lemma_mul_neg(c * su, x2 as int); }
    assert(iabs(det * x) == x && iabs(det * y) == y) by { lemma_mul_one(x as int); lemma_mul_one(y as int); lemma_mul_neg(1, x as int); lemma_mul_neg(1, y as int); }
    if x == 0 && y == 0 {
        lemma_mul_one(a); lemma_mul_one(b); lemma_mul_one(c); lemma_mul_one(d);
        assert(x2 == 0 && y2 == 0);
    } else {
        if x2 == 0 && y2 == 0 {
            lemma_mul_one(d * su); lemma_mul_one(-(b * sv)); lemma_mul_one(-(c * su)); lemma_mul_one(a * sv);
            assert(false);
        }
        assert(g > 0 && g2 > 0);
        lemma_dvd_lincomb(g, x, y, a, b); lemma_dvd_lincomb(g, x, y, c, d);
        assert(dvd(g, x2) && dvd(g, y2));
        assert(g2 % g == 0);
        lemma_dvd_lincomb(g2, x2, y2, d * su, -(b * sv)); lemma_dvd_lincomb(g2, x2, y2, -(c * su), a * sv);
        assert(dvd(g2, x) && dvd(g2, y));
        assert(g % g2 == 0);
        lemma_dvd_antisym(g, g2);
    }
}

pub proof fn lemma_dvd_antisym(a: nat, b: nat)
    requires a > 0, b > 0, a % b == 0, b % a == 0
    ensures a == b
{
    let k = lemma_dvd_witness(b, a); let j = lemma_dvd_witness(a, b);
    // a == b k, b == a j
    if k == 0 { lemma_mul_one(b as int); }
    if j == 0 { lemma_mul_one(a as int); }
    if k >= 2 { lemma_mul_le(2, k as int, b as int); lemma_mul_comm(b as int, k as int); }
    if j >= 2 { lemma_mul_le(2, j as int, a as int); lemma_mul_comm(a as int, j as int); }
    lemma_mul_one(a as int); lemma_mul_one(b as int);
}

/// a non-negative d with the gcd properties is the recursive gcd
pub proof fn lemma_is_gcd_spec(d: int, a: nat, b: nat)
    requires is_gcd(d, a as int, b as int)
    ensures d == gcd_spec(a, b) as int
{
    lemma_gcd_spec(a, b);
    let g = gcd_spec(a, b);
    if a == 0 && b == 0 {
        assert(g == 0);
    } else {
        assert(g > 0 && d > 0);
        assert(dvd(d as nat, a) && dvd(d as nat, b));
        assert(g % (d as nat) == 0);
        assert((a as int) % (g as int) == 0 && (b as int) % (g as int) == 0);
        assert(d % (g as int) == 0);
        lemma_dvd_antisym(d as nat, g);
    }
}

/// Bezout + divides both  ==>  gcd
pub proof fn lemma_bezout_is_gcd(g: int, u: int, v: int, a: nat, b: nat)
    requires g >= 1, u * a + v * b == g, (a as int) % g == 0, (b as int) % g == 0
    ensures g == gcd_spec(a, b) as int
{
    lemma_gcd_spec(a, b);
    let gs = gcd_spec(a, b);
    assert(a > 0 || b > 0) by { if a == 0 && b == 0 { lemma_mul_one(u); lemma_mul_one(v); } }
    assert(dvd(g as nat, a) && dvd(g as nat, b));
    assert(gs % (g as nat) == 0);
    lemma_dvd_lincomb(gs, a, b, u, v);
    assert(dvd(gs, g as nat));
    lemma_dvd_antisym(g as nat, gs);
}
} // verus!
verus! {
pub proof fn lemma_gcd_swap(x: nat, y: nat)
    ensures gcd_spec(y, x) == gcd_spec(x, y)
{
    lemma_mul_one(x as int); lemma_mul_one(y as int);
    lemma_gcd_unimod(x, y, 0, 1, 1, 0, y, x);
}

/// the rounding-up Euclid step: (x, y) -> (y, y - r) with r = x mod y
pub proof fn lemma_gcd_euclid_up(x: nat, y: nat)
    requires y > 0
    ensures gcd_spec(y, (y - x % y) as nat) == gcd_spec(x, y), gcd_spec(y, x % y) == gcd_spec(x, y)
{
    let q = x / y; let r = x % y;
    vstd::arithmetic::div_mod::lemma_fundamental_div_mod(x as int, y as int);
    lemma_mul_one(x as int); lemma_mul_one(y as int);
    lemma_distrib_r(q as int, 1, y as int); lemma_mul_comm(y as int, q as int);
    lemma_mul_neg(1, x as int);
    // -x + (q + 1) y == y - r
    assert((-1) * (x as int) + (q + 1) * (y as int) == y - r);
    assert(unimod(0, 1, -1, (q + 1) as int)) by { lemma_mul_one((q + 1) as int); lemma_mul_neg(1, 1); }
    lemma_gcd_unimod(x, y, 0, 1, -1, (q + 1) as int, y, (y - r) as nat);
}

/// bit length zero means zero
pub proof fn lemma_bitlen_zero(x: nat)
    requires bitlen(x) == 0
    ensures x == 0
{}

/// preconditions of the two `dot_product` calls of the lattice step of gcd_internal
pub proof fn lemma_lattice_pre(nn: nat, lx: nat, ly: nat, bits: nat, xv: nat, yv: nat, a: int, b: int, size: nat)
    requires
        bitlen(xv) == lx, bitlen(yv) == ly, bits >= lx, bits >= ly, lx + 36 < 64 * nn, ly + 36 < 64 * nn, bits + 36 < 64 * nn,
        iabs(a) <= lim36(), iabs(b) <= lim36(), size == (bits + 63) / 64,
    ensures
        size <= nn, xv < super::limbs::pow_w(size), yv < super::limbs::pow_w(size),
        iabs(a) * (xv as int) + iabs(b) * (yv as int) < super::limbs::pow_w(nn),
{
    lemma_bitlen_bound(xv, lx); lemma_bitlen_bound(yv, ly);
    super::modarith::lemma_pow_w_is_pow2(size); super::modarith::lemma_pow_w_is_pow2(nn);
    if lx < 64 * size { lemma_pow2_strictly_increases(lx, 64 * size); }
    if ly < 64 * size { lemma_pow2_strictly_increases(ly, 64 * size); }
    let top = (64 * nn - 37) as nat;
    if lx < top { lemma_pow2_strictly_increases(lx, top); }
    if ly < top { lemma_pow2_strictly_increases(ly, top); }
    // 2^36 * 2^top == 2^(64 nn - 1), twice that is 2^(64 nn)
    lemma2_to64();
    assert(pow2(36) == 0x10_0000_0000) by { lemma_pow2_adds(32, 4); }
    lemma_pow2_adds(36, top);
    lemma_pow2_unfold(64 * nn);
    let h = pow2(top) as int;
    lemma_mul_le2(iabs(a), lim36(), xv as int, h - 1);
    lemma_mul_le2(iabs(b), lim36(), yv as int, h - 1);
    lemma_distrib_l(lim36(), h, -1); lemma_mul_one(lim36());
}
} // verus!
verus! {
use super::modarith::*;

/// Bezout relation modulo m: a n + b p = x (mod m). With m = 2^(64 N) this is what the wrapping cofactor arithmetic of
/// gcd_internal maintains; it is the exact identity whenever the cofactors are small enough for the left side not to wrap.
pub open spec fn bezm(a: int, b: int, n: int, p: int, x: int, m: int) -> bool { cong(a * n + b * p, x, m) }

/// r = t1 + t2, t1 = v1, t2 = v2 (mod m)  ==>  r = v1 + v2
pub proof fn lemma_cong_lin2(r: int, t1: int, t2: int, v1: int, v2: int, m: int)
    requires m > 0, cong(r, t1 + t2, m), cong(t1, v1, m), cong(t2, v2, m)
    ensures cong(r, v1 + v2, m)
{
    lemma_cong_add(t1, v1, t2, v2, m);
}
/// r = t1 - t2, t1 = v1, t2 = v2 (mod m)  ==>  r = v1 - v2
pub proof fn lemma_cong_lin2_sub(r: int, t1: int, t2: int, v1: int, v2: int, m: int)
    requires m > 0, cong(r, t1 - t2, m), cong(t1, v1, m), cong(t2, v2, m)
    ensures cong(r, v1 - v2, m)
{
    lemma_cong_add(t1, v1, t2, v2, m);
}

/// a row (a2, b2) = a (A, B) + b (C, D) (mod m) of two Bezout rows is a Bezout row for a x + b y
pub proof fn lemma_bezm_lincomb(m: int, n: int, p: int, aa: int, bb: int, x: int, cc: int, dd: int, y: int, a: int, b: int, a2: int, b2: int)
    requires m > 0, bezm(aa, bb, n, p, x, m), bezm(cc, dd, n, p, y, m), cong(a2, a * aa + b * cc, m), cong(b2, a * bb + b * dd, m)
    ensures bezm(a2, b2, n, p, a * x + b * y, m)
{
    // a2 n + b2 p = (a A + b C) n + (a B + b D) p = a (A n + B p) + b (C n + D p) = a x + b y
    lemma_cong_mul(a2, a * aa + b * cc, n, m);
    lemma_cong_mul(b2, a * bb + b * dd, p, m);
    lemma_cong_add(a2 * n, (a * aa + b * cc) * n, b2 * p, (a * bb + b * dd) * p, m);
    lemma_distrib_r(a * aa, b * cc, n); lemma_distrib_r(a * bb, b * dd, p);
    lemma_mul_assoc(a, aa, n); lemma_mul_assoc(b, cc, n); lemma_mul_assoc(a, bb, p); lemma_mul_assoc(b, dd, p);
    lemma_distrib_l(a, aa * n, bb * p); lemma_distrib_l(b, cc * n, dd * p);
    assert((a * aa + b * cc) * n + (a * bb + b * dd) * p == a * (aa * n + bb * p) + b * (cc * n + dd * p));
    lemma_cong_mul(aa * n + bb * p, x, a, m);
    lemma_cong_mul(cc * n + dd * p, y, b, m);
    lemma_cong_add(a * (aa * n + bb * p), a * x, b * (cc * n + dd * p), b * y, m);
}

/// negated row
pub proof fn lemma_bezm_neg(m: int, n: int, p: int, aa: int, bb: int, x: int, a2: int, b2: int)
    requires m > 0, bezm(aa, bb, n, p, x, m), cong(a2, -aa, m), cong(b2, -bb, m)
    ensures bezm(a2, b2, n, p, -x, m)
{
    lemma_mul_neg(1, aa); lemma_mul_neg(1, bb); lemma_mul_neg(1, x);
    lemma_mul_one(aa); lemma_mul_one(bb); lemma_mul_one(x);
    assert(-aa == (-1) * aa + 0 * aa); assert(-bb == (-1) * bb + 0 * bb);
    lemma_bezm_lincomb(m, n, p, aa, bb, x, aa, bb, x, -1, 0, a2, b2);
}
} // verus!
verus! {
/// the size band of C09: both operands at least 12 bits below the type width
pub open spec fn gcd_band(n: nat, p: nat, words: nat) -> bool { bitlen(n) + 12 <= 64 * words && bitlen(p) + 12 <= 64 * words }

/// A7 (ASSUMED, not proved): inside the size band the wrapping cofactor arithmetic of gcd_internal never wraps, so the
/// Bezout identity that is proved modulo 2^(64 N) for the cofactors it returns holds exactly, and the first cofactor is not the
/// minimum value. The statement is about the cofactors gcd_internal computes (Lehmer-type bounds on the cofactor
/// matrix, not established here: the code's own analysis stops at "hopefully"; above the band it is known to fail, finding
/// F8). It is invoked at exactly one place, inv_mod, on the values returned by gcd_internal.
#[verifier::external_body]
pub proof fn axiom_a7_cofactors_exact(u: int, v: int, n: nat, p: nat, words: nat)
    requires gcd_band(n, p, words), p > 0, bezm(u, v, n as int, p as int, 1, super::limbs::pow_w(words) as int),
        -(super::limbs::pow_w(words) as int) <= 2 * u < super::limbs::pow_w(words) as int,
    ensures u * n + v * p == 1, 2 * u != -(super::limbs::pow_w(words) as int)
{}

/// u n + v p == 1  ==>  (u mod p) n = 1 (mod p), for both signs of u
pub proof fn lemma_inverse_from_bezout(u: int, v: int, n: nat, p: nat, x: nat)
    requires p > 0, u * n + v * p == 1,
        u >= 0 ==> x == (u as nat) % p,
        u < 0 ==> x == (p - ((-u) as nat) % p) as nat,
    ensures x <= p, p > 1 ==> x < p, cong((x * n) as int, 1, p as int)
{
    let pi = p as int; let ni = n as int;
    // u n = 1 - v p = 1 (mod p)
    lemma_cong_add_multiple(1, v, pi);
    lemma_mul_comm(v, pi);
    assert(cong(u * ni, 1, pi)) by { assert(u * ni == 1 - v * pi); }
    if u >= 0 {
        lemma_cong_mod(u, pi);
        lemma_cong_mul(u % pi, u, ni, pi);
        vstd::arithmetic::div_mod::lemma_mod_bound(u, pi);
    } else {
        let au = -u;
        let r = au % pi;
        vstd::arithmetic::div_mod::lemma_mod_bound(au, pi);
        // p - r = -au = u (mod p)
        lemma_cong_mod(au, pi);
        lemma_cong_add(pi, 0, r, au, pi); // cong(p - r, 0 - au)
        assert(cong(pi, 0, pi)) by { vstd::arithmetic::div_mod::lemma_mod_self_0(pi); vstd::arithmetic::div_mod::lemma_small_mod(0, p); }
        lemma_cong_mul(pi - r, u, ni, pi);
        if r == 0 && p > 1 {
            // then u = 0 (mod p), so 0 = 1 (mod p): impossible for p > 1
            lemma_cong_mul(au, 0, ni, pi); lemma_mul_neg(au, ni); lemma_mul_one(ni);
            assert(cong(au * ni, 0, pi));
            assert(au * ni == -(u * ni));
            lemma_cong_add(u * ni, 1, au * ni, 0, pi);
            vstd::arithmetic::div_mod::lemma_small_mod(1, p); vstd::arithmetic::div_mod::lemma_small_mod(0, p);
            assert(false);
        }
    }
}
} // verus!
