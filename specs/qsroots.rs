//! Congruence lemmas behind the root transformations of the sieving polynomials (MPQS / SIQS): pure integer facts.
#![allow(unused_imports, dead_code, unused_variables, non_snake_case)]
use vstd::prelude::*;
use vstd::arithmetic::div_mod::*;
use vstd::arithmetic::mul::*;
use super::nl::*;
use super::modarith::*;
verus! {

pub proof fn lemma_cong_trans(a: int, b: int, c: int, n: int)
    requires cong(a, b, n), cong(b, c, n)
    ensures cong(a, c, n)
{}

pub proof fn lemma_cong_refl(a: int, n: int)
    ensures cong(a, a, n)
{}

/// x ≡ t * ainv, t ≡ rr - b (mod p), with (D dinv) ≡ 1, A = D^2 and k * ainv ≡ dinv^2:  k A x + b ≡ rr
/// (k = 2 when the linear coefficient B is odd: the root of n is 2 A x + B; k = 1 with b = B/2 when it is even)
pub proof fn lemma_root_transform(k: int, a: int, d: int, dinv: int, ainv: int, b: int, rr: int, t: int, x: int, p: int)
    requires
        p > 0, a == d * d,
        cong(dinv * d, 1, p),
        cong(k * ainv, dinv * dinv, p),
        cong(t, rr - b, p),
        cong(x, t * ainv, p),
    ensures cong(k * a * x + b, rr, p)
{
    let u = rr - b;
    // x ≡ u * ainv
    lemma_cong_mul(t, u, ainv, p);
    lemma_cong_trans(x, t * ainv, u * ainv, p);
    // (k a) x ≡ (k a)(u ainv) = u (a (k ainv))
    lemma_cong_mul(x, u * ainv, k * a, p);
    assert((k * a) * (u * ainv) == u * (a * (k * ainv))) by (nonlinear_arith);
    // a (k ainv) ≡ a dinv^2 = (dinv d)(dinv d) ≡ 1
    lemma_cong_mul(k * ainv, dinv * dinv, a, p);
    assert(a * (dinv * dinv) == (dinv * d) * (dinv * d)) by (nonlinear_arith) requires a == d * d;
    lemma_cong_mul(dinv * d, 1, dinv * d, p);
    lemma_cong_mul(dinv * d, 1, 1, p);
    lemma_mul_one(dinv * d);
    lemma_mul_one(1);
    assert(cong((dinv * d) * (dinv * d), 1, p));
    lemma_cong_trans(a * (k * ainv), a * (dinv * dinv), 1, p);
    lemma_cong_mul(a * (k * ainv), 1, u, p);
    lemma_mul_one(u);
    // (k a) x ≡ u, then add b
    lemma_cong_trans((k * a) * x, u * (a * (k * ainv)), u, p);
    lemma_cong_refl(b, p);
    lemma_cong_add((k * a) * x, u, b, b, p);
    lemma_mul_assoc(k, a, x);
}

/// the window shift of a root: out = (x - off) mod p for residues x, off
pub proof fn lemma_shift_root(x: int, off: int, out: int, offset: int, p: int)
    requires
        p > 0, 0 <= x < p, 0 <= off < p, off == offset % p,
        x < off ==> out == x + p - off,
        x >= off ==> out == x - off,
    ensures 0 <= out < p, cong(offset + out, x, p)
{
    lemma_cong_mod(offset, p);
    lemma_cong_refl(out, p);
    lemma_cong_add(off, offset, out, out, p);
    if x < off {
        lemma_cong_add_multiple(x, 1, p);
        lemma_mul_one(p);
    }
}

/// halving modulo an odd p: h = v/2 or (v+p)/2
pub proof fn lemma_half_mod(v: int, h: int, p: int)
    requires p > 0, p % 2 == 1, 0 <= v < p, v % 2 == 0 ==> h == v / 2, v % 2 == 1 ==> h == (v + p) / 2
    ensures 0 <= h < p, cong(2 * h, v, p)
{
    if v % 2 == 1 {
        assert(2 * h == v + p);
        lemma_cong_add_multiple(v, 1, p);
        lemma_mul_one(p);
    }
}

} // verus!
