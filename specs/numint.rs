//! Assumed contracts on num-integer (T-numint).
#![allow(unused_imports, dead_code, unused_variables, non_snake_case)]
use vstd::prelude::*;
verus! {

#[verifier::external_type_specification]
#[verifier::reject_recursive_types(A)]
pub struct ExExtendedGcd<A>(num_integer::ExtendedGcd<A>);

/// d is a common divisor of a and b that every common divisor divides (greatest common divisor, d >= 0)
pub open spec fn is_gcd(d: int, a: int, b: int) -> bool {
    &&& d >= 0
    &&& (d == 0 <==> (a == 0 && b == 0))
    &&& (d > 0 ==> a % d == 0 && b % d == 0)
    &&& forall|e: int| e > 0 && #[trigger] (a % e) == 0 && b % e == 0 ==> d % e == 0
}

pub assume_specification [<u64 as num_integer::Integer>::gcd] (a: &u64, b: &u64) -> (r: u64)
    ensures is_gcd(r as int, *a as int, *b as int);

pub assume_specification [u64::abs_diff] (a: u64, b: u64) -> (r: u64)
    ensures r as int == (if a >= b { a - b } else { b - a });


/// a divisor d of n with 1 < d < n splits n into two proper factors
pub proof fn lemma_proper_divisor(n: int, d: int)
    requires n > 0, 1 < d < n, n % d == 0
    ensures 1 < n / d < n, d * (n / d) == n
{
    vstd::arithmetic::div_mod::lemma_fundamental_div_mod(n, d);
    let q = n / d;
    if q <= 1 { super::nl::lemma_mul_le(q, 1, d); super::nl::lemma_mul_one(d); super::nl::lemma_mul_comm(d, q); }
    if q >= n { super::nl::lemma_mul_le(n, q, d); super::nl::lemma_mul_le(2, d, n); super::nl::lemma_mul_comm(d, q); super::nl::lemma_mul_comm(d, n); }
}


/// the Pollard rho iterate tolerates values slightly above n: (n + 16)^2 < n * 2^64 for 3 <= n <= 2^64 - 64
pub proof fn lemma_rho_square_bound(n: int, x: int)
    requires 3 <= n <= 0xffff_ffff_ffff_ffc0, 0 <= x <= n + 16
    ensures x * x < n * 0x1_0000_0000_0000_0000
{
    let w = 0x1_0000_0000_0000_0000int;
    let m = n + 16;
    super::nl::lemma_mul_le2(x, m, x, m);
    // m*m == n*n + 32n + 256
    super::nl::lemma_distrib_l(m, n, 16); super::nl::lemma_distrib_r(n, 16, n); super::nl::lemma_distrib_r(n, 16, 16);
    super::nl::lemma_mul_comm(16, n);
    assert(m * m == n * n + 32 * n + 256);
    // n*w >= n*(n + 64) == n*n + 64n
    super::nl::lemma_mul_le(n + 64, w, n);
    super::nl::lemma_distrib_l(n, n, 64); super::nl::lemma_mul_comm(n, 64);
    assert(n * w >= n * n + 64 * n);
    if n < 9 {
        super::nl::lemma_mul_le2(m, 24, m, 24);
        super::nl::lemma_mul_le(3, n, w); super::nl::lemma_mul_comm(w, n); super::nl::lemma_mul_comm(w, 3);
    }
}


/// the greatest common divisor as a function (Euclid's recursion)
pub open spec fn gcd_spec(a: nat, b: nat) -> nat
    decreases b
{
    if b == 0 { a } else { gcd_spec(b, a % b) }
}

pub open spec fn dvd(d: nat, n: nat) -> bool { d > 0 && n % d == 0 }

pub proof fn lemma_dvd_mul(d: nat, k: nat)
    requires d > 0
    ensures dvd(d, d * k), dvd(d, k * d)
{
    vstd::arithmetic::div_mod::lemma_mod_multiples_basic(k as int, d as int);
    super::nl::lemma_mul_comm(d as int, k as int);
}

pub proof fn lemma_dvd_mul_right(d: nat, n: nat, k: nat)
    requires dvd(d, n)
    ensures dvd(d, n * k), dvd(d, k * n)
{
    vstd::arithmetic::div_mod::lemma_fundamental_div_mod(n as int, d as int);
    let q = n / d;
    // n * k = d * (q * k)
    super::nl::lemma_mul_assoc(d as int, q as int, k as int);
    super::nl::lemma_mul_comm(n as int, k as int);
    super::nl::lemma_mul_nonneg(q as int, k as int);
    lemma_dvd_mul(d, q * k);
}

pub proof fn lemma_dvd_witness(d: nat, n: nat) -> (k: nat)
    requires dvd(d, n)
    ensures n == d * k
{
    vstd::arithmetic::div_mod::lemma_fundamental_div_mod(n as int, d as int);
    (n / d) as nat
}

pub proof fn lemma_dvd_trans(a: nat, b: nat, c: nat)
    requires dvd(a, b), dvd(b, c)
    ensures dvd(a, c)
{
    let x = lemma_dvd_witness(a, b); let y = lemma_dvd_witness(b, c);
    super::nl::lemma_mul_assoc(a as int, x as int, y as int);
    lemma_dvd_mul(a, x * y);
}

pub proof fn lemma_dvd_sub(d: nat, a: nat, b: nat)
    requires dvd(d, a), dvd(d, b), a >= b
    ensures dvd(d, (a - b) as nat)
{
    let x = lemma_dvd_witness(d, a); let y = lemma_dvd_witness(d, b);
    super::nl::lemma_distrib_l_sub(d as int, x as int, y as int);
    if x < y { super::nl::lemma_mul_lt_pos(x as int, y as int, d as int); }
    lemma_dvd_mul(d, (x - y) as nat);
}

pub proof fn lemma_dvd_add_mul(d: nat, a: nat, b: nat, q: nat)
    requires dvd(d, a), dvd(d, b)
    ensures dvd(d, a + b * q)
{
    let x = lemma_dvd_witness(d, a); let y = lemma_dvd_witness(d, b);
    super::nl::lemma_mul_assoc(d as int, y as int, q as int);
    super::nl::lemma_distrib_l(d as int, x as int, (y * q) as int);
    lemma_dvd_mul(d, x + y * q);
}

/// gcd_spec(a, b) divides both, and every common divisor divides it
pub proof fn lemma_gcd_spec(a: nat, b: nat)
    ensures
        (a > 0 || b > 0) ==> gcd_spec(a, b) > 0,
        gcd_spec(a, b) > 0 ==> dvd(gcd_spec(a, b), a) && dvd(gcd_spec(a, b), b),
        forall|e: nat| #[trigger] dvd(e, a) && dvd(e, b) ==> gcd_spec(a, b) % e == 0,
    decreases b
{
    if b == 0 {
        if a > 0 { vstd::arithmetic::div_mod::lemma_mod_self_0(a as int); }
        assert forall|e: nat| #[trigger] dvd(e, a) && dvd(e, b) implies gcd_spec(a, b) % e == 0 by { }
        if a > 0 { assert(0nat % a == 0) by { vstd::arithmetic::div_mod::lemma_small_mod(0, a); } }
    } else {
        let r = a % b;
        lemma_gcd_spec(b, r);
        let g = gcd_spec(b, r);
        vstd::arithmetic::div_mod::lemma_fundamental_div_mod(a as int, b as int);
        vstd::arithmetic::div_mod::lemma_mod_bound(a as int, b as int);
        let q = (a / b) as nat;
        assert(a == b * q + r);
        assert(g > 0 && dvd(g, b) && dvd(g, r));
        lemma_dvd_add_mul(g, r, b, q);
        assert(dvd(g, a));
        assert forall|e: nat| #[trigger] dvd(e, a) && dvd(e, b) implies g % e == 0 by {
            // e | a - b*q = r
            let x = lemma_dvd_witness(e, b);
            super::nl::lemma_mul_assoc(e as int, x as int, q as int);
            lemma_dvd_mul(e, x * q);
            lemma_dvd_sub(e, a, b * q);
            assert(dvd(e, r));
        }
    }
}


/// gcd(n, s) for 0 < s < 2n, s != n is a divisor of n strictly between 0 and n
pub proof fn lemma_proper_gcd(n: nat, s: nat)
    requires n >= 1, 0 < s < 2 * n, s != n
    ensures gcd_spec(n, s) > 0, n % gcd_spec(n, s) == 0, gcd_spec(n, s) < n,
{
    lemma_gcd_spec(n, s);
    let g = gcd_spec(n, s);
    if g >= n {
        // g | n and g >= n  ==>  g == n, so n | s: impossible for 0 < s < 2n, s != n
        let k = lemma_dvd_witness(g, n);
        if k == 0 { super::nl::lemma_mul_one(g as int); }
        if k >= 2 { super::nl::lemma_mul_le(2, k as int, g as int); super::nl::lemma_mul_comm(g as int, k as int); }
        super::nl::lemma_mul_one(g as int);
        assert(g == n);
        let j = lemma_dvd_witness(n, s);
        if j == 0 { super::nl::lemma_mul_one(n as int); }
        if j >= 2 { super::nl::lemma_mul_le(2, j as int, n as int); super::nl::lemma_mul_comm(n as int, j as int); }
        assert(false);
    }
}

} // verus!
