//! An abstract abelian group as a Z-module: the interface the chain interpreters of ECM are verified against (C15).
//! Group elements are opaque identifiers; the laws below are the classical consequences of the group axioms for the
//! multiples of ONE element (T-math: that the Edwards / Weierstrass chord-tangent law is an abelian group is assumed).
#![allow(unused_imports, dead_code, unused_variables, non_snake_case)]
use vstd::prelude::*;
use vstd::arithmetic::power2::*;
use super::nl::*;
use super::chains::*;
verus! {

/// opaque group element
pub type G = int;

pub uninterp spec fn gadd(a: G, b: G) -> G;
pub uninterp spec fn gneg(a: G) -> G;
pub uninterp spec fn gid() -> G;
/// k * a
pub uninterp spec fn gmul(k: int, a: G) -> G;

#[verifier::external_body]
pub proof fn axiom_gmul(j: int, k: int, a: G)
    ensures
        gadd(gmul(j, a), gmul(k, a)) == gmul(j + k, a),
        gneg(gmul(k, a)) == gmul(-k, a),
        gmul(1, a) == a,
        gmul(0, a) == gid(),
{}

/// one opcode of an addition chain applied to cur * g, with the odd gaps given as multiples of g
pub proof fn lemma_op_even_step(cur: int, j: nat, a: G)
    ensures gadd(gmul(cur * pow2(j) as int, a), gmul(cur * pow2(j) as int, a)) == gmul(cur * pow2(j + 1) as int, a)
{
    axiom_gmul(cur * pow2(j) as int, cur * pow2(j) as int, a);
    lemma_pow2_unfold(j + 1);
    assert(cur * pow2(j) as int + cur * pow2(j) as int == cur * (2 * pow2(j)) as int) by (nonlinear_arith);
}

pub proof fn lemma_op_odd_step(cur: int, op: int, a: G)
    ensures
        gadd(gadd(gmul(cur, a), gmul(cur, a)), gmul(op, a)) == gmul(2 * cur + op, a),
        gadd(gadd(gmul(cur, a), gmul(cur, a)), gneg(gmul(-op, a))) == gmul(2 * cur + op, a),
{
    axiom_gmul(cur, cur, a);
    axiom_gmul(2 * cur, op, a);
    axiom_gmul(0, -op, a);
}

} // verus!
