//! Bit-level bridge lemmas (trailing_zeros, shifts) and small divisibility lemmas.
#![allow(unused_imports, dead_code, unused_variables, non_snake_case)]
use vstd::prelude::*;
use vstd::arithmetic::div_mod::*;
use vstd::arithmetic::power2::*;
use vstd::bits::*;
use vstd::std_specs::bits::*;
use super::nl::*;
verus! {


pub open spec fn two64() -> int { 0x1_0000_0000_0000_0000 }

pub proof fn lemma_bit_is_div(x: u64, j: u64)
    requires j < 64
    ensures ((x >> j) & 1) as int == (x as int / (pow2(j as nat) as int)) % 2
{
    lemma_u64_shr_is_div(x, j);
    let y = x >> j;
    assert(y & 1 == y % 2) by (bit_vector);
}

pub proof fn lemma_low_bits_zero(x: u64, t: nat)
    requires t <= 64, forall|j: u64| #![auto] j < t ==> (x >> j) & 1 == 0
    ensures x as int % (pow2(t) as int) == 0
    decreases t
{
    lemma2_to64();
    if t == 0 {
        assert(pow2(0) == 1);
    } else {
        let t1 = (t - 1) as nat;
        lemma_low_bits_zero(x, t1);
        lemma_bit_is_div(x, t1 as u64);
        assert((x >> (t1 as u64)) & 1 == 0);
        let p1 = pow2(t1) as int;
        lemma_pow2_pos(t1);
        lemma_pow2_unfold(t);
        let q = x as int / p1;
        lemma_fundamental_div_mod(x as int, p1);
        assert(x as int == p1 * q);
        lemma_fundamental_div_mod(q, 2);
        let k = q / 2;
        assert(q == 2 * k);
        assert(x as int == (2 * p1) * k) by (nonlinear_arith) requires x as int == p1 * q, q == 2 * k;
        lemma_mod_multiples_basic(k, 2 * p1);
        assert(k * (2 * p1) == (2 * p1) * k) by (nonlinear_arith);
    }
}

pub proof fn lemma_tz_arith(rem: u64, t: u32)
    requires rem != 0, t == u64_trailing_zeros(rem),
    ensures t < 64,
        rem as int % (pow2(t as nat) as int) == 0,
        (rem as int / (pow2(t as nat) as int)) % 2 == 1,
{
    axiom_u64_trailing_zeros(rem);
    let tt = t as u64;
    assert(forall|j: u64| #![auto] j < tt ==> (rem >> j) & 1 == 0);
    lemma_low_bits_zero(rem, t as nat);
    lemma_bit_is_div(rem, tt);
}


pub proof fn lemma_pow2_divides(a: nat, b: nat)
    requires a <= b
    ensures pow2(b) as int % (pow2(a) as int) == 0, pow2(b) == pow2(a) * pow2((b - a) as nat)
{
    lemma_pow2_adds(a, (b - a) as nat);
    lemma_pow2_pos(a);
    lemma_mod_multiples_basic(pow2((b - a) as nat) as int, pow2(a) as int);
}

pub proof fn lemma_dvd_trans_mod(x: int, m: int, d: int)
    requires d > 0, m > 0, m % d == 0, x % m == 0
    ensures x % d == 0
{
    lemma_fundamental_div_mod(x, m); lemma_fundamental_div_mod(m, d);
    let a = x / m; let b = m / d;
    assert(x == d * (b * a)) by (nonlinear_arith) requires x == m * a, m == d * b;
    lemma_mod_multiples_basic(b * a, d);
    assert((b * a) * d == d * (b * a)) by (nonlinear_arith);
}

pub proof fn lemma_mod_of_mod(x: int, m: int, d: int)
    requires d > 0, m > 0, m % d == 0
    ensures (x % m) % d == x % d
{
    lemma_fundamental_div_mod(x, m); lemma_fundamental_div_mod(m, d);
    let a = x / m; let b = m / d;
    assert(x == d * (b * a) + x % m) by (nonlinear_arith) requires x == m * a + x % m, m == d * b;
    lemma_mod_multiples_vanish(b * a, x % m, d);
}

} // verus!

verus! {

pub proof fn lemma_u128_split(v: u128)
    ensures (v >> 64) < 0x1_0000_0000_0000_0000u128,
        v as int == ((v >> 64) as u64) as int * two64() + (v as u64) as int,
        (v as u64) as int == v as int % two64(),
        ((v >> 64) as u64) as int == v as int / two64(),
        v as nat == ((v >> 64) as u64) as nat * 0x1_0000_0000_0000_0000nat + (v as u64) as nat,
{
    assert((v >> 64) < 0x1_0000_0000_0000_0000u128) by (bit_vector);
    assert(v == (v >> 64) * 0x1_0000_0000_0000_0000u128 + (v as u64) as u128) by (bit_vector);
    let hi = ((v >> 64) as u64) as int;
    let lo = (v as u64) as int;
    lemma_fundamental_div_mod_converse(v as int, two64(), hi, lo);
}

/// Montgomery reduction step, R = 2^64 (the arithmetic behind `mg_redc`).
pub proof fn lemma_redc64(n: int, ninv: int, x: int, mul: int)
    requires
        0 < n < two64(), 0 <= ninv < two64(), (n * ninv + 1) % two64() == 0,
        0 <= x < n * two64(), x % two64() != 0,
        mul == ((x % two64()) * ninv) % two64(),
    ensures
        0 <= mul * n < two64() * two64(),
        (x % two64()) + ((mul * n) % two64()) == two64(),
        (mul * n) / two64() < n,
        (x / two64() + (mul * n) / two64() + 1) * two64() == x + mul * n,
        x / two64() + (mul * n) / two64() + 1 < 2 * n,
{
    let r = two64();
    let xlo = x % r; let xhi = x / r;
    let m = mul * n;
    let mlo = m % r; let mhi = m / r;
    lemma_fundamental_div_mod(x, r);
    lemma_fundamental_div_mod(m, r);
    assert(0 <= mul < r);
    assert(0 <= m) by (nonlinear_arith) requires 0 <= mul, 0 < n, m == mul * n;
    assert(m < r * n) by (nonlinear_arith) requires 0 <= mul < r, 0 < n, m == mul * n;
    assert(m < r * r) by (nonlinear_arith) requires m < r * n, n < r, r > 0;
    // mlo + xlo == 0 mod r
    let k = (n * ninv + 1) / r;
    lemma_fundamental_div_mod(n * ninv + 1, r);
    assert(n * ninv == r * k - 1);
    // m == mul*n ≡ xlo*ninv*n (mod r)
    lemma_mul_mod_noop_general(xlo * ninv, n, r);
    assert((mul * n) % r == ((xlo * ninv) * n) % r);
    assert((xlo * ninv) * n + xlo == (xlo * k) * r) by (nonlinear_arith) requires n * ninv == r * k - 1;
    lemma_mod_multiples_basic(xlo * k, r);
    assert(((xlo * ninv) * n + xlo) % r == 0);
    lemma_add_mod_noop((xlo * ninv) * n, xlo, r);
    lemma_add_mod_noop(m, xlo, r);
    lemma_small_mod(xlo as nat, r as nat);
    assert((mlo + xlo) % r == 0);
    assert(0 < mlo + xlo < 2 * r);
    if mlo + xlo != r {
        if mlo + xlo < r { lemma_small_mod((mlo + xlo) as nat, r as nat); }
        else { lemma_mod_multiples_vanish(1, mlo + xlo - r, r); lemma_small_mod((mlo + xlo - r) as nat, r as nat); assert(r * 1 + (mlo + xlo - r) == mlo + xlo); }
        assert(false);
    }
    assert(mhi < n) by (nonlinear_arith) requires m == r * mhi + mlo, 0 <= mlo, m < r * n, r > 0;
    assert((xhi + mhi + 1) * r == x + m) by (nonlinear_arith) requires x == r * xhi + xlo, m == r * mhi + mlo, mlo + xlo == r;
    assert(xhi + mhi + 1 < 2 * n) by (nonlinear_arith) requires (xhi + mhi + 1) * r == x + m, x < n * r, m < r * n, r > 0;
}


pub open spec fn two128() -> int { 0x1_0000_0000_0000_0000int * 0x1_0000_0000_0000_0000int }

/// Montgomery reduction step for a general radix r (the arithmetic behind `M128::mul`)
pub proof fn lemma_redc_gen(r: int, n: int, ninv: int, x: int, mul: int)
    requires
        r > 0, 0 < n < r, 0 <= ninv < r, (n * ninv + 1) % r == 0,
        0 <= x < n * r, x % r != 0,
        mul == ((x % r) * ninv) % r,
    ensures
        0 <= mul * n < r * r,
        (x % r) + ((mul * n) % r) == r,
        (mul * n) / r < n,
        (x / r + (mul * n) / r + 1) * r == x + mul * n,
        x / r + (mul * n) / r + 1 < 2 * n,
{
    let xlo = x % r; let xhi = x / r;
    let m = mul * n;
    let mlo = m % r; let mhi = m / r;
    lemma_fundamental_div_mod(x, r);
    lemma_fundamental_div_mod(m, r);
    lemma_mod_bound(xlo * ninv, r);
    assert(0 <= mul < r);
    lemma_mul_nonneg(mul, n);
    lemma_mul_lt_pos(mul, r, n);
    lemma_mul_lt_pos(n, r, r);
    assert(m < r * n);
    assert(m < r * r);
    let k = (n * ninv + 1) / r;
    lemma_fundamental_div_mod(n * ninv + 1, r);
    assert(n * ninv == r * k - 1);
    lemma_mul_mod_noop_general(xlo * ninv, n, r);
    assert((mul * n) % r == ((xlo * ninv) * n) % r);
    // (xlo*ninv)*n + xlo == (xlo*k)*r
    lemma_mul_assoc(xlo, ninv, n); lemma_mul_comm(ninv, n);
    lemma_distrib_l_sub(xlo, r * k, 1); lemma_mul_one(xlo);
    lemma_mul_assoc(xlo, r, k); lemma_mul_comm(xlo, r); lemma_mul_assoc(r, xlo, k); lemma_mul_comm(r, xlo * k);
    assert((xlo * ninv) * n + xlo == (xlo * k) * r);
    lemma_mod_multiples_basic(xlo * k, r);
    lemma_add_mod_noop((xlo * ninv) * n, xlo, r);
    lemma_add_mod_noop(m, xlo, r);
    lemma_small_mod(xlo as nat, r as nat);
    assert((mlo + xlo) % r == 0);
    lemma_mod_bound(m, r);
    assert(0 < mlo + xlo < 2 * r);
    if mlo + xlo != r {
        if mlo + xlo < r { lemma_small_mod((mlo + xlo) as nat, r as nat); }
        else { lemma_mod_multiples_vanish(1, mlo + xlo - r, r); lemma_small_mod((mlo + xlo - r) as nat, r as nat); lemma_mul_one(r); }
        assert(false);
    }
    // mhi < n
    if mhi >= n { lemma_mul_le(n, mhi, r); }
    // (xhi + mhi + 1) * r == x + m
    lemma_distrib_r(xhi + mhi, 1, r); lemma_distrib_r(xhi, mhi, r); lemma_mul_one(r);
    lemma_mul_comm(xhi, r); lemma_mul_comm(mhi, r);
    assert((xhi + mhi + 1) * r == x + m);
    // < 2n
    if xhi + mhi + 1 >= 2 * n { lemma_mul_le(2 * n, xhi + mhi + 1, r); lemma_mul_assoc(2, n, r); lemma_mul_comm(n, r); }
}

pub proof fn lemma_u128_hi_lo(v: u128)
    ensures v as int == ((v >> 64) as int) * two64() + ((v as u64) as int), (v >> 64) < 0x1_0000_0000_0000_0000u128,
        ((v & 0xffff_ffff_ffff_ffffu128) as int) == (v as u64) as int,
        (v << 64u32) as int == ((v as u64) as int) * two64(),
{
    assert(v == (v >> 64) * 0x1_0000_0000_0000_0000u128 + (v as u64) as u128) by (bit_vector);
    assert((v >> 64) < 0x1_0000_0000_0000_0000u128) by (bit_vector);
    assert((v & 0xffff_ffff_ffff_ffffu128) == (v as u64) as u128) by (bit_vector);
    assert((v << 64u32) == ((v as u64) as u128) * 0x1_0000_0000_0000_0000u128) by (bit_vector);
}


/// (lo, hi) are the two halves of v in radix r
pub open spec fn split_at(lo: int, hi: int, r: int, v: int) -> bool { lo + r * hi == v && 0 <= lo < r }


/// One step of the 2-adic Newton-like lifting used by `mg_2adic_inv` / `M128::inv_2adic` in radix R = 2^e:
/// if n*x ≡ 1 (mod 2^k) and t is the 2-adic valuation of (n*x - 1) mod R, then t >= k and
/// x2 ≡ x + 2^t (mod R) satisfies n*x2 ≡ 1 (mod 2^(t+1)).
pub proof fn lemma_2adic_step(n: int, x: int, e: nat, k: nat, rem: int, t: nat, x2: int)
    requires
        n % 2 == 1, 1 <= k <= e,
        (n * x - 1) % (pow2(k) as int) == 0,
        rem == (n * x - 1) % (pow2(e) as int), rem != 0,
        t < e, rem % (pow2(t) as int) == 0, (rem / (pow2(t) as int)) % 2 == 1,
        (x2 - x - pow2(t) as int) % (pow2(e) as int) == 0,
    ensures
        t >= k,
        (n * x2 - 1) % (pow2(t + 1) as int) == 0,
{
    let a = n * x - 1;
    let r = pow2(e) as int; let pk = pow2(k) as int; let pt = pow2(t) as int;
    lemma_pow2_pos(e); lemma_pow2_pos(k); lemma_pow2_pos(t);
    // rem % pk == 0
    lemma_pow2_divides(k, e);
    lemma_mod_of_mod(a, r, pk);
    if t < k {
        lemma_pow2_divides(t + 1, k);
        lemma_pow2_pos(t + 1);
        lemma_dvd_trans_mod(rem, pk, pow2(t + 1) as int);
        lemma_pow2_unfold(t + 1);
        lemma_fundamental_div_mod(rem, 2 * pt);
        let cc = rem / (2 * pt);
        lemma_mul_assoc(2, pt, cc); lemma_mul_comm(2, pt); lemma_mul_assoc(pt, 2, cc);
        assert(rem == pt * (2 * cc));
        lemma_div_multiples_vanish(2 * cc, pt);
        lemma_mul_comm(2 * cc, pt);
        assert(rem / pt == 2 * cc);
        assert(false);
    }
    // witnesses
    lemma_fundamental_div_mod(a, r);
    let c = a / r;
    lemma_fundamental_div_mod(rem, pt);
    let o = rem / pt;
    lemma_fundamental_div_mod(x2 - x - pt, r);
    let j = (x2 - x - pt) / r;
    lemma_fundamental_div_mod(n, 2);
    let h = n / 2;
    lemma_fundamental_div_mod(o, 2);
    let g = o / 2;
    lemma_pow2_divides(t + 1, e);
    lemma_pow2_unfold(t + 1);
    let hh = pow2((e - (t + 1)) as nat) as int;
    assert(r == (2 * pt) * hh);
    // a2 = a + n*pt + n*r*j
    let a2 = n * x2 - 1;
    lemma_distrib_l(n, x + pt, r * j); lemma_distrib_l(n, x, pt);
    assert(x2 == x + pt + r * j);
    assert(a2 == a + n * pt + n * (r * j));
    // n*pt == 2pt*h + pt
    lemma_distrib_r(2 * h, 1, pt); lemma_mul_one(pt); lemma_mul_assoc(2, h, pt); lemma_mul_comm(h, pt); lemma_mul_assoc(2, pt, h);
    assert(n * pt == (2 * pt) * h + pt);
    // rem + pt == 2pt*(g+1)
    lemma_distrib_l(pt, 2 * g, 1); lemma_mul_assoc(pt, 2, g); lemma_mul_comm(pt, 2);
    assert(rem == (2 * pt) * g + pt);
    lemma_distrib_l(2 * pt, g, 1); lemma_mul_one(2 * pt);
    // r*c and n*(r*j) are multiples of 2pt
    lemma_mul_assoc(2 * pt, hh, c);
    lemma_mul_assoc(n, r, j); lemma_mul_comm(n, r); lemma_mul_assoc(r, n, j); lemma_mul_assoc(2 * pt, hh, n * j);
    let q = hh * c + (g + 1) + h + hh * (n * j);
    lemma_distrib_l(2 * pt, hh * c + (g + 1) + h, hh * (n * j));
    lemma_distrib_l(2 * pt, hh * c + (g + 1), h);
    lemma_distrib_l(2 * pt, hh * c, g + 1);
    assert(a2 == (2 * pt) * q);
    lemma_mod_multiples_basic(q, 2 * pt);
    lemma_mul_comm(q, 2 * pt);
}


pub proof fn lemma_u128_one_shl(t: u32)
    requires t < 128
    ensures (1u128 << t) as int == pow2(t as nat) as int
    decreases t
{
    lemma2_to64();
    if t == 0 {
        assert((1u128 << 0u32) == 1u128) by (bit_vector);
    } else {
        let t1 = (t - 1) as u32;
        lemma_u128_one_shl(t1);
        assert((1u128 << t) == 2 * (1u128 << t1)) by (bit_vector) requires 0 < t < 128, t1 == t - 1;
        lemma_pow2_unfold(t as nat);
    }
}


/// u64::leading_zeros in arithmetic form (T-std, same statement as the u32 one below)
#[verifier::external_body]
pub proof fn axiom_u64_lz_arith(n: u64)
    ensures
        n == 0 ==> u64_leading_zeros(n) == 64,
        n != 0 ==> u64_leading_zeros(n) < 64
            && pow2((63 - u64_leading_zeros(n)) as nat) <= n as nat
            && (n as nat) < pow2((64 - u64_leading_zeros(n)) as nat),
{}

/// u32::leading_zeros in arithmetic form (T-std; vstd's own axiom is bit-indexed): 2^(31-lz) <= n < 2^(32-lz)
#[verifier::external_body]
pub proof fn axiom_u32_lz_arith(n: u32)
    ensures
        n == 0 ==> u32_leading_zeros(n) == 32,
        n != 0 ==> u32_leading_zeros(n) < 32
            && pow2((31 - u32_leading_zeros(n)) as nat) <= n as nat
            && (n as nat) < pow2((32 - u32_leading_zeros(n)) as nat),
{}

/// n <= 2^26 has at least 5 leading zero bits (so n * bitlen(n) <= 2^26 * 27 < 2^32)
pub proof fn lemma_lz_bound(n: u32)
    requires 0 < n <= 0x400_0000
    ensures u32_leading_zeros(n) >= 5
{
    axiom_u32_lz_arith(n);
    let lz = u32_leading_zeros(n);
    if lz < 5 {
        lemma2_to64();
        lemma_pow2_strictly_increases(26, (31 - lz) as nat);
    }
}

} // verus!
verus! {
/// NTT-friendly primes p = 1 (mod 2^32): p (p - 2) = -1 (mod 2^64), i.e. p - 2 is the Montgomery constant -1/p
pub proof fn lemma_ntt_prime_ninv(p: u64)
    requires p % 0x1_0000_0000 == 1, p >= 3
    ensures (p as int * (p - 2) as int + 1) % two64() == 0
{
    // p = 1 + 2^32 k: p (p - 2) + 1 = (p - 1)^2 = 2^64 k^2
    let k = (p as int - 1) / 0x1_0000_0000;
    lemma_fundamental_div_mod(p as int - 1, 0x1_0000_0000);
    assert((p as int - 1) % 0x1_0000_0000 == 0) by { lemma_fundamental_div_mod(p as int, 0x1_0000_0000); }
    let m = p as int - 1;
    assert(m == 0x1_0000_0000 * k);
    lemma_distrib_l(p as int, p as int, -2);
    assert(p as int * (p as int - 2) + 1 == m * m) by {
        lemma_distrib_r(m, 1, m + 1); lemma_distrib_l(m, m, 1); lemma_mul_one(m); lemma_mul_one(m + 1);
        lemma_distrib_l(m + 1, m, -1); lemma_mul_comm(m + 1, m);
    }
    lemma_mul_assoc(0x1_0000_0000, k, 0x1_0000_0000 * k);
    lemma_mul_comm(k, 0x1_0000_0000 * k);
    lemma_mul_assoc(0x1_0000_0000, k, k);
    lemma_mul_assoc(0x1_0000_0000, 0x1_0000_0000, k * k);
    assert(m * m == two64() * (k * k)) by {
        assert(m * m == 0x1_0000_0000 * (k * (0x1_0000_0000 * k)));
        assert(k * (0x1_0000_0000 * k) == 0x1_0000_0000 * (k * k));
    }
    lemma_mod_multiples_basic(k * k, two64());
    lemma_mul_comm(two64(), k * k);
}
} // verus!
