//! Bit-level bridge lemmas (trailing_zeros, shifts) and small divisibility lemmas.
#![allow(unused_imports, dead_code, unused_variables, non_snake_case)]
use vstd::prelude::*;
use vstd::arithmetic::div_mod::*;
use vstd::arithmetic::power2::*;
use vstd::bits::*;
use vstd::std_specs::bits::*;
verus! {


pub open spec fn two64() -> int { 0x1_0000_0000_0000_0000 }

pub proof fn lemma_bit_is_div(x: u64, j: u64)
    requires j < 64
    ensures ((x >> j) & 1) as int == (x as int / (pow2(j as nat) as int)) % 2
{
    lemma_u64_shr_is_div(x, j);
    let y = x >> j;
    assert(y & 1 == y % 2) by (bit_vector);
}

pub proof fn lemma_low_bits_zero(x: u64, t: nat)
    requires t <= 64, forall|j: u64| #![auto] j < t ==> (x >> j) & 1 == 0
    ensures x as int % (pow2(t) as int) == 0
    decreases t
{
    lemma2_to64();
    if t == 0 {
        assert(pow2(0) == 1);
    } else {
        let t1 = (t - 1) as nat;
        lemma_low_bits_zero(x, t1);
        lemma_bit_is_div(x, t1 as u64);
        assert((x >> (t1 as u64)) & 1 == 0);
        let p1 = pow2(t1) as int;
        lemma_pow2_pos(t1);
        lemma_pow2_unfold(t);
        let q = x as int / p1;
        lemma_fundamental_div_mod(x as int, p1);
        assert(x as int == p1 * q);
        lemma_fundamental_div_mod(q, 2);
        let k = q / 2;
        assert(q == 2 * k);
        assert(x as int == (2 * p1) * k) by (nonlinear_arith) requires x as int == p1 * q, q == 2 * k;
        lemma_mod_multiples_basic(k, 2 * p1);
        assert(k * (2 * p1) == (2 * p1) * k) by (nonlinear_arith);
    }
}

pub proof fn lemma_tz_arith(rem: u64, t: u32)
    requires rem != 0, t == u64_trailing_zeros(rem),
    ensures t < 64,
        rem as int % (pow2(t as nat) as int) == 0,
        (rem as int / (pow2(t as nat) as int)) % 2 == 1,
{
    axiom_u64_trailing_zeros(rem);
    let tt = t as u64;
    assert(forall|j: u64| #![auto] j < tt ==> (rem >> j) & 1 == 0);
    lemma_low_bits_zero(rem, t as nat);
    lemma_bit_is_div(rem, tt);
}


pub proof fn lemma_pow2_divides(a: nat, b: nat)
    requires a <= b
    ensures pow2(b) as int % (pow2(a) as int) == 0, pow2(b) == pow2(a) * pow2((b - a) as nat)
{
    lemma_pow2_adds(a, (b - a) as nat);
    lemma_pow2_pos(a);
    lemma_mod_multiples_basic(pow2((b - a) as nat) as int, pow2(a) as int);
}

pub proof fn lemma_dvd_trans_mod(x: int, m: int, d: int)
    requires d > 0, m > 0, m % d == 0, x % m == 0
    ensures x % d == 0
{
    lemma_fundamental_div_mod(x, m); lemma_fundamental_div_mod(m, d);
    let a = x / m; let b = m / d;
    assert(x == d * (b * a)) by (nonlinear_arith) requires x == m * a, m == d * b;
    lemma_mod_multiples_basic(b * a, d);
    assert((b * a) * d == d * (b * a)) by (nonlinear_arith);
}

pub proof fn lemma_mod_of_mod(x: int, m: int, d: int)
    requires d > 0, m > 0, m % d == 0
    ensures (x % m) % d == x % d
{
    lemma_fundamental_div_mod(x, m); lemma_fundamental_div_mod(m, d);
    let a = x / m; let b = m / d;
    assert(x == d * (b * a) + x % m) by (nonlinear_arith) requires x == m * a + x % m, m == d * b;
    lemma_mod_multiples_vanish(b * a, x % m, d);
}

} // verus!

verus! {

pub proof fn lemma_u128_split(v: u128)
    ensures (v >> 64) < 0x1_0000_0000_0000_0000u128,
        v as int == ((v >> 64) as u64) as int * two64() + (v as u64) as int,
        (v as u64) as int == v as int % two64(),
        ((v >> 64) as u64) as int == v as int / two64(),
        v as nat == ((v >> 64) as u64) as nat * 0x1_0000_0000_0000_0000nat + (v as u64) as nat,
{
    assert((v >> 64) < 0x1_0000_0000_0000_0000u128) by (bit_vector);
    assert(v == (v >> 64) * 0x1_0000_0000_0000_0000u128 + (v as u64) as u128) by (bit_vector);
    let hi = ((v >> 64) as u64) as int;
    let lo = (v as u64) as int;
    lemma_fundamental_div_mod_converse(v as int, two64(), hi, lo);
}

/// Montgomery reduction step, R = 2^64 (the arithmetic behind `mg_redc`).
pub proof fn lemma_redc64(n: int, ninv: int, x: int, mul: int)
    requires
        0 < n < two64(), 0 <= ninv < two64(), (n * ninv + 1) % two64() == 0,
        0 <= x < n * two64(), x % two64() != 0,
        mul == ((x % two64()) * ninv) % two64(),
    ensures
        0 <= mul * n < two64() * two64(),
        (x % two64()) + ((mul * n) % two64()) == two64(),
        (mul * n) / two64() < n,
        (x / two64() + (mul * n) / two64() + 1) * two64() == x + mul * n,
        x / two64() + (mul * n) / two64() + 1 < 2 * n,
{
    let r = two64();
    let xlo = x % r; let xhi = x / r;
    let m = mul * n;
    let mlo = m % r; let mhi = m / r;
    lemma_fundamental_div_mod(x, r);
    lemma_fundamental_div_mod(m, r);
    assert(0 <= mul < r);
    assert(0 <= m) by (nonlinear_arith) requires 0 <= mul, 0 < n, m == mul * n;
    assert(m < r * n) by (nonlinear_arith) requires 0 <= mul < r, 0 < n, m == mul * n;
    assert(m < r * r) by (nonlinear_arith) requires m < r * n, n < r, r > 0;
    // mlo + xlo == 0 mod r
    let k = (n * ninv + 1) / r;
    lemma_fundamental_div_mod(n * ninv + 1, r);
    assert(n * ninv == r * k - 1);
    // m == mul*n ≡ xlo*ninv*n (mod r)
    lemma_mul_mod_noop_general(xlo * ninv, n, r);
    assert((mul * n) % r == ((xlo * ninv) * n) % r);
    assert((xlo * ninv) * n + xlo == (xlo * k) * r) by (nonlinear_arith) requires n * ninv == r * k - 1;
    lemma_mod_multiples_basic(xlo * k, r);
    assert(((xlo * ninv) * n + xlo) % r == 0);
    lemma_add_mod_noop((xlo * ninv) * n, xlo, r);
    lemma_add_mod_noop(m, xlo, r);
    lemma_small_mod(xlo as nat, r as nat);
    assert((mlo + xlo) % r == 0);
    assert(0 < mlo + xlo < 2 * r);
    if mlo + xlo != r {
        if mlo + xlo < r { lemma_small_mod((mlo + xlo) as nat, r as nat); }
        else { lemma_mod_multiples_vanish(1, mlo + xlo - r, r); lemma_small_mod((mlo + xlo - r) as nat, r as nat); assert(r * 1 + (mlo + xlo - r) == mlo + xlo); }
        assert(false);
    }
    assert(mhi < n) by (nonlinear_arith) requires m == r * mhi + mlo, 0 <= mlo, m < r * n, r > 0;
    assert((xhi + mhi + 1) * r == x + m) by (nonlinear_arith) requires x == r * xhi + xlo, m == r * mhi + mlo, mlo + xlo == r;
    assert(xhi + mhi + 1 < 2 * n) by (nonlinear_arith) requires (xhi + mhi + 1) * r == x + m, x < n * r, m < r * n, r > 0;
}

} // verus!
