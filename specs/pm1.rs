//! Functional vocabulary of the 64-bit two-stage Pollard P-1 (pollard_pm1::PM1Base::factor), C16.
#![allow(unused_imports, dead_code, unused_variables, non_snake_case)]
use vstd::prelude::*;
use vstd::arithmetic::div_mod::*;
use vstd::arithmetic::mul::*;
use vstd::arithmetic::power::*;
use vstd::arithmetic::power2::*;
use super::nl::*;
use super::bits::*;
use super::modarith::*;
use super::primes::*;
use super::miller::*;
use super::numint::*;
use super::qsroots::*;
use super::limbs::*;
verus! {

/// product of the stage-1 exponent blocks
pub open spec fn prod32(s: Seq<u32>) -> nat
    decreases s.len()
{
    if s.len() == 0 { 1 } else { prod32(s.drop_last()) * (s.last() as nat) }
}

pub proof fn lemma_prod32_push(f: Seq<u32>, b: u32)
    ensures prod32(f.push(b)) == prod32(f) * (b as nat)
{
    assert(f.push(b).drop_last() =~= f);
}

pub proof fn lemma_prod32_take_next(s: Seq<u32>, k: int)
    requires 0 <= k < s.len()
    ensures prod32(s.take(k + 1)) == prod32(s.take(k)) * (s[k] as nat)
{
    assert(s.take(k + 1).drop_last() =~= s.take(k));
}

/// (b^a)^f = b^(a f) modulo n
pub proof fn lemma_pms_pow_pow(b: nat, a: nat, f: nat, n: nat)
    requires n > 0
    ensures pow_mod_spec(pow_mod_spec(b, a, n), f, n) == pow_mod_spec(b, a * f, n)
{
    lemma_pms_pow(b, a, n);
    lemma_pow_positive(b as int + 1, a);
    // pow(b, a) >= 0
    if b == 0 { if a == 0 { reveal(pow); } else { lemma0_pow(a); } } else { lemma_pow_positive(b as int, a); }
    let ba = pow(b as int, a) as nat;
    assert(pow_mod_spec(b, a, n) == ba % n);
    lemma_pms_base_mod(ba, f, n);
    lemma_pms_pow(ba, f, n);
    lemma_pow_multiplies(b as int, a, f);
    lemma_pms_pow(b, a * f, n);
}

/// the stage-2 accumulator: product of (x^l - 1) over the first k primes of the table, modulo n
pub open spec fn pm1_s2(x: nat, l: Seq<u32>, k: int, n: nat) -> nat
    decreases k
{
    if k <= 0 { 1nat % n } else { (pm1_s2(x, l, k - 1, n) * ((pow_mod_spec(x, l[k - 1] as nat, n) + n - 1) as nat % n)) % n }
}

/// subtraction of Montgomery representatives
pub proof fn lemma_mrep_sub(x: u64, vx: nat, y: u64, vy: nat, z: u64, p: nat)
    requires p > 0, mrep(x, vx, p), mrep(y, vy, p), z as int == (x as int - y as int) % (p as int)
    ensures mrep(z, ((vx + p - vy) as nat) % p, p)
{
    let pi = p as int;
    let r = two64();
    let w = ((vx + p - vy) as nat) % p;
    lemma_mod_bound(x as int - y as int, pi);
    lemma_mod_bound((vx + p - vy) as int, pi);
    // x ≡ vx r, y ≡ vy r
    lemma_cong_mod(vx as int * r, pi);
    lemma_cong_mod(vy as int * r, pi);
    lemma_cong_add(x as int, vx as int * r, y as int, vy as int * r, pi);
    // w ≡ vx + p - vy ≡ vx - vy
    lemma_cong_mod((vx + p - vy) as int, pi);
    lemma_cong_add_multiple(vx as int - vy as int, 1, pi);
    lemma_cong_trans(w as int, (vx + p - vy) as int, vx as int - vy as int, pi);
    lemma_cong_mul(w as int, vx as int - vy as int, r, pi);
    lemma_distrib_r_sub(vx as int, vy as int, r);
    // z ≡ x - y ≡ vx r - vy r = (vx - vy) r ≡ w r
    lemma_cong_mod(x as int - y as int, pi);
    lemma_cong_trans(z as int, x as int - y as int, vx as int * r - vy as int * r, pi);
    lemma_cong_trans(z as int, (vx as int - vy as int) * r, w as int * r, pi);
    lemma_small_mod(z as nat, p);
}

/// an odd e dividing 2 u divides u
pub proof fn lemma_odd_dvd_half(e: nat, u: nat)
    requires e % 2 == 1, dvd(e, 2 * u)
    ensures dvd(e, u)
{
    let t = lemma_dvd_witness(e, 2 * u);
    // e t = 2 u, e odd: t even
    if t % 2 == 1 {
        let a = e / 2; let b = t / 2;
        assert(e * t == 2 * (2 * a * b + a + b) + 1) by (nonlinear_arith) requires e == 2 * a + 1, t == 2 * b + 1;
        assert(false);
    }
    let h = t / 2;
    assert(u == e * h) by (nonlinear_arith) requires e * t == 2 * u, t == 2 * h;
    lemma_dvd_mul(e, h);
}

/// an odd e dividing w 2^k divides w
pub proof fn lemma_odd_dvd_cancel_pow2(e: nat, w: nat, k: nat)
    requires e % 2 == 1, dvd(e, w * pow2(k))
    ensures dvd(e, w)
    decreases k
{
    if k == 0 {
        lemma2_to64();
        lemma_mul_one(w as int);
    } else {
        lemma_pow2_unfold(k);
        lemma_mul_assoc(w as int, 2, pow2((k - 1) as nat) as int);
        lemma_mul_comm(w as int, 2);
        lemma_mul_assoc(2, w as int, pow2((k - 1) as nat) as int);
        lemma_mul_nonneg(w as int, pow2((k - 1) as nat) as int);
        assert(w * pow2(k) == 2 * (w * pow2((k - 1) as nat)));
        lemma_odd_dvd_half(e, w * pow2((k - 1) as nat));
        lemma_odd_dvd_cancel_pow2(e, w, (k - 1) as nat);
    }
}

/// gcd(n, m) has only trivial values
pub open spec fn trivial_gcd(n: int, m: int) -> bool {
    forall|d: int| #[trigger] is_gcd(d, n, m) ==> d <= 1 || d >= n
}

/// a divisor of the odd p that divides a Montgomery representative divides the represented value, and conversely
pub proof fn lemma_dvd_mrep(e: nat, m: u64, v: nat, p: nat)
    requires p % 2 == 1, p > 0, mrep(m, v, p), dvd(e, p)
    ensures dvd(e, m as nat) == dvd(e, v)
{
    let r = two64() as nat;
    lemma_two64_is_pow2();
    // e is odd
    if e % 2 == 0 {
        let t = lemma_dvd_witness(e, p);
        let h = e / 2;
        assert(p == 2 * (h * t)) by (nonlinear_arith) requires p == e * t, e == 2 * h;
        assert(false);
    }
    // m = v r - q p
    lemma_mul_nonneg(v as int, r as int);
    let a = v * r;
    lemma_fundamental_div_mod(a as int, p as int);
    let q = (a / p) as nat;
    lemma_div_pos_is_pos(a as int, p as int);
    assert(a == p * q + m as nat);
    if dvd(e, v) {
        lemma_dvd_mul_right(e, v, r);
        lemma_dvd_mul_right(e, p, q);
        lemma_mul_nonneg(p as int, q as int);
        lemma_dvd_sub(e, a, p * q);
    }
    if dvd(e, m as nat) {
        lemma_dvd_add_mul(e, m as nat, p, q);
        assert(m as nat + p * q == a);
        lemma_odd_dvd_cancel_pow2(e, v, 64);
    }
}

/// the gcd of the odd modulus with a Montgomery representative is the gcd with the represented value
pub proof fn lemma_trivial_gcd_mrep(m: u64, v: nat, p: nat, d: int)
    requires p % 2 == 1, p >= 3, mrep(m, v, p), is_gcd(d, p as int, m as int), d <= 1 || d >= p
    ensures trivial_gcd(p as int, v as int)
{
    assert forall|g: int| #[trigger] is_gcd(g, p as int, v as int) implies g <= 1 || g >= p by {
        if 1 < g < p {
            // g | p and g | v, so g | m, so g | d
            assert(dvd(g as nat, p) && dvd(g as nat, v));
            lemma_dvd_mrep(g as nat, m, v, p);
            assert((m as int) % g == 0);
            assert(d % g == 0);
            // d > 0 (p > 0); d | p, so d <= p; d <= 1 or d >= p
            if d <= 1 {
                assert(d == 1) by { assert(d != 0); }
                lemma_small_mod(1, g as nat);
                assert(false);
            } else {
                // d >= p and d | p  =>  d == p; then p % g == 0 holds, fine, but g | v and g | p with d = p means p | m, m < p, m = 0, v = 0
                assert(p as int % d == 0);
                if d > p { lemma_small_mod(p, d as nat); assert(false); }
                assert(d == p);
                // p | m and m < p  =>  m == 0
                assert((m as int) % (p as int) == 0);
                lemma_small_mod(m as nat, p);
                assert(m == 0);
                // then v r ≡ 0, v < p: v == 0 (p | v r, p odd)
                lemma_mod_self_0(p as int);
                assert(dvd(p, p));
                lemma_dvd_mrep(p, m, v, p);
                assert(dvd(p, 0nat)) by { lemma_small_mod(0, p); }
                assert(dvd(p, v));
                lemma_small_mod(v, p);
                assert(v == 0);
                // gcd(p, 0) = p: g must be p, contradiction with g < p
                assert((p as int) % (p as int) == 0 && 0int % (p as int) == 0) by { lemma_small_mod(0, p); }
                assert(g % (p as int) == 0);
                lemma_small_mod(g as nat, p);
                assert(false);
            }
        }
    }
}


pub proof fn lemma_pms_one(x: nat, n: nat)
    requires n > 1
    ensures pow_mod_spec(x, 1, n) == x % n
{
    lemma_small_mod(1, n);
    assert(pow_mod_spec(x, 0, n) == 1);
    assert(pow_mod_spec(x, 1, n) == (x * pow_mod_spec(x, 0, n)) % n);
    lemma_mul_one(x as int);
}

/// the accumulator after the first prime of the table
pub proof fn lemma_pm1_s2_first(x: nat, l: Seq<u32>, n: nat)
    requires n > 1, l.len() >= 1
    ensures pm1_s2(x, l, 1, n) == ((pow_mod_spec(x, l[0] as nat, n) + n - 1) as nat) % n
{
    let t = ((pow_mod_spec(x, l[0] as nat, n) + n - 1) as nat) % n;
    lemma_small_mod(1, n);
    assert(pm1_s2(x, l, 0, n) == 1);
    assert(pm1_s2(x, l, 1, n) == (pm1_s2(x, l, 0, n) * t) % n);
    lemma_mul_one(t as int);
    lemma_mod_bound((pow_mod_spec(x, l[0] as nat, n) + n - 1) as int, n as int);
    lemma_small_mod(t, n);
}

/// the budget rules of `PM1Base::factor`
pub open spec fn pm1_fmax(len: int, budget: int) -> int {
    let b = budget * len / 1024;
    if len <= b { len } else { b }
}
pub open spec fn pm1_pmax(len: int, budget: int) -> int {
    if len <= budget - 1000 { len } else { budget - 1000 }
}

/// what a `None` of `PM1Base::factor` means
pub open spec fn pm1_none_ok(fs: Seq<u32>, ls: Seq<u32>, n: nat, budget: int) -> bool {
    let x = pow_mod_spec(2, prod32(fs.take(pm1_fmax(fs.len() as int, budget))), n);
    &&& trivial_gcd(n as int, (((x + n - 1) as nat) % n) as int)
    &&& budget >= 1001 ==> trivial_gcd(n as int, pm1_s2(x, ls, pm1_pmax(ls.len() as int, budget), n) as int)
}

} // verus!
