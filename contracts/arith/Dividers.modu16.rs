//! unit: {"container": "impl Dividers", "file": "src/arith.rs", "kind": "fn", "name": "modu16", "props": ["C08", "C03"]}
//! ---- pinned ----
    pub fn modu16(&self, n: u16) -> u16 {
        if self.p == 2 {
            return n & 1;
        }
        let nm = (n as u64) * (self.m16 as u64);
        let q = (nm >> self.s16) as u16;
        n - q * self.p as u16
    }
//! ---- annotated ----
    pub fn modu16(&self, n: u16) -> (r: u16)
        requires self.wfa(),
        ensures r as int == n as int % self.pv(),
    {
        if self.p == 2 {
            proof { assert(n & 1 == n % 2) by (bit_vector); }
            return n & 1;
        }
        proof { lemma_mul_le2(n as int, 0xffff, self.m16 as int, 0xffff_ffff); lemma_mul_nonneg(n as int, self.m16 as int); }
        let nm = (n as u64) * (self.m16 as u64);
        let q = (nm >> self.s16) as u16;
        proof {
            let t = pow2(self.s16 as nat) as int;
            let pi = self.p as int; let ni = n as int; let m = self.m16 as int;
            lemma_u64_shr_is_div(nm, self.s16 as u64);
            lemma_pow2_pos(self.s16 as nat);
            // n * p < 2^16 * 2^(s64+1) = 2^(s64+17)
            lemma_pow2_adds(16, self.s64 as nat + 1);
            lemma2_to64();
            lemma_mul_lt(ni, 0x10000, pi, pow2(self.s64 as nat + 1) as int);
            lemma_estimate_exact(ni, pi, t, m);
            lemma_fundamental_div_mod(ni, pi); lemma_mod_bound(ni, pi);
            let qq = ni / pi;
            assert(nm as int / t == qq);
            lemma_mul_nonneg(pi, qq);
            assert(0 <= qq <= ni) by { lemma_mul_le(1, pi, qq); lemma_mul_one(qq); if qq < 0 { lemma_mul_le(qq, -1, pi); } }
            assert(q as int == qq);
            // q * (p as u16): if p >= 2^16 then q == 0
            if pi >= 0x10000 {
                if qq >= 1 { lemma_mul_le(1, qq, pi); lemma_mul_one(pi); }
                assert(qq == 0);
                lemma_mul_one(#[verifier::truncate] (self.p as u16) as int);
                lemma_small_mod(ni as nat, pi as nat);
            } else {
                lemma_mul_comm(pi, qq);
                assert((self.p as u16) as int == pi);
                assert(qq * pi <= ni);
            }
        }
        n - q * self.p as u16
    }
