//! unit: {"container": "impl Dividers", "file": "src/arith.rs", "kind": "fn", "name": "divmod_uint_inplace", "props": ["C08", "C03"]}
//! ---- pinned ----
    #[inline]
    fn divmod_uint_inplace<const N: usize>(&self, digits: &mut [u64; N]) -> u64 {
        let mut carry: u64 = 0;
        // self.m64 = ceil(2^k / p) >> s == ceil(2^(k-s) / p)
        // Compute the actual quotient of 2^64 by p.
        let r64 = self.r64 as u64;
        let m64 = (self.m64 - 1) >> self.s64;
        for i in 0..N {
            let i = N - 1 - i;
            let d = digits[i];
            if d == 0 && carry == 0 {
                continue;
            }
            let (mut q, r) = self.divmod64(d);
            debug_assert!(q == d / self.p as u64);
            if carry != 0 {
                q += carry * m64;
                let (cq, cr) = self.divmod64(carry * r64 + r);
                q += cq;
                carry = cr;
            } else {
                carry = r;
            }
            digits[i] = q;
        }
        carry
    }
//! ---- annotated ----
    #[inline]
    #[verifier::loop_isolation(false)]
    fn divmod_uint_inplace<const N: usize>(&self, digits: &mut [u64; N]) -> (rem: u64)
        requires self.wf(),
        ensures
            limbs(old(digits)@) == self.pv() * limbs(final(digits)@) + rem,
            0 <= rem < self.pv(),
    {
        let mut carry: u64 = 0;
        // self.m64 = ceil(2^k / p) >> s == ceil(2^(k-s) / p)
        // Compute the actual quotient of 2^64 by p.
        let r64 = self.r64 as u64;
        let m64 = (self.m64 - 1) >> self.s64;
        let ghost d0 = digits@;
        let ghost pi = self.p as int;
        let ghost w = two64();
        proof {
            // m64 == floor(2^64 / p), 2^64 == m64 * p + r64
            lemma_u64_shr_is_div((self.m64 - 1) as u64, self.s64 as u64);
            lemma_pow2_adds(64, self.s64 as nat); lemma2_to64(); lemma_pow2_pos(self.s64 as nat);
            lemma_div_denominator(pow2(64 + self.s64 as nat) as int, pi, pow2(self.s64 as nat) as int);
            lemma_mul_comm(pi, pow2(self.s64 as nat) as int);
            lemma_div_denominator(pow2(64 + self.s64 as nat) as int, pow2(self.s64 as nat) as int, pi);
            lemma_div_multiples_vanish(w, pow2(self.s64 as nat) as int);
            lemma_mul_comm(w, pow2(self.s64 as nat) as int);
            assert(m64 as int == w / pi);
            lemma_fundamental_div_mod(w, pi);
            assert(w == pi * (m64 as int) + r64 as int);
            lemma_mod_bound(w, pi);
            lemma_pow2_strictly_increases(self.s64 as nat + 1, 31);
            assert(pow2(31) == 0x80000000) by { lemma2_to64_rest(); }
            assert(d0.skip(N as int) =~= Seq::<u64>::empty());
            lemma_limbs_empty();
            lemma_mul_one(pi);
        }
        let mut it = 0;
        let end = N;
        while it < end
            invariant
                it <= end, end == N, carry < self.p, d0.len() == N, digits@.len() == N,
                forall|k: int| 0 <= k < N - it ==> digits@[k] == d0[k],
                limbs(d0.skip(N - it)) == pi * limbs(digits@.skip(N - it)) + carry as int,
            decreases end - it
        {
            let i = it;
            it += 1;
            let i = N - 1 - i;
            let d = digits[i];
            let ghost dg = digits@;
            proof {
                // peel digit i off both sequences
                let s = d0.skip(i as int);
                assert(s.subrange(1, s.len() as int) =~= d0.skip(i + 1));
                assert(s[0] == d0[i as int]);
                reveal(limbs);
                assert(limbs(s) == d0[i as int] as nat + W() * limbs(d0.skip(i + 1)));
                lemma_pow_w_unfold(0);
            }
            if d == 0 && carry == 0 {
                proof {
                    let t = dg.skip(i as int);
                    assert(t.subrange(1, t.len() as int) =~= dg.skip(i + 1));
                    reveal(limbs);
                    assert(limbs(t) == dg[i as int] as nat + W() * limbs(dg.skip(i + 1)));
                    lemma_mul_one(pi);
                    assert(limbs(d0.skip(i + 1)) == pi * limbs(dg.skip(i + 1)));
                    lemma_mul_assoc(w, pi, limbs(dg.skip(i + 1)) as int); lemma_mul_comm(w, pi); lemma_mul_assoc(pi, w, limbs(dg.skip(i + 1)) as int);
                }
                continue;
            }
            let (mut q, r) = self.divmod64(d);
            debug_assert!(q == d / self.p as u64);
            let ghost qd = q as int;
            let ghost c0 = carry as int;
            let ghost v = c0 * w + d as int;   // the two-word value being divided
            proof {
                lemma_fundamental_div_mod(d as int, pi);
                // v == pi * (c0*m64 + qd) + (c0*r64 + r)
                lemma_distrib_l(c0, pi * (m64 as int), r64 as int);
                lemma_mul_assoc(c0, pi, m64 as int); lemma_mul_comm(c0, pi); lemma_mul_assoc(pi, c0, m64 as int);
                lemma_distrib_l(pi, c0 * (m64 as int), qd);
                assert(v == pi * (c0 * (m64 as int) + qd) + (c0 * (r64 as int) + r as int));
                lemma_mul_nonneg(c0, m64 as int); lemma_mul_nonneg(c0, r64 as int);
                // v < pi * w, hence the quotient fits a word
                lemma_mul_le(c0, pi - 1, w); lemma_distrib_r_sub(pi, 1, w); lemma_mul_one(w);
                assert(v < pi * w);
                lemma_mul_le2(c0, 0x7fffffff, r64 as int, 0x7fffffff);
            }
            if carry != 0 {
                proof {
                    // c0*m64 + qd <= v / pi < w
                    lemma_fundamental_div_mod(c0 * (r64 as int) + r as int, pi);
                    let cq = (c0 * (r64 as int) + r as int) / pi; let cr = (c0 * (r64 as int) + r as int) % pi;
                    lemma_mod_bound(c0 * (r64 as int) + r as int, pi);
                    lemma_distrib_l(pi, c0 * (m64 as int) + qd, cq);
                    lemma_fundamental_div_mod_converse(v, pi, c0 * (m64 as int) + qd + cq, cr);
                    assert(cq >= 0) by { if cq < 0 { lemma_mul_le(cq, -1, pi); lemma_mul_neg(pi, 1); lemma_mul_one(pi); } }
                    let total = c0 * (m64 as int) + qd + cq;
                    if total >= w { lemma_mul_le(w, total, pi); lemma_mul_comm(pi, w); }
                    assert(total < w);
                }
                q += carry * m64;
                let (cq, cr) = self.divmod64(carry * r64 + r);
                q += cq;
                carry = cr;
            } else {
                proof { lemma_mul_one(m64 as int); lemma_mul_one(r64 as int); lemma_mod_bound(d as int, pi); }
                carry = r;
            }
            digits[i] = q;
            proof {
                // q, carry are the quotient and remainder of v by p
                assert(v == pi * (q as int) + carry as int);
                let t = digits@.skip(i as int);
                assert(t.subrange(1, t.len() as int) =~= dg.skip(i + 1));
                assert(digits@.skip(i + 1) =~= dg.skip(i + 1));
                reveal(limbs);
                assert(limbs(t) == q as nat + W() * limbs(dg.skip(i + 1)));
                // d0.skip(i) == d + w*(pi*Q + c0) == pi*(q + w*Q) + carry
                let qq = limbs(dg.skip(i + 1)) as int;
                lemma_distrib_l(w, pi * qq, c0);
                lemma_mul_assoc(w, pi, qq); lemma_mul_comm(w, pi); lemma_mul_assoc(pi, w, qq);
                lemma_mul_comm(w, c0);
                lemma_distrib_l(pi, q as int, w * qq);
            }
        }
        proof {
            assert(d0.skip(0) =~= d0);
            assert(digits@.skip(0) =~= digits@);
        }
        carry
    }
