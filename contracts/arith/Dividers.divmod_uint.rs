//! unit: {"container": "impl Dividers", "file": "src/arith.rs", "kind": "fn", "name": "divmod_uint", "props": ["C08", "C03"]}
//! ---- pinned ----
    pub fn divmod_uint<const N: usize>(&self, n: &BUint<N>) -> (BUint<N>, u64) {
        if self.p == 2 {
            return (n >> 1, n.low_u64() & 1);
        }
        let mut digits = n.digits().clone();
        let rem = self.divmod_uint_inplace(&mut digits);
        debug_assert!((n % BUint::<N>::from(self.p)).low_u64() == rem);
        (BUint::from_digits(digits), rem)
    }
//! ---- annotated ----
    pub fn divmod_uint<const N: usize>(&self, n: &BUint<N>) -> (r: (BUint<N>, u64))
        requires self.wf(), N >= 1,   // odd p only: the p = 2 shortcut (`n >> 1`) is outside this contract
        ensures
            uv(r.0) as int == uv(*n) as int / self.pv(),
            r.1 as int == uv(*n) as int % self.pv(),
    {
        if self.p == 2 {
            return (n >> 1, n.low_u64() & 1);
        }
        let mut digits = n.digits().clone();
        proof { axiom_udigits(*n); assert(digits@ =~= udigits(*n)); }
        let rem = self.divmod_uint_inplace(&mut digits);
        proof {
            // the run-time check of the original: (n % p).low_u64() == rem
            lemma_mul_comm(self.p as int, limbs(digits@) as int);
            lemma_fundamental_div_mod_converse(uv(*n) as int, self.p as int, limbs(digits@) as int, rem as int);
            assert(uv(*n) as int % (self.p as int) == rem as int);
        }
        (BUint::from_digits(digits), rem)
    }
