//! unit: {"container": "impl Dividers", "file": "src/arith.rs", "kind": "fn", "name": "modu63", "props": ["C08", "C03"]}
//! ---- pinned ----
    /// Returns the remainder n % p in the case where the MSB of n is not set.
    ///
    /// It is faster than the 64-bit modulo because the precomputed multiplier
    /// gives an exact result.
    #[inline]
    pub fn modu63(&self, n: u64) -> u64 {
        debug_assert!(n >> 63 == 0);
        let p = self.p as u64;
        let nm = (n as u128) * (self.m64 as u128);
        let himul = (nm >> 64) as u64;
        let q = himul >> self.s64;
        n - q * p
    }
//! ---- annotated ----
    /// Returns the remainder n % p in the case where the MSB of n is not set.
    ///
    /// It is faster than the 64-bit modulo because the precomputed multiplier
    /// gives an exact result.
    #[inline]
    pub fn modu63(&self, n: u64) -> (r: u64)
        requires self.wfa(), n >> 63 == 0,
        ensures r as int == n as int % self.pv(),
    {
        debug_assert!(n >> 63 == 0);
        let p = self.p as u64;
        proof {
            assert((n as int) * (self.m64 as int) < 0x1_0000_0000_0000_0000 * 0x1_0000_0000_0000_0000) by (nonlinear_arith)
                requires 0 <= n < 0x1_0000_0000_0000_0000, 0 <= self.m64 < 0x1_0000_0000_0000_0000;
        }
        let nm = (n as u128) * (self.m64 as u128);
        let himul = (nm >> 64) as u64;
        let q = himul >> self.s64;
        proof { self.lemma_wfa_cases(); }
        proof {
          if self.p == 2 {
            let n128 = n as u128;
            assert(nm == n128 * 0x8000_0000_0000_0000u128);
            assert(((nm >> 64) as u64) == n >> 1) by (bit_vector) requires nm == n128 * 0x8000_0000_0000_0000u128, n128 == n as u128;
            let z = self.s64;
            assert(himul >> z == himul) by (bit_vector) requires z == 0u16;
            assert(n - (n >> 1) * 2 == n % 2) by (bit_vector);
            assert((n >> 1) * 2 <= n) by (bit_vector);
          } else {
            let t = pow2(64 + self.s64 as nat) as int;
            let pi = p as int; let ni = n as int; let m = self.m64 as int;
            assert((nm >> 64) == nm / 0x1_0000_0000_0000_0000u128) by (bit_vector);
            assert((nm >> 64) < 0x1_0000_0000_0000_0000u128) by (bit_vector);
            lemma_u64_shr_is_div(himul, self.s64 as u64);
            lemma_pow2_adds(64, self.s64 as nat);
            lemma2_to64();
            lemma_pow2_pos(self.s64 as nat);
            lemma_div_denominator(nm as int, pow2(64) as int, pow2(self.s64 as nat) as int);
            assert(q as int == (ni * m) / t);
            assert(n < 0x8000_0000_0000_0000u64) by (bit_vector) requires n >> 63 == 0;
            lemma_pow2_unfold(self.s64 as nat + 1);
            assert(ni * pi < t) by (nonlinear_arith)
                requires t == 0x1_0000_0000_0000_0000 * (pow2(self.s64 as nat) as int), pi < 2 * (pow2(self.s64 as nat) as int), 0 <= ni < 0x8000_0000_0000_0000, pi >= 3;
            lemma_estimate_exact(ni, pi, t, m);
            lemma_fundamental_div_mod(ni, pi); lemma_mod_bound(ni, pi);
            assert((q as int) * pi <= ni) by (nonlinear_arith) requires ni == pi * (q as int) + ni % pi, ni % pi >= 0;
            assert(ni - (q as int) * pi == ni % pi) by (nonlinear_arith) requires ni == pi * (q as int) + ni % pi;
          }
        }
        n - q * p
    }
