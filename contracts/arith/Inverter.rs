//! unit: {"file": "src/arith.rs", "kind": "struct", "name": "Inverter", "props": ["C08"]}
//! ---- pinned ----
/// A precomputed structure to compute faster modular inverses
/// via "Montgomery modular inverse".
///
///
/// Because this is a hot path of MPQS, the memory footprint
/// of computing modular inverses modulo many bases must be kept small.
///
/// We precompute modular inverses of -2^k only for k a multiple of 8.
/// We assume that p is at most 28 bits, so that p*p << 8 fits in u64.
pub struct Inverter {
    // invpow2[k] is -2^(8k+8) mod p
    invpow2: [u32; 8],
}
//! ---- annotated ----
/// A precomputed structure to compute faster modular inverses
/// via "Montgomery modular inverse".
///
///
/// Because this is a hot path of MPQS, the memory footprint
/// of computing modular inverses modulo many bases must be kept small.
///
/// We precompute modular inverses of -2^k only for k a multiple of 8.
/// We assume that p is at most 28 bits, so that p*p << 8 fits in u64.
pub struct Inverter {
    // invpow2[k] is -2^(8k+8) mod p
    invpow2: [u32; 8],
}
