//! unit: {"file": "src/arith.rs", "kind": "struct", "name": "Dividers", "props": ["C08"]}
//! ---- pinned ----
/// A precomputed structure to divide by a static prime number
/// via Barrett reduction. This is used for primes from the factor base.
/// In particular, it is always assumed that p is smaller than 2^24.
///
/// Since the factor base is large, this structure should ideally remain small.
/// The current size of the structure is 24 bytes.
#[derive(Clone, Copy, Debug)]
pub struct Dividers {
    // Fields must be carefully packed to reduce memory usage.
    p: u32,
    /// The value of 2^64 mod p. It fits on 32 bits.
    r64: u32,
    /// The multiplier for 63-bit division.
    m64: u64,
    /// The shift for 63-bit division.
    /// It is such that x/p = (x * m64) >> (s64+64) so it applies
    /// to the high multiplication result.
    s64: u16,
    /// The shift for 16-bit division.
    s16: u16,
    /// The multiplier for 16-bit division (a 17-bit integer).
    /// This is used for small primes during sieving.
    m16: u32,
}
//! ---- annotated ----
/// A precomputed structure to divide by a static prime number
/// via Barrett reduction. This is used for primes from the factor base.
/// In particular, it is always assumed that p is smaller than 2^24.
///
/// Since the factor base is large, this structure should ideally remain small.
/// The current size of the structure is 24 bytes.
#[derive(Clone, Copy, Debug)]
pub struct Dividers {
    // Fields must be carefully packed to reduce memory usage.
    p: u32,
    /// The value of 2^64 mod p. It fits on 32 bits.
    r64: u32,
    /// The multiplier for 63-bit division.
    m64: u64,
    /// The shift for 63-bit division.
    /// It is such that x/p = (x * m64) >> (s64+64) so it applies
    /// to the high multiplication result.
    s64: u16,
    /// The shift for 16-bit division.
    s16: u16,
    /// The multiplier for 16-bit division (a 17-bit integer).
    /// This is used for small primes during sieving.
    m16: u32,
}
