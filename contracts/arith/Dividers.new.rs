//! unit: {"container": "impl Dividers", "file": "src/arith.rs", "hoist": true, "kind": "fn", "name": "new", "props": ["C08", "C03"]}
//! ---- pinned ----
    pub const fn new(p: u32) -> Self {
        assert!(p >> 30 == 0);
        if p == 2 {
            return Dividers {
                p: 2,
                m64: 1 << 63,
                r64: 0,
                s64: 0,
                m16: 1,
                s16: 1,
            };
        }
        // Compute 2^127 / p
        let m127 = (1_u128 << 127) / p as u128;
        let sz = u128::BITS - u128::leading_zeros(m127);
        let m64 = (m127 >> (sz - 64)) as u64 + 1; // 64 bits

        // Compute 2^64 % p == (2^64 - 1) % p + 1
        let r64 = (u64::MAX % p as u64) + 1;
        let s64 = 127 - sz; // m64 >> (64+s64) = m127 >> 127
        debug_assert!(s64 < 64);
        // Sanity check
        let m = (m64 - 1) >> s64;
        let mp = (!m.wrapping_mul(p as u64)).wrapping_add(1);
        if mp != r64 {
            panic!("incorrect divider");
        }

        // For 16 bits we can use the exact 17-bit multiplier
        let m16 = (m127 >> (sz - 17)) as u32 + 1; // 17 bits
        let s16 = 127 + 17 - sz; // m16 >> s16 = m128 >> 128
        Dividers {
            p,
            m64,
            r64: r64 as u32,
            s64: s64 as u16,
            m16,
            s16: s16 as u16,
        }
    }
//! ---- annotated ----
    pub const fn new(p: u32) -> (d: Self)
        requires p == 2 || (p % 2 == 1 && 3 <= p < 0x4000_0000),
        ensures d.pv() == p as int, p == 2 ==> d.wf2(), p != 2 ==> d.wf(),
    {
        proof { assert(p >> 30 == 0) by (bit_vector) requires p < 0x4000_0000; }
        assert!(p >> 30 == 0);
        if p == 2 {
            proof { assert((1u64 << 63) == 0x8000_0000_0000_0000u64) by (bit_vector); }
            return Dividers {
                p: 2,
                m64: 1 << 63,
                r64: 0,
                s64: 0,
                m16: 1,
                s16: 1,
            };
        }
        let ghost pi = p as int;
        // Compute 2^127 / p
        proof { lemma_u128_one_shl(127); }
        let m127 = (1_u128 << 127) / p as u128;
        proof {
            axiom_u128_lz(m127);
            lemma2_to64();
            lemma2_to64_rest();
            // m127 >= 2^127 / 2^30 > 0
            lemma_pow2_adds(97, 30);
            lemma_div_is_ordered_by_denominator(pow2(127) as int, pi, 0x4000_0000);
            lemma_div_by_multiple(pow2(97) as int, 0x4000_0000);
            lemma_pow2_pos(97);
            lemma_mul_comm(pow2(97) as int, 0x4000_0000);
            assert(m127 as int >= pow2(97) as int);
            // m127 < 2^127
            lemma_fundamental_div_mod(pow2(127) as int, pi);
            lemma_mod_bound(pow2(127) as int, pi);
            lemma_mul_le2(3, pi, m127 as int, m127 as int);
            assert((m127 as int) < pow2(127) as int);
            if u128_lz(m127) == 0 { assert(false); }
        }
        let sz = u128::BITS - u128::leading_zeros(m127);
        proof {
            lemma_recip_size(pi, m127 as int, sz as nat);
            lemma_recip_shift(127, (sz - 64) as nat, pi);
            lemma_recip_shift(127, (sz - 17) as nat, pi);
            lemma_u128_shr_is_div(m127, (sz - 64) as u128);
            lemma_u128_shr_is_div(m127, (sz - 17) as u128);
            lemma_recip_fits(pi, (127 - sz) as nat);
            // 2^(s+17) / p < 2^17
            lemma_pow2_adds((127 - sz) as nat, 17);
            lemma_pow2_pos((144 - sz) as nat);
            lemma_div_pos_is_pos(pow2((144 - sz) as nat) as int, pi);
            lemma_fundamental_div_mod(pow2((144 - sz) as nat) as int, pi);
            lemma_mod_bound(pow2((144 - sz) as nat) as int, pi);
            if pow2((144 - sz) as nat) as int / pi >= 0x20000 {
                lemma_mul_le2(pi, pi, 0x20000, pow2((144 - sz) as nat) as int / pi);
                lemma_mul_lt_pos(pow2((127 - sz) as nat) as int, pi, 0x20000);
                lemma_mul_comm(pi, 0x20000);
                assert(false);
            }
        }
        let m64 = (m127 >> (sz - 64)) as u64 + 1; // 64 bits

        // Compute 2^64 % p == (2^64 - 1) % p + 1
        proof { lemma_r64(pi); }
        let r64 = (u64::MAX % p as u64) + 1;
        let s64 = 127 - sz; // m64 >> (64+s64) = m127 >> 127
        debug_assert!(s64 < 64);
        // Sanity check
        proof {
            lemma_recip_shift(64 + s64 as nat, s64 as nat, pi);
            lemma_u64_shr_is_div((m64 - 1) as u64, s64 as u64);
            lemma_sanity(pi, 0x1_0000_0000_0000_0000int / pi);
        }
        let m = (m64 - 1) >> s64;
        let mp = (!m.wrapping_mul(p as u64)).wrapping_add(1);
        proof {
            let x = m.wrapping_mul(p as u64);
            assert(x as int == m as int * pi);
            assert((!x).wrapping_add(1) == 0u64.wrapping_sub(x)) by (bit_vector);
            assert(mp as int == 0x1_0000_0000_0000_0000int - x as int);
        }
        if mp != r64 {
            panic!("incorrect divider");
        }

        // For 16 bits we can use the exact 17-bit multiplier
        let m16 = (m127 >> (sz - 17)) as u32 + 1; // 17 bits
        let s16 = 127 + 17 - sz; // m16 >> s16 = m128 >> 128
        Dividers {
            p,
            m64,
            r64: r64 as u32,
            s64: s64 as u16,
            m16,
            s16: s16 as u16,
        }
    }
