//! unit: {"container": "impl Dividers", "file": "src/arith.rs", "kind": "fn", "name": "mod_u128", "props": ["C08", "C03"]}
//! ---- pinned ----
    pub fn mod_u128(&self, n: u128) -> u64 {
        let (n0, n1) = (n as u64, (n >> 64) as u64);
        if n1 == 0 {
            return self.divmod64(n0).1;
        }
        // n = n0 + n1 * 2^64
        // Replace the 2^64 by r64, which removes at least 32 bits.
        let pr = n1 as u128 * self.r64 as u128 + n0 as u128;
        // Again with the top word of pr
        let hi = (pr >> 64) as u64 * self.r64 as u64;
        let lo = pr as u64;
        let (mut nred, c) = lo.overflowing_add(hi);
        if c {
            // Cannot overflow, hi < p^2
            nred += self.r64 as u64;
        }
        self.divmod64(nred).1
    }
//! ---- annotated ----
    pub fn mod_u128(&self, n: u128) -> (r: u64)
        requires self.wfa(),
        ensures r as int == n as int % self.pv(),
    {
        proof { lemma_u128_split(n); }
        let (n0, n1) = (n as u64, (n >> 64) as u64);
        if n1 == 0 {
            return self.divmod64(n0).1;
        }
        // n = n0 + n1 * 2^64
        // Replace the 2^64 by r64, which removes at least 32 bits.
        let ghost pi = self.p as int;
        let ghost r = self.r64 as int;
        proof {
            self.lemma_wfa_cases();
            lemma_mod_bound(two64(), pi);
            if self.p == 2 {
                assert(two64() % 2 == 0);
            } else {
                lemma2_to64(); lemma_pow2_strictly_increases(self.s64 as nat + 1, 31);
                assert(pow2(31) == 0x80000000) by { lemma2_to64_rest(); }
            }
            assert(r == two64() % pi);
            assert(r < pi && pi < 0x80000000);
            lemma_mul_le2(n1 as int, 0xffff_ffff_ffff_ffff, r, 0x80000000);
            lemma_mul_nonneg(n1 as int, r);
        }
        let pr = n1 as u128 * self.r64 as u128 + n0 as u128;
        // Again with the top word of pr
        proof {
            lemma_u128_split(pr);
            assert(pr < 0x8000_0001_0000_0000_0000_0000u128);
            assert((pr >> 64) <= 0x8000_0000u128) by (bit_vector) requires pr < 0x8000_0001_0000_0000_0000_0000u128;
            lemma_mul_le2(((pr >> 64) as u64) as int, 0x8000_0000, r, 0x80000000);
            lemma_mul_nonneg(((pr >> 64) as u64) as int, r);
        }
        let hi = (pr >> 64) as u64 * self.r64 as u64;
        let lo = pr as u64;
        let (mut nred, c) = lo.overflowing_add(hi);
        if c {
            // Cannot overflow, hi < p^2
            nred += self.r64 as u64;
        }
        proof {
            // n ≡ pr ≡ lo + hi ≡ nred (mod p), using 2^64 ≡ r64
            let w = two64();
            let top = ((pr >> 64) as u64) as int;
            lemma_cong_mod(w, pi);
            assert(cong(r, w, pi));
            lemma_cong_mul(r, w, n1 as int, pi);
            lemma_cong_add(n1 as int * r, n1 as int * w, n0 as int, n0 as int, pi);
            assert(cong(pr as int, n as int, pi));
            lemma_cong_mul(r, w, top, pi);
            lemma_cong_add(top * r, top * w, lo as int, lo as int, pi);
            assert(cong(lo as int + hi as int, pr as int, pi));
            if c {
                lemma_cong_add(r, w, nred as int - r, nred as int - r, pi);
            }
            assert(cong(nred as int, n as int, pi));
        }
        self.divmod64(nred).1
    }
