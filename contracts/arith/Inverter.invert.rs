//! unit: {"container": "impl Inverter", "file": "src/arith.rs", "kind": "fn", "name": "invert", "props": ["C08", "C03", "C12"]}
//! ---- pinned ----
    /// Computation of Montgomery "almost inverse",
    /// using a precomputed inverse power of 2.
    ///
    /// It requires a companion Divider64 structure.
    ///
    /// The implementation follows the presentation by Lórencz
    /// <https://doi.org/10.1007/3-540-36400-5_6>
    /// and is attributed to Kaliski.
    ///
    /// See also Joppe W. Bos, Constant Time Modular Inversion
    /// <https://www.joppebos.com/files/CTInversion.pdf>
    /// <http://dx.doi.org/10.1007/s13389-014-0084-8>
    pub fn invert(&self, x: u32, div: &Dividers) -> u32 {
        if div.p == 2 {
            return x % 2;
        }
        debug_assert!(div.p >> 28 == 0);
        let p = div.p;
        assert!(x != 0);
        // Similar to binary GCD, with invariants:
        // rx = -u*2^k, sx = v*2^k, gcd(u,v)=gcd(x,p)=1
        let (mut u, mut v) = (p, x);
        let (mut r, mut s) = (0_u32, 1_u32);
        let mut k = 0_u32;
        // Initially p is off and x might be even.
        if v & 1 == 0 {
            let vtz = v.trailing_zeros();
            (v, r) = (v >> vtz, r << vtz);
            k += vtz;
        }
        // Now both u and v are odd. At each loop iteration
        // they will still be odd, and both r,s <= (1<<k).
        loop {
            // Loop at most 2*p.bits() times
            let diff = (u as i64) - (v as i64);
            if diff == 0 {
                // Now u=v so they are necessarily 1.
                break;
            }
            let dtz = diff.trailing_zeros();
            k = k + dtz;
            debug_assert!(dtz > 0);
            if diff > 0 {
                // Combination of:
                // (u, r, s) = ((u-v)/2, r+s, 2s)
                // and (u, s) = (u >> dtz-1, s << dtz-1)
                (u, r, s) = ((diff as u32) >> dtz, r + s, s << dtz);
            } else {
                // Combination of:
                // (v, r, s) = (v-u)/2, 2r, r+s)
                // and (v, r) = (v >> dtz-1, r << dtz-1)
                (v, r, s) = (((-diff) as u32) >> dtz, r << dtz, r + s);
            }
            debug_assert!(((r as u64) * (x as u64) + ((u as u64) << k)) % div.p as u64 == 0);
        }
        debug_assert!(u == 1);
        debug_assert!(r <= 2 * p);
        // Now u = 1, rx = -2^k and r is smaller than 2p.
        // (k is at most twice the bit size of p).
        // Normalize k to a multiple of 8.
        let powidx = k as usize / 8;
        debug_assert!(powidx < self.invpow2.len());
        // k + (8 - k % 8) == 8 * (k / 8) + 8
        let r = (r as u64) << (8 - k % 8);
        let n = unsafe { r * *self.invpow2.get_unchecked(powidx) as u64 };
        div.divmod64(n).1 as u32
    }
//! ---- annotated ----
    pub fn invert(&self, x: u32, div: &Dividers) -> (res: u32)
        requires
            div.wfa(), div.pv() < 0x1000_0000, div.pv() != 2 ==> self.wf(div.pv()),
            0 < x, (x as int) < div.pv(), coprime(x as nat, div.pv() as nat),
        ensures
            (res as int) < div.pv(), cong(res as int * x as int, 1, div.pv()),
    {
        proof { div.lemma_wfa_cases(); if div.p != 2 { div.lemma_wf_facts(); } }
        if div.p == 2 {
            proof { assert(x == 1); assert(1int % 2 == 1); }
            return x % 2;
        }
        proof {
            let q = div.p;
            assert(q >> 28 == 0) by (bit_vector) requires q < 0x1000_0000;
        }
        debug_assert!(div.p >> 28 == 0);
        let p = div.p;
        assert!(x != 0);
        let ghost pi = p as int;
        let ghost xi = x as int;
        // Similar to binary GCD, with invariants:
        // rx = -u*2^k, sx = v*2^k, gcd(u,v)=gcd(x,p)=1
        let (mut u, mut v) = (p, x);
        let (mut r, mut s) = (0_u32, 1_u32);
        let mut k = 0_u32;
        proof { lemma2_to64(); }
        // Initially p is off and x might be even.
        if v & 1 == 0 {
            let vtz = v.trailing_zeros();
            proof {
                axiom_u32_tz_arith(v);
                lemma_pow2_pos(vtz as nat);
                lemma_u32_shr_is_div(v, vtz);
                assert(0u32 << vtz == 0) by (bit_vector);
                lemma_fundamental_div_mod(xi, pow2(vtz as nat) as int);
                lemma_mul_comm(pow2(vtz as nat) as int, xi / (pow2(vtz as nat) as int));
            }
            let verif_t = (v >> vtz, r << vtz); v = verif_t.0; r = verif_t.1;
            k += vtz;
            proof { assert(xi == (v as int) * pow2(k as nat) as int); }
        } else {
            proof {
                assert((v & 1 == 0) == (v % 2 == 0)) by (bit_vector);
                lemma_mul_one(v as int);
                assert(xi == (v as int) * pow2(k as nat) as int);
            }
        }
        proof {
            // x = v 2^k exactly, v odd
            let pk0 = pow2(k as nat) as int;
            lemma_pow2_pos(k as nat);
            assert(xi == (v as int) * pk0);
            lemma_coprime_shift(x as nat, p as nat, v as nat, k as nat);
            lemma_coprime_sym(v as nat, p as nat);
            // 0 x = 0 ≡ -(p 2^k),  1 x = v 2^k
            lemma_mul_one(xi);
            lemma_cong_add_multiple(0, -pk0, pi);
            lemma_mul_neg(pk0, pi);
            lemma_mul_comm(pk0, pi);
            lemma_mul_one(pi);
            lemma_mul_one(v as int);
            lemma_mul_assoc(pi, v as int, pk0);
            assert(v as int <= xi) by { lemma_mul_le2(v as int, v as int, 1, pk0); }
        }
        // Now both u and v are odd. At each loop iteration
        // they will still be odd, and both r,s <= (1<<k).
        loop
            invariant
                3 <= p < 0x1000_0000, p % 2 == 1, pi == p as int, xi == x as int, 0 < x < p, div.p == p,
                1 <= u <= p, 1 <= v <= p, u % 2 == 1, v % 2 == 1,
                (u as int) * (s as int) + (v as int) * (r as int) == pi,
                kal_cong(r as int, s as int, u as int, v as int, k as nat, xi, pi),
                coprime(u as nat, v as nat),
                k <= 64,
                (u as int) * (v as int) * (pow2(k as nat) as int) <= pi * xi,
            ensures
                u == v,
            decreases u + v
        {
            // Loop at most 2*p.bits() times
            let diff = (u as i64) - (v as i64);
            if diff == 0 {
                // Now u=v so they are necessarily 1.
                break;
            }
            let dtz = diff.trailing_zeros();
            let ghost t = dtz as nat;
            let ghost pt = pow2(t) as int;
            let ghost pk = pow2(k as nat) as int;
            let ghost ad: int = if diff < 0 { -(diff as int) } else { diff as int };
            let ghost w = ad / pt;
            proof {
                axiom_i64_tz(diff);
                lemma_pow2_pos(t);
                lemma_pow2_pos(k as nat);
                lemma_fundamental_div_mod(ad, pt);
                lemma_mul_comm(w, pt);
                // u, v odd: the difference is even, so t >= 1; w >= 1
                if t == 0 { lemma2_to64(); lemma_mul_one(w); }
                assert(w >= 1) by { if w <= 0 { lemma_mul_nonneg(-w, pt); lemma_mul_neg(w, pt); } }
                // 2^t <= |diff| < 2^28
                lemma_mul_le2(1, w, pt, pt);
                lemma_mul_one(pt);
                lemma_kal_bounds(u as int, v as int, r as int, s as int, pi);
                // potential: u v 2^k >= 2^k, so k stays small
                lemma_mul_pos(u as int, v as int);
                lemma_mul_le2(1, (u as int) * (v as int), pk, pk);
                lemma_mul_one(pk);
                lemma_mul_lt(pi, 0x1000_0000, xi, 0x1000_0000);
                lemma_kal_kbound(k as nat, pi * xi);
                assert(t < 32) by { if t >= 32 { lemma_pow2_strictly_increases(28, t); lemma2_to64(); } }
            }
            k = k + dtz;
            debug_assert!(dtz > 0);
            if diff > 0 {
                // Combination of:
                // (u, r, s) = ((u-v)/2, r+s, 2s)
                // and (u, s) = (u >> dtz-1, s << dtz-1)
                proof {
                    lemma_kal_exact_u(u as int, v as int, w, r as int, s as int, pt, pi);
                    lemma_kal_step_u(r as int, s as int, u as int, v as int, w, (k - dtz) as nat, t, xi, pi);
                    lemma_coprime_step(u as nat, v as nat, w as nat, t);
                    lemma_kal_potential(u as int, w, v as int, pk, pt);
                    lemma_pow2_adds((k - dtz) as nat, t);
                    lemma_u32_shr_is_div(diff as u32, dtz);
                    lemma_u32_shl_is_mul(s, dtz);
                }
                let verif_t = ((diff as u32) >> dtz, r + s, s << dtz); u = verif_t.0; r = verif_t.1; s = verif_t.2;
            } else {
                // Combination of:
                // (v, r, s) = (v-u)/2, 2r, r+s)
                // and (v, r) = (v >> dtz-1, r << dtz-1)
                proof {
                    lemma_kal_exact_v(u as int, v as int, w, r as int, s as int, pt, pi);
                    lemma_kal_step_v(r as int, s as int, u as int, v as int, w, (k - dtz) as nat, t, xi, pi);
                    lemma_coprime_sym(u as nat, v as nat);
                    lemma_coprime_step(v as nat, u as nat, w as nat, t);
                    lemma_coprime_sym(w as nat, u as nat);
                    lemma_mul_comm(u as int, v as int);
                    lemma_kal_potential(v as int, w, u as int, pk, pt);
                    lemma_mul_comm(u as int, w);
                    lemma_pow2_adds((k - dtz) as nat, t);
                    lemma_u32_shr_is_div((-diff) as u32, dtz);
                    lemma_u32_shl_is_mul(r, dtz);
                }
                let verif_t = (((-diff) as u32) >> dtz, r << dtz, r + s); v = verif_t.0; r = verif_t.1; s = verif_t.2;
            }
            proof {
                // the new potential bounds the new k, and keeps the debug assertion of the original code computable
                let pk2 = pow2(k as nat) as int;
                lemma_pow2_pos(k as nat);
                lemma_mul_pos(u as int, v as int);
                lemma_mul_le2(1, (u as int) * (v as int), pk2, pk2);
                lemma_mul_one(pk2);
                lemma_kal_kbound(k as nat, pi * xi);
                // u 2^k <= u v 2^k <= p x < 2^56 and r x <= p x
                lemma_mul_le2(u as int, u as int, 1, v as int);
                lemma_mul_one(u as int);
                lemma_mul_le2(u as int, (u as int) * (v as int), pk2, pk2);
                lemma_kal_bounds(u as int, v as int, r as int, s as int, pi);
                lemma_mul_le2(r as int, pi, xi, xi);
                lemma_mul_nonneg(r as int, xi);
                lemma_mul_nonneg(u as int, pk2);
                lemma_u64_shl_is_mul(u as u64, k as u64);
                lemma_kal_debug(r as int, u as int, k as nat, xi, pi);
            }
            debug_assert!(((r as u64) * (x as u64) + ((u as u64) << k)) % div.p as u64 == 0);
        }
        proof {
            lemma_coprime_same(u as nat);
            lemma_kal_bounds(u as int, v as int, r as int, s as int, pi);
            lemma_mul_one(pow2(k as nat) as int);
            lemma_mul_one(1);
            lemma_mul_lt(pi, 0x1000_0000, xi, 0x1000_0000);
            lemma_kal_kbound(k as nat, pi * xi);
        }
        debug_assert!(u == 1);
        debug_assert!(r <= 2 * p);
        // Now u = 1, rx = -2^k and r is smaller than 2p.
        // (k is at most twice the bit size of p).
        // Normalize k to a multiple of 8.
        let powidx = k as usize / 8;
        debug_assert!(powidx < self.invpow2.len());
        // k + (8 - k % 8) == 8 * (k / 8) + 8
        let ghost e = (8 - k % 8) as nat;
        proof {
            lemma2_to64();
            assert(pow2(e) <= 256) by { if e < 8 { lemma_pow2_strictly_increases(e, 8); } }
            lemma_pow2_pos(e);
            lemma_mul_le2(r as int, 0xfff_ffff, pow2(e) as int, 256);
            lemma_mul_nonneg(r as int, pow2(e) as int);
            lemma_u64_shl_is_mul(r as u64, (8 - k % 8) as u64);
        }
        let ghost r0 = r;
        let r = (r as u64) << (8 - k % 8);
        proof {
            assert(self.invpow2@[powidx as int] as int >= 0);
            lemma_mul_lt(r as int, 0x10_0000_0000, self.invpow2@[powidx as int] as int, 0x1000_0000);
            lemma_mul_nonneg(r as int, self.invpow2@[powidx as int] as int);
        }
        let n = { r * self.invpow2[powidx] as u64 };
        proof {
            lemma_mod_bound(n as int, pi);
            lemma_cong_mod(n as int, pi);
            lemma_mul_one(pow2(k as nat) as int);
            lemma_kal_final(r0 as int, xi, k as nat, e, powidx as nat, self.invpow2@[powidx as int] as int, pi);
            lemma_cong_mul((n as int) % pi, n as int, xi, pi);
            lemma_cong_trans(((n as int) % pi) * xi, (n as int) * xi, 1, pi);
        }
        div.divmod64(n).1 as u32
    }
