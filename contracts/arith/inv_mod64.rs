//! unit: {"file": "src/arith.rs", "kind": "fn", "name": "inv_mod64", "props": ["C08", "C07", "C03"]}
//! ---- pinned ----
/// Modular inversion for 64-bit moduli.
pub fn inv_mod64(n: u64, p: u64) -> Option<u64> {
    if (n | p) >> 63 != 0 {
        // Operands do not fit in i64.
        let e = Integer::extended_gcd(&(n as i128), &(p as i128));
        if e.gcd != 1 {
            return None;
        }
        let x = if e.x < 0 { e.x + p as i128 } else { e.x };
        assert!(x >= 0);
        return Some((x as u128 % p as u128) as u64);
    }
    let e = Integer::extended_gcd(&(n as i64), &(p as i64));
    if e.gcd == 1 {
        let x = if e.x < 0 { e.x + p as i64 } else { e.x };
        assert!(x >= 0);
        Some(x as u64 % p)
    } else {
        None
    }
}
//! ---- annotated ----
/// Modular inversion for 64-bit moduli.
pub fn inv_mod64(n: u64, p: u64) -> (r: Option<u64>)
    requires p >= 1,
    ensures
        match r {
            Some(x) => x < p && cong(x as int * n as int, 1, p as int),
            None => !coprime(n as nat, p as nat),
        },
{
    proof {
        assert((n | p) >> 63 == 0 ==> n < 0x8000_0000_0000_0000 && p < 0x8000_0000_0000_0000) by (bit_vector);
    }
    if (n | p) >> 63 != 0 {
        // Operands do not fit in i64.
        let e = ol_egcd_i128(n as i128, p as i128);
        if e.gcd != 1 {
            proof { lemma_common_divisor(e.gcd as nat, n as nat, p as nat); }
            return None;
        }
        let x = if e.x < 0 { e.x + p as i128 } else { e.x };
        assert!(x >= 0);
        proof {
            lemma_bezout_inverse(e.x as int, e.y as int, n as int, p as int, (e.x as int) % (p as int));
            lemma_cong_add_multiple(e.x as int, 1, p as int);
        }
        return Some((x as u128 % p as u128) as u64);
    }
    let e = ol_egcd_i64(n as i64, p as i64);
    if e.gcd == 1 {
        let x = if e.x < 0 { e.x + p as i64 } else { e.x };
        assert!(x >= 0);
        proof {
            lemma_bezout_inverse(e.x as int, e.y as int, n as int, p as int, (e.x as int) % (p as int));
            lemma_cong_add_multiple(e.x as int, 1, p as int);
        }
        Some(x as u64 % p)
    } else {
        proof { lemma_common_divisor(e.gcd as nat, n as nat, p as nat); }
        None
    }
}
