//! unit: {"container": "impl Inverter", "file": "src/arith.rs", "hoist": true, "kind": "fn", "name": "new", "props": ["C08", "C03"]}
//! ---- pinned ----
    pub fn new(p: u32) -> Inverter {
        if p == 2 {
            // Return a summy value.
            return Inverter { invpow2: [0; 8] };
        }
        debug_assert!(p >> 28 == 0);
        // Inverse powers of 2 (-2^8..-2^64)
        let mut invpow2 = [0; 8];
        let mut x: u32 = 1;
        for k in 0..=8 * invpow2.len() {
            if k >= 8 && k % 8 == 0 {
                invpow2[k / 8 - 1] = p - x;
            }
            if x % 2 == 0 {
                x /= 2;
            } else {
                x = (x + p) / 2;
            }
        }
        Inverter { invpow2 }
    }
//! ---- annotated ----
    pub fn new(p: u32) -> (inv: Inverter)
        requires p == 2 || (p % 2 == 1 && 3 <= p < 0x1000_0000),
        ensures p != 2 ==> inv.wf(p as int),
    {
        if p == 2 {
            // Return a summy value.
            return Inverter { invpow2: [0; 8] };
        }
        proof { assert(p >> 28 == 0) by (bit_vector) requires p < 0x1000_0000; }
        debug_assert!(p >> 28 == 0);
        // Inverse powers of 2 (-2^8..-2^64)
        let mut invpow2 = [0; 8];
        let mut x: u32 = 1;
        let ghost pi = p as int;
        proof { lemma2_to64(); lemma_mul_one(1); }
        for k in verif_it: 0..=8 * invpow2.len()
            invariant
                p % 2 == 1, 3 <= p < 0x1000_0000, pi == p as int,
                k == verif_it.index@,
                1 <= x < p,
                cong(x as int * pow2(k as nat) as int, 1, pi),
                forall|j: int| 0 <= j < 8 && 8 * j + 8 < k ==> 0 <= (#[trigger] invpow2@[j]) as int && (invpow2@[j] as int) < pi
                    && cong(invpow2@[j] as int * pow2((8 * j + 8) as nat) as int, -1, pi),
        {
            if k >= 8 && k % 8 == 0 {
                proof { lemma_inv_neg(x as int, k as nat, pi); }
                invpow2[k / 8 - 1] = p - x;
            }
            let ghost x0 = x;
            if x % 2 == 0 {
                x /= 2;
            } else {
                x = (x + p) / 2;
            }
            proof {
                lemma_inv_half_step(x0 as int, x as int, k as nat, pi);
                // x >= 1: otherwise 0 ≡ 1 (mod p)
                if x == 0 { lemma_mul_one(pow2((k + 1) as nat) as int); lemma_small_mod(0, p as nat); lemma_small_mod(1, p as nat); }
            }
        }
        Inverter { invpow2 }
    }
