//! unit: {"container": "impl Dividers", "file": "src/arith.rs", "kind": "fn", "name": "mod_uint", "props": ["C08", "C03"]}
//! ---- pinned ----
    pub fn mod_uint<const N: usize>(&self, n: &BUint<N>) -> u64 {
        if self.p == 2 {
            return n.low_u64() & 1;
        }
        // We don't need the quotient so don't use divmod_uint_inplace.
        let nd = n.digits();
        // Evaluate nd as a polynomial ND(r64) modulo p using Hörner rule.
        // At each step, reduce to a 64-bit number.
        // This costs 2(N-1) multiplications.
        let mut pol: u64 = nd[N - 1];
        for i in 2..=N {
            if pol == 0 {
                pol = nd[N - i]
            } else {
                // pr is kess than p*2^64
                let pr = pol as u128 * self.r64 as u128 + nd[N - i] as u128;
                // Reduce the top word of pr
                let hi = (pr >> 64) as u64 * self.r64 as u64;
                let lo = pr as u64;
                let (mut res, c) = lo.overflowing_add(hi);
                if c {
                    res += self.r64 as u64;
                }
                pol = res
            }
        }
        self.divmod64(pol).1
    }
//! ---- annotated ----
    #[verifier::loop_isolation(false)]
    pub fn mod_uint<const N: usize>(&self, n: &BUint<N>) -> (r: u64)
        requires self.wfa(), N >= 1,
        ensures r as int == uv(*n) as int % self.pv(),
    {
        if self.p == 2 {
            proof {
                let x = udigits(*n)[0];
                axiom_udigits(*n);
                assert(x & 1 == x % 2) by (bit_vector);
                // uv % 2 == (uv % W) % 2
                lemma_pow_w_unfold(0);
                lemma_mod_of_mod(uv(*n) as int, W() as int, 2);
            }
            return n.low_u64() & 1;
        }
        // We don't need the quotient so don't use divmod_uint_inplace.
        let nd = n.digits();
        // Evaluate nd as a polynomial ND(r64) modulo p using Hörner rule.
        // At each step, reduce to a 64-bit number.
        // This costs 2(N-1) multiplications.
        let mut pol: u64 = nd[N - 1];
        let ghost pi = self.p as int;
        let ghost w = two64();
        let ghost rr = self.r64 as int;
        proof {
            axiom_udigits(*n);
            lemma_mod_bound(w, pi);
            lemma2_to64(); lemma_pow2_strictly_increases(self.s64 as nat + 1, 31);
            assert(pow2(31) == 0x80000000) by { lemma2_to64_rest(); }
            lemma_cong_mod(w, pi);
            let s = nd@.skip(N - 1);
            assert(s.subrange(1, 1) =~= Seq::<u64>::empty());
            lemma_limbs_empty(); reveal(limbs); lemma_pow_w_unfold(0);
            assert(limbs(s) == s[0] as nat + W() * limbs(s.subrange(1, 1)));
        }
        for i in verif_it: 2..=N
            invariant
                verif_it.index@ <= N - 1,
                cong(pol as int, limbs(nd@.skip(N - 1 - verif_it.index@)) as int, pi),
        {
            proof {
                let s = nd@.skip(N - i);
                assert(s.subrange(1, s.len() as int) =~= nd@.skip(N - i + 1));
                reveal(limbs); lemma_pow_w_unfold(0);
                assert(limbs(s) == nd@[N - i] as nat + W() * limbs(nd@.skip(N - i + 1)));
                // limbs(s) ≡ nd[N-i] + r64 * pol
                let hi = limbs(nd@.skip(N - i + 1)) as int;
                lemma_cong_mul(pol as int, hi, w, pi);
                lemma_cong_mul(rr, w, pol as int, pi);
                lemma_mul_comm(w, hi);
                assert(cong(pol as int * rr, w * hi, pi)) by { lemma_mul_comm(pol as int, rr); lemma_mul_comm(pol as int, w); };
                lemma_cong_add(pol as int * rr, w * hi, nd@[N - i] as int, nd@[N - i] as int, pi);
            }
            let ghost tgt = limbs(nd@.skip(N - i)) as int;
            proof { assert(cong(pol as int * rr + nd@[N - i] as int, tgt, pi)); }
            if pol == 0 {
                proof { lemma_mul_one(rr); }
                pol = nd[N - i]
            } else {
                // pr is kess than p*2^64
                proof {
                    lemma_mul_le2(pol as int, 0xffff_ffff_ffff_ffff, rr, 0x7fffffff);
                    lemma_mul_nonneg(pol as int, rr);
                }
                let pr = pol as u128 * self.r64 as u128 + nd[N - i] as u128;
                // Reduce the top word of pr
                proof {
                    lemma_u128_split(pr);
                    assert((pr >> 64) <= 0x8000_0000u128) by (bit_vector) requires pr < 0x8000_0000_0000_0000_0000_0000u128;
                    lemma_mul_le2(((pr >> 64) as u64) as int, 0x8000_0000, rr, 0x7fffffff);
                    lemma_mul_nonneg(((pr >> 64) as u64) as int, rr);
                }
                let hi = (pr >> 64) as u64 * self.r64 as u64;
                let lo = pr as u64;
                let (mut res, c) = lo.overflowing_add(hi);
                if c {
                    res += self.r64 as u64;
                }
                proof {
                    let top = ((pr >> 64) as u64) as int;
                    lemma_pow_w_unfold(0);
                    lemma_cong_mul(rr, w, top, pi);
                    lemma_cong_add(top * rr, top * w, lo as int, lo as int, pi);
                    assert(cong(lo as int + hi as int, pr as int, pi));
                    if c { lemma_cong_add(rr, w, res as int - rr, res as int - rr, pi); }
                    assert(cong(res as int, pr as int, pi));
                    assert(pr as int == pol as int * rr + nd@[N - i] as int);
                }
                pol = res
            }
        }
        proof { assert(nd@.skip(0) =~= nd@); }
        self.divmod64(pol).1
    }
