//! unit: {"container": "impl Dividers", "file": "src/arith.rs", "kind": "fn", "name": "divmod64", "props": ["C08", "C03"]}
//! ---- pinned ----
    #[inline]
    pub fn divmod64(&self, n: u64) -> (u64, u64) {
        let p = self.p as u64;
        let nm = (n as u128) * (self.m64 as u128);
        let himul = (nm >> 64) as u64;
        let q = himul >> self.s64;
        let qp = q * p;
        if qp > n {
            (q - 1, p - (qp - n))
        } else {
            (q, n - qp)
        }
    }
//! ---- annotated ----
    #[inline]
    pub fn divmod64(&self, n: u64) -> (r: (u64, u64))
        requires self.wfa(),
        ensures r.0 as int == n as int / self.pv(), r.1 as int == n as int % self.pv(),
    {
        let p = self.p as u64;
        proof {
            assert((n as int) * (self.m64 as int) < 0x1_0000_0000_0000_0000 * 0x1_0000_0000_0000_0000) by (nonlinear_arith)
                requires 0 <= n < 0x1_0000_0000_0000_0000, 0 <= self.m64 < 0x1_0000_0000_0000_0000;
        }
        let nm = (n as u128) * (self.m64 as u128);
        let himul = (nm >> 64) as u64;
        let q = himul >> self.s64;
        proof { self.lemma_wfa_cases(); }
        proof {
          if self.p == 2 {
            let n128 = n as u128;
            assert(nm == n128 * 0x8000_0000_0000_0000u128);
            assert(((nm >> 64) as u64) == n >> 1) by (bit_vector) requires nm == n128 * 0x8000_0000_0000_0000u128, n128 == n as u128;
            let z = self.s64;
            assert(himul >> z == himul) by (bit_vector) requires z == 0u16;
            assert((n >> 1) * 2 <= n && n - (n >> 1) * 2 == n % 2 && n >> 1 == n / 2) by (bit_vector);
          } else {
            let t = pow2(64 + self.s64 as nat) as int;
            let pi = p as int; let ni = n as int; let m = self.m64 as int;
            assert((nm >> 64) == nm / 0x1_0000_0000_0000_0000u128) by (bit_vector);
            assert((nm >> 64) < 0x1_0000_0000_0000_0000u128) by (bit_vector);
            lemma_u64_shr_is_div(himul, self.s64 as u64);
            lemma_pow2_adds(64, self.s64 as nat);
            lemma2_to64();
            lemma_pow2_pos(self.s64 as nat);
            lemma_div_denominator(nm as int, pow2(64) as int, pow2(self.s64 as nat) as int);
            assert(q as int == (ni * m) / t);
            // 2t > 2^64 p  since p < 2^(s+1)
            lemma_pow2_unfold(self.s64 as nat + 1);
            assert(2 * t > 0x1_0000_0000_0000_0000 * pi) by (nonlinear_arith)
                requires t == 0x1_0000_0000_0000_0000 * (pow2(self.s64 as nat) as int), pi < 2 * (pow2(self.s64 as nat) as int);
            lemma_estimate(ni, pi, t, m);
            // q*p <= n+1 <= 2^64 and q*p != 2^64
            if q as int * pi == 0x1_0000_0000_0000_0000 {
                lemma_odd_not_div_pow2(pi, q as int, 64, 0x1_0000_0000_0000_0000);
                assert(pi * (q as int) == (q as int) * pi) by (nonlinear_arith);
            }
          }
        }
        let qp = q * p;
        if qp > n {
            proof { if self.p != 2 { lemma_fundamental_div_mod(n as int, p as int); lemma_mod_bound(n as int, p as int);
                let qq = n as int / (p as int); let rr = n as int % (p as int);
                assert(q as int == qq + 1) by (nonlinear_arith) requires (q as int) * (p as int) > n as int, n as int == (p as int) * qq + rr, 0 <= rr < p as int, q as int == qq || q as int == qq + 1, p >= 3;
                assert((qq + 1) * (p as int) == qq * (p as int) + p as int) by (nonlinear_arith);
            } }
            (q - 1, p - (qp - n))
        } else {
            proof { if self.p != 2 { lemma_fundamental_div_mod(n as int, p as int); lemma_mod_bound(n as int, p as int);
                let qq = n as int / (p as int); let rr = n as int % (p as int);
                assert(q as int == qq) by (nonlinear_arith) requires (q as int) * (p as int) <= n as int, n as int == (p as int) * qq + rr, 0 <= rr < p as int, q as int == qq || q as int == qq + 1, p >= 3;
            } }
            (q, n - qp)
        }
    }
