//! unit: {"container": "impl Dividers", "file": "src/arith.rs", "kind": "fn", "name": "modi64", "props": ["C08", "C03"]}
//! ---- pinned ----
    pub fn modi64(&self, n: i64) -> u64 {
        if n < 0 {
            let m = self.divmod64(n.unsigned_abs()).1;
            if m == 0 {
                return 0;
            }
            self.p as u64 - m
        } else {
            self.modu63(n as u64)
        }
    }
//! ---- annotated ----
    pub fn modi64(&self, n: i64) -> (r: u64)
        requires self.wf(),
        ensures r as int == n as int % self.pv(),
    {
        if n < 0 {
            let m = self.divmod64(n.unsigned_abs()).1;
            proof {
                let pi = self.p as int; let a = -(n as int);
                lemma_fundamental_div_mod(a, pi); lemma_mod_bound(a, pi);
                let q = a / pi;
                // n = -a = p*(-q) - m
                lemma_mul_neg(pi, q); lemma_mul_neg(pi, 1); lemma_mul_one(pi);
                if m == 0 {
                    lemma_fundamental_div_mod_converse(n as int, pi, -q, 0);
                } else {
                    lemma_distrib_l(pi, -q, -1);
                    assert(n as int == pi * (-q - 1) + (pi - m as int));
                    lemma_fundamental_div_mod_converse(n as int, pi, -q - 1, pi - m as int);
                }
            }
            if m == 0 {
                return 0;
            }
            self.p as u64 - m
        } else {
            proof { assert((n as u64) >> 63 == 0) by (bit_vector) requires n >= 0; }
            self.modu63(n as u64)
        }
    }
