#[allow(unused_imports)] use vstd::arithmetic::{div_mod::*, power2::*, mul::*};
#[allow(unused_imports)] use vstd::bits::*;
#[allow(unused_imports)] use vstd::std_specs::bits::*;

verus! {
impl Dividers {
    pub closed spec fn pv(&self) -> int { self.p as int }
    /// representation invariant for odd p (p = 2 is the degenerate entry: see `wf2`)
    pub closed spec fn wf(&self) -> bool {
        &&& self.p >= 3 && self.p % 2 == 1
        &&& self.s64 < 30
        &&& pow2(self.s64 as nat) < self.p < pow2(self.s64 as nat + 1)
        &&& (self.m64 as int) == pow2(64 + self.s64 as nat) as int / (self.p as int) + 1
        &&& (self.r64 as int) == 0x1_0000_0000_0000_0000int % (self.p as int)
        &&& self.s16 == self.s64 + 17
        &&& (self.m16 as int) == pow2(self.s16 as nat) as int / (self.p as int) + 1
    }
    /// the entry for p = 2
    pub closed spec fn wf2(&self) -> bool {
        self.p == 2 && self.r64 == 0
    }
    pub open spec fn wfa(&self) -> bool { self.wf() || self.wf2() }
}
} // verus!
