#[allow(unused_imports)] use vstd::arithmetic::{div_mod::*, power2::*, mul::*};
#[allow(unused_imports)] use vstd::bits::*;
#[allow(unused_imports)] use vstd::std_specs::bits::*;

verus! {
impl Dividers {
    pub closed spec fn pv(&self) -> int { self.p as int }
    /// representation invariant for odd p (p = 2 is the degenerate entry: see `wf2`)
    pub closed spec fn wf(&self) -> bool {
        &&& self.p >= 3 && self.p % 2 == 1
        &&& self.s64 < 30
        &&& pow2(self.s64 as nat) < self.p < pow2(self.s64 as nat + 1)
        &&& (self.m64 as int) == pow2(64 + self.s64 as nat) as int / (self.p as int) + 1
        &&& (self.r64 as int) == 0x1_0000_0000_0000_0000int % (self.p as int)
        &&& self.s16 == self.s64 + 17
        &&& (self.m16 as int) == pow2(self.s16 as nat) as int / (self.p as int) + 1
    }
    /// the entry for p = 2
    pub closed spec fn wf2(&self) -> bool {
        self.p == 2 && self.m64 == 0x8000_0000_0000_0000 && self.r64 == 0 && self.s64 == 0 && self.m16 == 1 && self.s16 == 1
    }
    /// the entry for p = 2 is not the odd kind, and conversely
    pub proof fn lemma_wfa_cases(&self)
        requires self.wfa()
        ensures self.pv() == 2 ==> self.wf2() && !self.wf(), self.pv() != 2 ==> self.wf() && !self.wf2(), 2 <= self.pv() < 0x4000_0000,
    {
        if self.wf() { self.lemma_wf_facts(); }
    }
    pub open spec fn wfa(&self) -> bool { self.wf() || self.wf2() }
    /// a divider built for a prime >= 3 is the odd kind
    pub proof fn lemma_wf_facts_a(&self)
        requires self.wfa(), self.pv() != 2
        ensures self.wf(), 3 <= self.pv() < 0x4000_0000, self.pv() % 2 == 1
    {
        self.lemma_wf_facts();
    }
    /// what other modules may know about a well-formed divider
    pub proof fn lemma_wf_facts(&self)
        requires self.wf()
        ensures 3 <= self.pv() < 0x4000_0000, self.pv() % 2 == 1
    {
        lemma2_to64(); lemma_pow2_strictly_increases(self.s64 as nat + 1, 31);
        assert(pow2(31) == 0x80000000) by { lemma2_to64_rest(); }
        lemma_pow2_strictly_increases(self.s64 as nat + 1, 30 + 1);
        if self.s64 < 29 { lemma_pow2_strictly_increases(self.s64 as nat + 1, 30); }
        assert(pow2(30) == 0x40000000) by { lemma2_to64(); }
    }
}
} // verus!

verus! {
impl Inverter {
    /// invpow2[j] = -2^-(8j+8) mod p
    pub closed spec fn wf(&self, p: int) -> bool {
        forall|j: int| 0 <= j < 8 ==> 0 <= (#[trigger] self.invpow2@[j]) as int && (self.invpow2@[j] as int) < p
            && cong(self.invpow2@[j] as int * pow2((8 * j + 8) as nat) as int, -1, p)
    }
}
} // verus!

verus! {
/// Regcd outlining of `Integer::extended_gcd` on i64 (a provided method of a foreign trait). Assumed contract of Euclid's
/// extended algorithm on non-negative operands (T-dep num-integer): Bezout identity, the result divides both operands,
/// the first cofactor is bounded by the second operand. Negative operands are outside this contract.
#[verifier::external_body]
fn ol_egcd_i64(a: i64, b: i64) -> (e: num_integer::ExtendedGcd<i64>)
    requires a >= 0, b >= 0,
    ensures
        e.gcd >= 0, e.x * a + e.y * b == e.gcd,
        (a > 0 || b > 0) ==> e.gcd >= 1 && a % e.gcd == 0 && b % e.gcd == 0,
        -b <= e.x <= b || -1 <= e.x <= 1,
{ Integer::extended_gcd(&a, &b) }

/// the same on i128
#[verifier::external_body]
fn ol_egcd_i128(a: i128, b: i128) -> (e: num_integer::ExtendedGcd<i128>)
    requires a >= 0, b >= 0,
    ensures
        e.gcd >= 0, e.x * a + e.y * b == e.gcd,
        (a > 0 || b > 0) ==> e.gcd >= 1 && a % e.gcd == 0 && b % e.gcd == 0,
        -b <= e.x <= b || -1 <= e.x <= 1,
{ Integer::extended_gcd(&a, &b) }
} // verus!
