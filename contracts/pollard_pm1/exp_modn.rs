//! unit: {"file": "src/pollard_pm1.rs", "kind": "fn", "name": "exp_modn", "props": ["C16", "C03"]}
//! ---- pinned ----
fn exp_modn(zn: &ZmodN, g: &MInt, exp: u64) -> MInt {
    if exp == 0 {
        return zn.one();
    }
    // Start with MSB and consume blocks of 3 bits (optimal for 64 bits).
    // Note that 1, 3, 5, 7 have symmetrical bits.
    let mut exprev = exp.reverse_bits();
    let g2 = zn.mul(g, g);
    let g3 = zn.mul(g, &g2);
    let g5 = zn.mul(&g3, &g2);
    let g7 = zn.mul(&g5, &g2);
    let mut i = exprev.trailing_zeros();
    exprev >>= i;
    let (mut res, mut consumed) = {
        // Exprev must start with bit "1"
        match exprev & 7 {
            1 => {
                // g or g^2
                if i > 60 {
                    // Consume a single bit, we may have reached the end.
                    (*g, 1)
                } else {
                    (g2, 2)
                }
            }
            3 => (g3, 2),
            5 => (g5, 3),
            7 => (g7, 3),
            _ => unreachable!("impossible"),
        }
    };
    exprev >>= consumed;
    i += consumed;
    while i < 64 {
        consumed = if exprev & 1 == 0 {
            res = zn.mul(&res, &res);
            1
        } else {
            match exprev & 7 {
                1 => {
                    // x => x^2 g
                    res = zn.mul(&res, &res);
                    res = zn.mul(&res, g);
                    1
                }
                3 => {
                    // x => x^4 g^3
                    res = zn.mul(&res, &res);
                    res = zn.mul(&res, &res);
                    res = zn.mul(&res, &g3);
                    2
                }
                5 => {
                    // x => x^8 g^5
                    res = zn.mul(&res, &res);
                    res = zn.mul(&res, &res);
                    res = zn.mul(&res, &res);
                    res = zn.mul(&res, &g5);
                    3
                }
                7 => {
                    // x => x^8 g^7
                    res = zn.mul(&res, &res);
                    res = zn.mul(&res, &res);
                    res = zn.mul(&res, &res);
                    res = zn.mul(&res, &g7);
                    3
                }
                _ => unreachable!("impossible"),
            }
        };
        exprev >>= consumed;
        i += consumed;
    }
    res
}
//! ---- annotated ----
fn exp_modn(zn: &ZmodN, g: &MInt, exp: u64) -> (res: MInt)
    requires zn.wf(), zn.nval() >= 3, g.val() < zn.nval(),
    ensures res.val() < zn.nval(),
        forall|gv: nat| grep(g.val(), gv, zn.nval(), zn.rr())
            ==> grep(res.val(), pow_mod_spec(gv, exp as nat, zn.nval()), zn.nval(), zn.rr()),
{
    let ghost nn = zn.nval();
    let ghost rr = zn.rr();
    let ghost ee = 64 * zn.kval();
    let ghost has = exists|v: nat| grep(g.val(), v, nn, rr);
    let ghost gv: nat = choose|v: nat| grep(g.val(), v, nn, rr);
    proof { zn.lemma_wf_r(); broadcast use axiom_borrow_ref; }
    if exp == 0 {
        let one = zn.one();
        proof {
            lemma_grep_one(nn, rr, ee, one.val());
            lemma_small_mod(1, nn);
            assert forall|v: nat| grep(g.val(), v, nn, rr) implies grep(one.val(), pow_mod_spec(v, 0, nn), nn, rr) by {}
        }
        return one;
    }
    // Start with MSB and consume blocks of 3 bits (optimal for 64 bits).
    // Note that 1, 3, 5, 7 have symmetrical bits.
    let mut exprev = exp.reverse_bits();
    let ghost r0 = exprev as nat;
    let g2 = zn.mul(g, g);
    let g3 = zn.mul(g, &g2);
    let g5 = zn.mul(&g3, &g2);
    let g7 = zn.mul(&g5, &g2);
    proof {
        axiom_rev64(exp);
        if r0 == 0 { lemma_pow2_pos(64); lemma_small_mod(0, pow2(64)); lemma_msb_val_zero(0, 64); }
        if has {
            // g, g^2, g^3, g^5, g^7
            lemma_small_mod(gv, nn);
            lemma_small_mod(1, nn);
            lemma_mul_one(gv as int);
            assert(pow_mod_spec(gv, 1, nn) == (gv * pow_mod_spec(gv, 0, nn)) % nn);
            lemma_grep_mul(g.val(), gv, g.val(), gv, g2.val(), nn, rr, ee);
            lemma_pms_add(gv, 1, 1, nn);
            lemma_grep_mul(g.val(), gv, g2.val(), pow_mod_spec(gv, 2, nn), g3.val(), nn, rr, ee);
            lemma_pms_add(gv, 1, 2, nn);
            lemma_grep_mul(g3.val(), pow_mod_spec(gv, 3, nn), g2.val(), pow_mod_spec(gv, 2, nn), g5.val(), nn, rr, ee);
            lemma_pms_add(gv, 3, 2, nn);
            lemma_grep_mul(g5.val(), pow_mod_spec(gv, 5, nn), g2.val(), pow_mod_spec(gv, 2, nn), g7.val(), nn, rr, ee);
            lemma_pms_add(gv, 5, 2, nn);
        }
    }
    let mut i = exprev.trailing_zeros();
    proof {
        lemma_tz_arith(exprev, i);
        lemma_u64_shr_is_div(exprev, i as u64);
        lemma_msb_val_zero(r0, i as nat);
        lemma_pow2_pos(i as nat);
    }
    exprev >>= i;
    let ghost x0 = exprev;
    proof {
        // the register holds fewer than 64 - i bits
        lemma_pow2_adds(i as nat, (64 - i) as nat);
        lemma2_to64();
        lemma_pow2_pos((64 - i) as nat);
        lemma_mul_comm(pow2(i as nat) as int, pow2((64 - i) as nat) as int);
        lemma_multiply_divide_lt(r0 as int, pow2(i as nat) as int, pow2((64 - i) as nat) as int);
        assert((x0 as nat) < pow2((64 - i) as nat));
        assert(x0 & 7 == 1 || x0 & 7 == 3 || x0 & 7 == 5 || x0 & 7 == 7) by (bit_vector) requires x0 % 2 == 1;
        assert(x0 & 7 == 1 ==> x0 % 2 == 1 && (x0 / 2) % 2 == 0 && (x0 / 4) % 2 == 0) by (bit_vector);
        assert(x0 & 7 == 3 ==> x0 % 2 == 1 && (x0 / 2) % 2 == 1 && (x0 / 4) % 2 == 0 && x0 >= 2) by (bit_vector);
        assert(x0 & 7 == 5 ==> x0 % 2 == 1 && (x0 / 2) % 2 == 0 && (x0 / 4) % 2 == 1 && x0 >= 4) by (bit_vector);
        assert(x0 & 7 == 7 ==> x0 % 2 == 1 && (x0 / 2) % 2 == 1 && (x0 / 4) % 2 == 1 && x0 >= 4) by (bit_vector);
        lemma_msb_consume1(r0, i as nat);
        lemma_msb_consume2(r0, i as nat);
        lemma_msb_consume3(r0, i as nat);
        if i == 62 { assert(pow2(2) == 4); }
        if i == 63 { assert(pow2(1) == 2); }
    }
    let (mut res, mut consumed) = {
        // Exprev must start with bit "1"
        match exprev & 7 {
            1 => {
                // g or g^2
                if i > 60 {
                    // Consume a single bit, we may have reached the end.
                    (*g, 1)
                } else {
                    (g2, 2)
                }
            }
            3 => (g3, 2),
            5 => (g5, 3),
            7 => (g7, 3),
            _ => unreachable!("impossible"),
        }
    };
    proof {
        lemma_u64_shr_is_div(exprev, consumed as u64);
        lemma_pow2_pos(consumed as nat);
        lemma_pow2_adds(i as nat, consumed as nat);
        lemma_div_denominator(r0 as int, pow2(i as nat) as int, pow2(consumed as nat) as int);
    }
    exprev >>= consumed;
    i += consumed;
    while i < 64
        invariant
            zn.wf(), nn == zn.nval(), rr == zn.rr(), ee == 64 * zn.kval(), rr == pow2(ee), nn >= 3, nn % 2 == 1,
            i <= 64, r0 < pow2(64), exprev as nat == r0 / pow2(i as nat),
            g.val() < nn, g3.val() < nn, g5.val() < nn, g7.val() < nn, res.val() < nn,
            has ==> grep(g.val(), gv, nn, rr) && grep(g3.val(), pow_mod_spec(gv, 3, nn), nn, rr)
                && grep(g5.val(), pow_mod_spec(gv, 5, nn), nn, rr) && grep(g7.val(), pow_mod_spec(gv, 7, nn), nn, rr)
                && pow_mod_spec(gv, 1, nn) == gv
                && grep(res.val(), pow_mod_spec(gv, msb_val(r0, i as nat), nn), nn, rr),
        decreases 64 - i
    {
        let ghost x = exprev;
        let ghost e = msb_val(r0, i as nat);
        let ghost res0 = res;
        proof {
            broadcast use axiom_borrow_ref;
            lemma_pow2_adds(i as nat, (64 - i) as nat);
            lemma_pow2_pos((64 - i) as nat);
            lemma_pow2_pos(i as nat);
            lemma_mul_comm(pow2(i as nat) as int, pow2((64 - i) as nat) as int);
            lemma_multiply_divide_lt(r0 as int, pow2(i as nat) as int, pow2((64 - i) as nat) as int);
            lemma2_to64();
            if i == 62 { assert(pow2(2) == 4); }
            if i == 63 { assert(pow2(1) == 2); }
            assert((x & 1 == 0) == (x % 2 == 0)) by (bit_vector);
            assert(x % 2 == 1 ==> (x & 7 == 1 || x & 7 == 3 || x & 7 == 5 || x & 7 == 7)) by (bit_vector);
            assert(x & 7 == 1 ==> x % 2 == 1 && (x / 2) % 2 == 0 && (x / 4) % 2 == 0) by (bit_vector);
            assert(x & 7 == 3 ==> x % 2 == 1 && (x / 2) % 2 == 1 && (x / 4) % 2 == 0 && x >= 2) by (bit_vector);
            assert(x & 7 == 5 ==> x % 2 == 1 && (x / 2) % 2 == 0 && (x / 4) % 2 == 1 && x >= 4) by (bit_vector);
            assert(x & 7 == 7 ==> x % 2 == 1 && (x / 2) % 2 == 1 && (x / 4) % 2 == 1 && x >= 4) by (bit_vector);
            lemma_msb_consume1(r0, i as nat);
            lemma_msb_consume2(r0, i as nat);
            lemma_msb_consume3(r0, i as nat);
            if has {
                lemma_pms_window(gv, e, 1, 0, nn);
                lemma_pms_window(gv, e, 1, 1, nn);
                lemma_pms_window(gv, e, 2, 3, nn);
                lemma_pms_window(gv, e, 3, 5, nn);
                lemma_pms_window(gv, e, 3, 7, nn);
                lemma_small_mod(1, nn);
                lemma_pms_lt(gv, e, nn);
            }
        }
        consumed = if exprev & 1 == 0 {
            res = zn.mul(&res, &res);
            proof {
                if has {
                    lemma_grep_mul(res0.val(), pow_mod_spec(gv, e, nn), res0.val(), pow_mod_spec(gv, e, nn), res.val(), nn, rr, ee);
                    lemma_mul_one(sq1(gv, e, nn) as int);
                    lemma_mod_bound((pow_mod_spec(gv, e, nn) * pow_mod_spec(gv, e, nn)) as int, nn as int);
                    lemma_small_mod(sq1(gv, e, nn), nn);
                }
            }
            1
        } else {
            match exprev & 7 {
                1 => {
                    // x => x^2 g
                    res = zn.mul(&res, &res);
                    let ghost r1 = res;
                    res = zn.mul(&res, g);
                    proof {
                        if has {
                            lemma_grep_mul(res0.val(), pow_mod_spec(gv, e, nn), res0.val(), pow_mod_spec(gv, e, nn), r1.val(), nn, rr, ee);
                            lemma_grep_mul(r1.val(), sq1(gv, e, nn), g.val(), gv, res.val(), nn, rr, ee);
                        }
                    }
                    1
                }
                3 => {
                    // x => x^4 g^3
                    res = zn.mul(&res, &res);
                    let ghost r1 = res;
                    res = zn.mul(&res, &res);
                    let ghost r2 = res;
                    res = zn.mul(&res, &g3);
                    proof {
                        if has {
                            lemma_grep_mul(res0.val(), pow_mod_spec(gv, e, nn), res0.val(), pow_mod_spec(gv, e, nn), r1.val(), nn, rr, ee);
                            lemma_grep_mul(r1.val(), sq1(gv, e, nn), r1.val(), sq1(gv, e, nn), r2.val(), nn, rr, ee);
                            lemma_grep_mul(r2.val(), sq2(gv, e, nn), g3.val(), pow_mod_spec(gv, 3, nn), res.val(), nn, rr, ee);
                        }
                    }
                    2
                }
                5 => {
                    // x => x^8 g^5
                    res = zn.mul(&res, &res);
                    let ghost r1 = res;
                    res = zn.mul(&res, &res);
                    let ghost r2 = res;
                    res = zn.mul(&res, &res);
                    let ghost r3 = res;
                    res = zn.mul(&res, &g5);
                    proof {
                        if has {
                            lemma_grep_mul(res0.val(), pow_mod_spec(gv, e, nn), res0.val(), pow_mod_spec(gv, e, nn), r1.val(), nn, rr, ee);
                            lemma_grep_mul(r1.val(), sq1(gv, e, nn), r1.val(), sq1(gv, e, nn), r2.val(), nn, rr, ee);
                            lemma_grep_mul(r2.val(), sq2(gv, e, nn), r2.val(), sq2(gv, e, nn), r3.val(), nn, rr, ee);
                            lemma_grep_mul(r3.val(), sq3(gv, e, nn), g5.val(), pow_mod_spec(gv, 5, nn), res.val(), nn, rr, ee);
                        }
                    }
                    3
                }
                7 => {
                    // x => x^8 g^7
                    res = zn.mul(&res, &res);
                    let ghost r1 = res;
                    res = zn.mul(&res, &res);
                    let ghost r2 = res;
                    res = zn.mul(&res, &res);
                    let ghost r3 = res;
                    res = zn.mul(&res, &g7);
                    proof {
                        if has {
                            lemma_grep_mul(res0.val(), pow_mod_spec(gv, e, nn), res0.val(), pow_mod_spec(gv, e, nn), r1.val(), nn, rr, ee);
                            lemma_grep_mul(r1.val(), sq1(gv, e, nn), r1.val(), sq1(gv, e, nn), r2.val(), nn, rr, ee);
                            lemma_grep_mul(r2.val(), sq2(gv, e, nn), r2.val(), sq2(gv, e, nn), r3.val(), nn, rr, ee);
                            lemma_grep_mul(r3.val(), sq3(gv, e, nn), g7.val(), pow_mod_spec(gv, 7, nn), res.val(), nn, rr, ee);
                        }
                    }
                    3
                }
                _ => unreachable!("impossible"),
            }
        };
        proof {
            lemma_u64_shr_is_div(exprev, consumed as u64);
            lemma_pow2_pos(consumed as nat);
            lemma_pow2_adds(i as nat, consumed as nat);
            lemma_div_denominator(r0 as int, pow2(i as nat) as int, pow2(consumed as nat) as int);
        }
        exprev >>= consumed;
        i += consumed;
    }
    proof {
        assert forall|v: nat| grep(g.val(), v, nn, rr) implies grep(res.val(), pow_mod_spec(v, exp as nat, nn), nn, rr) by {
            lemma_grep_inj(g.val(), v, g.val(), gv, nn, rr, ee);
        }
    }
    res
}
