//! unit: {"file": "src/pollard_pm1.rs", "kind": "struct", "name": "PM1Base", "props": ["C16", "C17"]}
//! ---- pinned ----
/// A factor base for Pollard P-1.
/// Pairs of factors are multiplied into u32.
pub struct PM1Base {
    // Compact blocks of factors, up to bound 500 (95 primes)
    factors: Box<[u32]>,
    // 16384 primes from 500 to ~180000
    larges: Box<[u32]>,
}
//! ---- annotated ----
/// A factor base for Pollard P-1.
/// Pairs of factors are multiplied into u32.
pub struct PM1Base {
    // Compact blocks of factors, up to bound 500 (95 primes)
    factors: Box<[u32]>,
    // 16384 primes from 500 to ~180000
    larges: Box<[u32]>,
}
