//! unit: {"container": "impl PM1Base", "file": "src/pollard_pm1.rs", "hoist": true, "kind": "fn", "name": "factor", "pre": ["index_loops"], "props": ["C16", "C03"]}
//! ---- pinned ----
    pub fn factor(&self, n: u64, budget: usize) -> Option<(u64, u64)> {
        assert!(n % 2 == 1);
        // We have a lot of modular reductions to compute,
        // so we use Montgomery forms.
        // Precompute opposite inverse of n mod R (R=2^64)
        let ninv = mg_2adic_inv(n);

        // Compute 2^K-1 mod n where K bit length is <= budget
        // 2R mod N,
        let one_r = ((1u128 << 64) % (n as u128)) as u64;
        let mut xr = ((2 * one_r as u128) % (n as u128)) as u64;
        debug_assert!(mg_redc(n, ninv, xr as u128) == 2);
        // Small primes is assumed to have a cost of 1024 (95 primes).
        let fmax = std::cmp::min(self.factors.len(), budget * self.factors.len() / 1024);
        for block in self.factors[..fmax].chunks(8) {
            for &f in block {
                // Compute x^f
                let mut res = one_r;
                let mut sq = xr;
                let mut exp = f;
                while exp > 0 {
                    if exp & 1 == 1 {
                        res = mg_mul(n, ninv, res, sq);
                    }
                    sq = mg_mul(n, ninv, sq, sq);
                    exp /= 2;
                }
                xr = res;
            }
            // Maybe we have finished?
            // No need to reduce out of Montgomery form, subtract R
            // to get 2^K R - R = (2^K-1)R
            let d = Integer::gcd(&n, &mg_sub(n, xr, one_r));
            if d > 1 && d < n {
                return Some((d, n / d));
            }
        }
        let d = Integer::gcd(&n, &mg_sub(n, xr, one_r));
        if d > 1 && d < n {
            return Some((d, n / d));
        }
        // Start stage 2.
        // We still have not factored but maybe the order of xr is a small prime
        // since we have eliminated small factors.
        if budget < 1001 {
            return None;
        }
        let pmax = std::cmp::min(self.larges.len(), budget - 1000);
        // Compute xr^2k for 2k = 2 ... 86
        let xr2 = mg_mul(n, ninv, xr, xr);
        // jumps[k] = xr^(2k+2)
        let mut jumps = [0u64; 64];
        let mut j = xr2;
        for k in 1..=jumps.len() {
            jumps[k - 1] = j;
            j = mg_mul(n, ninv, j, xr2);
        }
        // The first large prime is 503 = 120 * 4 + 22 + 1
        let xr240 = mg_mul(n, ninv, jumps[120 / 2 - 1], jumps[120 / 2 - 1]);
        let xr480 = mg_mul(n, ninv, xr240, xr240);
        let xr502 = mg_mul(n, ninv, xr480, jumps[22 / 2 - 1]);
        let mut h = mg_mul(n, ninv, xr502, xr);
        let mut product = mg_sub(n, h, one_r);
        let mut exp = 503;
        debug_assert!(self.larges[0] == 503);
        for (idx, &p) in self.larges[1..pmax].iter().enumerate() {
            if idx % 64 == 0 {
                // Factoring will fail if both factors have similar
                // largest primes.
                let d = Integer::gcd(&n, &product);
                if d > 1 && d < n {
                    return Some((d, n / d));
                }
            }
            // Accumulate the product of (h^p - 1) for primes p
            let gap = (p - exp) as usize;
            h = mg_mul(n, ninv, h, jumps[gap / 2 - 1]);
            product = mg_mul(n, ninv, product, mg_sub(n, h, one_r));
            exp = p;
        }
        let d = Integer::gcd(&n, &product);
        if d > 1 && d < n {
            return Some((d, n / d));
        } else {
            None
        }
    }
//! ---- annotated ----
    pub fn factor(&self, n: u64, budget: usize) -> (r: Option<(u64, u64)>)
        requires self.wf(), n % 2 == 1, n >= 3, budget <= 0xffff_ffff,
        ensures
            // nothing false: a returned pair is a proper factorization of n
            r matches Some((d, q)) ==> 1 < d < n && 1 < q < n && d as int * q as int == n as int,
            // completeness of the two stages: when nothing is returned, x = 2^E (E the product of the stage-1 blocks
            // allowed by the budget) has gcd(n, x - 1) trivial and, if stage 2 ran, so is the gcd of n with the product of
            // x^l - 1 over the first pmax primes l of the stage-2 table
            r is None ==> pm1_none_ok(self.fs(), self.ls(), n as nat, budget as int),
    {
        let ghost nn = n as nat;
        assert!(n % 2 == 1);
        // We have a lot of modular reductions to compute,
        // so we use Montgomery forms.
        // Precompute opposite inverse of n mod R (R=2^64)
        let ninv = mg_2adic_inv(n);

        // Compute 2^K-1 mod n where K bit length is <= budget
        // 2R mod N,
        proof {
            assert((1u128 << 64) == 0x1_0000_0000_0000_0000u128) by (bit_vector);
            vstd::arithmetic::div_mod::lemma_mod_bound(two64(), n as int);
        }
        let one_r = ((1u128 << 64) % (n as u128)) as u64;
        proof {
            vstd::arithmetic::div_mod::lemma_mod_bound(2 * one_r as int, n as int);
            lemma_mrep_one(n, one_r);
            // 2 one_r mod n = 2 R mod n
            vstd::arithmetic::div_mod::lemma_mul_mod_noop_right(2, two64(), n as int);
            lemma_pms_one(2, nn);
            lemma_small_mod(2, nn);
        }
        let mut xr = ((2 * one_r as u128) % (n as u128)) as u64;
        proof {
            assert((xr as int) < n as int * two64()) by (nonlinear_arith) requires n >= 1, (xr as int) < two64();
            // redc(xr) R = 2 R (mod n), so redc(xr) = 2
            let rr = two64();
            lemma2_to64();
            assert forall|v: u64| v < n && #[trigger] cong(v as int * rr, xr as int, n as int) implies v == 2 by {
                // xr = 2 one_r mod n, one_r = R mod n
                lemma_cong_mod(rr, n as int);
                lemma_cong_mul(one_r as int, rr, 2, n as int);
                lemma_cong_mod(2 * one_r as int, n as int);
                lemma_cong_trans(xr as int, 2 * one_r as int, 2 * rr, n as int);
                lemma_cong_trans(v as int * rr, xr as int, 2 * rr, n as int);
                assert(rr == pow2(64) as int);
                lemma_cancel_pow2(v as int, 2, n as int, 64);
                lemma_small_mod(v as nat, n as nat);
                lemma_small_mod(2, n as nat);
            }
        }
        debug_assert!(mg_redc(n, ninv, xr as u128) == 2);
        // Small primes is assumed to have a cost of 1024 (95 primes).
        proof {
            assert(budget as int * self.factors@.len() as int <= 0xffff_ffff * 0x2_0000) by (nonlinear_arith)
                requires 0 <= budget as int <= 0xffff_ffff, 0 <= self.factors@.len() as int <= 0x2_0000;
        }
        let fmax = std::cmp::min(self.factors.len(), budget * self.factors.len() / 1024);
        let ghost sblk = self.factors@.take(fmax as int);
        let ghost mut done: int = 0;
        proof {
            assert(sblk.take(0) =~= Seq::<u32>::empty());
            assert(prod32(sblk.take(0)) == 1);
            assert(mrep(xr, pow_mod_spec(2, 1, nn), nn));
        }
        let verif_ch_block = &self.factors[..fmax]; for verif_c_block in 0..ol_chunk_count(verif_ch_block.len(), 8)
            invariant
                xr < n, one_r < n, n >= 3, n % 2 == 1, (n as int * ninv as int + 1) % two64() == 0,
                verif_ch_block@.len() == fmax, verif_ch_block@ == sblk, nn == n as nat, mrep(one_r, 1, nn),
                done == (if 8 * verif_c_block <= fmax { 8 * verif_c_block as int } else { fmax as int }),
                mrep(xr, pow_mod_spec(2, prod32(sblk.take(done)), nn), nn),
        {
            proof { lemma_chunk_count(verif_ch_block.len(), 8, verif_c_block as int); }
            let block = ol_chunk(verif_ch_block, verif_c_block, 8);
            let ghost base = 8 * verif_c_block as int;
            for verif_s_f in 0..block.len()
                invariant
                    xr < n, one_r < n, n >= 3, n % 2 == 1, (n as int * ninv as int + 1) % two64() == 0,
                    nn == n as nat, mrep(one_r, 1, nn), sblk.len() == fmax, base == 8 * verif_c_block as int,
                    block@ == sblk.subrange(base, if base + 8 <= fmax { base + 8 } else { fmax as int }),
                    done == base + verif_s_f, 0 <= base < fmax,
                    mrep(xr, pow_mod_spec(2, prod32(sblk.take(done)), nn), nn),
            {
                let f = block[verif_s_f];
                let ghost e0 = prod32(sblk.take(done));
                let ghost x0 = pow_mod_spec(2, e0, nn);
                let ghost mut vres: nat = 1;
                let ghost mut vsq: nat = x0;
                proof {
                    assert(f == sblk[done]);
                    lemma_pms_lt(2, e0, nn);
                    lemma_sqmul_init(x0, f as nat, nn);
                }
                // Compute x^f
                let mut res = one_r;
                let mut sq = xr;
                let mut exp = f;
                while exp > 0
                    invariant
                        res < n, sq < n, n >= 3, n % 2 == 1, (n as int * ninv as int + 1) % two64() == 0, nn == n as nat,
                        mrep(res, vres, nn), mrep(sq, vsq, nn), sqmul_inv(x0, f as nat, vres, vsq, exp as nat, nn),
                    decreases exp,
                {
                    proof {
                        lemma_mul_lt(res as int, n as int, sq as int, two64());
                        lemma_mul_lt(sq as int, n as int, sq as int, two64());
                        lemma_sqmul_step(x0, f as nat, vres, vsq, exp as nat, nn);
                        assert((exp & 1 == 1) == (exp % 2 == 1)) by (bit_vector);
                    }
                    let ghost res0 = res;
                    if exp & 1 == 1 {
                        res = mg_mul(n, ninv, res, sq);
                        proof { lemma_mrep_mul(res0, vres, sq, vsq, res, nn); vres = (vres * vsq) % nn; }
                    }
                    let ghost sq0 = sq;
                    sq = mg_mul(n, ninv, sq, sq);
                    proof { lemma_mrep_mul(sq0, vsq, sq0, vsq, sq, nn); vsq = (vsq * vsq) % nn; }
                    exp /= 2;
                }
                proof {
                    lemma_sqmul_done(x0, f as nat, vres, vsq, nn);
                    lemma_pms_pow_pow(2, e0, f as nat, nn);
                    lemma_prod32_take_next(sblk, done);
                    done = done + 1;
                }
                xr = res;
            }
            // Maybe we have finished?
            // No need to reduce out of Montgomery form, subtract R
            // to get 2^K R - R = (2^K-1)R
            let d = Integer::gcd(&n, &mg_sub(n, xr, one_r));
            if d > 1 && d < n {
                proof { lemma_proper_divisor(n as int, d as int); }
                return Some((d, n / d));
            }
        }
        let ghost xx = pow_mod_spec(2, prod32(sblk), nn);
        proof {
            assert(done == fmax);
            assert(sblk.take(fmax as int) =~= sblk);
            lemma_pms_lt(2, prod32(sblk), nn);
        }
        let d = Integer::gcd(&n, &mg_sub(n, xr, one_r));
        if d > 1 && d < n {
            proof { lemma_proper_divisor(n as int, d as int); }
            return Some((d, n / d));
        }
        proof {
            let sv = ((xr as int - one_r as int) % (n as int)) as u64;
            vstd::arithmetic::div_mod::lemma_mod_bound(xr as int - one_r as int, n as int);
            lemma_mrep_sub(xr, xx, one_r, 1, sv, nn);
            lemma_trivial_gcd_mrep(sv, ((xx + nn - 1) as nat) % nn, nn, d as int);
        }
        // Start stage 2.
        // We still have not factored but maybe the order of xr is a small prime
        // since we have eliminated small factors.
        if budget < 1001 {
            return None;
        }
        let pmax = std::cmp::min(self.larges.len(), budget - 1000);
        proof { lemma_mul_lt(xr as int, n as int, xr as int, two64()); }
        // Compute xr^2k for 2k = 2 ... 86
        let xr2 = mg_mul(n, ninv, xr, xr);
        proof {
            lemma_mrep_mul(xr, xx, xr, xx, xr2, nn);
            lemma_pms_one(xx, nn);
            lemma_small_mod(xx, nn);
            lemma_pms_double(xx, 1, nn);
        }
        // jumps[k] = xr^(2k+2)
        let mut jumps = [0u64; 64];
        let mut j = xr2;
        for k in 1..=jumps.len()
            invariant
                jumps@.len() == 64, j < n, xr2 < n, n >= 3, n % 2 == 1, (n as int * ninv as int + 1) % two64() == 0, nn == n as nat,
                forall|i: int| 0 <= i < k - 1 ==> (#[trigger] jumps@[i]) < n,
                mrep(xr2, pow_mod_spec(xx, 2, nn), nn),
                mrep(j, pow_mod_spec(xx, (2 * k) as nat, nn), nn),
                forall|i: int| 0 <= i < k - 1 ==> mrep(#[trigger] jumps@[i], pow_mod_spec(xx, (2 * i + 2) as nat, nn), nn),
        {
            jumps[k - 1] = j;
            proof { lemma_mul_lt(j as int, n as int, xr2 as int, two64()); }
            let ghost j0 = j;
            j = mg_mul(n, ninv, j, xr2);
            proof {
                lemma_mrep_mul(j0, pow_mod_spec(xx, (2 * k) as nat, nn), xr2, pow_mod_spec(xx, 2, nn), j, nn);
                lemma_pms_add(xx, (2 * k) as nat, 2, nn);
            }
        }
        proof {
            assert(jumps@[59] < n && jumps@[10] < n);
            lemma_mul_lt(jumps@[59] as int, n as int, jumps@[59] as int, two64());
            assert(mrep(jumps@[59], pow_mod_spec(xx, 120, nn), nn));
            assert(mrep(jumps@[10], pow_mod_spec(xx, 22, nn), nn));
        }
        // The first large prime is 503 = 120 * 4 + 22 + 1
        let xr240 = mg_mul(n, ninv, jumps[120 / 2 - 1], jumps[120 / 2 - 1]);
        proof {
            lemma_mul_lt(xr240 as int, n as int, xr240 as int, two64());
            lemma_mrep_mul(jumps@[59], pow_mod_spec(xx, 120, nn), jumps@[59], pow_mod_spec(xx, 120, nn), xr240, nn);
            lemma_pms_add(xx, 120, 120, nn);
        }
        let xr480 = mg_mul(n, ninv, xr240, xr240);
        proof {
            lemma_mul_lt(xr480 as int, n as int, jumps@[10] as int, two64());
            lemma_mrep_mul(xr240, pow_mod_spec(xx, 240, nn), xr240, pow_mod_spec(xx, 240, nn), xr480, nn);
            lemma_pms_add(xx, 240, 240, nn);
        }
        let xr502 = mg_mul(n, ninv, xr480, jumps[22 / 2 - 1]);
        proof {
            lemma_mul_lt(xr502 as int, n as int, xr as int, two64());
            lemma_mrep_mul(xr480, pow_mod_spec(xx, 480, nn), jumps@[10], pow_mod_spec(xx, 22, nn), xr502, nn);
            lemma_pms_add(xx, 480, 22, nn);
        }
        let mut h = mg_mul(n, ninv, xr502, xr);
        proof {
            lemma_mrep_mul(xr502, pow_mod_spec(xx, 502, nn), xr, pow_mod_spec(xx, 1, nn), h, nn);
            lemma_pms_add(xx, 502, 1, nn);
        }
        let mut product = mg_sub(n, h, one_r);
        proof {
            lemma_mrep_sub(h, pow_mod_spec(xx, 503, nn), one_r, 1, product, nn);
            lemma_pm1_s2_first(xx, self.larges@, nn);
        }
        let mut exp = 503;
        debug_assert!(self.larges[0] == 503);
        let verif_e_p = &self.larges[1..pmax]; for idx in 0..verif_e_p.len()
            invariant
                h < n, product < n, one_r < n, n >= 3, (n as int * ninv as int + 1) % two64() == 0,
                jumps@.len() == 64, forall|i: int| 0 <= i < 64 ==> (#[trigger] jumps@[i]) < n,
                1 <= pmax <= self.larges@.len(), pm1_larges_ok(self.larges@),
                verif_e_p@ == self.larges@.subrange(1, pmax as int),
                exp == self.larges@[idx as int], n % 2 == 1, nn == n as nat, mrep(one_r, 1, nn),
                forall|i: int| 0 <= i < 64 ==> mrep(#[trigger] jumps@[i], pow_mod_spec(xx, (2 * i + 2) as nat, nn), nn),
                mrep(h, pow_mod_spec(xx, exp as nat, nn), nn),
                mrep(product, pm1_s2(xx, self.larges@, idx + 1, nn), nn),
        {
            let p = verif_e_p[idx];
            if idx % 64 == 0 {
                // Factoring will fail if both factors have similar
                // largest primes.
                let d = Integer::gcd(&n, &product);
                if d > 1 && d < n {
                    proof { lemma_proper_divisor(n as int, d as int); }
                    return Some((d, n / d));
                }
            }
            proof {
                assert(p == self.larges@[idx + 1]);
                assert(self.larges@[idx + 1 - 1] < self.larges@[idx + 1]);
            }
            // Accumulate the product of (h^p - 1) for primes p
            let gap = (p - exp) as usize;
            proof { lemma_mul_lt(h as int, n as int, jumps@[gap as int / 2 - 1] as int, two64()); }
            let ghost h0 = h;
            let ghost gi = gap as int / 2 - 1;
            h = mg_mul(n, ninv, h, jumps[gap / 2 - 1]);
            proof {
                assert(2 * gi + 2 == gap);
                lemma_mrep_mul(h0, pow_mod_spec(xx, exp as nat, nn), jumps@[gi], pow_mod_spec(xx, (2 * gi + 2) as nat, nn), h, nn);
                lemma_pms_add(xx, exp as nat, gap as nat, nn);
                assert(exp + gap == p);
                let m = ((h as int - one_r as int) % (n as int));
                vstd::arithmetic::div_mod::lemma_mod_bound(h as int - one_r as int, n as int);
                lemma_mul_lt(product as int, n as int, m, two64());
                lemma_mrep_sub(h, pow_mod_spec(xx, p as nat, nn), one_r, 1, m as u64, nn);
            }
            let ghost product0 = product;
            product = mg_mul(n, ninv, product, mg_sub(n, h, one_r));
            proof {
                let m = ((h as int - one_r as int) % (n as int)) as u64;
                lemma_mrep_mul(product0, pm1_s2(xx, self.larges@, idx + 1, nn), m, ((pow_mod_spec(xx, p as nat, nn) + nn - 1) as nat) % nn, product, nn);
                assert(self.larges@[idx + 2 - 1] == p);
            }
            exp = p;
        }
        let d = Integer::gcd(&n, &product);
        if d > 1 && d < n {
            proof { lemma_proper_divisor(n as int, d as int); }
            return Some((d, n / d));
        } else {
            proof {
                assert(verif_e_p@.len() == pmax - 1);
                lemma_trivial_gcd_mrep(product, pm1_s2(xx, self.larges@, pmax as int, nn), nn, d as int);
            }
            None
        }
    }
