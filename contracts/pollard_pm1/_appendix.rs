#[allow(unused_imports)] use vstd::arithmetic::{div_mod::*, power2::*, mul::*};
#[allow(unused_imports)] use vstd::bits::*;
#[allow(unused_imports)] use vstd::std_specs::bits::*;

verus! {
impl PM1Base {
    /// views of the private fields
    pub closed spec fn fs(&self) -> Seq<u32> { self.factors@ }
    pub closed spec fn ls(&self) -> Seq<u32> { self.larges@ }
    /// representation invariant established by `new`
    pub open spec fn wf(&self) -> bool {
        &&& pm1_small_ok(prod32(self.fs()))
        &&& self.fs().len() <= 0x2_0000
        &&& pm1_larges_ok(self.ls())
    }
}

/// for every prime q < 500 the largest power of q below 1024 divides the stage-1 exponent
pub open spec fn pm1_small_ok(total: nat) -> bool {
    forall|q: nat| #[trigger] is_prime_dv(q) && q < 500 ==> dvd(crate::ecm::tp(q, 1024, q), total)
}

/// the stage-2 table: consecutive primes starting with 503 (no prime is skipped), even gaps of at most 128
pub open spec fn pm1_larges_ok(l: Seq<u32>) -> bool {
    &&& l.len() >= 1
    &&& l[0] == 503
    &&& all_prime(l)
    &&& forall|i: int| 1 <= i < l.len() ==> (#[trigger] l[i - 1]) < l[i] && (l[i] - l[i - 1]) % 2 == 0 && l[i] - l[i - 1] <= 128
    &&& forall|i: int, q: nat| 1 <= i < l.len() && (#[trigger] l[i - 1] as nat) < q < (l[i] as nat) ==> !#[trigger] is_prime_dv(q)
}

/// ceil(len / k): the number of chunks of `s.chunks(k)` (index_loops pre-normalisation)
pub open spec fn chunk_count(len: usize, k: usize) -> usize {
    if len == 0 { 0 } else { ((len - 1) / (k as int) + 1) as usize }
}

pub proof fn lemma_chunk_count(len: usize, k: usize, c: int)
    requires k > 0, 0 <= c < chunk_count(len, k)
    ensures c * (k as int) < len
{
    let q = (len - 1) as int / k as int;
    vstd::arithmetic::div_mod::lemma_fundamental_div_mod((len - 1) as int, k as int);
    vstd::arithmetic::div_mod::lemma_mod_bound((len - 1) as int, k as int);
    vstd::arithmetic::div_mod::lemma_div_pos_is_pos((len - 1) as int, k as int);
    vstd::arithmetic::div_mod::lemma_div_is_ordered_by_denominator((len - 1) as int, 1, k as int);
    vstd::arithmetic::div_mod::lemma_div_basics((len - 1) as int);
    assert(c <= q);
    crate::verif_specs::nl::lemma_mul_le(c, q, k as int);
    assert(q * (k as int) == (k as int) * q) by (nonlinear_arith);
}

#[verifier::when_used_as_spec(chunk_count)]
fn ol_chunk_count(len: usize, k: usize) -> (r: usize)
    requires k > 0,
    ensures r == chunk_count(len, k),
{
    if len == 0 { return 0; }
    proof {
        vstd::arithmetic::div_mod::lemma_div_is_ordered_by_denominator((len - 1) as int, 1, k as int);
        vstd::arithmetic::div_mod::lemma_div_basics((len - 1) as int);
        vstd::arithmetic::div_mod::lemma_div_pos_is_pos((len - 1) as int, k as int);
    }
    (len - 1) / k + 1
}

/// the c-th chunk of `s.chunks(k)`: s[c k .. min(c k + k, len)]
fn ol_chunk<T>(s: &[T], c: usize, k: usize) -> (r: &[T])
    requires k > 0, (c as int) * (k as int) < s@.len(),
    ensures
        r@ == s@.subrange(c as int * k as int, if c as int * k as int + k as int <= s@.len() { c as int * k as int + k as int } else { s@.len() as int }),
        1 <= r@.len() <= k,
{
    let len = s.len();
    proof { assert((c as int) * (k as int) >= 0) by (nonlinear_arith) requires c >= 0, k >= 0; assert((c as int) * (k as int) < len); }
    let lo = c * k;
    let hi = if len - lo < k { len } else { lo + k };
    &s[lo..hi]
}
} // verus!

verus! {
/// the primes of the table processed so far that are below 500 have their top power below 1024 in the exponent
pub open spec fn pm1_idx_ok(primes: Seq<u32>, total: nat, upto: int) -> bool {
    forall|j: int| 0 <= j < upto && (primes[j] as nat) < 500 ==> dvd(#[trigger] crate::ecm::tp(primes[j] as nat, 1024, primes[j] as nat), total)
}

pub proof fn lemma_pm1_idx_ok_step(primes: Seq<u32>, total: nat, i: int, tpow: nat)
    requires pm1_idx_ok(primes, total, i), 0 <= i < primes.len(), tpow == crate::ecm::tp(primes[i] as nat, 1024, primes[i] as nat), tpow > 0
    ensures pm1_idx_ok(primes, total * tpow, i + 1)
{
    assert forall|j: int| 0 <= j < i + 1 && (primes[j] as nat) < 500 implies dvd(#[trigger] crate::ecm::tp(primes[j] as nat, 1024, primes[j] as nat), total * tpow) by {
        if j < i { lemma_dvd_mul_right(crate::ecm::tp(primes[j] as nat, 1024, primes[j] as nat), total, tpow); }
        else { lemma_dvd_mul(tpow, total); }
    }
}

pub proof fn lemma_pm1_idx_ok_skip(primes: Seq<u32>, total: nat, i: int)
    requires pm1_idx_ok(primes, total, i), 0 <= i < primes.len(), primes[i] >= 500
    ensures pm1_idx_ok(primes, total, i + 1)
{
}

pub proof fn lemma_primes_bound_70000()
    ensures primes_bound(70000) == 1_190_000
{
    vstd::std_specs::bits::axiom_u32_leading_zeros(70000);
    axiom_u32_lz_arith(70000);
    let lz = u32_leading_zeros(70000);
    lemma2_to64();
    if lz < 15 { lemma_pow2_strictly_increases(16, (31 - lz) as nat); }
    if lz > 16 { lemma_pow2_strictly_increases((32 - lz) as nat, 16); }
}

/// end of `PM1Base::new`: the invariants of the loop give the representation invariant
pub proof fn lemma_pm1_finish(primes: Seq<u32>, larges: Seq<u32>, s: int, total: nat)
    requires
        all_prime(primes), increasing(primes), complete(primes), primes.len() >= 1,
        forall|q: nat| #[trigger] is_prime_dv(q) && q <= 503 ==> in_list(primes, q as int),
        is_prime_dv(503), !is_prime_dv(500), !is_prime_dv(501), !is_prime_dv(502),
        forall|idx: int| 0 <= idx < primes.len() ==> (#[trigger] primes[idx] as int) < 1_190_000,
        0 <= s <= primes.len(),
        forall|j: int| 0 <= j < s ==> (#[trigger] primes[j]) < 500,
        s < primes.len() ==> primes[s] >= 500,
        larges.len() == (if primes.len() - s <= 65536 { primes.len() - s } else { 65536 }),
        forall|k: int| 0 <= k < larges.len() ==> (#[trigger] larges[k]) == primes[s + k],
        pm1_idx_ok(primes, total, primes.len() as int),
    ensures
        pm1_small_ok(total), pm1_larges_ok(larges),
{
    // every prime below 500 is an entry of the table
    assert forall|q: nat| #[trigger] is_prime_dv(q) && q < 500 implies dvd(crate::ecm::tp(q, 1024, q), total) by {
        assert(in_list(primes, q as int));
        let j = choose|j: int| 0 <= j < primes.len() && #[trigger] primes[j] as int == q as int;
        assert(dvd(crate::ecm::tp(primes[j] as nat, 1024, primes[j] as nat), total));
    }
    // 503 is an entry, at an index >= s; the entry at s is a prime in [500, 503], hence 503
    assert(in_list(primes, 503));
    let j0 = choose|j: int| 0 <= j < primes.len() && #[trigger] primes[j] as int == 503;
    if j0 < s { assert(primes[j0] < 500); }
    assert(s < primes.len());
    if s < j0 { assert(primes[s] < primes[j0]); }
    assert(is_prime_dv(primes[s] as nat));
    assert(primes[s] == 503);
    assert(larges.len() >= 1);
    assert(larges[0] == primes[s + 0]);
    assert forall|idx: int| 0 <= idx < larges.len() implies is_prime_dv(#[trigger] larges[idx] as nat) by {
        assert(larges[idx] == primes[s + idx]);
    }
    assert forall|i: int| 1 <= i < larges.len() implies (#[trigger] larges[i - 1]) < larges[i] && (larges[i] - larges[i - 1]) % 2 == 0 && larges[i] - larges[i - 1] <= 128 by {
        assert(larges[i - 1] == primes[s + i - 1] && larges[i] == primes[s + i]);
        if s + i - 1 > s { assert(primes[s] < primes[s + i - 1]); }
        lemma_adjacent_gap(primes, s + i - 1);
    }
    assert forall|i: int, q: nat| 1 <= i < larges.len() && (#[trigger] larges[i - 1] as nat) < q < (larges[i] as nat) implies !#[trigger] is_prime_dv(q) by {
        assert(larges[i - 1] == primes[s + i - 1] && larges[i] == primes[s + i]);
        lemma_adjacent_primes(primes, s + i - 1, q);
    }
}
} // verus!
