//! unit: {"container": "impl PM1Base", "file": "src/pollard_pm1.rs", "hoist": true, "kind": "fn", "name": "new", "props": ["C17", "C16", "C03"]}
//! ---- pinned ----
    pub fn new() -> Self {
        let primes = fbase::primes(70000);
        let mut factors = vec![];
        let mut larges = vec![];
        let mut buffer = 1_u64;
        for p in primes {
            // Small primes are raised to some power.
            if p < 500 {
                let p = p as u64;
                let mut pow = p;
                while pow * p < 1024 {
                    pow *= p;
                }
                if buffer * pow >= 1 << 32 {
                    factors.push(buffer as u32);
                    buffer = 1;
                }
                buffer *= pow;
            } else {
                if larges.len() < 64 * 1024 {
                    larges.push(p)
                }
            }
        }
        if buffer > 1 {
            factors.push(buffer as u32)
        }
        PM1Base {
            factors: factors.into_boxed_slice(),
            larges: larges.into_boxed_slice(),
        }
    }
//! ---- annotated ----
    pub fn new() -> (r: Self)
        ensures r.wf(),
    {
        let primes = fbase::primes(70000);
        let mut factors = vec![];
        let mut larges = vec![];
        let mut buffer = 1_u64;
        let ghost mut s: int = 0;
        proof {
            lemma_primes_70000(primes@);
            assert(prod32(Seq::<u32>::empty()) == 1);
            vstd::std_specs::bits::axiom_u32_leading_zeros(70000);
            lemma_primes_bound_70000();
        }
        for verif_i_p in 0..primes.len()
            invariant
                all_prime(primes@), increasing(primes@), complete(primes@), primes@.len() <= 70000,
                forall|idx: int| 0 <= idx < primes@.len() ==> (#[trigger] primes@[idx] as int) < 1_190_000,
                1 <= buffer < 0x1_0000_0000,
                factors@.len() <= verif_i_p,
                0 <= s <= verif_i_p,
                forall|j: int| 0 <= j < s ==> (#[trigger] primes@[j]) < 500,
                s < verif_i_p ==> primes@[s] >= 500,
                larges@.len() == (if verif_i_p - s <= 65536 { verif_i_p - s } else { 65536 }),
                forall|k: int| 0 <= k < larges@.len() ==> (#[trigger] larges@[k]) == primes@[s + k],
                pm1_idx_ok(primes@, prod32(factors@) * (buffer as nat), verif_i_p as int),
        {
            let p = primes[verif_i_p];
            // Small primes are raised to some power.
            if p < 500 {
                proof {
                    // no large prime was seen before (the table is increasing)
                    if s < verif_i_p { assert(primes@[s] < primes@[verif_i_p as int]); }
                    assert(is_prime_dv(primes@[verif_i_p as int] as nat));
                }
                let p = p as u64;
                let mut pow = p;
                let ghost pn = p as nat;
                proof { lemma_mul_le2(pow as int, 1024, p as int, 500); }
                while pow * p < 1024
                    invariant 2 <= p < 500, p <= pow < 1024, pn == p as nat, (pow as int) * (p as int) <= 1024 * 500,
                        crate::ecm::tp(pn, 1024, pow as nat) == crate::ecm::tp(pn, 1024, pn),
                    decreases 1024 - pow
                {
                    proof { lemma_mul_le2(pow as int, pow as int, 2, p as int); }
                    pow *= p;
                    proof { lemma_mul_le2(pow as int, 1024, p as int, 500); }
                }
                let ghost tpow = pow as nat;
                let ghost tot0 = prod32(factors@) * (buffer as nat);
                proof {
                    assert(crate::ecm::tp(pn, 1024, pn) == tpow);
                    lemma_mul_le2(buffer as int, 0xffff_ffff, pow as int, 1023);
                    assert((1u64 << 32) == 0x1_0000_0000u64) by (bit_vector);
                }
                if buffer * pow >= 1 << 32 {
                    proof { lemma_prod32_push(factors@, buffer as u32); }
                    factors.push(buffer as u32);
                    buffer = 1;
                }
                proof {
                    assert(prod32(factors@) * (buffer as nat) == tot0);
                    if buffer == 1 { lemma_mul_one(pow as int); }
                    lemma_pm1_idx_ok_step(primes@, tot0, verif_i_p as int, tpow);
                    lemma_mul_assoc(prod32(factors@) as int, buffer as int, pow as int);
                    lemma_mul_pos(buffer as int, pow as int);
                }
                buffer *= pow;
                proof { s = s + 1; }
            } else {
                proof {
                    lemma_pm1_idx_ok_skip(primes@, prod32(factors@) * (buffer as nat), verif_i_p as int);
                }
                if larges.len() < 64 * 1024 {
                    larges.push(p)
                }
            }
        }
        let ghost tot1 = prod32(factors@) * (buffer as nat);
        if buffer > 1 {
            proof { lemma_prod32_push(factors@, buffer as u32); }
            factors.push(buffer as u32)
        }
        proof {
            lemma_mul_one(prod32(factors@) as int);
            assert(prod32(factors@) == tot1);
            lemma_pm1_finish(primes@, larges@, s, tot1);
        }
        PM1Base {
            factors: factors.into_boxed_slice(),
            larges: larges.into_boxed_slice(),
        }
    }
