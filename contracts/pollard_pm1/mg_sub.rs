//! unit: {"file": "src/pollard_pm1.rs", "kind": "fn", "name": "mg_sub", "props": ["C16", "C03"]}
//! ---- pinned ----
/// Subtraction modulo n of reduced values (no overflow for any 64-bit n).
#[inline(always)]
fn mg_sub(n: u64, x: u64, y: u64) -> u64 {
    if x >= y {
        x - y
    } else {
        x + (n - y)
    }
}
//! ---- annotated ----
/// Subtraction modulo n of reduced values (no overflow for any 64-bit n).
#[inline(always)]
fn mg_sub(n: u64, x: u64, y: u64) -> (r: u64)
    requires x < n, y < n,
    ensures r < n, r as int == (x as int - y as int) % (n as int),
{
    proof {
        if x >= y { vstd::arithmetic::div_mod::lemma_small_mod((x - y) as nat, n as nat); }
        else {
            vstd::arithmetic::div_mod::lemma_small_mod((x + n - y) as nat, n as nat);
            vstd::arithmetic::div_mod::lemma_mod_add_multiples_vanish(x as int - y as int, n as int);
        }
    }
    if x >= y {
        x - y
    } else {
        x + (n - y)
    }
}
