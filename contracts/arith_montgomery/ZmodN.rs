//! unit: {"file": "src/arith_montgomery.rs", "kind": "struct", "name": "ZmodN", "props": ["C07"]}
//! ---- pinned ----
/// Context for modular Montgomery arithmetic for large (512-bit) moduli
#[derive(Clone)]
pub struct ZmodN {
    pub n: Uint,
    // Minus n^-1 mod 2^64
    ninv64: u64,
    // Auxiliary base R=2^64k
    k: u32,
    // R mod n
    r: MInt,
    // R^2 mod n
    r2: MInt,
}
//! ---- annotated ----
/// Context for modular Montgomery arithmetic for large (512-bit) moduli
#[derive(Clone)]
pub struct ZmodN {
    pub n: Uint,
    // Minus n^-1 mod 2^64
    ninv64: u64,
    // Auxiliary base R=2^64k
    k: u32,
    // R mod n
    r: MInt,
    // R^2 mod n
    r2: MInt,
}
