//! unit: {"file": "src/arith_montgomery.rs", "kind": "fn", "name": "mg_mul", "props": ["C06", "C07", "C03"]}
//! ---- pinned ----
#[inline(always)]
pub fn mg_mul(n: u64, ninv: u64, x: u64, y: u64) -> u64 {
    mg_redc(n, ninv, (x as u128) * (y as u128))
}
//! ---- annotated ----
#[inline(always)]
pub fn mg_mul(n: u64, ninv: u64, x: u64, y: u64) -> (r: u64)
    requires
        (n as int * ninv as int + 1) % two64() == 0,
        (x as int) * (y as int) < n as int * two64(),
    ensures
        r < n,
        (r as int * two64()) % (n as int) == ((x as int) * (y as int)) % (n as int),
{
    proof {
        assert(0 <= (x as int) * (y as int) < two64() * two64()) by (nonlinear_arith)
            requires 0 <= x as int, (x as int) < two64(), 0 <= y as int, (y as int) < two64();
    }
    mg_redc(n, ninv, (x as u128) * (y as u128))
}
