//! unit: {"file": "src/arith_montgomery.rs", "kind": "fn", "name": "gcd_factors", "props": ["C16", "C01", "C03"]}
//! ---- pinned ----
/// Determine factors from a sequence of values mod n
///
/// The sequence of values is supposed to have increasing GCD with n,
/// i.e. for i <= j, gcd(n, vals[i]) divides gcd(n, vals[j]).
///
/// The product of returned factors is gcd(n, last)/gcd(n, first).
///
/// This is satisfied if vals represents iterated powers of
/// a group element (ECM and P±1 stage 1) or a cumulative product
/// (ECM and P±1 stage 2).
pub fn gcd_factors(n: &Uint, vals: &[MInt]) -> (Vec<Uint>, Uint) {
    // Recursively split input slice and check whether
    // gcd(first, n) = gcd(last, n).
    // If they differ by a single prime factor, stop recursion.
    // gcd1 = gcd(n, vals[0])
    // gcd2 = gcd(n, vals.last())
    fn find_factors(n: &Uint, vals: &[MInt], gcd1: &Uint, gcd2: &Uint, factors: &mut Vec<Uint>) {
        if gcd1 == gcd2 {
            return;
        }
        let p = gcd2 / gcd1;
        debug_assert!(gcd2 > gcd1 && *gcd2 == p * gcd1);
        if crate::pseudoprime(p) || vals.len() <= 2 {
            factors.push(p);
            return;
        }
        let mid = vals.len() / 2;
        let d = arith_gcd::big_gcd(n, &Uint::from(vals[mid]));
        find_factors(n, &vals[..=mid], gcd1, &d, factors);
        find_factors(n, &vals[mid..], &d, gcd2, factors);
    }
    let mut facs = vec![];
    let d1 = arith_gcd::big_gcd(n, &Uint::from(vals[0]));
    let d2 = arith_gcd::big_gcd(n, &Uint::from(vals[vals.len() - 1]));
    find_factors(n, vals, &d1, &d2, &mut facs);
    let mut n = *n;
    for f in &facs {
        n /= f;
    }
    (facs, n)
}
//! ---- annotated ----
/// Determine factors from a sequence of values mod n
///
/// The sequence of values is supposed to have increasing GCD with n,
/// i.e. for i <= j, gcd(n, vals[i]) divides gcd(n, vals[j]).
///
/// The product of returned factors is gcd(n, last)/gcd(n, first).
///
/// This is satisfied if vals represents iterated powers of
/// a group element (ECM and P±1 stage 1) or a cumulative product
/// (ECM and P±1 stage 2).
pub fn gcd_factors(n: &Uint, vals: &[MInt]) -> (r: (Vec<Uint>, Uint))
    requires uv(*n) > 0, vals.len() >= 1, gcd_chain(*n, vals@),
        // pseudoprime (ZmodN::new) accepts at most 512 bits
        uv(*n) < vstd::arithmetic::power2::pow2(512),
    ensures
        // nothing false: the factors and the cofactor multiply back to n, every listed factor is a non-trivial divisor
        seq_prod(r.0@) * uv(r.1) == uv(*n),
        all_gt1(r.0@),
        seq_prod(r.0@) * gval(*n, vals@[0]) == gval(*n, vals@[vals.len() - 1]),
{
    // Recursively split input slice and check whether
    // gcd(first, n) = gcd(last, n).
    // If they differ by a single prime factor, stop recursion.
    // gcd1 = gcd(n, vals[0])
    // gcd2 = gcd(n, vals.last())
    fn find_factors(n: &Uint, vals: &[MInt], gcd1: &Uint, gcd2: &Uint, factors: &mut Vec<Uint>)
        requires
            uv(*n) > 0, vals.len() >= 1, gcd_chain(*n, vals@),
            uv(*n) < vstd::arithmetic::power2::pow2(512),
            uv(*gcd1) == gval(*n, vals@[0]), uv(*gcd2) == gval(*n, vals@[vals.len() - 1]),
        ensures
            final(factors)@.len() >= old(factors)@.len(),
            final(factors)@.take(old(factors)@.len() as int) == old(factors)@,
            seq_prod(final(factors)@) * uv(*gcd1) == seq_prod(old(factors)@) * uv(*gcd2),
            all_gt1(old(factors)@) ==> all_gt1(final(factors)@),
        decreases vals.len()
    {
        let ghost f0 = factors@;
        proof {
            lemma_gcd_spec(uv(*n), limbs(vals@[0].0@));
            assert(uv(*gcd1) > 0);
            assert(dvd(uv(*gcd1), uv(*gcd2)));
            assert(f0.take(f0.len() as int) =~= f0);
            axiom_buint_eq(*gcd1, *gcd2);
        }
        if gcd1 == gcd2 {
            return;
        }
        proof { axiom_buint_div(*gcd2, *gcd1); axiom_buint_cmp(*gcd2, *gcd1); }
        let p = gcd2 / gcd1;
        proof {
            // gcd2 == p * gcd1 exactly, p >= 2
            let k = lemma_dvd_witness(uv(*gcd1), uv(*gcd2));
            lemma_mul_comm(uv(*gcd1) as int, k as int);
            vstd::arithmetic::div_mod::lemma_fundamental_div_mod_converse(uv(*gcd2) as int, uv(*gcd1) as int, k as int, 0);
            assert(uv(p) == k);
            axiom_buint_mul(p, *gcd1); axiom_uv_bound(*gcd2);
            vstd::arithmetic::div_mod::lemma_small_mod(uv(*gcd2), pow_w(16));
            if k <= 1 { lemma_mul_one(uv(*gcd1) as int); if k == 0 { assert(false); } }
            axiom_uv_inj(p.mul_spec(*gcd1), *gcd2);
            axiom_buint_eq(*gcd2, p.mul_spec(*gcd1));
            assert(uv(*gcd2) > uv(*gcd1)) by { lemma_mul_le(2, k as int, uv(*gcd1) as int); };
            assert(uv(p.mul_spec(*gcd1)) == uv(*gcd2));
            // p <= gcd2 <= n < 2^512
            lemma_gcd_spec(uv(*n), limbs(vals@[vals.len() - 1].0@));
            let kn = lemma_dvd_witness(uv(*gcd2), uv(*n));
            if kn == 0 { lemma_mul_one(uv(*gcd2) as int); }
            lemma_mul_le2(uv(*gcd2) as int, uv(*gcd2) as int, 1, kn as int);
            lemma_mul_one(uv(*gcd2) as int);
            lemma_mul_le2(1, uv(*gcd1) as int, uv(p) as int, uv(p) as int);
            lemma_mul_one(uv(p) as int);
            lemma_mul_comm(uv(p) as int, uv(*gcd1) as int);
            lemma_bitlen_le(uv(p), 512);
        }
        debug_assert!(gcd2 > gcd1 && *gcd2 == p * gcd1);
        if crate::pseudoprime(p) || vals.len() <= 2 {
            factors.push(p);
            proof {
                lemma_seq_prod_push(f0, p);
                lemma_mul_assoc(seq_prod(f0) as int, uv(p) as int, uv(*gcd1) as int);
                assert(factors@.take(f0.len() as int) =~= f0);
            }
            return;
        }
        let mid = vals.len() / 2;
        let d = arith_gcd::big_gcd(n, &Uint::from(vals[mid]));
        proof {
            assert(vals@.subrange(0, mid + 1)[0] == vals@[0]);
            assert(vals@.subrange(mid as int, vals.len() as int)[0] == vals@[mid as int]);
        }
        find_factors(n, &vals[..=mid], gcd1, &d, factors);
        let ghost f1 = factors@;
        find_factors(n, &vals[mid..], &d, gcd2, factors);
        proof {
            // f1 * gcd1 == f0 * d  and  f2 * d == f1 * gcd2  ==>  f2 * gcd1 == f0 * gcd2
            let (a0, a1, a2) = (seq_prod(f0) as int, seq_prod(f1) as int, seq_prod(factors@) as int);
            let (g1, gd, g2) = (uv(*gcd1) as int, uv(d) as int, uv(*gcd2) as int);
            lemma_gcd_spec(uv(*n), limbs(vals@[mid as int].0@));
            assert(gd > 0);
            lemma_mul_assoc(a2, g1, gd); lemma_mul_comm(g1, gd); lemma_mul_assoc(a2, gd, g1);
            lemma_mul_assoc(a1, g2, g1); lemma_mul_comm(g2, g1); lemma_mul_assoc(a1, g1, g2);
            lemma_mul_assoc(a0, gd, g2); lemma_mul_comm(gd, g2); lemma_mul_assoc(a0, g2, gd);
            assert((a2 * g1) * gd == (a0 * g2) * gd);
            lemma_mul_comm(a2 * g1, gd); lemma_mul_comm(a0 * g2, gd);
            lemma_mul_cancel_eq(gd, a2 * g1, a0 * g2);
            assert(factors@.take(f0.len() as int) =~= f1.take(f0.len() as int));
        }
    }
    let mut facs = vec![];
    let d1 = arith_gcd::big_gcd(n, &Uint::from(vals[0]));
    let d2 = arith_gcd::big_gcd(n, &Uint::from(vals[vals.len() - 1]));
    find_factors(n, vals, &d1, &d2, &mut facs);
    let mut n = *n;
    let ghost n0 = n;
    let ghost pf = seq_prod(facs@);
    let ghost cof: nat = uv(n0) / pf;
    proof {
        assert(seq_prod(Seq::<Uint>::empty()) == 1);
        lemma_mul_one(uv(d2) as int);
        // pf * d1 == d2 and d2 | n  ==>  n == pf * cof
        lemma_gcd_spec(uv(n0), limbs(vals@[0].0@));
        lemma_gcd_spec(uv(n0), limbs(vals@[vals.len() - 1].0@));
        assert(uv(d2) > 0 && uv(d1) > 0);
        let k = lemma_dvd_witness(uv(d2), uv(n0));
        lemma_mul_assoc(pf as int, uv(d1) as int, k as int);
        if pf == 0 { lemma_mul_one(uv(d1) as int); }
        assert(pf * uv(d1) == uv(d2));
        assert(uv(n0) == pf * (uv(d1) * k));
        lemma_mul_comm(pf as int, (uv(d1) * k) as int);
        vstd::arithmetic::div_mod::lemma_fundamental_div_mod_converse(uv(n0) as int, pf as int, (uv(d1) * k) as int, 0);
        lemma_mul_comm(pf as int, cof as int);
        assert(facs@.skip(0) =~= facs@);
    }
    for f in verif_it: facs.iter()
        invariant
            uv(n) == cof * seq_prod(facs@.skip(verif_it.index@)),
            all_gt1(facs@),
    {
        proof {
            let i = verif_it.index@;
            axiom_buint_div(n, *f);
            lemma_seq_prod_skip(facs@, i);
            let rest = seq_prod(facs@.skip(i + 1)) as int;
            // (cof * (f * rest)) / f == cof * rest
            lemma_mul_assoc(cof as int, uv(*f) as int, rest); lemma_mul_comm(cof as int, uv(*f) as int); lemma_mul_assoc(uv(*f) as int, cof as int, rest);
            vstd::arithmetic::div_mod::lemma_div_multiples_vanish(cof as int * rest, uv(*f) as int);
        }
        n = n / f;
    }
    proof {
        assert(facs@.skip(facs@.len() as int) =~= Seq::<Uint>::empty());
        lemma_mul_one(cof as int);
    }
    (facs, n)
}
