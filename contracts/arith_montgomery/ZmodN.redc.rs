//! unit: {"container": "impl ZmodN", "file": "src/arith_montgomery.rs", "kind": "fn", "name": "redc", "props": ["C07", "C03"]}
//! ---- pinned ----
    /// Multiprecision Montgomery reduction (x/R mod n).
    #[doc(hidden)]
    pub fn redc(&self, x: &[u64; 2 * MINT_WORDS]) -> MInt {
        debug_assert!(Uint::from_digits(*x) < (self.n << (64 * self.k)));
        // This is N times a division by 2^64.
        // Repeatedly add N * (-x[0]/N mod 2^64) and divide by 2^64
        let mut m = x.clone();
        let n = self.n.digits();
        let sz = self.k as usize;
        let ninv64 = self.ninv64;
        for i in 0..sz {
            let m_ninv = m[i].wrapping_mul(ninv64);
            let mut carryn = 0;
            for j in 0..sz {
                unsafe {
                    let nj = *n.get_unchecked(j) as u128;
                    let mij = m[..].get_unchecked_mut(i + j);
                    let mut mn = (m_ninv as u128) * nj;
                    mn += *mij as u128;
                    mn += carryn as u128;
                    *mij = mn as u64;
                    carryn = (mn >> 64) as u64;
                }
            }
            let (mi, c) = m[i + sz].overflowing_add(carryn);
            m[i + sz] = mi;
            if c {
                assert!(i + sz + 1 < m.len());
                // Propagate the carry: the next word may itself overflow.
                let mut j = i + sz + 1;
                loop {
                    let (mj, cj) = m[j].overflowing_add(1);
                    m[j] = mj;
                    if !cj {
                        break;
                    }
                    j += 1;
                }
            }
        }
        let mut m: [u64; MINT_WORDS] = m[sz..sz + MINT_WORDS].try_into().unwrap();
        if !mint_lt(&m, self.n.digits(), self.k) {
            mint_sub(&mut m, self.n.digits(), self.k);
        }
        MInt(m)
    }
//! ---- annotated ----
    /// Multiprecision Montgomery reduction (x/R mod n).
    #[doc(hidden)]
    pub fn redc(&self, x: &[u64; 2 * MINT_WORDS]) -> (r: MInt)
        requires
            self.wf(),
            limbs(x@) < self.nval() * self.rr(),
        ensures
            r.val() < self.nval(),
            (r.val() * self.rr()) % self.nval() == limbs(x@) % self.nval(),
    {
        proof {
            // the run-time check of the original: x < n << 64k
            assert(limbs(x@) < uv(self.n) * pow_w(self.k as nat));
        }
        // This is N times a division by 2^64.
        // Repeatedly add N * (-x[0]/N mod 2^64) and divide by 2^64
        let mut m = x.clone();
        proof { assert(m@ =~= x@); }
        let n = self.n.digits();
        let sz = self.k as usize;
        let ninv64 = self.ninv64;
        let ghost nn = uv(self.n);
        let ghost xx = limbs(x@);
        let ghost ps = pow_w(sz as nat);
        let ghost mut q: nat = 0;
        proof {
            lemma_pow_w_unfold(0);
            assert(0 * nn == 0);
            axiom_udigits(self.n);
            lemma_limbs_small_words(n@, sz as int);
            lemma_limbs_low(n@);
            lemma_pow_w_pos(sz as nat);
            // 2 * nn * ps <= W^16
            lemma_pow_w_add(sz as nat, sz as nat);
            if sz == 8 {
                lemma_mul_le(2 * nn as int, pow_w(8) as int, ps as int);
            } else {
                lemma_pow_w_unfold(sz as nat);
                lemma_mul_le(nn as int, ps as int - 1, ps as int);
                lemma_distrib_r_sub(ps as int, 1, ps as int);
                lemma_pow_w_mono((2 * sz + 1) as nat, 16);
                lemma_pow_w_unfold((2 * sz) as nat);
                lemma_mul_le(2, W() as int, (ps * ps) as int);
                assert(2 * (nn * ps) <= W() * (ps * ps));
            }
            lemma_mul_assoc(2, nn as int, ps as int);
            assert(2 * (nn * ps) <= pow_w(16));
        }
        for i in 0..sz
            invariant
                1 <= sz <= 8, n@.len() == 16, nn == uv(self.n), xx == limbs(x@), ps == pow_w(sz as nat),
                limbs(n@.take(sz as int)) == nn, nn > 0,
                (n@[0] as nat * (ninv64 as nat) + 1) % W() == 0,
                xx < nn * ps, 2 * (nn * ps) <= pow_w(16),
                q < pow_w(i as nat),
                limbs(m@) == xx + q * nn,
                forall|k: int| 0 <= k < i ==> m@[k] == 0,
        {
            let m_ninv = m[i].wrapping_mul(ninv64);
            let mut carryn = 0;
            let ghost m0 = m@;
            proof {
                lemma_pow_w_pos(i as nat);
                assert(n@.take(0) =~= Seq::<u64>::empty());
                lemma_limbs_empty();
                assert((m_ninv as nat) * 0 == 0);
                assert(pow_w(i as nat) * 0 == 0);
            }
            for j in 0..sz
                invariant
                    1 <= sz <= 8, i < sz, n@.len() == 16, m0.len() == 16,
                    m_ninv as nat == (m0[i as int] as nat * (ninv64 as nat)) % W(),
                    (n@[0] as nat * (ninv64 as nat) + 1) % W() == 0,
                    limbs(m@) + pow_w((i + j) as nat) * (carryn as nat) == limbs(m0) + pow_w(i as nat) * ((m_ninv as nat) * limbs(n@.take(j as int))),
                    forall|k: int| 0 <= k < i ==> m@[k] == m0[k],
                    forall|k: int| i + j <= k < 16 ==> m@[k] == m0[k],
                    j >= 1 ==> m@[i as int] == 0,
                    j == 0 ==> carryn == 0,
            {
                {
                    let nj = n[j] as u128;
                    let ghost mprev = m@;
                    let ghost mij_old = m@[i + j];
                    let ghost c0 = carryn;
                    proof { lemma_u64_mul_bound(m_ninv as int, nj as int); }
                    let mij = &mut m[i + j];
                    let mut mn = (m_ninv as u128) * nj;
                    mn += *mij as u128;
                    mn += carryn as u128;
                    *mij = mn as u64;
                    carryn = (mn >> 64) as u64;
                    proof {
                        lemma_u128_split(mn); lemma_pow_w_unfold(0);
                        lemma_limbs_update(mprev, (i + j) as int, mn as u64);
                        lemma_limbs_take_step(n@, j as int);
                        lemma_pow_w_add(i as nat, j as nat);
                        lemma_pow_w_unfold((i + j) as nat);
                        let pij = pow_w((i + j) as nat); let pi = pow_w(i as nat); let pj = pow_w(j as nat);
                        let a = (mn as u64) as nat; let c1 = carryn as nat; let c00 = c0 as nat; let zo = mij_old as nat;
                        let xin = m_ninv as nat; let yjn = nj as nat; let ly = limbs(n@.take(j as int));
                        assert(a + W() * c1 == xin * yjn + zo + c00);
                        lemma_mac_step(limbs(m@) as int, limbs(mprev) as int, limbs(m0) as int, W() as int, pij as int, pi as int, pj as int,
                            a as int, c1 as int, xin as int, yjn as int, zo as int, c00 as int, ly as int);
                        if j == 0 {
                            lemma_word_cancel(m0[i as int] as int, ninv64 as int, n@[0] as int, m_ninv as int);
                            assert(a == (xin * yjn + zo) % W()) by {
                                vstd::arithmetic::div_mod::lemma_fundamental_div_mod_converse((xin * yjn + zo) as int, W() as int, c1 as int, a as int);
                            };
                        }
                    }
                }
            }
            let ghost m1 = m@;
            let ghost q1: nat = q + pow_w(i as nat) * (m_ninv as nat);
            let ghost tot: nat = xx + q1 * nn;
            proof {
                lemma_pow_w_add(i as nat, sz as nat);
                lemma_pow_w_unfold(i as nat);
                lemma_pow_w_mono((i + 1) as nat, sz as nat);
                lemma_redc_round(limbs(m0) as int, limbs(m1) as int, pow_w((i + sz) as nat) as int, pow_w(i as nat) as int, W() as int,
                    carryn as int, m_ninv as int, nn as int, xx as int, q as int, q1 as int, ps as int);
                assert(tot < pow_w(16));
            }
            let (mi, c) = m[i + sz].overflowing_add(carryn);
            m[i + sz] = mi;
            proof {
                lemma_limbs_update(m1, (i + sz) as int, mi);
                lemma_pow_w_unfold((i + sz) as nat);
                let pis = pow_w((i + sz) as nat) as int;
                let cn: int = if c { 1 } else { 0 };
                lemma_carry_step(pis, W() as int, mi as int, cn, m1[(i + sz) as int] as int, carryn as int, 0);
                assert(pis * 0 == 0);
                assert(limbs(m@) + pow_w((i + sz + 1) as nat) * (cn as nat) == tot);
                if !c { assert(pow_w((i + sz + 1) as nat) * 0 == 0); }
            }
            if c {
                proof {
                    // the pending carry has weight W^(i+sz+1): it cannot be W^16
                    if i + sz + 1 == 16 { lemma_mul_one(pow_w(16) as int); assert(false); }
                }
                assert!(i + sz + 1 < m.len());
                // Propagate the carry: the next word may itself overflow.
                let mut j = i + sz + 1;
                proof { lemma_mul_one(pow_w(j as nat) as int); }
                loop
                    invariant_except_break
                        i + sz + 1 <= j <= 16,
                        limbs(m@) + pow_w(j as nat) == tot,
                    invariant
                        tot < pow_w(16), i < sz, sz <= 8, m1.len() == 16,
                        forall|k: int| 0 <= k < i + sz ==> m@[k] == m1[k],
                    ensures
                        limbs(m@) == tot,
                    decreases 16 - j
                {
                    proof { if j == 16 { assert(false); } }
                    let ghost mp = m@;
                    let (mj, cj) = m[j].overflowing_add(1);
                    m[j] = mj;
                    proof {
                        lemma_limbs_update(mp, j as int, mj);
                        lemma_pow_w_unfold(j as nat);
                        let pj = pow_w(j as nat) as int;
                        let cn: int = if cj { 1 } else { 0 };
                        lemma_carry_step(pj, W() as int, mj as int, cn, mp[j as int] as int, 1, 0);
                        assert(pj * 0 == 0); assert(pj * 1 == pj);
                        if cj { assert((W() * pj) * 1 == W() * pj); } else { assert((W() * pj) * 0 == 0); }
                    }
                    if !cj {
                        break;
                    }
                    j += 1;
                }
            }
            proof {
                q = q1;
                assert forall|k: int| 0 <= k < i + 1 implies m@[k] == 0 by {
                    assert(m@[k] == m1[k]);
                    if k < i { assert(m1[k] == m0[k]); }
                }
            }
        }
        let ghost mf = m@;
        proof {
            // limbs(mf) == W^sz * limbs(mf.skip(sz)); the window of 8 words holds all of it
            lemma_limbs_split(mf, sz as int);
            lemma_limbs_zero(mf.take(sz as int));
            let hi = mf.skip(sz as int);
            lemma_mul_lt_pos(q as int, ps as int, nn as int);
            lemma_mul_comm(nn as int, ps as int);
            assert(limbs(mf) < 2 * (nn * ps));
            lemma_mul_assoc(2, nn as int, ps as int); lemma_mul_comm(2 * nn as int, ps as int);
            lemma_mul_cancel_lt(ps as int, limbs(hi) as int, 2 * nn as int);
            // 2nn <= W^8
            if sz < 8 { lemma_pow_w_mono((sz + 1) as nat, 8); lemma_pow_w_unfold(sz as nat); }
            assert(limbs(hi) < pow_w(8));
            lemma_limbs_small_words(hi, 8);
            assert(hi.take(8) =~= mf.subrange(sz as int, sz + 8));
        }
        let mut m: [u64; MINT_WORDS] = ol_redc_window(&m, sz);
        let ghost v = limbs(m@);
        proof {
            assert(v * ps == xx + q * nn) by { lemma_mul_comm(v as int, ps as int); }
            assert(v < 2 * nn);
            if sz < 8 {
                lemma_pow_w_unfold(sz as nat);
                lemma_limbs_small_words(m@, (sz + 1) as int);
            }
            vstd::arithmetic::div_mod::lemma_mod_multiples_vanish(q as int, xx as int, nn as int);
            lemma_mul_comm(nn as int, q as int);
            assert((v * ps) % nn == xx % nn);
            lemma_sub_modulus_mul(v as int, nn as int, ps as int);
        }
        if !mint_lt(&m, self.n.digits(), self.k) {
            mint_sub(&mut m, self.n.digits(), self.k);
        }
        MInt(m)
    }
