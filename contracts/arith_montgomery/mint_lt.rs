//! unit: {"file": "src/arith_montgomery.rs", "kind": "fn", "name": "mint_lt", "props": ["C07", "C03"]}
//! ---- pinned ----
fn mint_lt(x: &[u64], n: &[u64], sz: u32) -> bool {
    let sz = sz as usize;
    debug_assert!((sz + 1..x.len()).all(|idx| x[idx] == 0));
    debug_assert!((sz..n.len()).all(|idx| n[idx] == 0));
    if x.len() > sz && x[sz] > 0 {
        return false;
    }
    for i in 0..sz {
        let idx = sz - 1 - i;
        let (xi, ni) = unsafe { (*x.get_unchecked(idx), *n.get_unchecked(idx)) };
        if xi == ni {
            continue;
        }
        return xi < ni;
    }
    return false;
}
//! ---- annotated ----
#[verifier::loop_isolation(false)]
fn mint_lt(x: &[u64], n: &[u64], sz: u32) -> (r: bool)
    requires
        sz as int <= x.len(), sz as int <= n.len(),
        forall|k: int| sz + 1 <= k < x.len() ==> x@[k] == 0,
        forall|k: int| sz <= k < n.len() ==> n@[k] == 0,
    ensures
        r == (limbs(x@) < limbs(n@)),
        limbs(n@) == limbs(n@.take(sz as int)),
{
    let ghost sz0 = sz;
    let sz = sz as usize;
    proof {
        // the two run-time checks of the original (iterator form) are the preconditions above
        assert(forall|idx: int| sz + 1 <= idx < x.len() ==> x@[idx] == 0);
        assert(forall|idx: int| sz <= idx < n.len() ==> n@[idx] == 0);
        lemma_limbs_top(x@, sz as int);
        lemma_limbs_split(n@, sz as int);
        assert forall|j: int| 0 <= j < n@.skip(sz as int).len() implies n@.skip(sz as int)[j] == 0 by { assert(n@.skip(sz as int)[j] == n@[sz + j]); }
        lemma_limbs_zero(n@.skip(sz as int));
        lemma_mul_nonneg(pow_w(sz as nat) as int, 0);
        lemma_limbs_bound(n@.take(sz as int));
        lemma_limbs_bound(x@.take(sz as int));
        lemma_pow_w_pos(sz as nat);
    }
    if x.len() > sz && x[sz] > 0 {
        proof { lemma_mul_le(1, x@[sz as int] as int, pow_w(sz as nat) as int); lemma_mul_comm(pow_w(sz as nat) as int, x@[sz as int] as int); }
        return false;
    }
    proof { if x.len() > sz { assert(pow_w(sz as nat) * 0 == 0); } }
    let mut it = 0;
    let end = sz;
    while it < end
        invariant
            end == sz, it <= end, sz <= x.len(), sz <= n.len(), sz == sz0 as usize,
            forall|j: int| sz - it <= j < sz ==> x@[j] == n@[j],
            limbs(x@) == limbs(x@.take(sz as int)), limbs(n@) == limbs(n@.take(sz as int)),
        decreases end - it
    {
        let i = it;
        it += 1;
        let idx = sz - 1 - i;
        let (xi, ni) = { (x[idx], n[idx]) };
        if xi == ni {
            continue;
        }
        proof {
            if xi < ni { lemma_limbs_cmp(x@, n@, sz as int, idx as int); }
            else { lemma_limbs_cmp(n@, x@, sz as int, idx as int); }
        }
        return xi < ni;
    }
    proof { lemma_limbs_eq(x@, n@, sz as int); }
    return false;
}
