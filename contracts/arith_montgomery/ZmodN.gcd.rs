//! unit: {"container": "impl ZmodN", "file": "src/arith_montgomery.rs", "kind": "fn", "name": "gcd", "props": ["C07", "C03"]}
//! ---- pinned ----
    pub fn gcd(&self, x: &MInt) -> Uint {
        // No optimization, use ordinary modular inversion.
        Uint::cast_from(arith_gcd::big_gcd(
            &BUint::cast_from(self.n),
            &BUint::from_digits(x.0),
        ))
    }
//! ---- annotated ----
    pub fn gcd(&self, x: &MInt) -> (r: Uint)
        requires self.wf(), bitlen(self.nval()) <= 512,
        ensures uv(r) == gcd_spec(self.nval(), x.val()),
    {
        proof {
            lemma_bitlen_bound(uv(self.n), 512);
            lemma_pow_w_is_pow2(8);
            lemma_small_mod(uv(self.n), pow_w(8));
        }
        // No optimization, use ordinary modular inversion.
        let g = arith_gcd::big_gcd(
            &BUint::cast_from(self.n),
            &BUint::from_digits(x.0),
        );
        proof {
            axiom_uv_bound(g);
            lemma_pow_w_mono(8, 16);
            lemma_small_mod(uv(g), pow_w(16));
        }
        Uint::cast_from(g)
    }
