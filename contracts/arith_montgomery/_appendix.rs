#[allow(unused_imports)] use vstd::arithmetic::{div_mod::*, power2::*, mul::*};
#[allow(unused_imports)] use vstd::bits::*;
#[allow(unused_imports)] use vstd::std_specs::ops::*;
#[allow(unused_imports)] use vstd::std_specs::cmp::*;
#[allow(unused_imports)] use vstd::std_specs::bits::*;

verus! {
impl ZmodN {
    /// value of the modulus
    pub closed spec fn nval(&self) -> nat { uv(self.n) }
    pub closed spec fn ninv(&self) -> u64 { self.ninv64 }
    pub closed spec fn kval(&self) -> nat { self.k as nat }
}
} // verus!

verus! {
impl ZmodN {
    /// representation invariant of the Montgomery context (R = W^k)
    pub closed spec fn wf(&self) -> bool {
        &&& 1 <= self.k <= 8
        &&& uv(self.n) % 2 == 1
        &&& uv(self.n) < pow_w(self.k as nat)
        &&& (self.k == 8 ==> 2 * uv(self.n) <= pow_w(8))
        &&& (uv(self.n) % W()) * (self.ninv64 as nat) % W() == W() - 1
        &&& limbs(self.r.0@) == pow_w(self.k as nat) % uv(self.n)
        &&& limbs(self.r2.0@) == (pow_w(self.k as nat) * pow_w(self.k as nat)) % uv(self.n)
    }
    /// R = W^k
    pub closed spec fn rr(&self) -> nat { pow_w(self.k as nat) }
    pub closed spec fn r_val(&self) -> nat { limbs(self.r.0@) }
    pub closed spec fn r2_val(&self) -> nat { limbs(self.r2.0@) }
}
impl ZmodN {
    /// consequences of the invariant that callers outside this module need
    pub proof fn lemma_wf_r(&self)
        requires self.wf()
        ensures self.r_val() < self.nval(), self.nval() % 2 == 1, self.nval() >= 1,
            self.r_val() == self.rr() % self.nval(), self.rr() == pow2(64 * self.kval()),
    {
        lemma_mod_bound(pow_w(self.k as nat) as int, uv(self.n) as int);
        lemma_pow_w_is_pow2(self.k as nat);
    }
}
impl MInt {
    pub open spec fn val(&self) -> nat { limbs(self.0@) }
    /// equal values, equal residues (the eight words are a positional representation)
    pub proof fn lemma_val_inj(a: MInt, b: MInt)
        ensures (a.val() == b.val()) == (a == b)
    {
        if a.val() == b.val() {
            lemma_limbs_inj(a.0@, b.0@);
            assert(a.0@ =~= b.0@);
            assert(a.0 == b.0);
        }
    }
}
/// the derived `PartialEq` of MInt (word-wise comparison of the array)
pub assume_specification [<MInt as core::cmp::PartialEq>::eq] (a: &MInt, b: &MInt) -> (r: bool)
    ensures r == (*a == *b);
pub assume_specification [<MInt as core::default::Default>::default] () -> (r: MInt)
    ensures forall|k: int| 0 <= k < 8 ==> r.0@[k] == 0;
} // verus!

verus! {
/// R4 outlining of `m[sz..sz + MINT_WORDS].try_into().unwrap()` (slice-to-array conversion has no Verus spec).
/// Trusted contract: the eight words starting at sz.
#[verifier::external_body]
fn ol_redc_window(m: &[u64; 2 * MINT_WORDS], sz: usize) -> (r: [u64; MINT_WORDS])
    requires sz + 8 <= 16
    ensures r@ == m@.subrange(sz as int, sz + 8)
{
    m[sz..sz + MINT_WORDS].try_into().unwrap()
}

} // verus!

verus! {
/// R4 outlining of `xx[..MINT_WORDS].copy_from_slice(&x.0)` (range-indexed copy has no Verus spec). Trusted contract.
#[verifier::external_body]
fn ol_copy_low8(xx: &mut [u64; 2 * MINT_WORDS], x: &[u64; MINT_WORDS])
    ensures final(xx)@ == x@ + old(xx)@.skip(8)
{
    xx[..MINT_WORDS].copy_from_slice(x);
}

/// `impl From<MInt> for Uint` (zero-extends the 8 words) and `MInt::from_uint` (low 8 words): trusted contracts,
/// both bodies are a `copy_from_slice` over a range.
pub assume_specification [<Uint as core::convert::From<MInt>>::from] (m: MInt) -> (r: Uint)
    ensures uv(r) == limbs(m.0@);
pub assume_specification [MInt::from_uint] (n: Uint) -> (r: MInt)
    ensures r.0@ == udigits(n).take(8);

impl ZmodN {
    /// m is the Montgomery form of the residue v:  m = v*R mod n
    pub open spec fn repr(&self, m: MInt, v: nat) -> bool {
        m.val() < self.nval() && cong(m.val() as int, (v * self.rr()) as int, self.nval() as int)
    }
}
} // verus!

verus! {
/// gcd(n, value of a residue): the quantity `gcd_factors` works with
pub open spec fn gval(n: Uint, v: MInt) -> nat { gcd_spec(uv(n), limbs(v.0@)) }

/// the gcds with n increase along the sequence (for i <= j, gcd(n, vals[i]) divides gcd(n, vals[j])): the documented
/// precondition of `gcd_factors`
pub open spec fn gcd_chain(n: Uint, vals: Seq<MInt>) -> bool {
    forall|i: int, j: int| 0 <= i <= j < vals.len() ==> dvd(#[trigger] gval(n, vals[i]), #[trigger] gval(n, vals[j]))
}

/// every element is at least 2
pub open spec fn all_gt1(s: Seq<Uint>) -> bool { forall|i: int| 0 <= i < s.len() ==> uv(#[trigger] s[i]) > 1 }

} // verus!

verus! {
/// R4 outlining of `Uint::ONE << s` (associated constants of foreign types are not supported). Trusted contract.
#[verifier::external_body]
fn ol_uint_one_shl(s: u32) -> (r: Uint)
    requires s < 1024
    ensures uv(r) == vstd::arithmetic::power2::pow2(s as nat)
{
    Uint::ONE << s
}
} // verus!

verus! {
/// `zn.n` read from another module (ZmodN has private fields, so Verus keeps the whole struct opaque there): outlined
/// accessor, trusted contract
pub closed spec fn ol_zn_n_spec(zn: &ZmodN) -> Uint { zn.n }
#[verifier::external_body]
pub fn ol_zn_n(zn: &ZmodN) -> (r: Uint)
    ensures r == ol_zn_n_spec(zn), uv(r) == zn.nval()
{
    zn.n
}
pub proof fn lemma_zn_n(zn: &ZmodN)
    ensures uv(ol_zn_n_spec(zn)) == zn.nval()
{}
} // verus!

verus! {
/// bnum's `CastFrom` between unsigned widths: truncation modulo the target width (T-bnum)
pub assume_specification<const N: usize, const M: usize> [<BUint<N> as bnum::cast::CastFrom<BUint<M>>>::cast_from] (x: BUint<M>) -> (r: BUint<N>)
    ensures uv(r) == uv(x) % pow_w(N as nat);

} // verus!

verus! {
/// result of `mg_inv`: y x ≡ R² (mod n), i.e. the Montgomery product of y and x is the Montgomery form of 1
pub open spec fn mg_inv_post(y: int, x: int, n: int) -> bool { cong(y * x, two64() * two64(), n) }
} // verus!
