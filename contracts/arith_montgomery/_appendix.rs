#[allow(unused_imports)] use vstd::arithmetic::{div_mod::*, power2::*, mul::*};
#[allow(unused_imports)] use vstd::bits::*;
#[allow(unused_imports)] use vstd::std_specs::bits::*;

verus! {
impl ZmodN {
    /// value of the modulus
    pub closed spec fn nval(&self) -> nat { uv(self.n) }
    pub closed spec fn ninv(&self) -> u64 { self.ninv64 }
    pub closed spec fn kval(&self) -> nat { self.k as nat }
}
} // verus!
