//! unit: {"container": "impl ZmodN", "file": "src/arith_montgomery.rs", "kind": "fn", "name": "add", "props": ["C07", "C03"]}
//! ---- pinned ----
    pub fn add<M: Borrow<MInt>>(&self, x: M, y: M) -> MInt {
        debug_assert!(Uint::from(*x.borrow()) < self.n);
        debug_assert!(Uint::from(*y.borrow()) < self.n);
        let mut m = *x.borrow();
        mint_add(&mut m.0, &y.borrow().0, self.k);
        if !mint_lt(&m.0, self.n.digits(), self.k) {
            mint_sub(&mut m.0, self.n.digits(), self.k);
        }
        debug_assert!(Uint::from(m) < self.n);
        m
    }
//! ---- annotated ----
    pub fn add<M: Borrow<MInt>>(&self, x: M, y: M) -> (r: MInt)
        requires
            self.wf(),
            bview::<M, MInt>(&x).val() < self.nval(),
            bview::<M, MInt>(&y).val() < self.nval(),
        ensures
            r.val() < self.nval(),
            r.val() == (bview::<M, MInt>(&x).val() + bview::<M, MInt>(&y).val()) % self.nval(),
    {
        proof {
            // the two run-time checks of the original: x < n, y < n
            assert(limbs(bview::<M, MInt>(&x).0@) < uv(self.n));
            assert(limbs(bview::<M, MInt>(&y).0@) < uv(self.n));
        }
        let ghost xv = bview::<M, MInt>(&x).0@;
        let ghost yv = bview::<M, MInt>(&y).0@;
        let ghost kk = self.k as int;
        let mut m = *x.borrow();
        proof {
            lemma_limbs_small_words(xv, kk);
            lemma_limbs_small_words(yv, kk);
            if kk == 8 { assert(xv.take(8) =~= xv); assert(yv.take(8) =~= yv); }
        }
        mint_add(&mut m.0, &y.borrow().0, self.k);
        let ghost m1 = m.0@;
        proof {
            axiom_udigits(self.n); lemma_limbs_small_words(udigits(self.n), kk);
            lemma_limbs_top(m1, kk);
            if kk == 8 { assert(m1.take(8) =~= m1); }
            else { lemma_mul_comm(pow_w(kk as nat) as int, (m1[kk] - xv[kk]) as int); }
            assert(limbs(m1) == limbs(xv) + limbs(yv));
            lemma_mod_range(limbs(m1) as int, uv(self.n) as int);
        }
        if !mint_lt(&m.0, self.n.digits(), self.k) {
            mint_sub(&mut m.0, self.n.digits(), self.k);
        }
        proof { assert(limbs(m.0@) < uv(self.n)); }
        m
    }
