//! unit: {"container": "impl ZmodN", "file": "src/arith_montgomery.rs", "hoist": true, "kind": "fn", "name": "new", "props": ["C07", "C03"]}
//! ---- pinned ----
    pub fn new(n: Uint) -> Self {
        assert!(n.bit(0));
        assert!(n.bits() <= 64 * MINT_WORDS as u32);
        let k = (n.bits() + 63) / 64;
        assert!(n.bits() <= 64 * k);
        let rsqrt = Uint::ONE << (32 * k);
        let r = (rsqrt * rsqrt) % n;
        let r2 = (r * r) % n;
        let ninv64 = {
            // Invariant: nx = 1 + 2^k s, k increasing
            let mut x = 1_u64;
            let n64 = n.digits()[0];
            loop {
                let rem = n64.wrapping_mul(x) - 1;
                if rem == 0 {
                    break;
                }
                x += 1 << rem.trailing_zeros();
            }
            assert!(n64.wrapping_mul(x) == 1);
            // Now compute R-x
            !x + 1
        };
        ZmodN {
            n,
            ninv64,
            k,
            r: MInt::from_uint(r),
            r2: MInt::from_uint(r2),
        }
    }
//! ---- annotated ----
    pub fn new(n: Uint) -> (zn: Self)
        requires
            // exactly what the function's own guards admit: n odd, at most 512 bits
            uv(n) % 2 == 1, bitlen(uv(n)) <= 512,
        ensures zn.wf(), zn.nval() == uv(n),
    {
        proof {
            // SIZE GUARD vs ARITHMETIC: mint_add / redc are valid for 2n <= 2^512 only, the guard admits 512 bits.
            // This obligation is false for 2^511 <= n < 2^512 (finding F7); everything below is proved from it.
            assert(bitlen(uv(n)) <= 511);
        }
        assert!(n.bit(0));
        assert!(n.bits() <= 64 * MINT_WORDS as u32);
        let k = (n.bits() + 63) / 64;
        assert!(n.bits() <= 64 * k);
        let ghost nv = uv(n);
        let ghost rr = pow_w(k as nat);
        proof {
            vstd::arithmetic::power2::lemma2_to64();
            lemma_bitlen_bound(nv, (64 * k) as nat);
            lemma_pow_w_is_pow2(k as nat);
            assert(nv < rr);
        }
        let rsqrt = ol_uint_one_shl(32 * k);
        proof {
            assert(k <= 8);
            lemma_pow_w_is_pow2(16);
            vstd::arithmetic::power2::lemma_pow2_adds((32 * k) as nat, (32 * k) as nat);
            vstd::arithmetic::power2::lemma_pow2_strictly_increases((64 * k) as nat, 1024);
            assert(uv(rsqrt) * uv(rsqrt) == rr);
            assert(rr < pow_w(16));
            axiom_buint_mul(rsqrt, rsqrt);
            vstd::arithmetic::div_mod::lemma_small_mod(rr, pow_w(16));
            axiom_buint_rem(rsqrt.mul_spec(rsqrt), n);
        }
        let r = (rsqrt * rsqrt) % n;
        proof {
            vstd::arithmetic::div_mod::lemma_mod_bound(rr as int, nv as int);
            // r * r < n * n < 2^1022
            lemma_mul_lt(uv(r) as int, nv as int, uv(r) as int, nv as int);
            lemma_bitlen_bound(nv, 511);
            let p511 = vstd::arithmetic::power2::pow2(511) as int;
            lemma_mul_lt(nv as int, p511, nv as int, p511);
            vstd::arithmetic::power2::lemma_pow2_adds(511, 511);
            vstd::arithmetic::power2::lemma_pow2_strictly_increases(1022, 1024);
            lemma_mul_nonneg(uv(r) as int, uv(r) as int);
            assert(uv(r) * uv(r) < pow_w(16));
            vstd::arithmetic::div_mod::lemma_small_mod(uv(r) * uv(r), pow_w(16));
            axiom_buint_mul(r, r);
            axiom_buint_rem(r.mul_spec(r), n);
        }
        let r2 = (r * r) % n;
        let ninv64 = {
            // Invariant: nx = 1 + 2^k s, k increasing
            let mut x = 1_u64;
            let n64 = n.digits()[0];
            let ghost mut kk: nat = 1;
            proof {
                axiom_udigits(n); lemma_limbs_low(udigits(n)); lemma_pow_w_unfold(0);
                lemma_mod_of_mod(nv as int, W() as int, 2);
                assert(n64 % 2 == 1);
                lemma_mul_one(n64 as int);
                assert(vstd::arithmetic::power2::pow2(1) == 2);
                vstd::arithmetic::div_mod::lemma_fundamental_div_mod(n64 as int, 2);
                vstd::arithmetic::div_mod::lemma_mod_multiples_basic(n64 as int / 2, 2);
                assert(vstd::arithmetic::power2::pow2(64) as int == two64());
            }
            loop
                invariant
                    n64 % 2 == 1, 1 <= kk <= 64, vstd::arithmetic::power2::pow2(64) as int == two64(),
                    (n64 as int * x as int - 1) % (vstd::arithmetic::power2::pow2(kk) as int) == 0,
                    1 <= x, (x as int) < vstd::arithmetic::power2::pow2(kk) as int,
                ensures (n64 as int * x as int - 1) % two64() == 0, 1 <= x,
                decreases 64 - kk
            {
                let ghost a = n64 as int * x as int - 1;
                let ghost x0 = x;
                proof {
                    vstd::arithmetic::power2::lemma2_to64();
                    lemma_pow2_divides(1, kk); vstd::arithmetic::power2::lemma_pow2_pos(kk);
                    lemma_dvd_trans_mod(a, vstd::arithmetic::power2::pow2(kk) as int, 2);
                    lemma_pow2_divides(1, 64);
                    lemma_mod_of_mod(a + 1, two64(), 2);
                    assert((a + 1) % 2 == 1);
                    lemma_mul_nonneg(n64 as int, x as int);
                }
                let rem = n64.wrapping_mul(x) - 1;
                proof {
                    vstd::arithmetic::div_mod::lemma_fundamental_div_mod(a + 1, two64());
                    let c = (a + 1) / two64();
                    vstd::arithmetic::div_mod::lemma_mod_multiples_vanish(c, rem as int, two64());
                    vstd::arithmetic::div_mod::lemma_small_mod(rem as nat, two64() as nat);
                    assert(a % two64() == rem as int);
                }
                if rem == 0 {
                    break;
                }
                proof {
                    let tz = u64_trailing_zeros(rem);
                    lemma_tz_arith(rem, tz);
                    let t = tz as nat;
                    // t >= kk (from the step lemma), so x < 2^kk <= 2^t and x + 2^t < 2^(t+1) <= 2^64
                    let x2 = x as int + vstd::arithmetic::power2::pow2(t) as int;
                    vstd::arithmetic::div_mod::lemma_mod_multiples_basic(0, two64());
                    lemma_2adic_step(n64 as int, x as int, 64, kk, rem as int, t, x2);
                    lemma_pow2_divides(kk, t);
                    vstd::arithmetic::power2::lemma_pow2_pos((t - kk) as nat);
                    lemma_mul_le(1, vstd::arithmetic::power2::pow2((t - kk) as nat) as int, vstd::arithmetic::power2::pow2(kk) as int);
                    vstd::arithmetic::power2::lemma_pow2_unfold(t + 1);
                    if t + 1 < 64 { vstd::arithmetic::power2::lemma_pow2_strictly_increases(t + 1, 64); }
                    assert(1u64 << (tz as u64) == vstd::arithmetic::power2::pow2(t)) by { vstd::bits::lemma_u64_shl_is_mul(1, tz as u64); vstd::arithmetic::power2::lemma_pow2_strictly_increases(t, 64); };
                    assert((1u64 << tz) == (1u64 << (tz as u64))) by (bit_vector) requires tz < 64;
                    kk = t + 1;
                }
                x += 1 << rem.trailing_zeros();
            }
            assert!(n64.wrapping_mul(x) == 1);
            proof {
                let a = n64 as int * x as int - 1;
                vstd::arithmetic::div_mod::lemma_fundamental_div_mod(a, two64());
                let c = a / two64();
                vstd::arithmetic::div_mod::lemma_small_mod(1, two64() as nat);
                vstd::arithmetic::div_mod::lemma_mod_multiples_vanish(c, 1, two64());
                assert(!x == 0xffff_ffff_ffff_ffffu64 - x) by (bit_vector);
            }
            // Now compute R-x
            !x + 1
        };
        proof {
            // ninv64 == 2^64 - x: (n mod W) * ninv64 ≡ -1 (mod W)
            let x = two64() - ninv64 as int;
            let n64 = (nv % W()) as int;
            let a = n64 * x - 1;
            vstd::arithmetic::div_mod::lemma_fundamental_div_mod(a, two64());
            let c = a / two64();
            lemma_distrib_l_sub(n64, two64(), x);
            lemma_mul_comm(n64, two64());
            lemma_distrib_l_sub(two64(), n64, c);
            assert(n64 * ninv64 as int + 1 == two64() * (n64 - c));
            vstd::arithmetic::div_mod::lemma_mod_multiples_basic(n64 - c, two64());
            lemma_mul_comm(n64 - c, two64());
            // limbs of r and r2 after truncation to 8 words
            axiom_udigits(r); axiom_udigits(r2);
            lemma_pow_w_mono(k as nat, 8);
            vstd::arithmetic::div_mod::lemma_mod_bound(uv(r.mul_spec(r)) as int, nv as int);
            lemma_limbs_small_words(udigits(r), 8);
            lemma_limbs_small_words(udigits(r2), 8);
            lemma_pow_w_add(k as nat, k as nat);
            // 2n <= W^8 when k == 8
            if k == 8 { lemma_pow_w_is_pow2(8); vstd::arithmetic::power2::lemma_pow2_unfold(512); lemma_bitlen_bound(nv, 511); }
            assert(k >= 1) by { if nv > 0 { assert(bitlen(nv) >= 1); } };
            assert(k == 8 ==> 2 * nv <= pow_w(8));
            let nl = (nv % W()) as int;
            assert((nl * ninv64 as int + 1) % two64() == 0);
            vstd::arithmetic::div_mod::lemma_fundamental_div_mod(nl * ninv64 as int + 1, two64());
            lemma_mul_nonneg(nl, ninv64 as int);
            let q = (nl * ninv64 as int + 1) / two64();
            vstd::arithmetic::div_mod::lemma_fundamental_div_mod_converse(nl * ninv64 as int, two64(), q - 1, two64() - 1);
            assert((nv % W()) * (ninv64 as nat) % W() == W() - 1);
            assert(limbs(udigits(r).take(8)) == rr % nv);
            vstd::arithmetic::div_mod::lemma_mul_mod_noop(rr as int, rr as int, nv as int);
            assert(limbs(udigits(r2).take(8)) == (rr * rr) % nv);
        }
        ZmodN {
            n,
            ninv64,
            k,
            r: MInt::from_uint(r),
            r2: MInt::from_uint(r2),
        }
    }
