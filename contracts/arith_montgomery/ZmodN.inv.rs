//! unit: {"container": "impl ZmodN", "file": "src/arith_montgomery.rs", "kind": "fn", "name": "inv", "props": ["C07", "C03"]}
//! ---- pinned ----
    pub fn inv(&self, x: MInt) -> Option<MInt> {
        // No optimization, use ordinary modular inversion.
        // Input is xR we want R/x
        let i = arith_gcd::inv_mod(&BUint::from_digits(x.0), &BUint::cast_from(self.n)).ok()?;
        // Multiply by R twice
        let i = self.from_int(Uint::cast_from(i));
        Some(self.mul(&i, &self.r2))
    }
//! ---- annotated ----
    pub fn inv(&self, x: MInt) -> (r: Option<MInt>)
        requires
            self.wf(), x.val() < self.nval(), self.nval() >= 3,
            // the range in which the assumed contract of arith_gcd::inv_mod applies (F8)
            bitlen(self.nval()) <= 500,
        ensures
            r matches Some(m) ==> m.val() < self.nval()
                && forall|xv: nat| grep(x.val(), xv, self.nval(), self.rr())
                    ==> exists|iv: nat| grep(m.val(), iv, self.nval(), self.rr()) && #[trigger] ((iv * xv) % self.nval()) == 1,
    {
        let ghost nn = uv(self.n);
        let ghost rr = pow_w(self.k as nat);
        let ghost ee = 64 * (self.k as nat);
        proof {
            broadcast use axiom_borrow_ref;
            self.lemma_wf_r();
            lemma_mod_bound((rr * rr) as int, nn as int);
            lemma_pow_w_is_pow2(self.k as nat);
            lemma_pow_w_is_pow2(8);
            lemma_bitlen_bound(nn, 500);
            lemma2_to64();
            lemma_pow2_strictly_increases(500, 512);
            lemma_small_mod(nn, pow_w(8));
            // x.val() < n < 2^500
            lemma_bitlen_le(x.val(), 500);
            lemma_small_mod(1, nn);
        }
        // No optimization, use ordinary modular inversion.
        // Input is xR we want R/x
        let i = arith_gcd::inv_mod(&BUint::from_digits(x.0), &BUint::cast_from(self.n)).ok()?;
        proof {
            axiom_uv_bound(i);
            lemma_pow_w_mono(8, 16);
            lemma_small_mod(uv(i), pow_w(16));
        }
        // Multiply by R twice
        let ghost iv0 = uv(i);
        let i = self.from_int(Uint::cast_from(i));
        let res = self.mul(&i, &self.r2);
        proof {
            broadcast use axiom_borrow_ref;
            // i = iv0 R, r2 = (R % n) R:  res = iv0 (R % n) R
            lemma_small_mod(iv0, nn);
            assert(grep(i.val(), iv0, nn, rr));
            let r1 = rr % nn;
            lemma_mod_bound(rr as int, nn as int);
            lemma_mul_mod_noop_left(rr as int, rr as int, nn as int);
            assert(grep(self.r2.val(), r1, nn, rr));
            lemma_grep_mul(i.val(), iv0, self.r2.val(), r1, res.val(), nn, rr, ee);
            let iv = (iv0 * r1) % nn;
            assert forall|xv: nat| grep(x.val(), xv, nn, rr)
                implies exists|w: nat| grep(res.val(), w, nn, rr) && #[trigger] ((w * xv) % nn) == 1 by {
                // (xv R % n) iv0 ≡ 1  =>  iv xv = iv0 (R % n) xv ≡ iv0 (xv R) ≡ 1
                lemma_mul_mod_noop_left((iv0 * r1) as int, xv as int, nn as int);
                lemma_mul_assoc(iv0 as int, r1 as int, xv as int);
                lemma_mul_mod_noop_right(iv0 as int, (r1 * xv) as int, nn as int);
                lemma_mul_mod_noop_left(rr as int, xv as int, nn as int);
                lemma_mul_comm(rr as int, xv as int);
                lemma_mul_comm(x.val() as int, iv0 as int);
                assert((r1 * xv) % nn == x.val());
                assert(grep(res.val(), iv, nn, rr) && ((iv * xv) % nn) == 1);
            }
        }
        Some(res)
    }
