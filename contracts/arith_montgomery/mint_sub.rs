//! unit: {"file": "src/arith_montgomery.rs", "kind": "fn", "name": "mint_sub", "props": ["C07", "C03"]}
//! ---- pinned ----
/// Subtract 2 integers x > y spanning at most sz words.
fn mint_sub(x: &mut [u64; MINT_WORDS], y: &[u64], sz: u32) {
    debug_assert!(Uint::from(MInt(*x)) >= Uint::from(MInt(y[..MINT_WORDS].try_into().unwrap())));
    // Store x-y (actually x + NOT y + 1)
    // The carry must propagate until the end unless x[sz]==0.
    let sz = sz as usize;
    let mut carry = 1_u64;
    for i in 0..sz {
        unsafe {
            let xi = x.get_unchecked_mut(i);
            let yi = *y.get_unchecked(i);
            let sum = (*xi as u128) + ((!yi) as u128);
            let zw = sum + (carry as u128);
            *xi = zw as u64;
            carry = (zw >> 64) as u64;
        }
    }
    if sz < MINT_WORDS {
        debug_assert!(x[sz] == 1 - carry);
        x[sz] = 0;
    } else {
        debug_assert!(carry == 1);
    }
}
//! ---- annotated ----
/// Subtract 2 integers x > y spanning at most sz words.
fn mint_sub(x: &mut [u64; MINT_WORDS], y: &[u64], sz: u32)
    requires
        sz <= 8, y.len() >= 8,
        forall|k: int| sz < k < 8 ==> old(x)@[k] == 0,
        forall|k: int| sz <= k < 8 ==> y@[k] == 0,
        limbs(old(x)@) >= limbs(y@.take(sz as int)),
        limbs(old(x)@) - limbs(y@.take(sz as int)) < pow_w(sz as nat),
    ensures
        limbs(final(x)@) == limbs(old(x)@) - limbs(y@.take(sz as int)),
        limbs(final(x)@.take(sz as int)) == limbs(final(x)@),
        forall|k: int| sz <= k < 8 ==> final(x)@[k] == 0,
{
    proof {
        // the run-time check of the original: x >= y as 512-bit numbers
        lemma_limbs_split(y@.take(8), sz as int);
        assert(y@.take(8).take(sz as int) =~= y@.take(sz as int));
        lemma_limbs_zero(y@.take(8).skip(sz as int));
        lemma_mul_nonneg(pow_w(sz as nat) as int, 0);
        assert(limbs(x@) >= limbs(y@.take(8)));
    }
    // Store x-y (actually x + NOT y + 1)
    // The carry must propagate until the end unless x[sz]==0.
    let sz = sz as usize;
    let mut carry = 1_u64;
    let ghost x0 = x@;
    proof {
        lemma_limbs_empty(); lemma_pow_w_unfold(0);
        assert(x@.take(0) =~= Seq::<u64>::empty());
        assert(y@.take(0) =~= Seq::<u64>::empty());
    }
    for i in 0..sz
        invariant
            sz <= 8, y.len() >= 8, x0.len() == 8, carry <= 1,
            forall|k: int| i <= k < 8 ==> x@[k] == x0[k],
            limbs(x@.take(i as int)) + pow_w(i as nat) * (carry as nat) + limbs(y@.take(i as int)) == limbs(x0.take(i as int)) + pow_w(i as nat),
    {
        {
            let ghost xprev = x@;
            let ghost c0 = carry;
            let xi = &mut x[i];
            let yi = y[i];
            let sum = (*xi as u128) + ((!yi) as u128);
            let zw = sum + (carry as u128);
            *xi = zw as u64;
            carry = (zw >> 64) as u64;
            proof {
                lemma_u128_split(zw);
                assert((zw >> 64) <= 1) by (bit_vector) requires zw <= 0x1_ffff_ffff_ffff_ffffu128;
                assert((!yi) as nat + yi as nat == W() - 1) by {
                    assert(!yi == 0xffff_ffff_ffff_ffffu64 - yi) by (bit_vector);
                    lemma_pow_w_unfold(0);
                };
                lemma_pow_w_unfold(i as nat);
                lemma_limbs_take_step(x@, i as int);
                lemma_limbs_take_step(x0, i as int);
                lemma_limbs_take_step(y@, i as int);
                assert(x@.take(i as int) =~= xprev.take(i as int));
                let pi = pow_w(i as nat) as int;
                lemma_carry_step(pi, W() as int, (zw as u64) as int, carry as int, x0[i as int] as int, (!yi) as int, c0 as int);
                lemma_distrib_l(pi, (!yi) as int + yi as int, 1);
                lemma_distrib_l(pi, (!yi) as int, yi as int);
                lemma_mul_comm(pi, W() as int);
            }
        }
    }
    let ghost xl = x@;
    proof {
        // x0 == x0[..sz] + W^sz * x0[sz] (higher words are zero)
        lemma_limbs_split(x0, sz as int);
        lemma_limbs_bound(x@.take(sz as int));
        lemma_limbs_bound(x0.take(sz as int));
        lemma_pow_w_pos(sz as nat);
        if sz < 8 {
            let hi = x0.skip(sz as int);
            lemma_limbs_split(hi, 1);
            lemma_limbs_zero(hi.skip(1));
            lemma_limbs_take_step(hi, 0);
            assert(hi.take(0) =~= Seq::<u64>::empty());
            lemma_limbs_empty(); lemma_pow_w_unfold(0);
            assert(limbs(hi) == x0[sz as int] as nat) by { lemma_mul_nonneg(pow_w(1) as int, 0); assert(hi[0] == x0[sz as int]); }
            let ps = pow_w(sz as nat) as int;
            let top = x0[sz as int] as int;
            // limbs(x0) - ylo in [0, ps): decide the carry
            if carry == 1 {
                assert(ps * 1 == ps);
                if top >= 1 { lemma_mul_le(1, top, ps); lemma_mul_comm(ps, top); assert(false); }
                assert(ps * 0 == 0);
            } else {
                assert(ps * 0 == 0);
                if top == 0 { assert(false); }
                if top >= 2 { lemma_mul_le(2, top, ps); lemma_mul_comm(ps, top); assert(false); }
                assert(ps * 1 == ps);
            }
        } else {
            assert(x0.skip(8) =~= Seq::<u64>::empty());
            lemma_limbs_empty();
            lemma_mul_nonneg(pow_w(sz as nat) as int, 0);
            assert(x0.take(8) =~= x0);
            if carry == 0 { assert(pow_w(sz as nat) * 0 == 0); assert(false); }
            assert(pow_w(sz as nat) * 1 == pow_w(sz as nat));
        }
    }
    if sz < MINT_WORDS {
        debug_assert!(x[sz] == 1 - carry);
        x[sz] = 0;
    } else {
        debug_assert!(carry == 1);
    }
    proof {
        lemma_limbs_split(x@, sz as int);
        assert(x@.take(sz as int) =~= xl.take(sz as int));
        assert forall|k: int| sz <= k < 8 implies x@[k] == 0 by {
            if k > sz { assert(x@[k] == xl[k]); assert(xl[k] == x0[k]); }
        }
        assert forall|j: int| 0 <= j < x@.skip(sz as int).len() implies x@.skip(sz as int)[j] == 0 by {
            assert(x@.skip(sz as int)[j] == x@[j + sz]);
        }
        lemma_limbs_zero(x@.skip(sz as int));
        lemma_mul_nonneg(pow_w(sz as nat) as int, 0);
    }
}
