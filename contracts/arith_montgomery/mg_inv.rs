//! unit: {"file": "src/arith_montgomery.rs", "kind": "fn", "name": "mg_inv", "props": ["C07", "C03"]}
//! ---- pinned ----
/// Inverse of Montgomery representation:
/// input is xR mod p, output is R/x mod p
pub fn mg_inv(n: u64, ninv: u64, r2: u64, x: u64) -> Option<u64> {
    // mm = m/R
    let mm = mg_redc(n, ninv, x as u128);
    let mminv = arith::inv_mod64(mm, n)?;
    // minv = R/mm = R^2/m
    Some(mg_mul(n, ninv, mminv, r2))
}
//! ---- annotated ----
/// Inverse of Montgomery representation:
/// input is xR mod p, output is R/x mod p
pub fn mg_inv(n: u64, ninv: u64, r2: u64, x: u64) -> (r: Option<u64>)
    requires
        (n as int * ninv as int + 1) % two64() == 0,
        cong(r2 as int, two64() * two64(), n as int),
    ensures
        match r {
            Some(y) => y < n && mg_inv_post(y as int, x as int, n as int),
            None => !coprime(x as nat, n as nat),
        },
{
    proof {
        if n == 0 { assert((0 * ninv as int + 1) % two64() == 1) by (nonlinear_arith); }
        assert((x as int) < n as int * two64()) by (nonlinear_arith) requires n >= 1, (x as int) < two64();
    }
    // mm = m/R
    let mm = mg_redc(n, ninv, x as u128);
    proof {
        if !coprime(mm as nat, n as nat) { lemma_not_coprime_transfer(mm as nat, two64() as nat, x as nat, n as nat); }
    }
    let mminv = arith::inv_mod64(mm, n)?;
    proof {
        assert((mminv as int) * (r2 as int) < n as int * two64()) by (nonlinear_arith)
            requires 0 <= mminv as int, (mminv as int) < n as int, 0 <= r2 as int, (r2 as int) < two64();
        assert forall|y: int| cong(y * two64(), (mminv as int) * (r2 as int), n as int) implies #[trigger] mg_inv_post(y, x as int, n as int) by {
            lemma_mg_inv(y, x as int, mm as int, mminv as int, r2 as int, two64(), n as int);
        }
    }
    // minv = R/mm = R^2/m
    Some(mg_mul(n, ninv, mminv, r2))
}
