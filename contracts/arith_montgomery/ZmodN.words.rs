//! unit: {"container": "impl ZmodN", "file": "src/arith_montgomery.rs", "kind": "fn", "name": "words", "props": ["C07", "C03"]}
//! ---- pinned ----
    pub fn words(&self) -> usize {
        self.k as usize
    }
//! ---- annotated ----
    pub fn words(&self) -> (r: usize)
        ensures r == self.kval()
    {
        self.k as usize
    }
