//! unit: {"file": "src/arith_montgomery.rs", "kind": "const", "name": "MINT_WORDS", "props": ["C07"]}
//! ---- pinned ----
pub(crate) const MINT_WORDS: usize = 8;
//! ---- annotated ----
pub(crate) const MINT_WORDS: usize = 8;
