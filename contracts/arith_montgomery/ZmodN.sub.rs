//! unit: {"container": "impl ZmodN", "file": "src/arith_montgomery.rs", "kind": "fn", "name": "sub", "props": ["C07", "C03"]}
//! ---- pinned ----
    pub fn sub<M: Borrow<MInt>>(&self, x: M, y: M) -> MInt {
        debug_assert!(Uint::from(*x.borrow()) < self.n);
        debug_assert!(Uint::from(*y.borrow()) < self.n);
        let yp = &y.borrow().0;
        let mut s = *x.borrow();
        if mint_lt(&s.0, yp, self.k) {
            mint_add(&mut s.0, self.n.digits(), self.k)
        };
        mint_sub(&mut s.0, yp, self.k);
        debug_assert!(Uint::from(s) < self.n);
        s
    }
//! ---- annotated ----
    pub fn sub<M: Borrow<MInt>>(&self, x: M, y: M) -> (r: MInt)
        requires
            self.wf(),
            bview::<M, MInt>(&x).val() < self.nval(),
            bview::<M, MInt>(&y).val() < self.nval(),
        ensures
            r.val() < self.nval(),
            r.val() as int == (bview::<M, MInt>(&x).val() as int - bview::<M, MInt>(&y).val() as int) % (self.nval() as int),
    {
        proof {
            // the two run-time checks of the original: x < n, y < n
            assert(limbs(bview::<M, MInt>(&x).0@) < uv(self.n));
            assert(limbs(bview::<M, MInt>(&y).0@) < uv(self.n));
        }
        let ghost xv = bview::<M, MInt>(&x).0@;
        let ghost yv = bview::<M, MInt>(&y).0@;
        let ghost kk = self.k as int;
        let yp = &y.borrow().0;
        let mut s = *x.borrow();
        proof {
            lemma_limbs_small_words(xv, kk);
            lemma_limbs_small_words(yv, kk);
            axiom_udigits(self.n); lemma_limbs_small_words(udigits(self.n), kk);
            if kk == 8 { assert(xv.take(8) =~= xv);  }
            lemma_mod_range(limbs(xv) as int - limbs(yv) as int, uv(self.n) as int);
        }
        if mint_lt(&s.0, yp, self.k) {
            mint_add(&mut s.0, self.n.digits(), self.k)
        };
        proof {
            let s1 = s.0@;
            lemma_limbs_top(s1, kk);
            if kk == 8 { assert(s1.take(8) =~= s1); }
            else if limbs(xv) < limbs(yv) { lemma_mul_comm(pow_w(kk as nat) as int, (s1[kk] - xv[kk]) as int); }
        }
        mint_sub(&mut s.0, yp, self.k);
        proof { assert(limbs(s.0@) < uv(self.n)); }
        s
    }
