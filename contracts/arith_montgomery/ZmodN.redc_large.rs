//! unit: {"container": "impl ZmodN", "file": "src/arith_montgomery.rs", "kind": "fn", "name": "redc_large", "props": ["C07", "C03"]}
//! ---- pinned ----
    /// Like redc but for numbers possibly exceeding n<<64k
    /// It is assumed that x.len() <= 3 * MINT_WORDS (24)
    /// which is enough to accomodate FFT convolution outputs.
    pub fn redc_large(&self, x: &[u64]) -> MInt {
        debug_assert!(x.len() < 3 * MINT_WORDS);
        let mut xlo = [0_u64; 2 * MINT_WORDS];
        let mut xhi = [0_u64; 2 * MINT_WORDS];
        let k = self.k as usize;
        // Divide upper part by R.
        for i in 0..k {
            xlo[i] = x[i]
        }
        for i in k..x.len() {
            xhi[i - k] = x[i];
        }
        let m = self.redc(&xlo);
        let mhi = self.redc(&xhi);
        self.add(m, self.mul(mhi, self.r2))
    }
//! ---- annotated ----
    /// Like redc but for numbers possibly exceeding n<<64k
    /// It is assumed that x.len() <= 3 * MINT_WORDS (24)
    /// which is enough to accomodate FFT convolution outputs.
    pub fn redc_large(&self, x: &[u64]) -> (r: MInt)
        requires
            self.wf(),
            x.len() < 24, self.kval() <= x.len() <= self.kval() + 16,
            limbs(x@.skip(self.kval() as int)) < self.nval() * self.rr(),
        ensures
            r.val() < self.nval(),
            (r.val() * self.rr()) % self.nval() == limbs(x@) % self.nval(),
    {
        debug_assert!(x.len() < 3 * MINT_WORDS);
        let mut xlo = [0_u64; 2 * MINT_WORDS];
        let mut xhi = [0_u64; 2 * MINT_WORDS];
        let k = self.k as usize;
        // Divide upper part by R.
        for i in 0..k
            invariant k <= x.len(), k <= 8,
                forall|j: int| 0 <= j < i ==> xlo@[j] == x@[j],
                forall|j: int| i <= j < 16 ==> xlo@[j] == 0,
        {
            xlo[i] = x[i]
        }
        for i in k..x.len()
            invariant k <= x.len() <= k + 16,
                forall|j: int| k <= j < i ==> xhi@[j - k] == x@[j],
                forall|j: int| i - k <= j < 16 ==> xhi@[j] == 0,
        {
            xhi[i - k] = x[i];
        }
        let ghost n = uv(self.n) as int;
        let ghost rr = pow_w(self.k as nat) as int;
        let ghost lo = limbs(x@.take(k as int)) as int;
        let ghost hi = limbs(x@.skip(k as int)) as int;
        proof {
            lemma_limbs_high_zero(xlo@, k as int);
            assert(xlo@.take(k as int) =~= x@.take(k as int));
            lemma_limbs_high_zero(xhi@, x.len() - k);
            assert(xhi@.take(x.len() - k) =~= x@.skip(k as int));
            lemma_limbs_split(x@, k as int);
            lemma_pow_w_pos(self.k as nat);
            lemma_mul_le(1, n, rr); lemma_mul_one(rr); lemma_mul_comm(n, rr);
            assert(lo < n * rr);
        }
        let m = self.redc(&xlo);
        let mhi = self.redc(&xhi);
        proof {
            broadcast use axiom_borrow_self;
            vstd::arithmetic::div_mod::lemma_mod_bound(rr * rr, n);
            // whatever mul and add return: (m + t)*R ≡ lo + hi*R where t*R ≡ mhi * (R*R mod n)
            assert forall|t: MInt, s: MInt| t.val() < uv(self.n)
                && (t.val() * pow_w(self.k as nat)) % uv(self.n) == (mhi.val() * limbs(self.r2.0@)) % uv(self.n)
                && s.val() == (m.val() + t.val()) % uv(self.n)
                implies (#[trigger] s.val() * pow_w(self.k as nat)) % uv(self.n) == limbs(x@) % uv(self.n) + 0 * #[trigger] t.val() by {
                let tv = t.val() as int; let sv = s.val() as int; let mv = m.val() as int; let hv = mhi.val() as int;
                // t ≡ mhi*R
                lemma_cong_mod(rr * rr, n);
                lemma_cong_mul((rr * rr) % n, rr * rr, hv, n);
                lemma_mul_assoc(hv, rr, rr);
                assert(cong(tv * rr, (hv * rr) * rr, n));
                lemma_cancel_pow_w(tv, hv * rr, n, self.k as nat);
                // t ≡ hi  (mhi*R ≡ hi)
                assert(cong(tv, hi, n));
                // s ≡ m + t
                lemma_cong_mod(mv + tv, n);
                lemma_cong_mul(sv, mv + tv, rr, n);
                lemma_distrib_r(mv, tv, rr);
                // (m + t)*R ≡ lo + hi*R
                lemma_cong_mul(tv, hi, rr, n);
                lemma_cong_add(mv * rr, lo, tv * rr, hi * rr, n);
                lemma_mul_comm(hi, rr);
                assert(cong(sv * rr, lo + rr * hi, n));
                lemma_mul_one(tv);
            }
        }
        self.add(m, self.mul(mhi, self.r2))
    }
