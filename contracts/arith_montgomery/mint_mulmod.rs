//! unit: {"file": "src/arith_montgomery.rs", "kind": "fn", "name": "mint_mulmod", "props": ["C07", "C03"]}
//! ---- pinned ----
fn mint_mulmod(zn: &ZmodN, res: &mut [u64], x: &[u64], y: &[u64], sz: u32) {
    match sz {
        // Dispatch to unrolled implementations
        1 => _mint_mulmod::<1>(zn, res, x, y),
        2 => _mint_mulmod::<2>(zn, res, x, y),
        3 => _mint_mulmod::<3>(zn, res, x, y),
        4 => _mint_mulmod::<4>(zn, res, x, y),
        5 => _mint_mulmod::<5>(zn, res, x, y),
        6 => _mint_mulmod::<6>(zn, res, x, y),
        7 => _mint_mulmod::<7>(zn, res, x, y),
        8 => _mint_mulmod::<8>(zn, res, x, y),
        _ => unreachable!("impossible"),
    }
}
//! ---- annotated ----
fn mint_mulmod(zn: &ZmodN, res: &mut [u64], x: &[u64], y: &[u64], sz: u32)
    requires
        1 <= sz <= 8, old(res).len() == 8, x.len() >= sz, y.len() >= sz,
        zn.nval() < pow_w(sz as nat), zn.nval() % 2 == 1,
        (zn.nval() % W()) * (zn.ninv() as nat) % W() == W() - 1,
        limbs(y@.take(sz as int)) < zn.nval(),
    ensures
        final(res).len() == 8,
        forall|k: int| sz <= k < 8 ==> final(res)@[k] == old(res)@[k],
        limbs(final(res)@.take(sz as int)) < 2 * zn.nval(),
        (limbs(final(res)@.take(sz as int)) * pow_w(sz as nat)) % zn.nval()
            == (limbs(x@.take(sz as int)) * limbs(y@.take(sz as int))) % zn.nval(),
{
    proof { lemma_pow_w_unfold(0); }
    match sz {
        // Dispatch to unrolled implementations
        1 => _mint_mulmod::<1>(zn, res, x, y),
        2 => _mint_mulmod::<2>(zn, res, x, y),
        3 => _mint_mulmod::<3>(zn, res, x, y),
        4 => _mint_mulmod::<4>(zn, res, x, y),
        5 => _mint_mulmod::<5>(zn, res, x, y),
        6 => _mint_mulmod::<6>(zn, res, x, y),
        7 => _mint_mulmod::<7>(zn, res, x, y),
        8 => _mint_mulmod::<8>(zn, res, x, y),
        _ => unreachable!("impossible"),
    }
}
