//! unit: {"file": "src/arith_montgomery.rs", "kind": "fn", "name": "_mint_mulmod", "props": ["C07", "C03"]}
//! ---- pinned ----
fn _mint_mulmod<const SIZE: usize>(zn: &ZmodN, res: &mut [u64], x: &[u64], y: &[u64]) {
    // SIZE times, multiply by a word of y,
    // multiply by lower*ninv64*N to cancel 1 word.
    let ninv64 = zn.ninv64;
    let n = &zn.n.digits();
    debug_assert!(SIZE <= MINT_WORDS);
    let mut z = [0_u64; 2 * MINT_WORDS];
    let mut overflow = false;
    for i in 0..SIZE {
        // Accumulate x[i] * y in z.
        let mut carry = 0_u64;
        let xi = unsafe { *x.get_unchecked(i) };
        for j in 0..SIZE {
            unsafe {
                let xi = xi as u128;
                let yj = *y.get_unchecked(j) as u128;
                let zij = z[..].get_unchecked_mut(i + j);
                let mut xy = xi * yj;
                xy += *zij as u128;
                xy += carry as u128;
                *zij = xy as u64;
                carry = (xy >> 64) as u64;
            }
        }
        // Add m * N to cancel the lower word.
        let m = z[i].wrapping_mul(ninv64);
        let mut carryn = 0;
        for j in 0..SIZE {
            unsafe {
                let nj = *n.get_unchecked(j) as u128;
                let zij = z[..].get_unchecked_mut(i + j);
                let mut xy = (m as u128) * nj;
                xy += *zij as u128;
                xy += carryn as u128;
                *zij = xy as u64;
                carryn = (xy >> 64) as u64;
            }
        }
        debug_assert!(z[i] == 0);
        let (zi, c1) = z[i + SIZE].overflowing_add(carry);
        let (zin, c2) = zi.overflowing_add(carryn);
        z[i + SIZE] = zin;
        if c1 || c2 {
            if i + 1 < SIZE {
                z[i + SIZE + 1] = u64::from(c1) + u64::from(c2);
            } else {
                overflow = true;
            }
        }
    }
    for i in 0..SIZE {
        res[i] = z[i + SIZE]
    }
    if overflow {
        // Add 2^64W - n = not(n)+1
        let mut carry = 1;
        for i in 0..SIZE {
            let s = res[i] as u128 + !n[i] as u128 + carry as u128;
            res[i] = s as u64;
            carry = (s >> 64) as u64;
        }
        if carry > 0 {
            // FIXME: can it happen?
            res[SIZE] = 1
        }
    }
}
//! ---- annotated ----
fn _mint_mulmod<const SIZE: usize>(zn: &ZmodN, res: &mut [u64], x: &[u64], y: &[u64])
    requires
        1 <= SIZE <= 8, old(res).len() == 8, x.len() >= SIZE, y.len() >= SIZE,
        zn.nval() < pow_w(SIZE as nat), zn.nval() % 2 == 1,
        (zn.nval() % W()) * (zn.ninv() as nat) % W() == W() - 1,
        0 <= zn.ninv() < W(),
        limbs(y@.take(SIZE as int)) < zn.nval(),
    ensures
        final(res).len() == 8,
        forall|k: int| SIZE <= k < 8 ==> final(res)@[k] == old(res)@[k],
        limbs(final(res)@.take(SIZE as int)) < 2 * zn.nval(),
        (limbs(final(res)@.take(SIZE as int)) * pow_w(SIZE as nat)) % zn.nval()
            == (limbs(x@.take(SIZE as int)) * limbs(y@.take(SIZE as int))) % zn.nval(),
{
    // SIZE times, multiply by a word of y,
    // multiply by lower*ninv64*N to cancel 1 word.
    let ninv64 = zn.ninv64;
    let n = &zn.n.digits();
    debug_assert!(SIZE <= MINT_WORDS);
    let mut z = [0_u64; 2 * MINT_WORDS];
    let mut overflow = false;
    let ghost nn = zn.nval();
    let ghost yy = limbs(y@.take(SIZE as int));
    let ghost mut mm: nat = 0;
    proof {
        lemma_limbs_zero(z@);
        assert(x@.take(0) =~= Seq::<u64>::empty());
        lemma_limbs_empty();
        assert(limbs(x@.take(0)) == 0);
        assert(pow_w(0) == 1);
        lemma_limbs_split(n@, SIZE as int);
        lemma_limbs_bound(n@.take(SIZE as int));
        lemma_limbs_take_small(n@, SIZE as int);
        lemma_limbs_low(n@);
    }
    for i in 0..SIZE
        invariant
            1 <= SIZE <= 8, x.len() >= SIZE, y.len() >= SIZE, n@.len() == 16,
            res.len() == 8,
            nn == zn.nval(), yy == limbs(y@.take(SIZE as int)), yy < nn, nn < pow_w(SIZE as nat),
            limbs(n@.take(SIZE as int)) == nn,
            (n@[0] as nat * (ninv64 as nat) + 1) % W() == 0,
            mm < pow_w(i as nat),
            limbs(z@) + (if overflow { pow_w(2 * SIZE as nat) } else { 0 }) == limbs(x@.take(i as int)) * yy + mm * nn,
            forall|j: int| 0 <= j < i ==> z@[j] == 0,
            forall|j: int| (i + SIZE < j || 2 * SIZE <= j) && j < 16 ==> z@[j] == 0,
            i < SIZE ==> !overflow,
    {
        // Accumulate x[i] * y in z.
        let mut carry = 0_u64;
        let xi = { x[i] };
        let ghost z0 = z@;
        proof {
            lemma_pow_w_pos(i as nat);
            assert(y@.take(0) =~= Seq::<u64>::empty());
            lemma_limbs_empty();
            assert(limbs(y@.take(0)) == 0);
            assert((xi as nat) * 0 == 0);
            assert(pow_w(i as nat) * 0 == 0);
        }
        for j in 0..SIZE
            invariant
                1 <= SIZE <= 8, i < SIZE, y.len() >= SIZE, xi == x@[i as int],
                limbs(z@) + pow_w((i + j) as nat) * (carry as nat) == limbs(z0) + pow_w(i as nat) * ((xi as nat) * limbs(y@.take(j as int))),
                forall|k: int| 0 <= k < i ==> z@[k] == z0[k],
                forall|k: int| i + j <= k < 16 ==> z@[k] == z0[k],
        {
            {
                let xi = xi as u128;
                let yj = y[j] as u128;
                let ghost zprev = z@;
                let ghost zij_old = z@[i + j];
                let ghost c0 = carry;
                proof {
                    lemma_u64_mul_bound(xi as int, yj as int);
                }
                let zij = &mut z[i + j];
                let mut xy = xi * yj;
                xy += *zij as u128;
                xy += carry as u128;
                *zij = xy as u64;
                carry = (xy >> 64) as u64;
                proof {
                    lemma_u128_split(xy); assert(W() == 0x1_0000_0000_0000_0000nat);
                    lemma_limbs_update(zprev, (i + j) as int, xy as u64);
                    lemma_limbs_take_step(y@, j as int);
                    lemma_pow_w_add(i as nat, j as nat);
                    let pij = pow_w((i + j) as nat); let pi = pow_w(i as nat); let pj = pow_w(j as nat);
                    assert(pow_w((i + j + 1) as nat) == W() * pij);
                    let a = (xy as u64) as nat; let c1 = carry as nat; let c00 = c0 as nat; let zo = zij_old as nat;
                    let xin = xi as nat; let yjn = yj as nat; let ly = limbs(y@.take(j as int));
                    assert(a + W() * c1 == xin * yjn + zo + c00);
                    assert(limbs(z@) + pij * zo == limbs(zprev) + pij * a);
                    assert(limbs(zprev) + pij * c00 == limbs(z0) + pi * (xin * ly));
                    lemma_mac_step(limbs(z@) as int, limbs(zprev) as int, limbs(z0) as int, W() as int, pij as int, pi as int, pj as int,
                        a as int, c1 as int, xin as int, yjn as int, zo as int, c00 as int, ly as int);
                }
            }
        }
        // Add m * N to cancel the lower word.
        let m = z[i].wrapping_mul(ninv64);
        let mut carryn = 0;
        let ghost z1 = z@;
        proof {
            assert(y@.take(SIZE as int) =~= y@.take(SIZE as int));
            assert(z1[i as int] == z@[i as int]);
            assert(n@.take(0) =~= Seq::<u64>::empty());
            lemma_limbs_empty();
            assert(limbs(n@.take(0)) == 0);
            assert((m as nat) * 0 == 0);
            assert(pow_w(i as nat) * 0 == 0);
        }
        for j in 0..SIZE
            invariant
                1 <= SIZE <= 8, i < SIZE, n@.len() == 16,
                m as nat == (z1[i as int] as nat * (ninv64 as nat)) % W(),
                (n@[0] as nat * (ninv64 as nat) + 1) % W() == 0,
                limbs(z@) + pow_w((i + j) as nat) * (carryn as nat) == limbs(z1) + pow_w(i as nat) * ((m as nat) * limbs(n@.take(j as int))),
                forall|k: int| 0 <= k < i ==> z@[k] == z1[k],
                forall|k: int| i + j <= k < 16 ==> z@[k] == z1[k],
                j >= 1 ==> z@[i as int] == 0,
                j == 0 ==> carryn == 0,
        {
            {
                let nj = n[j] as u128;
                let ghost zprev = z@;
                let ghost zij_old = z@[i + j];
                let ghost c0 = carryn;
                proof {
                    lemma_u64_mul_bound(m as int, nj as int);
                }
                let zij = &mut z[i + j];
                let mut xy = (m as u128) * nj;
                xy += *zij as u128;
                xy += carryn as u128;
                *zij = xy as u64;
                carryn = (xy >> 64) as u64;
                proof {
                    lemma_u128_split(xy); assert(W() == 0x1_0000_0000_0000_0000nat);
                    lemma_limbs_update(zprev, (i + j) as int, xy as u64);
                    lemma_limbs_take_step(n@, j as int);
                    lemma_pow_w_add(i as nat, j as nat);
                    let pij = pow_w((i + j) as nat); let pi = pow_w(i as nat); let pj = pow_w(j as nat);
                    assert(pow_w((i + j + 1) as nat) == W() * pij);
                    let a = (xy as u64) as nat; let c1 = carryn as nat; let c00 = c0 as nat; let zo = zij_old as nat;
                    let xin = m as nat; let yjn = nj as nat; let ly = limbs(n@.take(j as int));
                    assert(a + W() * c1 == xin * yjn + zo + c00);
                    lemma_mac_step(limbs(z@) as int, limbs(zprev) as int, limbs(z1) as int, W() as int, pij as int, pi as int, pj as int,
                        a as int, c1 as int, xin as int, yjn as int, zo as int, c00 as int, ly as int);
                    if j == 0 {
                        assert(c00 == 0);
                        assert(zo == z1[i as int] as nat);
                        lemma_word_cancel(z1[i as int] as int, ninv64 as int, n@[0] as int, m as int);
                        assert(a == (xin * yjn + zo) % W()) by {
                            vstd::arithmetic::div_mod::lemma_fundamental_div_mod_converse((xin * yjn + zo) as int, W() as int, c1 as int, a as int);
                        };
                        assert(z@[i as int] == 0);
                    }
                }
            }
        }
        debug_assert!(z[i] == 0);
        let ghost z2 = z@;
        let (zi, c1) = z[i + SIZE].overflowing_add(carry);
        let (zin, c2) = zi.overflowing_add(carryn);
        z[i + SIZE] = zin;
        let ghost z3 = z@;
        proof {
            lemma_limbs_update(z2, (i + SIZE) as int, zin);
            assert(y@.take(SIZE as int) =~= y@.take(SIZE as int));
        }
        let ghost cc: nat = (if c1 { 1nat } else { 0nat }) + (if c2 { 1nat } else { 0nat });
        let ghost mm1: nat = mm + pow_w(i as nat) * (m as nat);
        proof {
            // total after this round, before storing the top carry
            let pi = pow_w(i as nat); let pis = pow_w((i + SIZE) as nat);
            lemma_pow_w_add(i as nat, SIZE as nat);
            lemma_pow_w_add(SIZE as nat, SIZE as nat);
            lemma_pow_w_pos(i as nat); lemma_pow_w_pos(SIZE as nat);
            lemma_limbs_take_step(x@, i as int);
            lemma_limbs_bound(x@.take((i + 1) as int));
            let xi1 = limbs(x@.take((i + 1) as int)); let xi0 = limbs(x@.take(i as int));
            let xn = xi as nat; let mn = m as nat;
            assert(pow_w((i + SIZE + 1) as nat) == W() * pis);
            assert(pow_w((i + 1) as nat) == W() * pi);
            // chain of equalities
            assert(limbs(z1) + pis * (carry as nat) == limbs(z0) + pi * (xn * yy));
            assert(limbs(z2) + pis * (carryn as nat) == limbs(z1) + pi * (mn * nn));
            assert(limbs(z3) + pis * (z2[(i + SIZE) as int] as nat) == limbs(z2) + pis * (zin as nat));
            assert(zin as nat + W() * cc == z2[(i + SIZE) as int] as nat + carry as nat + carryn as nat);
            lemma_cios_round(limbs(z0) as int, limbs(z1) as int, limbs(z2) as int, limbs(z3) as int, pis as int, pi as int, W() as int,
                carry as int, carryn as int, xn as int, yy as int, mn as int, nn as int, z2[(i + SIZE) as int] as int, zin as int, cc as int,
                xi0 as int, xi1 as int, mm as int, mm1 as int);
            if i + 1 == SIZE {
                assert(W() * pi == pow_w(SIZE as nat));
                assert(W() * pis == pow_w(SIZE as nat) * pow_w(SIZE as nat));
                assert(pow_w(2 * SIZE as nat) == pow_w(SIZE as nat) * pow_w(SIZE as nat));
                lemma_cios_top(limbs(z3) as int, pow_w(SIZE as nat) as int, nn as int, cc as int);
            }
        }
        if c1 || c2 {
            if i + 1 < SIZE {
                z[i + SIZE + 1] = u64::from(c1) + u64::from(c2);
                proof {
                    assert(z1[(i + SIZE + 1) as int] == z0[(i + SIZE + 1) as int]);
                    assert(z2[(i + SIZE + 1) as int] == z1[(i + SIZE + 1) as int]);
                    assert(z3[(i + SIZE + 1) as int] == z2[(i + SIZE + 1) as int]);
                    assert(z3[(i + SIZE + 1) as int] == 0);
                    lemma_limbs_update(z3, (i + SIZE + 1) as int, z@[(i + SIZE + 1) as int]);
                    assert(pow_w((i + SIZE + 1) as nat) * 0 == 0);
                }
            } else {
                overflow = true;
            }
        }
        proof {
            mm = mm1;
            assert(pow_w((i + SIZE + 1) as nat) * 0 == 0);
            let tot = limbs(x@.take((i + 1) as int)) * yy + mm1 * nn;
            let wp = W() * pow_w((i + SIZE) as nat);
            assert(limbs(z3) + wp * cc == tot);
            if c1 || c2 {
                if i + 1 < SIZE {
                    assert(z@[(i + SIZE + 1) as int] as nat == cc);
                    assert(limbs(z@) == limbs(z3) + pow_w((i + SIZE + 1) as nat) * cc);
                    assert(limbs(z@) == tot);
                } else {
                    assert(cc == 1);
                    assert(wp * 1 == wp);
                    assert(wp == pow_w(2 * SIZE as nat));
                    assert(limbs(z@) + pow_w(2 * SIZE as nat) == tot);
                }
            } else {
                assert(cc == 0);
                assert(wp * 0 == 0);
                assert(limbs(z@) == tot);
            }
            assert(z2[i as int] == 0);
            assert forall|j: int| 0 <= j < i + 1 implies z@[j] == 0 by {
                if j < i { assert(z1[j] == z0[j]); assert(z2[j] == z1[j]); assert(z3[j] == z2[j]); assert(z@[j] == z3[j]); }
                else { assert(z3[j] == z2[j]); assert(z@[j] == z3[j]); }
            }
            assert forall|j: int| (i + 1 + SIZE < j || 2 * SIZE <= j) && j < 16 implies z@[j] == 0 by {
                assert(z1[j] == z0[j]); assert(z2[j] == z1[j]); assert(z3[j] == z2[j]); assert(z@[j] == z3[j]);
            }
        }
    }
    let ghost xx = limbs(x@.take(SIZE as int));
    let ghost resin = res@;
    for i in 0..SIZE
        invariant 1 <= SIZE <= 8, res.len() == 8, resin.len() == 8,
            forall|k: int| 0 <= k < i ==> res@[k] == z@[k + SIZE],
            forall|k: int| i <= k < 8 ==> res@[k] == resin[k],
    {
        res[i] = z[i + SIZE]
    }
    let ghost vv = limbs(res@.take(SIZE as int));
    let ghost ps = pow_w(SIZE as nat);
    proof {
        // limbs(z) == ps * vv
        lemma_limbs_split(z@, SIZE as int);
        lemma_limbs_zero(z@.take(SIZE as int));
        let hi = z@.skip(SIZE as int);
        lemma_limbs_split(hi, SIZE as int);
        lemma_limbs_zero(hi.skip(SIZE as int));
        assert(hi.take(SIZE as int) =~= res@.take(SIZE as int));
        assert(ps * 0 == 0);
        assert(limbs(z@) == ps * vv);
        lemma_pow_w_add(SIZE as nat, SIZE as nat);
        lemma_pow_w_pos(SIZE as nat);
        lemma_limbs_bound(x@.take(SIZE as int));
        assert(pow_w(2 * SIZE as nat) == ps * ps);
        lemma_cios_bound(xx as int, yy as int, mm as int, nn as int, ps as int);
    }
    if overflow {
        // Add 2^64W - n = not(n)+1
        let mut carry = 1;
        let ghost res0 = res@;
        proof {
            assert(res@.take(0) =~= Seq::<u64>::empty());
            assert(n@.take(0) =~= Seq::<u64>::empty());
            lemma_limbs_empty();
            assert(limbs(Seq::<u64>::empty()) == 0);
            assert(pow_w(0) == 1);
        }
        for i in 0..SIZE
            invariant 1 <= SIZE <= 8, res.len() == 8, res0.len() == 8, n@.len() == 16, carry <= 1,
                forall|k: int| i <= k < 8 ==> res@[k] == res0[k],
                limbs(res@.take(i as int)) + pow_w(i as nat) * (carry as nat) + limbs(n@.take(i as int)) == limbs(res0.take(i as int)) + pow_w(i as nat),
        {
            let ghost rprev = res@;
            let s = res[i] as u128 + !n[i] as u128 + carry as u128;
            res[i] = s as u64;
            let ghost c0 = carry;
            carry = (s >> 64) as u64;
            proof {
                lemma_u128_split(s); assert(W() == 0x1_0000_0000_0000_0000nat);
                assert(s <= 0x1_ffff_ffff_ffff_ffffu128);
                assert((s >> 64) <= 1) by (bit_vector) requires s <= 0x1_ffff_ffff_ffff_ffffu128;
                let ni = n@[i as int];
                assert((!ni) as nat + ni as nat == W() - 1) by {
                    assert(!ni == 0xffff_ffff_ffff_ffffu64 - ni) by (bit_vector);
                };
                lemma_limbs_take_step(res@, i as int);
                lemma_limbs_take_step(res0, i as int);
                lemma_limbs_take_step(n@, i as int);
                assert(res@.take(i as int) =~= rprev.take(i as int));
                let pi = pow_w(i as nat);
                assert(pow_w((i + 1) as nat) == W() * pi);
                let a = (s as u64) as nat; let c1 = carry as nat; let c00 = c0 as nat;
                let r0 = res0[i as int] as nat; let nin = ni as nat; let nni = (!ni) as nat;
                assert(a + W() * c1 == r0 + nni + c00);
                lemma_carry_step(pi as int, W() as int, a as int, c1 as int, r0 as int, nni as int, c00 as int);
                lemma_distrib_l(pi as int, nni as int + nin as int, 1);
                lemma_distrib_l(pi as int, nni as int, nin as int);
                lemma_mul_comm(pi as int, W() as int);
                assert(pi * a + (W() * pi) * c1 + pi * nin + pi == pi * r0 + (W() * pi) + pi * c00);
            }
        }
        proof {
            // vv + ps - nn == limbs(res) + carry*ps, and vv + ps < 2 nn
            assert(res0.take(SIZE as int) =~= res0.take(SIZE as int));
            assert(ps * vv + ps * ps == xx * yy + mm * nn);
            lemma_cios_ovf_bound(vv as int, ps as int, nn as int);
            if carry == 1 { assert(ps * 1 == ps); assert(false); }
        }
        if carry > 0 {
            // FIXME: can it happen?
            res[SIZE] = 1
        }
        proof {
            let v2 = limbs(res@.take(SIZE as int));
            assert(v2 + nn == vv + ps);
            lemma_cios_final_ovf(vv as int, v2 as int, ps as int, xx as int, yy as int, mm as int, nn as int);
            lemma_cios_ovf_bound(vv as int, ps as int, nn as int);
        }
    } else {
        proof {
            assert(ps * vv == xx * yy + mm * nn);
            lemma_cios_final(vv as int, ps as int, xx as int, yy as int, mm as int, nn as int);
        }
    }
}
