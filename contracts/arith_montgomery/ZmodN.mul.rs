//! unit: {"container": "impl ZmodN", "file": "src/arith_montgomery.rs", "kind": "fn", "name": "mul", "props": ["C07", "C03"]}
//! ---- pinned ----
    pub fn mul<M: Borrow<MInt>>(&self, x: M, y: M) -> MInt {
        // all bit lengths MUST be < 512
        debug_assert!(Uint::from(*x.borrow()) < self.n);
        debug_assert!(Uint::from(*y.borrow()) < self.n);
        let mut m = MInt::default();
        mint_mulmod(&self, &mut m.0, &x.borrow().0, &y.borrow().0, self.k);
        // FIXME: remove
        let nd = self.n.digits();
        if !mint_lt(&m.0, nd, self.k) {
            mint_sub(&mut m.0, nd, self.k);
        }
        debug_assert!(Uint::from(m) < self.n);
        m
    }
//! ---- annotated ----
    pub fn mul<M: Borrow<MInt>>(&self, x: M, y: M) -> (r: MInt)
        requires
            self.wf(),
            bview::<M, MInt>(&x).val() < self.nval(),
            bview::<M, MInt>(&y).val() < self.nval(),
        ensures
            r.val() < self.nval(),
            (r.val() * self.rr()) % self.nval() == (bview::<M, MInt>(&x).val() * bview::<M, MInt>(&y).val()) % self.nval(),
    {
        // all bit lengths MUST be < 512
        proof {
            // the two run-time checks of the original: x < n, y < n
            assert(limbs(bview::<M, MInt>(&x).0@) < uv(self.n));
            assert(limbs(bview::<M, MInt>(&y).0@) < uv(self.n));
        }
        let mut m = MInt::default();
        let ghost xv = bview::<M, MInt>(&x).0@;
        let ghost yv = bview::<M, MInt>(&y).0@;
        let ghost kk = self.k as int;
        proof {
            lemma_limbs_small_words(xv, kk);
            lemma_limbs_small_words(yv, kk);
        }
        mint_mulmod(&self, &mut m.0, &x.borrow().0, &y.borrow().0, self.k);
        // FIXME: remove
        let nd = self.n.digits();
        let ghost m1 = m.0@;
        proof {
            lemma_limbs_small_words(nd@, kk);
            lemma_limbs_high_zero(m1, kk);
        }
        if !mint_lt(&m.0, nd, self.k) {
            mint_sub(&mut m.0, nd, self.k);
            proof { lemma_sub_modulus_mul(limbs(m1) as int, uv(self.n) as int, pow_w(self.k as nat) as int); }
        }
        proof { assert(limbs(m.0@) < uv(self.n)); }
        m
    }
