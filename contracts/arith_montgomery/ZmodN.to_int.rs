//! unit: {"container": "impl ZmodN", "file": "src/arith_montgomery.rs", "kind": "fn", "name": "to_int", "props": ["C07", "C03"]}
//! ---- pinned ----
    pub fn to_int(&self, x: MInt) -> Uint {
        let mut xx = [0u64; 2 * MINT_WORDS];
        xx[..MINT_WORDS].copy_from_slice(&x.0);
        self.redc(&xx).into()
    }
//! ---- annotated ----
    pub fn to_int(&self, x: MInt) -> (r: Uint)
        requires self.wf(), x.val() < self.nval(),
        ensures uv(r) < self.nval(), (uv(r) * self.rr()) % self.nval() == x.val() % self.nval(),
    {
        let mut xx = [0u64; 2 * MINT_WORDS];
        ol_copy_low8(&mut xx, &x.0);
        proof {
            // value of the zero-extended copy
            lemma_limbs_split(xx@, 8);
            assert(xx@.take(8) =~= x.0@);
            lemma_limbs_zero(xx@.skip(8));
            lemma_mul_one(pow_w(8) as int);
            lemma_pow_w_pos(self.k as nat);
            lemma_mul_le(1, pow_w(self.k as nat) as int, uv(self.n) as int);
            lemma_mul_one(uv(self.n) as int);
        }
        self.redc(&xx).into()
    }
