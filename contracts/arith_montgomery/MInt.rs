//! unit: {"file": "src/arith_montgomery.rs", "kind": "struct", "name": "MInt", "props": ["C07"]}
//! ---- pinned ----
#[derive(Debug, PartialEq, Eq, Clone, Copy, Default)]
pub struct MInt(pub [u64; MINT_WORDS]);
//! ---- annotated ----
#[derive(Debug, PartialEq, Eq, Clone, Copy, Default)]
pub struct MInt(pub [u64; MINT_WORDS]);
