//! unit: {"file": "src/arith_montgomery.rs", "kind": "fn", "name": "mint_add", "props": ["C07", "C03"]}
//! ---- pinned ----
fn mint_add(x: &mut [u64], y: &[u64], sz: u32) {
    // Add 2 integers spanning at most sz words.
    let sz = sz as usize;
    let mut carry = 0_u64;
    for i in 0..sz {
        unsafe {
            let xi = x.get_unchecked_mut(i);
            let yi = *y.get_unchecked(i) as u128;
            let sum = (*xi as u128) + yi;
            let zw = sum + (carry as u128);
            *xi = zw as u64;
            carry = (zw >> 64) as u64;
        }
    }
    if sz < x.len() {
        x[sz] += carry;
    } else {
        debug_assert!(carry == 0);
    }
}
//! ---- annotated ----
fn mint_add(x: &mut [u64], y: &[u64], sz: u32)
    requires
        sz as int <= old(x).len(), sz as int <= y.len(),
        (sz as int) < old(x).len() ==> old(x)@[sz as int] < u64::MAX,
        sz as int == old(x).len() ==> limbs(old(x)@.take(sz as int)) + limbs(y@.take(sz as int)) < pow_w(sz as nat),
    ensures
        final(x).len() == old(x).len(),
        forall|k: int| sz < k < old(x).len() ==> final(x)@[k] == old(x)@[k],
        (sz as int) < old(x).len() ==> limbs(final(x)@.take(sz as int)) + pow_w(sz as nat) * ((final(x)@[sz as int] - old(x)@[sz as int]) as nat)
            == limbs(old(x)@.take(sz as int)) + limbs(y@.take(sz as int)) && final(x)@[sz as int] >= old(x)@[sz as int] && final(x)@[sz as int] - old(x)@[sz as int] <= 1,
        sz as int == old(x).len() ==> limbs(final(x)@.take(sz as int)) == limbs(old(x)@.take(sz as int)) + limbs(y@.take(sz as int)),
{
    // Add 2 integers spanning at most sz words.
    let sz = sz as usize;
    let mut carry = 0_u64;
    let ghost x0 = x@;
    proof {
        lemma_limbs_empty(); lemma_pow_w_unfold(0);
        assert(x@.take(0) =~= Seq::<u64>::empty());
        assert(y@.take(0) =~= Seq::<u64>::empty());
    }
    for i in 0..sz
        invariant
            sz <= x.len(), sz <= y.len(), x.len() == x0.len(), carry <= 1,
            forall|k: int| i <= k < x.len() ==> x@[k] == x0[k],
            limbs(x@.take(i as int)) + pow_w(i as nat) * (carry as nat) == limbs(x0.take(i as int)) + limbs(y@.take(i as int)),
    {
        {
            let ghost xprev = x@;
            let ghost c0 = carry;
            let xi = &mut x[i];
            let yi = y[i] as u128;
            let sum = (*xi as u128) + yi;
            let zw = sum + (carry as u128);
            *xi = zw as u64;
            carry = (zw >> 64) as u64;
            proof {
                lemma_u128_split(zw);
                assert((zw >> 64) <= 1) by (bit_vector) requires zw <= 0x1_ffff_ffff_ffff_ffffu128;
                lemma_pow_w_unfold(i as nat);
                lemma_limbs_take_step(x@, i as int);
                lemma_limbs_take_step(x0, i as int);
                lemma_limbs_take_step(y@, i as int);
                assert(x@.take(i as int) =~= xprev.take(i as int));
                lemma_carry_step(pow_w(i as nat) as int, W() as int, (zw as u64) as int, carry as int, x0[i as int] as int, y@[i as int] as int, c0 as int);
            }
        }
    }
    let ghost xl = x@;
    proof {
        if sz == x0.len() {
            lemma_limbs_bound(x@.take(sz as int));
            lemma_pow_w_pos(sz as nat);
            if carry == 1 { assert(pow_w(sz as nat) * 1 == pow_w(sz as nat)); assert(false); }
        }
    }
    if sz < x.len() {
        x[sz] += carry;
    } else {
        debug_assert!(carry == 0);
    }
    proof {
        if sz < x0.len() {
            assert(x@.take(sz as int) =~= xl.take(sz as int));
            assert(x@[sz as int] == x0[sz as int] + carry);
        } else {
            lemma_limbs_bound(x@.take(sz as int));
            lemma_pow_w_pos(sz as nat);
            if carry == 1 { assert(pow_w(sz as nat) * 1 == pow_w(sz as nat)); assert(false); }
        }
    }
}
