//! unit: {"file": "src/arith_montgomery.rs", "kind": "fn", "name": "mg_redc", "props": ["C06", "C07", "C03"]}
//! ---- pinned ----
/// Montgomery reduction (x/R mod n), only if x < nR
#[inline(always)]
pub fn mg_redc(n: u64, ninv: u64, x: u128) -> u64 {
    if x as u64 == 0 {
        return (x >> 64) as u64;
    }
    // compute -x/N mod R
    let mul: u64 = (x as u64).wrapping_mul(ninv);
    // reduce
    let m = mul as u128 * n as u128;
    debug_assert!((x as u64).wrapping_add(m as u64) == 0);
    // The low words always produce a carry.
    // The high words are guaranteed to be < n.
    // We want xhi+mhi+1 mod n.
    let (xhi, mhi) = ((x >> 64) as u64, (m >> 64) as u64);
    let d = n - mhi - 1;
    if xhi >= d {
        xhi - d
    } else {
        xhi + mhi + 1
    }
}
//! ---- annotated ----
/// Montgomery reduction (x/R mod n), only if x < nR
#[inline(always)]
pub fn mg_redc(n: u64, ninv: u64, x: u128) -> (r: u64)
    requires
        (n as int * ninv as int + 1) % two64() == 0,
        (x as int) < n as int * two64(),
    ensures
        r < n,
        (r as int * two64()) % (n as int) == (x as int) % (n as int),
        cong(r as int * two64(), x as int, n as int),
{
    proof { lemma_u128_split(x); }
    if x as u64 == 0 {
        proof {
            assert(((x >> 64) as u64) as int * two64() < n as int * two64());
            assert((((x >> 64) as u64) as int) < n as int) by (nonlinear_arith)
                requires ((x >> 64) as u64) as int * two64() < n as int * two64();
        }
        return (x >> 64) as u64;
    }
    // compute -x/N mod R
    let mul: u64 = (x as u64).wrapping_mul(ninv);
    // reduce
    proof {
        assert(n > 0) by { if n == 0 { assert((0 * ninv as int + 1) % two64() == 1) by (nonlinear_arith); } }
        lemma_redc64(n as int, ninv as int, x as int, mul as int);
        assert(mul as u128 * n as u128 == mul as int * n as int) by (nonlinear_arith)
            requires 0 <= (mul as int) * (n as int), (mul as int) * (n as int) < two64() * two64();
    }
    let m = mul as u128 * n as u128;
    proof { lemma_u128_split(m); }
    debug_assert!((x as u64).wrapping_add(m as u64) == 0);
    // The low words always produce a carry.
    // The high words are guaranteed to be < n.
    // We want xhi+mhi+1 mod n.
    let (xhi, mhi) = ((x >> 64) as u64, (m >> 64) as u64);
    let d = n - mhi - 1;
    proof {
        let nn = n as int;
        let t = xhi as int + mhi as int + 1;
        assert(t * two64() == x as int + mul as int * nn);
        if xhi >= d {
            assert((t - nn) * two64() == x as int + (mul as int - two64()) * nn) by (nonlinear_arith)
                requires t * two64() == x as int + mul as int * nn;
            lemma_mod_multiples_vanish(mul as int - two64(), x as int, nn);
            assert(nn * (mul as int - two64()) == (mul as int - two64()) * nn) by (nonlinear_arith);
        } else {
            lemma_mod_multiples_vanish(mul as int, x as int, nn);
            assert(nn * mul as int == mul as int * nn) by (nonlinear_arith);
        }
    }
    if xhi >= d {
        xhi - d
    } else {
        xhi + mhi + 1
    }
}
