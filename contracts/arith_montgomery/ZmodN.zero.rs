//! unit: {"container": "impl ZmodN", "file": "src/arith_montgomery.rs", "kind": "fn", "name": "zero", "props": ["C07", "C03"]}
//! ---- pinned ----
    pub fn zero(&self) -> MInt {
        MInt::default()
    }
//! ---- annotated ----
    pub fn zero(&self) -> (r: MInt)
        ensures r.val() == 0
    {
        proof {
            assert forall|m: MInt| (forall|k: int| 0 <= k < 8 ==> m.0@[k] == 0) implies #[trigger] m.val() == 0 by { lemma_limbs_zero(m.0@); }
        }
        MInt::default()
    }
