//! unit: {"container": "impl ZmodN", "file": "src/arith_montgomery.rs", "kind": "fn", "name": "from_int", "props": ["C07", "C03"]}
//! ---- pinned ----
    pub fn from_int(&self, x: Uint) -> MInt {
        self.mul(MInt::from_uint(x), self.r2)
    }
//! ---- annotated ----
    pub fn from_int(&self, x: Uint) -> (r: MInt)
        requires self.wf(), uv(x) < self.nval(),
        ensures r.val() < self.nval(), r.val() == (uv(x) * self.rr()) % self.nval(),
    {
        proof {
            broadcast use axiom_borrow_self;
            let n = uv(self.n) as int;
            let rr = pow_w(self.k as nat) as int;
            let xv = uv(x) as int;
            axiom_udigits(x);
            lemma_pow_w_mono(self.k as nat, 8);
            lemma_limbs_small_words(udigits(x), 8);
            vstd::arithmetic::div_mod::lemma_mod_bound(rr * rr, n);
            lemma_pow_w_pos(self.k as nat);
            lemma_mul_nonneg(xv, rr);
            vstd::arithmetic::div_mod::lemma_mod_bound(xv * rr, n);
            // whatever mul returns: res*R ≡ x * (R*R mod n) ≡ (x*R)*R  ==>  res ≡ x*R
            assert forall|res: MInt| res.val() < uv(self.n)
                && (res.val() * pow_w(self.k as nat)) % uv(self.n) == (uv(x) * limbs(self.r2.0@)) % uv(self.n)
                implies #[trigger] res.val() == (uv(x) * pow_w(self.k as nat)) % uv(self.n) by {
                let rv = res.val() as int;
                lemma_cong_mod(rr * rr, n);
                lemma_cong_mul((rr * rr) % n, rr * rr, xv, n);
                lemma_mul_assoc(xv, rr, rr);
                assert(cong(rv * rr, (xv * rr) * rr, n));
                lemma_cancel_pow_w(rv, xv * rr, n, self.k as nat);
                lemma_cong_mod(xv * rr, n);
                lemma_cong_small(rv, (xv * rr) % n, n);
            }
        }
        self.mul(MInt::from_uint(x), self.r2)
    }
