//! unit: {"file": "src/arith_montgomery.rs", "kind": "fn", "name": "mg_2adic_inv", "props": ["C06", "C07", "C03"]}
//! ---- pinned ----
/// Returns ninv such that n*ninv = -1
pub fn mg_2adic_inv(n: u64) -> u64 {
    // Invariant: nx = 1 + 2^k s, k increasing
    let mut x = 1u64;
    loop {
        let rem = n.wrapping_mul(x) - 1;
        if rem == 0 {
            break;
        }
        x += 1 << rem.trailing_zeros();
    }
    assert!(n.wrapping_mul(x) == 1);
    1 + !x
}
//! ---- annotated ----
/// Returns ninv such that n*ninv = -1
pub fn mg_2adic_inv(n: u64) -> (r: u64)
    requires n % 2 == 1,
    ensures (n as int * r as int + 1) % two64() == 0,
{
    // Invariant: nx = 1 + 2^k s, k increasing
    let mut x = 1u64;
    let ghost mut k: nat = 1;
    proof {
        lemma2_to64();
        assert(pow2(1) == 2);
        assert((n as int * 1 - 1) % 2 == 0);
    }
    loop
        invariant n % 2 == 1, 1 <= k <= 64,
            (n as int * x as int - 1) % (pow2(k) as int) == 0,
            1 <= x, (x as int) < pow2(k) as int,
        ensures (n as int * x as int - 1) % two64() == 0, 1 <= x,
        decreases 64 - k
    {
        let ghost a = n as int * x as int - 1;
        let ghost w = n.wrapping_mul(x);
        proof {
            lemma2_to64();
            assert(pow2(64) == two64());
            assert(n as int * x as int >= 1) by (nonlinear_arith) requires n >= 1, x >= 1;
            // w = (a+1) % 2^64 ; a % 2 == 0 so a+1 odd so w odd
            lemma_pow2_divides(1, k);
            lemma_pow2_pos(k);
            lemma_dvd_trans_mod(a, pow2(k) as int, 2);
            lemma_mod_of_mod(a + 1, two64(), 2);
            assert(two64() % 2 == 0);
            assert((a + 1) % 2 == 1);
            assert(w as int == (a + 1) % two64());
            assert(w % 2 == 1);
        }
        let rem = n.wrapping_mul(x) - 1;
        proof {
            // rem == a % 2^64
            lemma_fundamental_div_mod(a + 1, two64());
            let c = (a + 1) / two64();
            assert(a == two64() * c + rem as int);
            lemma_mod_multiples_vanish(c, rem as int, two64());
            lemma_small_mod(rem as nat, two64() as nat);
            assert(a % two64() == rem as int);
        }
        if rem == 0 {
            break;
        }
        let ghost tz = u64_trailing_zeros(rem);
        let ghost x0 = x;
        proof {
            lemma_tz_arith(rem, tz);
            let t = tz as nat;
            let pt = pow2(t) as int; let pk = pow2(k) as int;
            lemma_pow2_pos(t); lemma_pow2_pos(k);
            // rem % 2^k == 0
            lemma_pow2_divides(k, 64);
            lemma_mod_of_mod(a, two64(), pk);
            assert(rem as int % pk == 0);
            // t >= k
            if t < k {
                lemma_pow2_divides(t + 1, k);
                lemma_pow2_pos(t + 1);
                lemma_dvd_trans_mod(rem as int, pk, pow2(t + 1) as int);
                lemma_pow2_unfold(t + 1);
                lemma_fundamental_div_mod(rem as int, 2 * pt);
                let cc = rem as int / (2 * pt);
                assert(rem as int == pt * (2 * cc)) by (nonlinear_arith) requires rem as int == (2 * pt) * cc;
                lemma_div_multiples_vanish(2 * cc, pt);
                assert((2 * cc) * pt == pt * (2 * cc)) by (nonlinear_arith);
                assert(rem as int / pt == 2 * cc);
                assert(false);
            }
            // x < 2^k <= 2^t
            lemma_pow2_divides(k, t);
            lemma_pow2_pos((t - k) as nat);
            assert(pk <= pt) by (nonlinear_arith) requires pt == pk * (pow2((t - k) as nat) as int), pow2((t - k) as nat) >= 1, pk > 0;
            lemma_pow2_strictly_increases(t, 64);
            assert(1u64 << (tz as u64) == pt) by { lemma_u64_shl_is_mul(1, tz as u64); };
            assert((1u64 << tz) == (1u64 << (tz as u64))) by (bit_vector) requires tz < 64;
            lemma_pow2_unfold(t + 1);
            if t + 1 < 64 { lemma_pow2_strictly_increases(t + 1, 64); }
            assert(2 * pt <= two64());
            assert(x as int + pt < two64());
        }
        x += 1 << rem.trailing_zeros();
        proof {
            let t = tz as nat;
            let pt = pow2(t) as int;
            // new a' = a + n*pt ; show a' % 2^(t+1) == 0
            let a2 = n as int * x as int - 1;
            assert(a2 == a + n as int * pt) by (nonlinear_arith) requires a2 == n as int * (x as int) - 1, a == n as int * (x as int - pt) - 1;
            let o = rem as int / pt;
            lemma_fundamental_div_mod(rem as int, pt);
            assert(rem as int == pt * o);
            lemma_fundamental_div_mod(a + 1, two64());
            let c = (a + 1) / two64();
            lemma_pow2_divides(t + 1, 64);
            lemma_pow2_unfold(t + 1);
            lemma_pow2_pos(t + 1);
            let h = pow2((64 - (t + 1)) as nat) as int;
            assert(two64() == (2 * pt) * h);
            // o + n even
            lemma_fundamental_div_mod(o, 2); lemma_fundamental_div_mod(n as int, 2);
            let e = (o / 2) + (n as int / 2) + 1;
            assert(o + n as int == 2 * e);
            assert(a2 == (2 * pt) * (e + h * c)) by (nonlinear_arith)
                requires a2 == a + n as int * pt, a == two64() * c + pt * o, two64() == (2 * pt) * h, o + n as int == 2 * e;
            lemma_mod_multiples_basic(e + h * c, 2 * pt);
            assert((e + h * c) * (2 * pt) == (2 * pt) * (e + h * c)) by (nonlinear_arith);
            k = t + 1;
        }
    }
    proof {
        lemma_small_mod(1, two64() as nat);
        let a = n as int * x as int - 1;
        lemma_fundamental_div_mod(a, two64());
        let c = a / two64();
        assert(n as int * x as int == two64() * c + 1);
        lemma_mod_multiples_vanish(c, 1, two64());
    }
    assert!(n.wrapping_mul(x) == 1);
    proof {
        assert(!x == 0xffff_ffff_ffff_ffffu64 - x) by (bit_vector);
        let r = two64() - x as int;
        let a = n as int * x as int - 1;
        lemma_fundamental_div_mod(a, two64());
        let c = a / two64();
        assert(n as int * r + 1 == two64() * (n as int - c)) by (nonlinear_arith)
            requires r == two64() - x as int, n as int * x as int - 1 == two64() * c;
        lemma_mod_multiples_basic(n as int - c, two64());
        assert((n as int - c) * two64() == two64() * (n as int - c)) by (nonlinear_arith);
    }
    1 + !x
}
