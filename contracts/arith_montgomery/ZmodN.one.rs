//! unit: {"container": "impl ZmodN", "file": "src/arith_montgomery.rs", "kind": "fn", "name": "one", "props": ["C07", "C03"]}
//! ---- pinned ----
    pub fn one(&self) -> MInt {
        self.r
    }
//! ---- annotated ----
    pub fn one(&self) -> (r: MInt)
        ensures r.val() == self.r_val()
    {
        self.r
    }
