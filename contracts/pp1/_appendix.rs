#[allow(unused_imports)] use vstd::arithmetic::{div_mod::*, power2::*, mul::*};
#[allow(unused_imports)] use vstd::bits::*;
#[allow(unused_imports)] use vstd::std_specs::bits::*;
