//! unit: {"file": "src/pp1.rs", "kind": "fn", "name": "chebyshev_modn", "props": ["C16", "C03"]}
//! ---- pinned ----
fn chebyshev_modn(zn: &ZmodN, g: &MInt, exp: u64) -> MInt {
    if exp == 0 {
        return zn.one();
    }
    // Use the simple binary Lucas chain [Montgomery]
    // 2n P is obtained by doubling nP
    // 2n+1 P is obtained by adding nP and n+1 P
    // This requires 2 modular multiplications per exponent bit.
    // TODO: use a better method.

    // Compute k P and k+1 P where k = n >> (length - i).
    // u(0P) = 2, u(1P) = g.
    let two = zn.add(&zn.one(), &zn.one());
    let mut p_k = two;
    let mut p_kp1 = *g;
    let expbits = u64::BITS - u64::leading_zeros(exp);
    for i in 1..expbits {
        // For i=1, k=1
        // For i=2, k=2 or 3.
        let k = exp >> (expbits - i);
        if k % 2 == 0 {
            // (k,k+1) => (2k,2k+1)
            (p_k, p_kp1) = (
                zn.sub(&zn.mul(&p_k, &p_k), &two),
                zn.sub(&zn.mul(&p_k, &p_kp1), g),
            );
        } else {
            // (k,k+1) => (2k+1,2k+2)
            (p_k, p_kp1) = (
                zn.sub(&zn.mul(&p_k, &p_kp1), g),
                zn.sub(&zn.mul(&p_kp1, &p_kp1), &two),
            );
        }
    }
    // For the last step, no need to compute exp+1
    if exp % 2 == 0 {
        zn.sub(&zn.mul(&p_k, &p_k), &two)
    } else {
        zn.sub(&zn.mul(&p_k, &p_kp1), g)
    }
}
//! ---- annotated ----
fn chebyshev_modn(zn: &ZmodN, g: &MInt, exp: u64) -> (res: MInt)
    requires zn.wf(), zn.nval() >= 3, g.val() < zn.nval(),
    ensures res.val() < zn.nval(),
        // V_exp(g) modulo n (V_0 = 2, V_1 = g, V_(k+2) = g V_(k+1) - V_k), except that exp = 0 yields 1 (see below)
        exp > 0 ==> forall|gv: nat| grep(g.val(), gv, zn.nval(), zn.rr())
            ==> irep(res.val(), lv(gv as int, exp as nat), zn.nval(), zn.rr()),
{
    let ghost nn = zn.nval();
    let ghost rr = zn.rr();
    let ghost ee = 64 * zn.kval();
    let ghost has = exists|v: nat| grep(g.val(), v, nn, rr);
    let ghost gv: nat = choose|v: nat| grep(g.val(), v, nn, rr);
    let ghost gi = gv as int;
    proof { zn.lemma_wf_r(); broadcast use axiom_borrow_ref; }
    if exp == 0 {
        return zn.one();
    }
    // Use the simple binary Lucas chain [Montgomery]
    // 2n P is obtained by doubling nP
    // 2n+1 P is obtained by adding nP and n+1 P
    // This requires 2 modular multiplications per exponent bit.
    // TODO: use a better method.

    // Compute k P and k+1 P where k = n >> (length - i).
    // u(0P) = 2, u(1P) = g.
    let one = zn.one();
    let two = zn.add(&one, &one);
    let mut p_k = two;
    let mut p_kp1 = *g;
    proof {
        lemma_grep_one(nn, rr, ee, one.val());
        // two = (R + R) % n represents 2
        lemma_small_mod(2, nn);
        lemma_add_mod_noop(rr as int, rr as int, nn as int);
        lemma_mul_comm(2, rr as int);
        assert(irep(two.val(), 2, nn, rr));
        if has { lemma_small_mod(gv, nn); assert(irep(g.val(), gi, nn, rr)); }
        axiom_u64_lz_arith(exp);
    }
    let expbits = u64::BITS - u64::leading_zeros(exp);
    let ghost eb = expbits as nat;
    proof {
        // exp < 2^eb: exp / 2^eb == 0
        lemma_pow2_pos(eb);
        lemma_basic_div(exp as int, pow2(eb) as int);
    }
    for i in 1..expbits
        invariant
            zn.wf(), nn == zn.nval(), rr == zn.rr(), ee == 64 * zn.kval(), rr == pow2(ee), nn >= 3, nn % 2 == 1,
            1 <= expbits <= 64, eb == expbits as nat, (exp as nat) < pow2(eb), exp > 0, g.val() < nn,
            p_k.val() < nn, p_kp1.val() < nn, two.val() < nn, irep(two.val(), 2, nn, rr),
            has ==> irep(g.val(), gi, nn, rr)
                && irep(p_k.val(), lv(gi, (exp as nat) / pow2((eb - i + 1) as nat)), nn, rr)
                && irep(p_kp1.val(), lv(gi, (exp as nat) / pow2((eb - i + 1) as nat) + 1), nn, rr),
    {
        // For i=1, k=1
        // For i=2, k=2 or 3.
        proof {
            broadcast use axiom_borrow_ref;
            lemma_u64_shr_is_div(exp, (expbits - i) as u64);
            lemma_pow2_pos((eb - i) as nat);
            lemma_pow2_unfold((eb - i + 1) as nat);
            lemma_div_denominator(exp as int, pow2((eb - i) as nat) as int, 2);
        }
        let k = exp >> (expbits - i);
        let ghost kp = (exp as nat) / pow2((eb - i + 1) as nat);
        let ghost pk0 = p_k;
        let ghost pk1 = p_kp1;
        proof {
            assert(kp == (k as nat) / 2);
            lemma_lv_double(gi, kp);
        }
        if k % 2 == 0 {
            // (k,k+1) => (2k,2k+1)
            let a = zn.mul(&p_k, &p_k);
            let b = zn.mul(&p_k, &p_kp1);
            let verif_t = (
                zn.sub(&a, &two),
                zn.sub(&b, g),
            ); p_k = verif_t.0; p_kp1 = verif_t.1;
            proof {
                if has {
                    lemma_irep_mul(pk0.val(), lv(gi, kp), pk0.val(), lv(gi, kp), a.val(), nn, rr, ee);
                    lemma_irep_mul(pk0.val(), lv(gi, kp), pk1.val(), lv(gi, kp + 1), b.val(), nn, rr, ee);
                    lemma_irep_sub(a.val(), lv(gi, kp) * lv(gi, kp), two.val(), 2, p_k.val(), nn, rr);
                    lemma_irep_sub(b.val(), lv(gi, kp) * lv(gi, kp + 1), g.val(), gi, p_kp1.val(), nn, rr);
                    assert(k as nat == 2 * kp);
                }
            }
        } else {
            // (k,k+1) => (2k+1,2k+2)
            let a = zn.mul(&p_k, &p_kp1);
            let b = zn.mul(&p_kp1, &p_kp1);
            let verif_t = (
                zn.sub(&a, g),
                zn.sub(&b, &two),
            ); p_k = verif_t.0; p_kp1 = verif_t.1;
            proof {
                if has {
                    lemma_irep_mul(pk0.val(), lv(gi, kp), pk1.val(), lv(gi, kp + 1), a.val(), nn, rr, ee);
                    lemma_irep_mul(pk1.val(), lv(gi, kp + 1), pk1.val(), lv(gi, kp + 1), b.val(), nn, rr, ee);
                    lemma_irep_sub(a.val(), lv(gi, kp) * lv(gi, kp + 1), g.val(), gi, p_k.val(), nn, rr);
                    lemma_irep_sub(b.val(), lv(gi, kp + 1) * lv(gi, kp + 1), two.val(), 2, p_kp1.val(), nn, rr);
                    assert(k as nat == 2 * kp + 1);
                }
            }
        }
        proof { assert((eb - (i + 1) + 1) as nat == (eb - i) as nat); }
    }
    // For the last step, no need to compute exp+1
    let ghost kp = (exp as nat) / 2;
    proof {
        broadcast use axiom_borrow_ref;
        lemma2_to64();
        lemma_lv_double(gi, kp);
    }
    let res = if exp % 2 == 0 {
        let a = zn.mul(&p_k, &p_k);
        let r = zn.sub(&a, &two);
        proof {
            if has {
                lemma_irep_mul(p_k.val(), lv(gi, kp), p_k.val(), lv(gi, kp), a.val(), nn, rr, ee);
                lemma_irep_sub(a.val(), lv(gi, kp) * lv(gi, kp), two.val(), 2, r.val(), nn, rr);
            }
        }
        r
    } else {
        let a = zn.mul(&p_k, &p_kp1);
        let r = zn.sub(&a, g);
        proof {
            if has {
                lemma_irep_mul(p_k.val(), lv(gi, kp), p_kp1.val(), lv(gi, kp + 1), a.val(), nn, rr, ee);
                lemma_irep_sub(a.val(), lv(gi, kp) * lv(gi, kp + 1), g.val(), gi, r.val(), nn, rr);
            }
        }
        r
    };
    proof {
        assert forall|v: nat| grep(g.val(), v, nn, rr) implies irep(res.val(), lv(v as int, exp as nat), nn, rr) by {
            lemma_grep_inj(g.val(), v, g.val(), gv, nn, rr, ee);
        }
    }
    res
}
