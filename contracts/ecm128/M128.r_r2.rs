//! unit: {"container": "impl M128", "file": "src/ecm128.rs", "hoist": true, "kind": "fn", "name": "r_r2", "props": ["C07", "C03"]}
//! ---- pinned ----
    fn r_r2(n: u128, ninv: u128) -> (M128, M128) {
        // (2^128 - n) % n
        let r = M128(0_u128.wrapping_sub(n) % n);
        if n >> 64 == 0 {
            return (M128((1 << 64) % n), r);
        }
        // 2^256 % n
        // This is the Montgomery representation of 2^128.
        let two = M128::add(n, r, r);
        let mut r2 = two;
        for _ in 0..7 {
            r2 = Self::mul(n, ninv, r2, r2);
        }
        (r, r2)
    }
//! ---- annotated ----
    fn r_r2(n: u128, ninv: u128) -> (r: (M128, M128))
        requires
            n >= 3, n % 2 == 1,
            n >> 64 == 0 ==> (n as int * ninv as int + 1) % two64() == 0 && (ninv as int) < two64(),
            n >> 64 != 0 ==> (n as int * ninv as int + 1) % two128() == 0,
        ensures
            n >> 64 == 0 ==> r.0.0 as int == two64() % (n as int) && r.1.0 as int == two128() % (n as int),
            n >> 64 != 0 ==> r.0.0 as int == two128() % (n as int) && r.1.0 as int == (two128() * two128()) % (n as int),
    {
        // (2^128 - n) % n
        let r = M128(0_u128.wrapping_sub(n) % n);
        proof {
            lemma_cong_add_multiple(two128() - n as int, 1, n as int); lemma_mul_one(n as int);
            assert(r.0 as int == two128() % (n as int));
            lemma_mod_bound(two128(), n as int);
        }
        if n >> 64 == 0 {
            proof { assert((1u128 << 64) == 0x1_0000_0000_0000_0000u128) by (bit_vector); }
            return (M128((1 << 64) % n), r);
        }
        // 2^256 % n
        // This is the Montgomery representation of 2^128.
        let two = M128::add(n, r, r);
        let mut r2 = two;
        let ghost rr = two128();
        let ghost mut a: int = 2;
        proof {
            lemma_mod_bound(rr, n as int);
            lemma_cong_mod(rr, n as int);
            lemma_cong_add(r.0 as int, rr, r.0 as int, rr, n as int);
            lemma_distrib_r(1, 1, rr); lemma_mul_one(rr);
            assert(cong(r2.0 as int, a * rr, n as int));
            lemma2_to64(); lemma_pow2_adds(64, 64);
            assert(rr == pow2(128) as int);
        }
        for verif_it in 0..7
            invariant
                r2.0 < n, n >= 3, n % 2 == 1, n >> 64 != 0, rr == two128(), rr == pow2(128) as int,
                (n as int * ninv as int + 1) % two128() == 0,
                cong(r2.0 as int, a * rr, n as int),
                a == pow2(pow2(verif_it as nat)) as int,
        {
            let ghost r2o = r2.0 as int;
            r2 = Self::mul(n, ninv, r2, r2);
            proof {
                let nn = n as int;
                // r2' * R ≡ r2o*r2o ≡ (a*R)*(a*R) = (a*a*R)*R  ==> r2' ≡ a*a*R
                lemma_cong_mul(r2o, a * rr, r2o, nn);
                lemma_cong_mul(r2o, a * rr, a * rr, nn);
                lemma_mul_assoc(a * rr, a, rr); lemma_mul_assoc(a, rr, a); lemma_mul_comm(rr, a); lemma_mul_assoc(a, a, rr);
                assert((a * rr) * (a * rr) == ((a * a) * rr) * rr);
                assert(cong(r2.0 as int * rr, ((a * a) * rr) * rr, nn));
                lemma_cancel_pow2(r2.0 as int, (a * a) * rr, nn, 128);
                // a*a == 2^(2^(i+1))
                lemma_pow2_adds(pow2(verif_it as nat), pow2(verif_it as nat));
                lemma_pow2_unfold((verif_it + 1) as nat);
                a = a * a;
            }
        }
        proof {
            assert(pow2(7) == 128) by { lemma2_to64(); };
            // r2 ≡ R*R and r2 < n
            lemma_mod_bound(rr * rr, n as int);
            lemma_cong_mod(rr * rr, n as int);
            lemma_cong_small(r2.0 as int, (rr * rr) % (n as int), n as int);
        }
        (r, r2)
    }
