//! unit: {"container": "impl M128", "file": "src/ecm128.rs", "hoist": true, "kind": "fn", "name": "inv_2adic", "props": ["C07", "C03"]}
//! ---- pinned ----
    fn inv_2adic(n: u128) -> u128 {
        debug_assert!(n % 2 == 1);
        // Use 64-bit inverse as starting point.
        let mut x = arith_montgomery::mg_2adic_inv(n as u64) as u128;
        if n >> 64 == 0 {
            return x;
        }
        loop {
            let rem = n.wrapping_mul(x) - 1;
            if rem == 0 {
                break;
            }
            // The 64-bit starting point is -1/n, not 1/n: carries may ripple up to bit 127.
            x = x.wrapping_add(1 << rem.trailing_zeros());
        }
        assert!(n.wrapping_mul(x) == 1);
        1 + !x
    }
//! ---- annotated ----
    fn inv_2adic(n: u128) -> (r: u128)
        requires n % 2 == 1,
        ensures
            n >> 64 == 0 ==> (r as int) < two64() && (n as int * r as int + 1) % two64() == 0,
            n >> 64 != 0 ==> (n as int * r as int + 1) % two128() == 0,
    {
        debug_assert!(n % 2 == 1);
        // Use 64-bit inverse as starting point.
        proof { assert((n as u64) % 2 == 1) by (bit_vector) requires n % 2 == 1; }
        let mut x = arith_montgomery::mg_2adic_inv(n as u64) as u128;
        if n >> 64 == 0 {
            proof { assert(n as u64 == n) by (bit_vector) requires n >> 64 == 0; }
            return x;
        }
        let ghost mut k: nat = 1;
        proof {
            lemma2_to64(); lemma_pow2_adds(64, 64);
            assert(pow2(128) as int == two128());
            // n*x - 1 is even: n odd, x odd (n64 * x ≡ -1 mod 2^64)
            let n64 = (n as u64) as int;
            lemma_dvd_trans_mod(n64 * x as int + 1, two64(), 2);
            lemma_fundamental_div_mod(n64 * x as int + 1, 2);
            lemma_fundamental_div_mod(n as int, 2); lemma_fundamental_div_mod(x as int, 2);
            if (x as int) % 2 == 0 {
                let xh = x as int / 2;
                lemma_mul_assoc(n64, 2, xh); lemma_mul_comm(n64, 2); lemma_mul_assoc(2, n64, xh);
                assert(false);
            }
            let nh = n as int / 2; let xh = x as int / 2;
            lemma_distrib_l(n as int, 2 * xh, 1); lemma_mul_one(n as int);
            lemma_mul_assoc(n as int, 2, xh); lemma_mul_comm(n as int, 2); lemma_mul_assoc(2, n as int, xh);
            assert(n as int * x as int - 1 == 2 * (n as int * xh + nh));
            lemma_mod_multiples_basic(n as int * xh + nh, 2);
            lemma_mul_comm(n as int * xh + nh, 2);
        }
        loop
            invariant
                n % 2 == 1, 1 <= k <= 128, pow2(128) as int == two128(),
                (n as int * x as int - 1) % (pow2(k) as int) == 0,
            ensures (n as int * x as int - 1) % two128() == 0,
            decreases 128 - k
        {
            let ghost a = n as int * x as int - 1;
            let ghost x0 = x;
            proof {
                // n.wrapping_mul(x) == (a + 1) % 2^128 is odd, so the subtraction cannot underflow
                lemma_pow2_divides(1, k); lemma_pow2_pos(k); lemma2_to64();
                lemma_dvd_trans_mod(a, pow2(k) as int, 2);
                lemma_pow2_divides(1, 128);
                lemma_mod_of_mod(a + 1, two128(), 2);
                assert((a + 1) % 2 == 1);
                lemma_mul_nonneg(n as int, x as int);
            }
            let rem = n.wrapping_mul(x) - 1;
            proof {
                lemma_fundamental_div_mod(a + 1, two128());
                let c = (a + 1) / two128();
                lemma_mod_multiples_vanish(c, rem as int, two128());
                lemma_small_mod(rem as nat, two128() as nat);
                assert(a % two128() == rem as int);
            }
            if rem == 0 {
                break;
            }
            proof { axiom_u128_tz(rem); }
            // The 64-bit starting point is -1/n, not 1/n: carries may ripple up to bit 127.
            x = x.wrapping_add(1 << rem.trailing_zeros());
            proof {
                let tz = u128_tz(rem);
                let t = tz as nat;
                axiom_u128_tz(rem);
                lemma_u128_one_shl(tz);
                lemma_pow2_strictly_increases(t, 128);
                // x == (x0 + 2^t) mod 2^128
                lemma_fundamental_div_mod(x0 as int + pow2(t) as int, two128());
                let j = (x0 as int + pow2(t) as int) / two128();
                lemma_mod_multiples_basic(-j, two128());
                lemma_mul_comm(-j, two128()); lemma_mul_neg(two128(), j);
                assert((x as int - x0 as int - pow2(t) as int) % two128() == 0);
                lemma_2adic_step(n as int, x0 as int, 128, k, rem as int, t, x as int);
                k = t + 1;
            }
        }
        assert!(n.wrapping_mul(x) == 1);
        proof {
            let a = n as int * x as int - 1;
            lemma_fundamental_div_mod(a, two128());
            let c = a / two128();
            assert(!x == 0xffff_ffff_ffff_ffff_ffff_ffff_ffff_ffffu128 - x) by (bit_vector);
            if x == 0 { lemma_mul_one(n as int); lemma_small_mod(1, two128() as nat); assert(false); }
            let r = two128() - x as int;
            lemma_distrib_l_sub(n as int, two128(), x as int);
            lemma_mul_comm(n as int, two128());
            lemma_distrib_l_sub(two128(), n as int, c);
            assert(n as int * r + 1 == two128() * (n as int - c));
            lemma_mod_multiples_basic(n as int - c, two128());
            lemma_mul_comm(n as int - c, two128());
        }
        1 + !x
    }
