#[allow(unused_imports)] use vstd::arithmetic::{div_mod::*, power2::*, mul::*};
#[allow(unused_imports)] use vstd::bits::*;

verus! {
// ---------------------------------------------------------------- 128-bit chain interpreter over the abstract group (C15, layer 2)

#[verifier::external_type_specification]
#[verifier::external_body]
pub struct ExCurve128(Curve);
#[verifier::external_type_specification]
#[verifier::external_body]
pub struct ExPoint128(Point);
#[verifier::external_type_specification]
#[verifier::external_body]
pub struct ExExtPoint128(ExtPoint);

pub uninterp spec fn pelem128(c: &Curve, p: &Point) -> G;
pub uninterp spec fn eelem128(c: &Curve, p: &ExtPoint) -> G;

// Assumed contracts of the 128-bit point operations (polynomial identities of the formulas: algebra back end; group law: T-math)
pub assume_specification [Curve::ext] (c: &Curve, p: &Point) -> (r: ExtPoint)
    ensures eelem128(c, &r) == pelem128(c, p);
pub assume_specification [ExtPoint::proj] (e: &ExtPoint) -> (r: Point)
    ensures forall|c: &Curve| pelem128(c, &r) == eelem128(c, e);
pub assume_specification [Curve::dblext] (c: &Curve, p: &Point) -> (r: ExtPoint)
    ensures eelem128(c, &r) == gadd(pelem128(c, p), pelem128(c, p));
pub assume_specification [Curve::double] (c: &Curve, p: &Point) -> (r: Point)
    ensures pelem128(c, &r) == gadd(pelem128(c, p), pelem128(c, p));
pub assume_specification [Curve::add] (c: &Curve, p: &ExtPoint, q: &ExtPoint) -> (r: ExtPoint)
    ensures eelem128(c, &r) == gadd(eelem128(c, p), eelem128(c, q));
/// 2P + Q
pub assume_specification [Curve::dbladd] (c: &Curve, p: &Point, q: &ExtPoint) -> (r: Point)
    ensures pelem128(c, &r) == gadd(gadd(pelem128(c, p), pelem128(c, p)), eelem128(c, q));

/// R4 outlining of the neutral point `Point(M128(0), self.one, self.one)`; trusted contract
#[verifier::external_body]
fn ol_neutral128(c: &Curve) -> (r: Point)
    ensures pelem128(c, &r) == gid()
{
    Point(M128(0), c.one, c.one)
}

/// R4 outlining of the in-place negation of a gap (X and T replaced by n - X, n - T on a clone: field updates of a
/// tuple struct that stays opaque to Verus); trusted contract: the opposite point
#[verifier::external_body]
fn ol_neg_gap(c: &Curve, gap0: &ExtPoint) -> (gap: ExtPoint)
    ensures eelem128(c, &gap) == gneg(eelem128(c, gap0))
{
    let mut gap = gap0.clone();
    gap.0 = M128(c.n - gap.0 .0);
    gap.3 = M128(c.n - gap.3 .0);
    gap
}
} // verus!
