//! unit: {"container": "impl M128", "file": "src/ecm128.rs", "hoist": true, "kind": "fn", "name": "mul", "props": ["C07", "C03", "C15"]}
//! ---- pinned ----
    fn mul(n: u128, ninv: u128, x: M128, y: M128) -> M128 {
        if n >> 64 == 0 {
            return M128(
                arith_montgomery::mg_mul(n as u64, ninv as u64, x.0 as u64, y.0 as u64) as u128,
            );
        }
        fn mul256(x: u128, y: u128) -> (u128, u128) {
            // Compute the 256-bit product xy.
            let (x0, x1) = (x as u64, (x >> 64) as u64);
            let (y0, y1) = (y as u64, (y >> 64) as u64);
            let mut xy0 = x0 as u128 * y0 as u128;
            let mut xy1 = x1 as u128 * y1 as u128;
            let (mid, mut c) = (x0 as u128 * y1 as u128).overflowing_add(x1 as u128 * y0 as u128);
            if c {
                xy1 += 1 << 64;
            }
            (xy0, c) = xy0.overflowing_add(mid.wrapping_shl(64));
            xy1 += mid >> 64;
            if c {
                xy1 += 1;
            }
            (xy0, xy1)
        }
        // Apply the REDC algorithm.
        let (xy0, xy1) = mul256(x.0, y.0);
        if xy0 == 0 {
            return M128(xy1);
        }
        // mul cannot be zero.
        let m = xy0.wrapping_mul(ninv);
        // Return xy1 + 1 + highword(mul * n).
        let mn1 = mul256(m, n).1;
        let d = n - mn1 - 1;
        if xy1 >= d {
            M128(xy1 - d)
        } else {
            M128(xy1 + mn1 + 1)
        }
    }
//! ---- annotated ----
    fn mul(n: u128, ninv: u128, x: M128, y: M128) -> (r: M128)
        requires
            x.0 <= n, y.0 <= n, n >= 3,
            n >> 64 == 0 ==> (n as int * ninv as int + 1) % two64() == 0 && (ninv as int) < two64(),
            n >> 64 != 0 ==> (n as int * ninv as int + 1) % two128() == 0,
        ensures
            r.0 < n,
            n >> 64 == 0 ==> cong(r.0 as int * two64(), x.0 as int * y.0 as int, n as int),
            n >> 64 != 0 ==> cong(r.0 as int * two128(), x.0 as int * y.0 as int, n as int),
    {
        if n >> 64 == 0 {
            proof {
                assert(n < 0x1_0000_0000_0000_0000u128) by (bit_vector) requires n >> 64 == 0;
                lemma_mul_le2(x.0 as int, n as int, y.0 as int, n as int);
                lemma_mul_lt_pos(n as int, two64(), n as int);
                lemma_mul_comm(n as int, two64());
            }
            return M128(
                arith_montgomery::mg_mul(n as u64, ninv as u64, x.0 as u64, y.0 as u64) as u128,
            );
        }
        fn mul256(x: u128, y: u128) -> (r: (u128, u128))
            ensures split_at(r.0 as int, r.1 as int, two128(), x as int * y as int),
        {
            // Compute the 256-bit product xy.
            let (x0, x1) = (x as u64, (x >> 64) as u64);
            let (y0, y1) = (y as u64, (y >> 64) as u64);
            proof {
                lemma_u128_hi_lo(x); lemma_u128_hi_lo(y);
                lemma_u64_mul_bound(x0 as int, y0 as int); lemma_u64_mul_bound(x1 as int, y1 as int);
                lemma_u64_mul_bound(x0 as int, y1 as int); lemma_u64_mul_bound(x1 as int, y0 as int);
            }
            let mut xy0 = x0 as u128 * y0 as u128;
            let mut xy1 = x1 as u128 * y1 as u128;
            let (mid, mut c) = (x0 as u128 * y1 as u128).overflowing_add(x1 as u128 * y0 as u128);
            let ghost w = two64();
            let ghost a = x0 as int * y0 as int; let ghost b = x0 as int * y1 as int + x1 as int * y0 as int; let ghost d = x1 as int * y1 as int;
            proof {
                // x*y == a + w*b + w*w*d
                lemma_distrib_l(x1 as int * w + x0 as int, y1 as int * w, y0 as int);
                lemma_distrib_r(x1 as int * w, x0 as int, y1 as int * w);
                lemma_distrib_r(x1 as int * w, x0 as int, y0 as int);
                lemma_mul_assoc(x1 as int, w, y1 as int * w); lemma_mul_comm(w, y1 as int * w); lemma_mul_assoc(y1 as int, w, w);
                lemma_mul_assoc(x1 as int, y1 as int, w * w);
                lemma_mul_assoc(x0 as int, y1 as int, w);
                lemma_mul_assoc(x1 as int, w, y0 as int); lemma_mul_comm(w, y0 as int); lemma_mul_assoc(x1 as int, y0 as int, w);
                lemma_distrib_r(x0 as int * y1 as int, x1 as int * y0 as int, w);
                lemma_mul_comm(b, w); lemma_mul_comm(d, w * w);
                assert(x as int * y as int == a + w * b + (w * w) * d);
                assert(two128() == w * w);
            }
            proof { assert((1u128 << 64) == 0x1_0000_0000_0000_0000u128) by (bit_vector); }
            if c {
                xy1 += 1 << 64;
            }
            let ghost xy1a = xy1;
            proof {
                lemma_u128_hi_lo(mid);
                assert((1u128 << 64) == 0x1_0000_0000_0000_0000u128) by (bit_vector);
                // mid + (c ? w*w : 0) == b ; xy1a == d + (c ? w : 0)
                lemma_mul_assoc(w, w, w);
            }
            let verif_t = xy0.overflowing_add(mid.wrapping_shl(64)); xy0 = verif_t.0; c = verif_t.1;
            proof {
                let mh = (mid >> 64) as int; let ml = (mid as u64) as int;
                // total: xy0 + (c? w*w:0) == a + ml*w ; remaining high part: d + (c0? w:0) + mh
                lemma_distrib_l(w, mh * w, ml); lemma_mul_comm(w, mh * w); lemma_mul_assoc(mh, w, w); lemma_mul_comm(w, ml);
                assert(w * (mid as int) == mh * (w * w) + ml * w);
                // bound: x*y < w^4 so the high word cannot overflow
                lemma_mul_lt(x as int, w * w, y as int, w * w);
            }
            xy1 += mid >> 64;
            if c {
                xy1 += 1;
            }
            proof {
                lemma_mul_comm((w * w), xy1 as int);
            }
            (xy0, xy1)
        }
        // Apply the REDC algorithm.
        let (xy0, xy1) = mul256(x.0, y.0);
        let ghost r = two128();
        let ghost xy = x.0 as int * y.0 as int;
        proof {
            lemma_mul_le2(x.0 as int, n as int, y.0 as int, n as int);
            lemma_mul_nonneg(x.0 as int, y.0 as int);
            assert((n as int) < r);
            lemma_mul_lt_pos(n as int, r, n as int);
            lemma_mul_comm(n as int, r);
            assert(xy < n as int * r);
            lemma_mul_comm(r, xy1 as int);
            lemma_fundamental_div_mod_converse(xy, r, xy1 as int, xy0 as int);
        }
        if xy0 == 0 {
            proof { if xy1 >= n { lemma_mul_le(n as int, xy1 as int, r); } }
            return M128(xy1);
        }
        // mul cannot be zero.
        let m = xy0.wrapping_mul(ninv);
        // Return xy1 + 1 + highword(mul * n).
        proof {
            lemma_redc_gen(r, n as int, ninv as int, xy, m as int);
        }
        let mn1 = mul256(m, n).1;
        proof {
            let mn = m as int * n as int;
            assert(exists|lo: u128| split_at(lo as int, mn1 as int, r, mn));
            let lo = choose|lo: u128| split_at(lo as int, mn1 as int, r, mn);
            lemma_fundamental_div_mod_converse(mn, r, mn1 as int, lo as int);
            assert(mn1 as int == mn / r);
            // (xy1 + mn1 + 1) * r == xy + m*n  and it is below 2n
            let t = xy1 as int + mn1 as int + 1;
            let nn = n as int;
            if xy1 as int >= nn - mn1 as int - 1 {
                lemma_distrib_r_sub(t, nn, r);
                lemma_distrib_r_sub(m as int, r, nn);
                lemma_mul_comm(nn, r);
                assert((t - nn) * r == xy + (m as int - r) * nn);
                lemma_cong_add_multiple(xy, m as int - r, nn);
            } else {
                lemma_cong_add_multiple(xy, m as int, nn);
            }
        }
        let d = n - mn1 - 1;
        if xy1 >= d {
            M128(xy1 - d)
        } else {
            M128(xy1 + mn1 + 1)
        }
    }
