//! unit: {"container": "impl M128", "file": "src/ecm128.rs", "hoist": true, "kind": "fn", "name": "add", "props": ["C07", "C03", "C15"]}
//! ---- pinned ----
    fn add(n: u128, x: M128, y: M128) -> M128 {
        let (x, y) = (x.0, y.0);
        let my = n - y;
        if x >= my {
            M128(x - my)
        } else {
            M128(x + y)
        }
    }
//! ---- annotated ----
    fn add(n: u128, x: M128, y: M128) -> (r: M128)
        requires x.0 <= n, y.0 <= n, n > 0,
        ensures r.0 <= n, cong(r.0 as int, x.0 as int + y.0 as int, n as int),
            x.0 < n && y.0 < n ==> r.0 < n,
    {
        let (x, y) = (x.0, y.0);
        let my = n - y;
        proof { lemma_cong_add_multiple(x as int + y as int, 1, n as int); lemma_mul_one(n as int); }
        if x >= my {
            M128(x - my)
        } else {
            M128(x + y)
        }
    }
