//! unit: {"container": "impl Curve", "file": "src/ecm128.rs", "kind": "fn", "name": "scalar64_mul", "props": ["C15", "C03"]}
//! ---- pinned ----
    pub fn scalar64_mul(&self, k: u64, p: &Point) -> Point {
        if k == 0 {
            // The neutral point (0 : 1 : 1).
            return Point(M128(0), self.one, self.one);
        }
        // Prepare small steps.
        let pext = self.ext(p);
        let p2 = self.dblext(p);
        let p3 = self.add(&pext, &p2);
        let p5 = self.add(&p3, &p2);
        let p7 = self.add(&p5, &p2);
        let gaps = [&pext, &p3, &p5, &p7];
        // Encode the chain as:
        // 2l (doubling l times)
        // ±k (add/sub kP where k is odd)
        let mut c = [0_i8; 34];
        let l = ecm::Curve::make_addition_chain(&mut c, k);
        // Get initial element (chain[l-1] = 1 or 3 or 5 or 7)
        let mut q = gaps[c[l - 1] as usize / 2].proj();
        for idx in 1..l {
            let op = c[l - 1 - idx];
            if op % 2 == 0 {
                for _ in 0..op / 2 {
                    // FIXME: 1 MUL wasted
                    q = self.double(&q);
                }
            } else {
                if op > 0 {
                    q = self.dbladd(&q, gaps[op as usize / 2]);
                } else {
                    let mut gap = gaps[(-op) as usize / 2].clone();
                    gap.0 = M128(self.n - gap.0 .0);
                    gap.3 = M128(self.n - gap.3 .0);
                    q = self.dbladd(&q, &gap);
                }
            }
        }
        q
    }
//! ---- annotated ----
    pub fn scalar64_mul(&self, k: u64, p: &Point) -> (res: Point)
        ensures pelem128(self, &res) == gmul(k as int, pelem128(self, p)),
    {
        let ghost g = pelem128(self, p);
        if k == 0 {
            // The neutral point (0 : 1 : 1).
            proof { axiom_gmul(0, 0, g); }
            return ol_neutral128(self);
        }
        // Prepare small steps.
        let pext = self.ext(p);
        let p2 = self.dblext(p);
        let p3 = self.add(&pext, &p2);
        let p5 = self.add(&p3, &p2);
        let p7 = self.add(&p5, &p2);
        let gaps = [&pext, &p3, &p5, &p7];
        proof {
            axiom_gmul(1, 1, g);
            axiom_gmul(1, 2, g);
            axiom_gmul(3, 2, g);
            axiom_gmul(5, 2, g);
            assert(forall|i: int| 0 <= i < 4 ==> eelem128(self, #[trigger] gaps@[i]) == gmul(2 * i + 1, g));
        }
        // Encode the chain as:
        // 2l (doubling l times)
        // ±k (add/sub kP where k is odd)
        let mut c = [0_i8; 34];
        let l = ecm::Curve::make_addition_chain(&mut c, k);
        // Get initial element (chain[l-1] = 1 or 3 or 5 or 7)
        let mut q = gaps[c[l - 1] as usize / 2].proj();
        let ghost mut cur: int = c@[l - 1] as int;
        for idx in 1..l
            invariant
                1 <= l <= 33, k != 0,
                forall|i: int| 0 <= i < 4 ==> eelem128(self, #[trigger] gaps@[i]) == gmul(2 * i + 1, g),
                forall|i: int| 0 <= i < l - 1 ==> (#[trigger] c@[i] % 2 == 0 ==> 2 <= c@[i] <= 126)
                    && (c@[i] % 2 != 0 ==> -7 <= c@[i] <= 7),
                prefix_apply(c@, l - idx, cur) == k as int,
                pelem128(self, &q) == gmul(cur, g),
        {
            let op = c[l - 1 - idx];
            let ghost cur0 = cur;
            if op % 2 == 0 {
                proof { lemma2_to64(); lemma_mul_one(cur); }
                for verif_it in 0..op / 2
                    invariant pelem128(self, &q) == gmul(cur0 * pow2(verif_it as nat) as int, g), op % 2 == 0, 2 <= op <= 126,
                {
                    // FIXME: 1 MUL wasted
                    proof { lemma_op_even_step(cur0, verif_it as nat, g); }
                    q = self.double(&q);
                }
                proof { cur = op_apply(op as int, cur0); }
            } else {
                proof { lemma_op_odd_step(cur0, op as int, g); cur = op_apply(op as int, cur0); }
                if op > 0 {
                    q = self.dbladd(&q, gaps[op as usize / 2]);
                } else {
                    let gap = ol_neg_gap(self, gaps[(-op) as usize / 2]);
                    q = self.dbladd(&q, &gap);
                }
            }
        }
        q
    }
