//! unit: {"file": "src/ecm128.rs", "kind": "struct", "name": "M128", "props": ["C07"]}
//! ---- pinned ----
#[derive(Clone, Copy, Debug, PartialEq, Eq)]
struct M128(u128);
//! ---- annotated ----
#[derive(Clone, Copy, Debug, PartialEq, Eq)]
struct M128(u128);
