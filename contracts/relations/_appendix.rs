#[allow(unused_imports)] use vstd::arithmetic::{div_mod::*, power2::*, mul::*};
#[allow(unused_imports)] use vstd::std_specs::ops::*;
#[allow(unused_imports)] use vstd::std_specs::cmp::*;
