#[allow(unused_imports)] use crate::arith_montgomery::{ol_zn_n, ol_zn_n_spec};
#[allow(unused_imports)] use vstd::arithmetic::{div_mod::*, power2::*, mul::*};
#[allow(unused_imports)] use vstd::std_specs::ops::*;
#[allow(unused_imports)] use vstd::std_specs::cmp::*;

#[allow(unused_imports)] use vstd::arithmetic::power::*;
verus! {
/// product of the first i entries of xs
pub open spec fn xs_prod(xs: Seq<Uint>, i: int) -> nat
    decreases i
{
    if i <= 0 { 1 } else { xs_prod(xs, i - 1) * uv(xs[i - 1]) }
}

/// contribution of one (prime, exponent) entry to b: p^(k/2); the sign -1 contributes 1
pub open spec fn fac_half(f: (i64, u64)) -> nat {
    if f.0 == -1 { 1 } else { pow(f.0 as int, (f.1 / 2) as nat) as nat }
}

pub open spec fn facs_prod(fs: Seq<(i64, u64)>, i: int) -> nat
    decreases i
{
    if i <= 0 { 1 } else { facs_prod(fs, i - 1) * fac_half(fs[i - 1]) }
}
} // verus!
