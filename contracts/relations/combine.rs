//! unit: {"file": "src/relations.rs", "kind": "fn", "name": "combine", "props": ["C11", "C03"]}
//! ---- pinned ----
/// Combine relations into an identity a^2 = b^2
/// Instead of handling an array of relations,
/// we provide xs such that a = product(xs)
/// and [(p, k)] such that b^2 = product(p^k)
pub fn combine(zn: &ZmodN, xs: &[Uint], factors: &[(i64, u64)]) -> (Uint, Uint) {
    // Avoid too many (x % n) operations especially when factors are small.
    // All factors are less than 32 bits.

    // Product of x (they are less than 512 bits wide).
    let mut a = zn.one();
    for &x in xs {
        a = zn.mul(&a, &zn.from_int(x));
    }
    // Product of factors: they are smaller than 32 bits.
    // Accumulate product in a u64 before performing long multiplications.
    let mut b = zn.one();
    let mut chunk = 1_u64;
    let maxchunk = if zn.n.bits() <= 64 {
        min(1 << 32, zn.n.low_u64())
    } else {
        1 << 32
    };
    for &(p, k) in factors {
        if p == -1 {
            continue;
        }
        assert_eq!(k % 2, 0);
        for _ in 0..k / 2 {
            let c = chunk * p as u64;
            if c >= maxchunk {
                b = zn.mul(&b, &zn.from_int(chunk.into()));
                chunk = p as u64;
            } else {
                chunk = c;
            }
        }
    }
    b = zn.mul(&b, &zn.from_int(chunk.into()));
    (zn.to_int(a), zn.to_int(b))
}
//! ---- annotated ----
pub fn combine(zn: &ZmodN, xs: &[Uint], factors: &[(i64, u64)]) -> (r: (Uint, Uint))
    requires
        zn.wf(), zn.nval() >= 3,
        forall|i: int| 0 <= i < xs@.len() ==> uv(#[trigger] xs@[i]) < zn.nval(),
        // every listed prime is -1 (the sign) or a 32-bit prime below n, with an even exponent
        forall|i: int| 0 <= i < factors@.len() ==> (#[trigger] factors@[i]).1 % 2 == 0
            && (factors@[i].0 == -1 || (0 < factors@[i].0 < 0x1_0000_0000 && (factors@[i].0 as nat) < zn.nval())),
    ensures
        uv(r.0) == xs_prod(xs@, xs@.len() as int) % zn.nval(),
        uv(r.1) == facs_prod(factors@, factors@.len() as int) % zn.nval(),
{
    // Avoid too many (x % n) operations especially when factors are small.
    // All factors are less than 32 bits.
    let ghost nn = zn.nval();
    let ghost rr = zn.rr();
    let ghost ee = 64 * zn.kval();
    proof { zn.lemma_wf_r(); }

    // Product of x (they are less than 512 bits wide).
    let mut a = zn.one();
    proof { lemma_grep_one(nn, rr, ee, a.val()); lemma_small_mod(1, nn); }
    for verif_s_x in 0..xs.len()
        invariant zn.wf(), nn == zn.nval(), rr == zn.rr(), ee == 64 * zn.kval(), rr == pow2(ee), nn >= 3, nn % 2 == 1,
            forall|i: int| 0 <= i < xs@.len() ==> uv(#[trigger] xs@[i]) < nn,
            grep(a.val(), xs_prod(xs@, verif_s_x as int) % nn, nn, rr),
    {
        let x = xs[verif_s_x];
        proof { broadcast use axiom_borrow_ref; }
        let ghost a0 = a;
        let ghost pa = xs_prod(xs@, verif_s_x as int);
        let xm = zn.from_int(x);
        proof { lemma_small_mod(uv(x), nn); assert(grep(xm.val(), uv(x), nn, rr)); }
        a = zn.mul(&a, &xm);
        proof {
            lemma_grep_mul(a0.val(), pa % nn, xm.val(), uv(x), a.val(), nn, rr, ee);
            lemma_mul_mod_noop_left(pa as int, uv(x) as int, nn as int);
        }
    }
    // Product of factors: they are smaller than 32 bits.
    // Accumulate product in a u64 before performing long multiplications.
    let mut b = zn.one();
    let mut chunk = 1_u64;
    let maxchunk = if ol_zn_n(zn).bits() <= 64 {
        proof { crate::lemma_bits_le64(ol_zn_n_spec(zn)); }
        min(1 << 32, ol_zn_n(zn).low_u64())
    } else {
        proof { crate::lemma_bits_gt64(ol_zn_n_spec(zn)); }
        1 << 32
    };
    let ghost mut gb: nat = 1;
    proof {
        lemma_grep_one(nn, rr, ee, b.val()); lemma_small_mod(1, nn); lemma_mul_one(1);
        assert(1u64 << 32 == 0x1_0000_0000u64) by (bit_vector);
        assert(3 <= maxchunk <= 0x1_0000_0000 && maxchunk as nat <= nn);
    }
    let mut verif_it_p_k = 0; while verif_it_p_k < factors.len()
        invariant zn.wf(), nn == zn.nval(), rr == zn.rr(), ee == 64 * zn.kval(), rr == pow2(ee), nn >= 3, nn % 2 == 1,
            verif_it_p_k <= factors.len(),
            forall|i: int| 0 <= i < factors@.len() ==> (#[trigger] factors@[i]).1 % 2 == 0
                && (factors@[i].0 == -1 || (0 < factors@[i].0 < 0x1_0000_0000 && (factors@[i].0 as nat) < nn)),
            3 <= maxchunk <= 0x1_0000_0000, maxchunk as nat <= nn,
            forall|i: int| 0 <= i < factors@.len() && factors@[i].0 != -1 ==> (#[trigger] factors@[i].0 as int) < maxchunk as int,
            1 <= chunk < maxchunk,
            grep(b.val(), gb, nn, rr), (gb * (chunk as nat)) % nn == facs_prod(factors@, verif_it_p_k as int) % nn,
        decreases factors.len() - verif_it_p_k
    {
        let (p, k) = factors[verif_it_p_k]; verif_it_p_k += 1;
        proof { assert(facs_prod(factors@, verif_it_p_k as int) == facs_prod(factors@, verif_it_p_k - 1) * fac_half(factors@[verif_it_p_k - 1])); }
        if p == -1 {
            proof { lemma_mul_one(facs_prod(factors@, verif_it_p_k - 1) as int); }
            continue;
        }
        assert!(k % 2 == 0);
        let ghost t0 = facs_prod(factors@, verif_it_p_k - 1);
        proof { lemma_pow0(p as int); lemma_mul_one(t0 as int); }
        for verif_it in 0..k / 2
            invariant zn.wf(), nn == zn.nval(), rr == zn.rr(), ee == 64 * zn.kval(), rr == pow2(ee), nn >= 3, nn % 2 == 1,
                0 < p < 0x1_0000_0000, (p as int) < maxchunk as int, 3 <= maxchunk <= 0x1_0000_0000, maxchunk as nat <= nn,
                1 <= chunk < maxchunk,
                pow(p as int, verif_it as nat) >= 1,
                grep(b.val(), gb, nn, rr),
                (gb * (chunk as nat)) % nn == (t0 * (pow(p as int, verif_it as nat) as nat)) % nn,
        {
            proof { broadcast use axiom_borrow_ref; lemma_mul_lt(chunk as int, 0x1_0000_0000, p as int, 0x1_0000_0000); lemma_mul_pos(chunk as int, p as int); }
            let ghost bv0 = gb;
            let ghost b0 = b;
            let ghost chunk0 = chunk;
            let ghost tcur = t0 * (pow(p as int, verif_it as nat) as nat);
            let c = chunk * p as u64;
            if c >= maxchunk {
                let cm = zn.from_int(chunk.into());
                proof { lemma_small_mod(chunk as nat, nn); assert(grep(cm.val(), chunk as nat, nn, rr)); }
                b = zn.mul(&b, &cm);
                chunk = p as u64;
                proof {
                    lemma_grep_mul(b0.val(), bv0, cm.val(), chunk0 as nat, b.val(), nn, rr, ee);
                    gb = (bv0 * (chunk0 as nat)) % nn;
                    // ((bv0 chunk0) % n) p ≡ (tcur % n) p ≡ tcur p
                    lemma_mul_mod_noop_left((bv0 * (chunk0 as nat)) as int, p as int, nn as int);
                    lemma_mul_mod_noop_left(tcur as int, p as int, nn as int);
                }
            } else {
                chunk = c;
                proof {
                    lemma_mul_assoc(bv0 as int, chunk0 as int, p as int);
                    lemma_mul_mod_noop_left((bv0 * (chunk0 as nat)) as int, p as int, nn as int);
                    lemma_mul_mod_noop_left(tcur as int, p as int, nn as int);
                }
            }
            proof {
                lemma_pow1(p as int);
                lemma_pow_adds(p as int, verif_it as nat, 1);
                lemma_mul_assoc(t0 as int, pow(p as int, verif_it as nat), p as int);
                lemma_mul_pos(pow(p as int, verif_it as nat), p as int);
            }
        }
    }
    proof { broadcast use axiom_borrow_ref; }
    let ghost bvf = gb;
    let ghost bf = b;
    let cm = zn.from_int(chunk.into());
    proof { lemma_small_mod(chunk as nat, nn); assert(grep(cm.val(), chunk as nat, nn, rr)); }
    b = zn.mul(&b, &cm);
    proof { lemma_grep_mul(bf.val(), bvf, cm.val(), chunk as nat, b.val(), nn, rr, ee); }
    let ra = zn.to_int(a);
    let rb = zn.to_int(b);
    proof {
        // to_int returns the residue an element stands for
        lemma_small_mod(a.val(), nn);
        lemma_small_mod(b.val(), nn);
        assert(grep(a.val(), uv(ra), nn, rr));
        assert(grep(b.val(), uv(rb), nn, rr));
        lemma_grep_inj(a.val(), uv(ra), a.val(), xs_prod(xs@, xs@.len() as int) % nn, nn, rr, ee);
        lemma_grep_inj(b.val(), uv(rb), b.val(), (bvf * (chunk as nat)) % nn, nn, rr, ee);
        lemma_mod_twice(facs_prod(factors@, factors@.len() as int) as int, nn as int);
    }
    (ra, rb)
}
