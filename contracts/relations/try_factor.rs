//! unit: {"file": "src/relations.rs", "kind": "fn", "name": "try_factor", "props": ["C11", "C01", "C03"]}
//! ---- pinned ----
/// Using a^2 = b^2 mod n, try to factor n
pub fn try_factor(n: &Uint, a: Uint, b: Uint) -> Option<(Uint, Uint)> {
    // Note that when a = ±b we can still obtain a factor
    // if a and b actually share a factor with n.
    // If a = b = 0 the gcd below would be n itself, which is not a factorization.
    if a + b != *n && !(a + b).is_zero() {
        let gcd = Integer::gcd(&Int::from_bits(*n), &Int::from_bits(a + b));
        if gcd > Int::one() {
            let p = gcd.to_bits();
            let q = n / p;
            assert!(p * q == *n);
            assert!(p.bits() > 1 && q.bits() > 1, "a={a} b={b} n={n}");
            return Some((p, q));
        }
    }
    if a != b {
        let gcd = Integer::gcd(&Int::from_bits(*n), &Int::from_bits(n + a - b));
        if gcd > Int::one() {
            let p = gcd.to_bits();
            let q = n / p;
            assert!(p * q == *n);
            assert!(p.bits() > 1 && q.bits() > 1);
            return Some((p, q));
        }
    }
    None
}
//! ---- annotated ----
/// Using a^2 = b^2 mod n, try to factor n
pub fn try_factor(n: &Uint, a: Uint, b: Uint) -> (r: Option<(Uint, Uint)>)
    requires uv(a) < uv(*n), uv(b) < uv(*n), bitlen(uv(*n)) <= 1022,
    ensures
        // only proper divisors: p * q == n with both factors at least 2
        r matches Some((p, q)) ==> uv(p) * uv(q) == uv(*n) && uv(p) >= 2 && uv(q) >= 2,
{
    let ghost nv = uv(*n);
    proof {
        lemma_bitlen_bound(nv, 1022);
        lemma_pow_w_is_pow2(16);
        vstd::arithmetic::power2::lemma_pow2_unfold(1024); vstd::arithmetic::power2::lemma_pow2_unfold(1023);
        axiom_buint_add(a, b);
        vstd::arithmetic::div_mod::lemma_small_mod(uv(a) + uv(b), pow_w(16));
        axiom_buint_eq(a.add_spec(b), *n);
    }
    // Note that when a = ±b we can still obtain a factor
    // if a and b actually share a factor with n.
    // If a = b = 0 the gcd below would be n itself, which is not a factorization.
    if a + b != *n && !(a + b).is_zero() {
        let gcd = Integer::gcd(&Int::from_bits(*n), &Int::from_bits(a + b));
        proof {
            assert forall|o: Int| #[trigger] gcd.partial_cmp_spec(&o) == Some(if iv(gcd) < iv(o) { core::cmp::Ordering::Less } else if iv(gcd) == iv(o) { core::cmp::Ordering::Equal } else { core::cmp::Ordering::Greater }) by { axiom_bint_cmp(gcd, o); }
            axiom_bint_cmp(gcd, gcd);
        }
        if gcd > Int::one() {
            let p = gcd.to_bits();
            proof {
                // p = gcd(n, a + b) with 0 < a + b < 2n, a + b != n: p | n and 2 <= p < n
                lemma_gcd_spec(nv, uv(a) + uv(b));
                lemma_proper_gcd(nv, uv(a) + uv(b));
                axiom_buint_div(*n, p);
                lemma_proper_divisor(nv as int, uv(p) as int);
            }
            let q = n / p;
            proof {
                axiom_buint_mul(p, q);
                vstd::arithmetic::div_mod::lemma_small_mod(nv, pow_w(16));
                axiom_uv_inj(p.mul_spec(q), *n);
                axiom_buint_eq(p.mul_spec(q), *n);
                lemma_bitlen_ge2(uv(p)); lemma_bitlen_ge2(uv(q));
            }
            assert!(p * q == *n);
            assert!(p.bits() > 1 && q.bits() > 1);
            return Some((p, q));
        }
    }
    proof { axiom_buint_eq(a, b); }
    if a != b {
        proof {
            axiom_buint_add(*n, a);
            vstd::arithmetic::div_mod::lemma_small_mod(nv + uv(a), pow_w(16));
            axiom_buint_sub((*n).add_spec(a), b);
        }
        let gcd = Integer::gcd(&Int::from_bits(*n), &Int::from_bits(n + a - b));
        proof {
            assert forall|o: Int| #[trigger] gcd.partial_cmp_spec(&o) == Some(if iv(gcd) < iv(o) { core::cmp::Ordering::Less } else if iv(gcd) == iv(o) { core::cmp::Ordering::Equal } else { core::cmp::Ordering::Greater }) by { axiom_bint_cmp(gcd, o); }
            axiom_bint_cmp(gcd, gcd);
        }
        if gcd > Int::one() {
            let p = gcd.to_bits();
            proof {
                let s = (nv + uv(a) - uv(b)) as nat;
                lemma_gcd_spec(nv, s);
                lemma_proper_gcd(nv, s);
                axiom_buint_div(*n, p);
                lemma_proper_divisor(nv as int, uv(p) as int);
            }
            let q = n / p;
            proof {
                axiom_buint_mul(p, q);
                vstd::arithmetic::div_mod::lemma_small_mod(nv, pow_w(16));
                axiom_uv_inj(p.mul_spec(q), *n);
                axiom_buint_eq(p.mul_spec(q), *n);
                lemma_bitlen_ge2(uv(p)); lemma_bitlen_ge2(uv(q));
            }
            assert!(p * q == *n);
            assert!(p.bits() > 1 && q.bits() > 1);
            return Some((p, q));
        }
    }
    None
}
