//! unit: {"file": "src/pollard_rho.rs", "kind": "fn", "name": "rho", "props": ["C16", "C01", "C03"]}
//! ---- pinned ----
/// Run Pollard's rho as part of general factorization.
///
/// It is both suitable for small prime factors and small semiprimes,
/// so it will attempt to retry several times to find a factor.
pub fn rho(n: &Uint, verbosity: Verbosity) -> Option<(Vec<Uint>, Uint)> {
    let start = std::time::Instant::now();
    let size = n.bits();
    let n0 = n.digits()[0];
    let iters = match size {
        0..=24 => 128,
        25..=32 => 512,
        33..=40 => 2048,
        41..=48 => 8192,
        // 16384 is a bit too small for 55 bits.
        49..=52 => 16384,
        53..=57 => 32768,
        58..=62 => 65536,
        63..=64 => 131072,
        // Skip multiprecision inputs: factors will already be found
        // by P-1 and ECM. Even if Pollard rho is quick, it is redundant
        // with other fast methods.
        _ => return None,
    };
    // Use several functions to avoid large cycles.
    // We don't want to fallback to a slower algorithm.
    // Typical runtime is below 1ms.
    for c in 1..10 {
        if let Some((p, q)) = rho64(n0, c, iters) {
            if verbosity >= Verbosity::Info {
                let ms = start.elapsed().as_secs_f64() * 1000.0;
                eprintln!("Found factor {p} with Pollard rho (iters={c}x{iters}) in {ms:.3}ms");
            }
            return Some((vec![p.into()], q.into()));
        }
    }
    None
}
//! ---- annotated ----
/// Run Pollard's rho as part of general factorization.
///
/// It is both suitable for small prime factors and small semiprimes,
/// so it will attempt to retry several times to find a factor.
#[verifier::loop_isolation(false)]
pub fn rho(n: &Uint, verbosity: Verbosity) -> (r: Option<(Vec<Uint>, Uint)>)
    requires uv(*n) % 2 == 1, uv(*n) >= 3, uv(*n) <= 0xffff_ffff_ffff_ffc0 || bitlen(uv(*n)) > 64,
    ensures
        r matches Some((v, q)) ==> v@.len() == 1 && uv(v@[0]) * uv(q) == uv(*n) && 1 < uv(v@[0]) < uv(*n) && 1 < uv(q) < uv(*n),
{
    let size = n.bits();
    let n0 = n.digits()[0];
    let iters = match size {
        0..=24 => 128,
        25..=32 => 512,
        33..=40 => 2048,
        41..=48 => 8192,
        // 16384 is a bit too small for 55 bits.
        49..=52 => 16384,
        53..=57 => 32768,
        58..=62 => 65536,
        63..=64 => 131072,
        // Skip multiprecision inputs: factors will already be found
        // by P-1 and ECM. Even if Pollard rho is quick, it is redundant
        // with other fast methods.
        _ => return None,
    };
    proof {
        // the input fits one word: n0 is n
        lemma_bitlen_bound(uv(*n), 64);
        vstd::arithmetic::power2::lemma2_to64();
        axiom_udigits(*n); lemma_limbs_low(udigits(*n)); lemma_pow_w_unfold(0);
        vstd::arithmetic::div_mod::lemma_small_mod(uv(*n), W());
        assert(n0 as nat == uv(*n));
    }
    // Use several functions to avoid large cycles.
    // We don't want to fallback to a slower algorithm.
    // Typical runtime is below 1ms.
    for c in 1..10 {
        if let Some((p, q)) = rho64(n0, c, iters) {
            return Some((vec![p.into()], q.into()));
        }
    }
    None
}
