#[allow(unused_imports)] use vstd::arithmetic::{div_mod::*, power2::*, mul::*};

verus! {
#[verifier::external_type_specification]
pub struct ExVerbosity(Verbosity);
} // verus!
