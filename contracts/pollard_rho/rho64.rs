//! unit: {"file": "src/pollard_rho.rs", "kind": "fn", "name": "rho64", "props": ["C16", "C01", "C03"]}
//! ---- pinned ----
#[doc(hidden)]
pub fn rho64(n: u64, c: u64, iters: u64) -> Option<(u64, u64)> {
    let ninv = mg_2adic_inv(n);
    // Perform x => x^2 + c on the Montgomery representation
    // So this is actually: xR => x^2 R + c where R=2^64.
    //
    // The seed is always 2.
    //
    // Invariants:
    // x1 = f^e1(seed) and x2=f^e2(seed)
    // 3/2 e1 <= e2 <= 2 e1 - 1
    let (mut x1, mut x2) = (2_u64, 2_u64);
    let mut prod = 1;
    let mut next_interval_start = 0;
    let mut next_interval_end = 1;
    for e2 in 1..iters {
        x2 = mg_mul(n, ninv, x2, x2);
        x2 += c; // we tolerate x2==n (it will be absorbed by next mg_mul)
        if e2 < next_interval_start {
            continue;
        }
        // We are in the interval, compare.
        let prodnext = mg_mul(n, ninv, prod, x1.abs_diff(x2));
        if prodnext == 0 {
            // Probably the previous value had a nontrivial GCD with n
            // and the remaining factor was multiplied in.
            let d = Integer::gcd(&n, &x1.abs_diff(x2));
            if d > 1 && d < n {
                return Some((d, n / d));
            }
        }
        if e2 >= 512 && e2 % 128 == 127 {
            let d = Integer::gcd(&n, &prod);
            if d > 1 && d < n {
                return Some((d, n / d));
            }
        }
        prod = prodnext;
        if e2 == next_interval_end {
            // Set e1 = e2
            x1 = x2;
            // Next interval is (2^k + 2^(k-1), 2^(k+1) - 1) (length 2^(k-1))
            let pow2k = e2 + 1;
            debug_assert!(pow2k & (pow2k - 1) == 0);
            next_interval_start = pow2k + pow2k / 2;
            next_interval_end = 2 * pow2k - 1;
        }
    }
    let d = Integer::gcd(&n, &prod);
    if d > 1 && d < n {
        return Some((d, n / d));
    }
    None
}
//! ---- annotated ----
#[doc(hidden)]
pub fn rho64(n: u64, c: u64, iters: u64) -> (r: Option<(u64, u64)>)
    requires n % 2 == 1, 3 <= n <= 0xffff_ffff_ffff_ffc0, c <= 16, iters <= 0x4000_0000_0000_0000,
    ensures
        // nothing false: a returned pair is a proper factorization of n
        r matches Some((d, q)) ==> 1 < d < n && 1 < q < n && d as int * q as int == n as int,
{
    let ninv = mg_2adic_inv(n);
    // Perform x => x^2 + c on the Montgomery representation
    // So this is actually: xR => x^2 R + c where R=2^64.
    //
    // The seed is always 2.
    //
    // Invariants:
    // x1 = f^e1(seed) and x2=f^e2(seed)
    // 3/2 e1 <= e2 <= 2 e1 - 1
    let (mut x1, mut x2) = (2_u64, 2_u64);
    let mut prod = 1;
    let mut next_interval_start = 0;
    let mut next_interval_end = 1;
    proof { assert(2u64 & 1u64 == 0) by (bit_vector); }
    let mut verif_it_e2 = 1; let verif_end_e2 = iters; while verif_it_e2 < verif_end_e2
        invariant
            n % 2 == 1, 3 <= n <= 0xffff_ffff_ffff_ffc0, c <= 16,
            (n as int * ninv as int + 1) % two64() == 0,
            x1 <= n + 16, x2 <= n + 16, prod < n,
            verif_it_e2 <= next_interval_end, next_interval_end <= 2 * verif_it_e2, next_interval_start <= next_interval_end, (next_interval_end + 1) as u64 & next_interval_end == 0,
            verif_end_e2 == iters, iters <= 0x4000_0000_0000_0000,
        decreases verif_end_e2 - verif_it_e2
    {
        let e2 = verif_it_e2; verif_it_e2 += 1;
        proof {
            lemma_rho_square_bound(n as int, x2 as int);
        }
        x2 = mg_mul(n, ninv, x2, x2);
        x2 += c; // we tolerate x2==n (it will be absorbed by next mg_mul)
        if e2 < next_interval_start {
            continue;
        }
        // We are in the interval, compare.
        proof {
            let dd = (if x1 >= x2 { x1 - x2 } else { x2 - x1 }) as int;
            lemma_mul_le2(prod as int, n as int - 1, dd, n as int + 16);
            lemma_distrib_r_sub(n as int, 1, n as int + 16); lemma_mul_one(n as int + 16);
            lemma_mul_lt_pos(n as int + 16, two64(), n as int);
            lemma_mul_nonneg(prod as int, dd);
        }
        let prodnext = mg_mul(n, ninv, prod, x1.abs_diff(x2));
        if prodnext == 0 {
            // Probably the previous value had a nontrivial GCD with n
            // and the remaining factor was multiplied in.
            let d = Integer::gcd(&n, &x1.abs_diff(x2));
            if d > 1 && d < n {
                proof { lemma_proper_divisor(n as int, d as int); }
                return Some((d, n / d));
            }
        }
        if e2 >= 512 && e2 % 128 == 127 {
            let d = Integer::gcd(&n, &prod);
            if d > 1 && d < n {
                proof { lemma_proper_divisor(n as int, d as int); }
                return Some((d, n / d));
            }
        }
        prod = prodnext;
        if e2 == next_interval_end {
            // Set e1 = e2
            x1 = x2;
            // Next interval is (2^k + 2^(k-1), 2^(k+1) - 1) (length 2^(k-1))
            let pow2k = e2 + 1;
            proof {
                assert((2 * pow2k) as u64 & ((2 * pow2k - 1) as u64) == 0) by (bit_vector)
                    requires pow2k & ((pow2k - 1) as u64) == 0, 0 < pow2k <= 0x4000_0000_0000_0000u64;
            }
            debug_assert!(pow2k & (pow2k - 1) == 0);
            next_interval_start = pow2k + pow2k / 2;
            next_interval_end = 2 * pow2k - 1;
        }
    }
    let d = Integer::gcd(&n, &prod);
    if d > 1 && d < n {
        proof { lemma_proper_divisor(n as int, d as int); }
        return Some((d, n / d));
    }
    None
}
