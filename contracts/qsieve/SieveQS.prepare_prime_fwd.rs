//! unit: {"container": "impl<'a> SieveQS<'a>", "file": "src/qsieve.rs", "kind": "fn", "name": "prepare_prime_fwd", "props": ["C12", "C03"]}
//! ---- pinned ----
    fn prepare_prime_fwd(&self, pidx: usize) -> (u32, u32) {
        // Return r such that nsqrt + r is a root of n.
        let Prime { p, r, .. } = self.fbase.prime(pidx);
        let base = self.nsqrt_mods[pidx] as u64;
        let mut s1 = 2 * p + r - base;
        let mut s2 = 2 * p - r - base;
        // If we are in "only odds" mode, the polynomial is
        // not (R + x)^2 - n but (R + 2x)^2 - n so the roots
        // must be divided by 2.
        if self.only_odds {
            if p == 2 {
                // The polynomial is x^2 + x + (R^2-n)/4
                // It has no roots if n % 8 == 5.
                // Return a superset of actual roots.
                return (0, 1);
            }
            if s1 % 2 == 0 {
                // s2 % 2 == 0 as well
                s1 /= 2;
                s2 /= 2;
            } else {
                s1 = (s1 + p) / 2;
                s2 = (s2 + p) / 2;
            }
        }
        while s1 >= p {
            s1 -= p
        }
        while s2 >= p {
            s2 -= p
        }
        (s1 as u32, s2 as u32)
    }
//! ---- annotated ----
    fn prepare_prime_fwd(&self, pidx: usize) -> (s: (u32, u32))
        requires self.wf(), pidx < self.fb().sp().len(),
        ensures ({
            let p = self.fb().sp()[pidx as int] as int;
            let r = self.fb().sr()[pidx as int] as int;
            let base = self.mods()[pidx as int] as int;
            &&& s.0 < p && s.1 < p
            // (nsqrt + x)^2 ≡ n at x = s.0, s.1:  base + x ≡ ±r (mod p)
            &&& !self.odds() ==> cong(base + s.0 as int, r, p) && cong(base + s.1 as int, -r, p)
            // odd-only mode: (nsqrt + 2x)^2 ≡ n
            &&& self.odds() && p != 2 ==> cong(base + 2 * s.0 as int, r, p) && cong(base + 2 * s.1 as int, -r, p)
        }),
    {
        // Return r such that nsqrt + r is a root of n.
        let Prime { p, r, .. } = self.fbase.prime(pidx);
        let base = self.nsqrt_mods[pidx] as u64;
        let mut s1 = 2 * p + r - base;
        let mut s2 = 2 * p - r - base;
        let ghost pi = p as int;
        proof {
            // s1 ≡ r - base, s2 ≡ -r - base
            lemma_cong_add_multiple(r as int - base as int, 2, pi);
            lemma_cong_add_multiple(-(r as int) - base as int, 2, pi);
        }
        // If we are in "only odds" mode, the polynomial is
        // not (R + x)^2 - n but (R + 2x)^2 - n so the roots
        // must be divided by 2.
        if self.only_odds {
            if p == 2 {
                // The polynomial is x^2 + x + (R^2-n)/4
                // It has no roots if n % 8 == 5.
                // Return a superset of actual roots.
                return (0, 1);
            }
            let ghost (t1, t2) = (s1 as int, s2 as int);
            if s1 % 2 == 0 {
                // s2 % 2 == 0 as well
                s1 /= 2;
                s2 /= 2;
            } else {
                s1 = (s1 + p) / 2;
                s2 = (s2 + p) / 2;
            }
            proof {
                // p odd: s1 and s2 have the same parity (s1 - s2 = 2r), so 2*s1' ≡ t1 and 2*s2' ≡ t2
                self.fbase.sd()[pidx as int].lemma_wf_facts_a();
                assert(t1 - t2 == 2 * r as int);
                lemma_cong_add_multiple(t1, 1, pi); lemma_cong_add_multiple(t2, 1, pi); lemma_mul_one(pi);
                assert(2 * s1 as int == t1 || 2 * s1 as int == t1 + pi);
                assert(2 * s2 as int == t2 || 2 * s2 as int == t2 + pi);
            }
        }
        let ghost (u1, u2) = (s1 as int, s2 as int);
        while s1 >= p
            invariant cong(s1 as int, u1, pi), p == pi, pi > 0
            decreases s1
        {
            proof { lemma_cong_add_multiple(s1 as int, 1, pi); lemma_mul_one(pi); }
            s1 -= p
        }
        while s2 >= p
            invariant cong(s2 as int, u2, pi), p == pi, pi > 0
            decreases s2
        {
            proof { lemma_cong_add_multiple(s2 as int, 1, pi); lemma_mul_one(pi); }
            s2 -= p
        }
        proof {
            let b = base as int; let rr = r as int;
            if !self.only_odds {
                assert(u1 == (rr - b) + 2 * pi && u2 == (-rr - b) + 2 * pi);
                lemma_cong_add(s1 as int, rr - b, b, b, pi);
                lemma_cong_add(s2 as int, -rr - b, b, b, pi);
            } else {
                lemma_cong_mul(s1 as int, u1, 2, pi); lemma_cong_mul(s2 as int, u2, 2, pi);
                lemma_mul_comm(s1 as int, 2); lemma_mul_comm(s2 as int, 2); lemma_mul_comm(u1, 2); lemma_mul_comm(u2, 2);
                lemma_cong_add(2 * s1 as int, rr - b, b, b, pi);
                lemma_cong_add(2 * s2 as int, -rr - b, b, b, pi);
            }
        }
        (s1 as u32, s2 as u32)
    }
