#[allow(unused_imports)] use vstd::arithmetic::{div_mod::*, power2::*, mul::*};

verus! {
#[verifier::external_type_specification]
#[verifier::external_body]
#[verifier::reject_recursive_types(T)]
pub struct ExRwLock<T: ?Sized>(std::sync::RwLock<T>);

#[verifier::external_type_specification]
#[verifier::external_body]
pub struct ExRelationSet(crate::relations::RelationSet);

impl<'a> SieveQS<'a> {
    pub closed spec fn fb(&self) -> &'a FBase { self.fbase }
    pub closed spec fn mods(&self) -> Seq<u32> { self.nsqrt_mods@ }
    pub closed spec fn odds(&self) -> bool { self.only_odds }
    /// what the root computations need: one reduced residue of nsqrt per factor base prime
    pub open spec fn wf(&self) -> bool {
        &&& self.fb().wf()
        &&& self.mods().len() == self.fb().sp().len()
        &&& forall|i: int| 0 <= i < self.mods().len() ==> #[trigger] self.mods()[i] < self.fb().sp()[i]
    }
}
} // verus!
