//! unit: {"container": "impl<'a> SieveQS<'a>", "file": "src/qsieve.rs", "kind": "fn", "name": "prepare_prime_bck", "props": ["C12", "C03"]}
//! ---- pinned ----
    fn prepare_prime_bck(&self, pidx: usize) -> (u32, u32) {
        let Prime { p, r, .. } = self.fbase.prime(pidx);
        // Return r such that nsqrt - 2(r + 1) is a root of n.
        let base = self.nsqrt_mods[pidx] as u64;
        let mut s1 = 2 * p + base - r;
        let mut s2 = 2 * p + base + r;
        // If we are in "only odds" mode, the polynomial is
        // not (R + x)^2 - n but (R + 2x)^2 - n so the roots
        // must be divided by 2.
        if self.only_odds {
            if p == 2 {
                // See above.
                return (0, 1);
            }
            if s1 % 2 == 0 {
                // s2 % 2 == 0 as well
                s1 /= 2;
                s2 /= 2;
            } else {
                s1 = (s1 + p) / 2;
                s2 = (s2 + p) / 2;
            }
        }
        s1 += p - 1;
        s2 += p - 1;
        while s1 >= p {
            s1 -= p
        }
        while s2 >= p {
            s2 -= p
        }
        (s1 as u32, s2 as u32)
    }
//! ---- annotated ----
    fn prepare_prime_bck(&self, pidx: usize) -> (s: (u32, u32))
        requires self.wf(), pidx < self.fb().sp().len(),
        ensures ({
            let p = self.fb().sp()[pidx as int] as int;
            let r = self.fb().sr()[pidx as int] as int;
            let base = self.mods()[pidx as int] as int;
            &&& s.0 < p && s.1 < p
            // backward positions: (nsqrt - (x + 1))^2 ≡ n  <=>  x + 1 ≡ base ∓ r
            &&& !self.odds() ==> cong(s.0 as int + 1, base - r, p) && cong(s.1 as int + 1, base + r, p)
            // odd-only mode: (nsqrt - 2(x + 1))^2 ≡ n
            &&& self.odds() && p != 2 ==> cong(2 * (s.0 as int + 1), base - r, p) && cong(2 * (s.1 as int + 1), base + r, p)
        }),
    {
        let Prime { p, r, .. } = self.fbase.prime(pidx);
        // Return r such that nsqrt - 2(r + 1) is a root of n.
        let base = self.nsqrt_mods[pidx] as u64;
        let mut s1 = 2 * p + base - r;
        let mut s2 = 2 * p + base + r;
        let ghost pi = p as int;
        proof {
            lemma_cong_add_multiple(base as int - r as int, 2, pi);
            lemma_cong_add_multiple(base as int + r as int, 2, pi);
        }
        let ghost (t1g, t2g) = (s1 as int, s2 as int);
        // If we are in "only odds" mode, the polynomial is
        // not (R + x)^2 - n but (R + 2x)^2 - n so the roots
        // must be divided by 2.
        if self.only_odds {
            if p == 2 {
                // See above.
                return (0, 1);
            }
            let ghost (t1, t2) = (s1 as int, s2 as int);
            if s1 % 2 == 0 {
                // s2 % 2 == 0 as well
                s1 /= 2;
                s2 /= 2;
            } else {
                s1 = (s1 + p) / 2;
                s2 = (s2 + p) / 2;
            }
            proof {
                self.fbase.sd()[pidx as int].lemma_wf_facts_a();
                assert(t2 - t1 == 2 * r as int);
                lemma_cong_add_multiple(t1, 1, pi); lemma_cong_add_multiple(t2, 1, pi); lemma_mul_one(pi);
                // exact: 2*s' is t or t + p (p odd, t1 and t2 have the same parity)
                assert(2 * s1 as int == t1 || 2 * s1 as int == t1 + pi);
                assert(2 * s2 as int == t2 || 2 * s2 as int == t2 + pi);
            }
        }
        let ghost (v1, v2) = (s1 as int, s2 as int);
        s1 += p - 1;
        s2 += p - 1;
        let ghost (u1, u2) = (s1 as int, s2 as int);
        while s1 >= p
            invariant cong(s1 as int, u1, pi), p == pi, pi > 0
            decreases s1
        {
            proof { lemma_cong_add_multiple(s1 as int, 1, pi); lemma_mul_one(pi); }
            s1 -= p
        }
        while s2 >= p
            invariant cong(s2 as int, u2, pi), p == pi, pi > 0
            decreases s2
        {
            proof { lemma_cong_add_multiple(s2 as int, 1, pi); lemma_mul_one(pi); }
            s2 -= p
        }
        proof {
            let b = base as int; let rr = r as int;
            // exact (linear) checkpoints: s + 1 ≡ u + 1 == v + p
            assert(u1 + 1 == v1 + pi && u2 + 1 == v2 + pi);
            lemma_cong_add(s1 as int, u1, 1, 1, pi); lemma_cong_add(s2 as int, u2, 1, 1, pi);
            lemma_cong_add_multiple(v1, 1, pi); lemma_cong_add_multiple(v2, 1, pi); lemma_mul_one(pi);
            assert(cong(s1 as int + 1, v1, pi));
            assert(cong(s2 as int + 1, v2, pi));
            if !self.only_odds {
                assert(v1 == (b - rr) + 2 * pi && v2 == (b + rr) + 2 * pi);
                assert(cong(s1 as int + 1, b - rr, pi));
                assert(cong(s2 as int + 1, b + rr, pi));
            } else {
                lemma_cong_mul(s1 as int + 1, v1, 2, pi); lemma_cong_mul(s2 as int + 1, v2, 2, pi);
                lemma_mul_comm(s1 as int + 1, 2); lemma_mul_comm(s2 as int + 1, 2);
                lemma_mul_comm(v1, 2); lemma_mul_comm(v2, 2);
                assert(cong(2 * (s1 as int + 1), 2 * v1, pi));
                assert(cong(2 * (s2 as int + 1), 2 * v2, pi));
                assert(cong(2 * v1, t1g, pi) && cong(2 * v2, t2g, pi));
                assert(t1g == (b - rr) + 2 * pi && t2g == (b + rr) + 2 * pi);
            }
        }
        (s1 as u32, s2 as u32)
    }
