//! unit: {"file": "src/qsieve.rs", "kind": "struct", "name": "SieveQS", "props": ["C12"]}
//! ---- pinned ----
pub struct SieveQS<'a> {
    n: Uint,
    // The polynomial is (nsqrt + x)^2 - n = x^2 + 2 nsqrt x + (nsqrt^2 - n)
    nsqrt: I256,
    nsqrt2_minus_n: I256,
    // Precomputed nsqrt_mods modulo the factor base.
    nsqrt_mods: Vec<u32>,
    fbase: &'a FBase,
    only_odds: bool,

    maxlarge: u64,
    use_double: bool,
    rels: RwLock<RelationSet>,
}
//! ---- annotated ----
pub struct SieveQS<'a> {
    n: Uint,
    // The polynomial is (nsqrt + x)^2 - n = x^2 + 2 nsqrt x + (nsqrt^2 - n)
    nsqrt: I256,
    nsqrt2_minus_n: I256,
    // Precomputed nsqrt_mods modulo the factor base.
    nsqrt_mods: Vec<u32>,
    fbase: &'a FBase,
    only_odds: bool,

    maxlarge: u64,
    use_double: bool,
    rels: RwLock<RelationSet>,
}
