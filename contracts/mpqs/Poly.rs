//! unit: {"file": "src/mpqs.rs", "kind": "struct", "name": "Poly", "props": ["C12"]}
//! ---- pinned ----
/// A polynomial is a quadratic Ax^2 + Bx + C
/// such that (Ax+BB)^2-n = D^2 (Ax^2 + Bx + C) and A=D^2
/// and the polynomial values are small.
///
/// The polynomial values are divisible by p iff
/// ax+b is a square root of n modulo p
#[derive(Debug)]
pub struct Poly {
    // The polynomial is ax^2+bx+c
    pub a: U256,
    pub b: U256,
    c: I256,
    // (ax+bb)/d is the modular square root of ax^2+bx+c
    bb: Uint,
    pub d: u128,
    dinv: Uint,
}
//! ---- annotated ----
/// A polynomial is a quadratic Ax^2 + Bx + C
/// such that (Ax+BB)^2-n = D^2 (Ax^2 + Bx + C) and A=D^2
/// and the polynomial values are small.
///
/// The polynomial values are divisible by p iff
/// ax+b is a square root of n modulo p
#[derive(Debug)]
pub struct Poly {
    // The polynomial is ax^2+bx+c
    pub a: U256,
    pub b: U256,
    c: I256,
    // (ax+bb)/d is the modular square root of ax^2+bx+c
    bb: Uint,
    pub d: u128,
    dinv: Uint,
}
