//! unit: {"container": "impl Workspace", "file": "src/mpqs.rs", "hoist": true, "kind": "fn", "name": "batch_inversion", "props": ["C12", "C03"]}
//! ---- pinned ----
    fn batch_inversion(&mut self, s: &SieveMPQS, ds: Vec<u128>) {
        assert!(!ds.is_empty());
        let len = s.fbase.len();
        for i in 0..ds.len() {
            if i >= self.dinv_modp.len() {
                self.dinv_modp.push(vec![0; len].into_boxed_slice());
            } else {
                assert!(self.dinv_modp[i].len() == len);
            }
        }
        let mut prods = vec![0; ds.len()];
        let mut dmod = vec![0; ds.len()];
        for i in 0..len {
            // The overhead of batch inversion is rather large
            // (3 modular multiplications and vector allocations)
            let div = s.fbase.div(i);
            let inv = &s.inverters[i];
            // Compute cumulative products (excluding zeros).
            let mut prod = 1;
            unsafe {
                // This is a hot spot, skip bound checks.
                for j in 0..ds.len() {
                    let dm = div.mod_u128(*ds.get_unchecked(j));
                    *dmod.get_unchecked_mut(j) = dm;
                    if dm != 0 {
                        prod = div.modu63(prod * dm);
                    }
                    *prods.get_unchecked_mut(j) = prod;
                }
                let invprod = inv.invert(prod as u32, &div);
                // 1/d[i] = product(j < i, d[j]) * product(j > i, d[j]) * invprod
                let mut prodrev = invprod as u64;
                for j in 0..ds.len() {
                    let jrev = ds.len() - 1 - j;
                    let dm = *dmod.get_unchecked(jrev);
                    let out = self.dinv_modp.get_unchecked_mut(jrev).get_unchecked_mut(i);
                    if dm == 0 {
                        *out = 0;
                        continue;
                    }
                    if jrev > 0 {
                        // prodrev = product(j > i, d[j]) * invprod
                        *out = div.modu63(prodrev * *prods.get_unchecked(jrev - 1)) as u32;
                        prodrev = div.modu63(prodrev * dm);
                    } else {
                        *out = prodrev as u32;
                    };
                    debug_assert!(
                        div.modu63(*out as u64 * dm) == 1,
                        "dmod={dmod:?} p={} j={jrev} d={dm} dinv={}",
                        s.fbase.p(i),
                        *out
                    );
                }
            }
        }
    }
//! ---- annotated ----
    fn batch_inversion(&mut self, s: &SieveMPQS, ds: Vec<u128>)
        requires
            mpqs_ctx_ok(s), old(self).rows_ok(mpqs_fb(s).sp().len() as int), ds@.len() >= 1,
        ensures
            final(self).rows_ok(mpqs_fb(s).sp().len() as int),
            final(self).table().len() >= ds@.len(),
            // the table contract: for the D values of this chunk and every factor-base prime
            forall|j: int, i: int| 0 <= j < ds@.len() && 0 <= i < mpqs_fb(s).sp().len() ==>
                dinv_entry_ok(#[trigger] final(self).table()[j]@[i], ds@[j], mpqs_fb(s).sp()[i]),
    {
        assert!(!ds.is_empty());
        let len = ol_mpqs_fbase(s).len();
        let ghost fb = mpqs_fb(s);
        let ghost sp = fb.sp();
        proof {
            assert forall|r: int| 0 <= r < self.dinv_modp@.len() implies (#[trigger] self.dinv_modp@[r])@.len() == len by {
                assert(self.table()[r]@.len() == len);
            }
        }
        for i in 0..ds.len()
            invariant
                len == sp.len(), self.dinv_modp@.len() >= i,
                forall|r: int| 0 <= r < self.dinv_modp@.len() ==> (#[trigger] self.dinv_modp@[r])@.len() == len,
        {
            if i >= self.dinv_modp.len() {
                self.dinv_modp.push(vec![0; len].into_boxed_slice());
            } else {
                assert!(self.dinv_modp[i].len() == len);
            }
        }
        let mut prods = vec![0; ds.len()];
        let mut dmod = vec![0; ds.len()];
        for i in 0..len
            invariant
                mpqs_ctx_ok(s), fb == mpqs_fb(s), sp == fb.sp(), len == sp.len(), ds@.len() >= 1,
                forall|r: int| 0 <= r < self.dinv_modp@.len() ==> (#[trigger] self.dinv_modp@[r])@.len() == len,
                self.dinv_modp@.len() >= ds@.len(),
                prods@.len() == ds@.len(), dmod@.len() == ds@.len(),
                forall|j: int, c: int| 0 <= j < ds@.len() && 0 <= c < i ==> dinv_entry_ok(#[trigger] self.dinv_modp@[j]@[c], ds@[j], sp[c]),
        {
            // The overhead of batch inversion is rather large
            // (3 modular multiplications and vector allocations)
            let div = ol_mpqs_fbase(s).div(i);
            let inv = &ol_mpqs_inverters(s)[i];
            let ghost p = sp[i as int];
            let ghost pi = p as int;
            proof {
                assert(fb.sd()[i as int].wfa() && fb.sd()[i as int].pv() == p as int);
                div.lemma_wfa_cases();
                assert(is_prime(p as nat));
                assert(2 <= sp[i as int] < 0x100_0000);
                lemma_small_mod(1, p as nat);
            }
            // Compute cumulative products (excluding zeros).
            let mut prod = 1;
            {
                // This is a hot spot, skip bound checks.
                for j in 0..ds.len()
                    invariant
                        div.wfa(), div.pv() == pi, 2 <= pi < 0x100_0000, is_prime(p as nat), pi == p as int,
                        prods@.len() == ds@.len(), dmod@.len() == ds@.len(),
                        forall|k: int| 0 <= k < j ==> (#[trigger] dmod@[k]) as int == (ds@[k] as int) % pi,
                        forall|k: int| 0 <= k < j ==> (#[trigger] prods@[k]) as int == pp(dmod@, k, pi),
                        prod as int == pp(dmod@, j - 1, pi), 0 < prod < pi,
                {
                    let dm = div.mod_u128(ds[j]);
                    let ghost dmod0 = dmod@;
                    dmod[j] = dm;
                    proof {
                        lemma_mod_bound(ds@[j as int] as int, pi);
                        assert forall|k: int| 0 <= k < j implies (#[trigger] prods@[k]) as int == pp(dmod@, k, pi) by {
                            lemma_pp_frame(dmod0, dmod@, k, pi);
                        }
                        lemma_pp_frame(dmod0, dmod@, j - 1, pi);
                        lemma_mul_lt(prod as int, pi, dm as int, pi);
                        assert(pi * pi < 0x8000_0000_0000_0000) by (nonlinear_arith) requires 2 <= pi < 0x100_0000;
                        lemma_shr63((prod as int * dm as int) as u64);
                        if dm != 0 { lemma_prime_product_nonzero(prod as nat, dm as nat, p as nat); }
                    }
                    if dm != 0 {
                        prod = div.modu63(prod * dm);
                    }
                    let ghost prods0 = prods@;
                    prods[j] = prod;
                }
                proof { lemma_prime_coprime(prod as nat, p as nat); }
                let invprod = inv.invert(prod as u32, &div);
                // 1/d[i] = product(j < i, d[j]) * product(j > i, d[j]) * invprod
                let mut prodrev = invprod as u64;
                let ghost tab0 = self.dinv_modp@;
                let mut verif_it_j = 0; let verif_end_j = ds.len(); while verif_it_j < verif_end_j
                    invariant
                        div.wfa(), div.pv() == pi, 2 <= pi < 0x100_0000, is_prime(p as nat), pi == p as int, i < len, len == sp.len(), p == sp[i as int],
                        verif_end_j == ds@.len(), 0 <= verif_it_j <= verif_end_j, ds@.len() >= 1,
                        prods@.len() == ds@.len(), dmod@.len() == ds@.len(),
                        forall|k: int| 0 <= k < ds@.len() ==> (#[trigger] dmod@[k]) as int == (ds@[k] as int) % pi,
                        forall|k: int| 0 <= k < ds@.len() ==> (#[trigger] prods@[k]) as int == pp(dmod@, k, pi),
                        prodrev < pi,
                        verif_it_j < verif_end_j ==> cong(prodrev as int * pp(dmod@, ds@.len() - 1 - verif_it_j, pi), 1, pi),
                        forall|r: int| 0 <= r < self.dinv_modp@.len() ==> (#[trigger] self.dinv_modp@[r])@.len() == len,
                        self.dinv_modp@.len() == tab0.len(), tab0.len() >= ds@.len(),
                        // frame: other columns and the rows not yet visited are unchanged
                        forall|r: int, c: int| 0 <= r < tab0.len() && 0 <= c < len && c != i ==> (#[trigger] self.dinv_modp@[r]@[c]) == tab0[r]@[c],
                        // done rows of this column
                        forall|r: int| ds@.len() - verif_it_j <= r < ds@.len() ==> dinv_entry_ok(#[trigger] self.dinv_modp@[r]@[i as int], ds@[r], p),
                    decreases verif_end_j - verif_it_j
                {
                    let j = verif_it_j; verif_it_j += 1;
                    let jrev = ds.len() - 1 - j;
                    let dm = dmod[jrev];
                    proof {
                        assert(self.dinv_modp@[jrev as int]@.len() == len);
                        lemma_pp_range(dmod@, jrev as int - 1, p as nat);
                        lemma_pp_range(dmod@, jrev as int, p as nat);
                        lemma_mod_bound(ds@[jrev as int] as int, pi);
                    }
                    let ghost tab1 = self.dinv_modp@;
                    let out = &mut self.dinv_modp[jrev][i];
                    if dm == 0 {
                        *out = 0;
                        proof { assert(pp(dmod@, jrev as int, pi) == pp(dmod@, jrev as int - 1, pi)); }
                        continue;
                    }
                    let ghost ppm = pp(dmod@, jrev as int - 1, pi);
                    proof {
                        assert(pp(dmod@, jrev as int, pi) == (ppm * (dm as int)) % pi);
                        assert(pi * pi < 0x8000_0000_0000_0000) by (nonlinear_arith) requires 2 <= pi < 0x100_0000;
                        lemma_mul_lt(prodrev as int, pi, dm as int, pi);
                        if jrev > 0 { lemma_mul_lt(prodrev as int, pi, prods@[jrev as int - 1] as int, pi); }
                        lemma_shr63((prodrev as int * dm as int) as u64);
                        if jrev > 0 {
                            lemma_shr63((prodrev as int * prods@[jrev as int - 1] as int) as u64);
                            lemma_mod_bound(prodrev as int * ppm, pi);
                            lemma_mod_bound(prodrev as int * dm as int, pi);
                            lemma_batch_step(prodrev as int, ppm, dm as int, (prodrev as int * ppm) % pi, (prodrev as int * dm as int) % pi, pi);
                        } else {
                            lemma_small_mod(1, p as nat);
                            assert(ppm == 1);
                            lemma_mul_one(dm as int);
                            lemma_small_mod(dm as nat, p as nat);
                        }
                    }
                    if jrev > 0 {
                        // prodrev = product(j > i, d[j]) * invprod
                        *out = div.modu63(prodrev * prods[jrev - 1]) as u32;
                        prodrev = div.modu63(prodrev * dm);
                    } else {
                        *out = prodrev as u32;
                    };
                    proof {
                        let ov = *out as int;
                        assert(cong(ov * (dm as int), 1, pi));
                        lemma_mul_lt(ov, pi, dm as int, pi);
                        lemma_shr63((ov * dm as int) as u64);
                        lemma_small_mod(1, p as nat);
                    }
                    debug_assert!(div.modu63(*out as u64 * dm) == 1);
                }
            }
        }
    }
