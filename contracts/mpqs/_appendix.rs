#[allow(unused_imports)] use vstd::arithmetic::{div_mod::*, power2::*, mul::*};
#[allow(unused_imports)] use vstd::std_specs::ops::*;
#[allow(unused_imports)] use vstd::std_specs::cmp::*;

verus! {
impl Poly {
    pub closed spec fn av(&self) -> int { uv(self.a) as int }
    pub closed spec fn bv(&self) -> int { uv(self.b) as int }
    pub closed spec fn bbv(&self) -> int { uv(self.bb) as int }
    pub closed spec fn cv(&self) -> int { iv(self.c) }
    pub closed spec fn dv(&self) -> int { self.d as int }
    /// A = D^2, and BB is B/2 when B is even
    pub closed spec fn wf(&self) -> bool {
        &&& uv(self.a) == (self.d as nat) * (self.d as nat)
        &&& (uv(self.b) % 2 == 0 ==> uv(self.b) == 2 * uv(self.bb))
    }
    pub proof fn lemma_wf_unfold(&self)
        requires self.wf()
        ensures self.av() == self.dv() * self.dv(), self.bv() >= 0, self.bbv() >= 0, self.av() >= 0
    {}
}




pub assume_specification<const N: usize> [ bnum::BInt::<N>::is_negative ] (x: bnum::BInt<N>) -> (r: bool)
    ensures r == (iv(x) < 0);
/// |x| (bnum panics / wraps only for the minimum value)
pub assume_specification<const N: usize> [ bnum::BInt::<N>::abs ] (x: bnum::BInt<N>) -> (r: bnum::BInt<N>)
    requires iv(x) > -(pow_w(N as nat) as int) / 2
    ensures iv(r) == (if iv(x) < 0 { -iv(x) } else { iv(x) });
} // verus!
