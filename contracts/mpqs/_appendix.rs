#[allow(unused_imports)] use vstd::arithmetic::{div_mod::*, power2::*, mul::*};
#[allow(unused_imports)] use vstd::std_specs::ops::*;
#[allow(unused_imports)] use vstd::std_specs::cmp::*;

verus! {
impl Poly {
    pub closed spec fn av(&self) -> int { uv(self.a) as int }
    pub closed spec fn bv(&self) -> int { uv(self.b) as int }
    pub closed spec fn bbv(&self) -> int { uv(self.bb) as int }
    pub closed spec fn cv(&self) -> int { iv(self.c) }
    pub closed spec fn dv(&self) -> int { self.d as int }
    /// A = D^2, and BB is B/2 when B is even
    pub closed spec fn wf(&self) -> bool {
        &&& uv(self.a) == (self.d as nat) * (self.d as nat)
        &&& (uv(self.b) % 2 == 0 ==> uv(self.b) == 2 * uv(self.bb))
    }
    pub proof fn lemma_wf_unfold(&self)
        requires self.wf()
        ensures self.av() == self.dv() * self.dv(), self.bv() >= 0, self.bbv() >= 0, self.av() >= 0
    {}
}




} // verus!

verus! {
#[verifier::external_type_specification]
#[verifier::external_body]
pub struct ExSieveMPQS<'a>(SieveMPQS<'a>);

#[verifier::external_type_specification]
#[verifier::external_body]
pub struct ExSieveRecycle(sieve::SieveRecycle);

/// what `batch_inversion` reads of the sieve context (the struct holds locks and atomics and stays opaque)
pub uninterp spec fn mpqs_fb(s: &SieveMPQS) -> FBase;
pub uninterp spec fn mpqs_invs(s: &SieveMPQS) -> Seq<arith::Inverter>;

/// Rmq accessors
#[verifier::external_body]
fn ol_mpqs_fbase<'a, 'b>(s: &'b SieveMPQS<'a>) -> (r: &'b FBase)
    ensures *r == mpqs_fb(s),
{ s.fbase }

#[verifier::external_body]
fn ol_mpqs_inverters<'a, 'b>(s: &'b SieveMPQS<'a>) -> (r: &'b [arith::Inverter])
    ensures r@ == mpqs_invs(s),
{ s.inverters }

/// the part of the construction of the context (`mpqs()`: not under contract) that `batch_inversion` relies on: a
/// well-formed factor base of primes below 2^28, and one inverter per odd prime
pub open spec fn mpqs_ctx_ok(s: &SieveMPQS) -> bool {
    &&& mpqs_fb(s).wf()
    &&& mpqs_invs(s).len() == mpqs_fb(s).sp().len()
    &&& forall|i: int| 0 <= i < mpqs_fb(s).sp().len() ==> is_prime(#[trigger] mpqs_fb(s).sp()[i] as nat)
    &&& forall|i: int| 0 <= i < mpqs_fb(s).sp().len() && mpqs_fb(s).sp()[i] != 2 ==> (#[trigger] mpqs_invs(s)[i]).wf(mpqs_fb(s).sp()[i] as int)
}

impl Workspace {
    pub closed spec fn table(&self) -> Seq<Box<[u32]>> { self.dinv_modp@ }
    /// every existing row has one entry per factor-base prime
    pub open spec fn rows_ok(&self, len: int) -> bool {
        forall|j: int| 0 <= j < self.table().len() ==> (#[trigger] self.table()[j])@.len() == len
    }
}

/// the table contract: 0 marks p | D, otherwise the entry is the inverse of D modulo p
pub open spec fn dinv_entry_ok(e: u32, d: u128, p: u32) -> bool {
    if (d as int) % (p as int) == 0 { e == 0 } else { (e as int) < p as int && cong(e as int * ((d as int) % (p as int)), 1, p as int) }
}
} // verus!
