//! unit: {"file": "src/mpqs.rs", "kind": "struct", "name": "Workspace", "props": ["C12"]}
//! ---- pinned ----
/// A structure holding memory allocations for MPQS.
#[derive(Default)]
struct Workspace {
    roots1: Vec<u32>,
    roots2: Vec<u32>,
    recycled: Option<sieve::SieveRecycle>,
    /// Precomputed inverses of D modulo the factor base.
    /// This is done for several D's at a time to benefit
    /// from batch inversion.
    /// If D is divisible by p, the value is zero.
    dinv_modp: Vec<Box<[u32]>>,
}
//! ---- annotated ----
/// A structure holding memory allocations for MPQS.
#[derive(Default)]
struct Workspace {
    roots1: Vec<u32>,
    roots2: Vec<u32>,
    recycled: Option<sieve::SieveRecycle>,
    /// Precomputed inverses of D modulo the factor base.
    /// This is done for several D's at a time to benefit
    /// from batch inversion.
    /// If D is divisible by p, the value is zero.
    dinv_modp: Vec<Box<[u32]>>,
}
