//! unit: {"container": "impl Poly", "file": "src/mpqs.rs", "kind": "fn", "name": "prepare_prime", "props": ["C12", "C03"]}
//! ---- pinned ----
    pub fn prepare_prime(
        &self,
        p: u32,
        r: u32,
        div: &arith::Dividers,
        inv: &arith::Inverter,
        // The modular inverse of self.d mod p.
        dinv: u32,
        offset: i32,
    ) -> (u32, u32) {
        // Could be precomputed/handled as 32-bit.
        let off: u32 = div.modi64(offset as i64) as u32;
        let shift = |r: u32| -> u32 {
            if r < off {
                r + p - off
            } else {
                r - off
            }
        };

        // Determine roots r1, r2 such that P(offset+r)==0 mod p.
        if p == 2 {
            // We don't really know what will happen.
            (0, 1)
        } else {
            // Transform roots as:
            // if n % 4 == 1 (b is odd), r -> (r - B) / 2A
            // if n % 4 != 1 (b is even), r -> (r - B/2) / A
            // A=D^2 so it is faster to reduce D rather than A.
            if dinv == 0 {
                // For very small integers, we may select D inside the factor base.
                // In this case the roots are the roots of Bx-abs(C) (C < 0)
                let b = div.mod_uint(&self.b);
                let binv = inv.invert(b as u32, &div) as u64;
                debug_assert!(self.c.is_negative());
                let c = div.mod_uint(&self.c.abs().to_bits());
                let r = shift(div.divmod64(c * binv).1 as u32);
                (r, r)
            } else {
                let d2inv = div.modu63(dinv as u64 * dinv as u64);
                let (ainv, b) = if self.b.bit(0) {
                    // We need 1/2D^2
                    (
                        if d2inv & 1 == 0 {
                            d2inv >> 1
                        } else {
                            (d2inv + p as u64) >> 1
                        },
                        div.mod_uint(&self.b),
                    )
                } else {
                    (d2inv, div.mod_uint(&self.bb))
                };
                let r1 = shift(div.modu63((p as u64 + r as u64 - b) * ainv) as u32);
                let r2 = shift(div.modu63((2 * p as u64 - r as u64 - b) * ainv) as u32);
                (r1, r2)
            }
        }
    }
//! ---- annotated ----
    pub fn prepare_prime(
        &self,
        p: u32,
        r: u32,
        div: &arith::Dividers,
        inv: &arith::Inverter,
        // The modular inverse of self.d mod p.
        dinv: u32,
        offset: i32,
    ) -> (res: (u32, u32))
        requires
            self.wf(), div.wf(), div.pv() == p as int, r < p, dinv < p,
            p < 0x1000_0000, inv.wf(p as int),
            dinv != 0 ==> cong(dinv as int * self.dv(), 1, p as int),
            // D inside the factor base: C < 0 (debug-asserted by the code) and p does not divide B (Inverter::invert
            // asserts a non-zero argument)
            dinv == 0 ==> -(pow_w(4) as int) / 2 < self.cv() < 0 && self.bv() % (p as int) != 0
                && coprime((self.bv() % (p as int)) as nat, p as nat),
        ensures
            res.0 < p, res.1 < p,
            // generic case: at x = offset + root, 2 A x + B (B odd) resp. A x + B/2 (B even) is the square root ±r
            dinv != 0 && self.bv() % 2 == 1 ==>
                cong(2 * self.av() * (offset as int + res.0 as int) + self.bv(), r as int, p as int)
                && cong(2 * self.av() * (offset as int + res.1 as int) + self.bv(), -(r as int), p as int),
            dinv != 0 && self.bv() % 2 == 0 ==>
                cong(1 * self.av() * (offset as int + res.0 as int) + self.bbv(), r as int, p as int)
                && cong(1 * self.av() * (offset as int + res.1 as int) + self.bbv(), -(r as int), p as int),
            // D inside the factor base: the double root of B x - |C|
            dinv == 0 && self.bv() % (p as int) != 0 ==>
                res.0 == res.1 && cong(self.bv() * (offset as int + res.0 as int), -self.cv(), p as int),
    {
        proof { div.lemma_wf_facts(); }
        let ghost pi = p as int;
        // Could be precomputed/handled as 32-bit.
        let off: u32 = div.modi64(offset as i64) as u32;
        proof { lemma_mod_bound(offset as int, pi); }
        let shift = |r: u32| -> (out: u32)
            requires r < p
            ensures r < off ==> out == r + p - off, r >= off ==> out == r - off
        {
            if r < off {
                r + p - off
            } else {
                r - off
            }
        };

        // Determine roots r1, r2 such that P(offset+r)==0 mod p.
        if p == 2 {
            // We don't really know what will happen.
            (0, 1)
        } else {
            // Transform roots as:
            // if n % 4 == 1 (b is odd), r -> (r - B) / 2A
            // if n % 4 != 1 (b is even), r -> (r - B/2) / A
            // A=D^2 so it is faster to reduce D rather than A.
            if dinv == 0 {
                // For very small integers, we may select D inside the factor base.
                // In this case the roots are the roots of Bx-abs(C) (C < 0)
                let b = div.mod_uint(&self.b);
                proof { lemma_mod_bound(self.bv(), pi); }
                let binv = inv.invert(b as u32, &div) as u64;
                debug_assert!(self.c.is_negative());
                let c = div.mod_uint(&self.c.abs().to_bits());
                proof {
                    lemma_mod_bound(-self.cv(), pi);
                    lemma_mul_le2(c as int, pi, binv as int, pi);
                    lemma_mul_le2(pi, 0x4000_0000, pi, 0x4000_0000);
                    lemma_mul_nonneg(c as int, binv as int);
                }
                let ghost m = (c * binv) as int % pi;
                let r = shift(div.divmod64(c * binv).1 as u32);
                proof {
                    lemma_mod_bound((c * binv) as int, pi);
                    lemma_shift_root(m, off as int, r as int, offset as int, pi);
                    if self.bv() % pi != 0 {
                        // B (offset + r) ≡ B m ≡ B (c binv) ≡ c (binv b) ≡ c ≡ |C|
                        lemma_cong_mul(offset as int + r as int, m, self.bv(), pi);
                        lemma_cong_mod((c * binv) as int, pi);
                        lemma_cong_mul(m, (c * binv) as int, self.bv(), pi);
                        lemma_cong_mod(self.bv(), pi);
                        lemma_cong_mul(b as int, self.bv(), (c * binv) as int, pi);
                        assert((b as int) * ((c as int) * (binv as int)) == (c as int) * ((binv as int) * (b as int))) by (nonlinear_arith);
                        lemma_cong_mul((binv as int) * (b as int), 1, c as int, pi);
                        lemma_mul_one(c as int);
                        lemma_cong_mod(-self.cv(), pi);
                    }
                }
                (r, r)
            } else {
                proof {
                    lemma_mul_le2(dinv as int, pi, dinv as int, pi);
                    lemma_mul_le2(pi, 0x4000_0000, pi, 0x4000_0000);
                    lemma_mul_nonneg(dinv as int, dinv as int);
                    let q = (dinv as u64 * dinv as u64) as u64;
                    assert(q >> 63 == 0) by (bit_vector) requires q <= 0x1000_0000_0000_0000;
                }
                let d2inv = div.modu63(dinv as u64 * dinv as u64);
                proof { lemma_mod_bound((dinv as int) * (dinv as int), pi); }
                let (ainv, b) = if self.b.bit(0) {
                    // We need 1/2D^2
                    (
                        if d2inv & 1 == 0 {
                            d2inv >> 1
                        } else {
                            (d2inv + p as u64) >> 1
                        },
                        div.mod_uint(&self.b),
                    )
                } else {
                    (d2inv, div.mod_uint(&self.bb))
                };
                let ghost odd = self.bv() % 2 == 1;
                let ghost kk: int = if odd { 2 } else { 1 };
                let ghost bsel: int = if odd { self.bv() } else { self.bbv() };
                proof {
                    let dp = (d2inv + p as u64) as u64;
                    assert((d2inv & 1 == 0) == (d2inv % 2 == 0)) by (bit_vector);
                    assert(d2inv >> 1 == d2inv / 2) by (bit_vector);
                    assert(dp >> 1 == dp / 2) by (bit_vector);
                    if odd {
                        lemma_half_mod(d2inv as int, ainv as int, pi);
                    } else {
                        lemma_mul_one(ainv as int);
                    }
                    lemma_cong_mod((dinv as int) * (dinv as int), pi);
                    lemma_cong_trans(kk * (ainv as int), d2inv as int, (dinv as int) * (dinv as int), pi);
                    lemma_mod_bound(bsel, pi);
                    lemma_cong_mod(bsel, pi);
                    // the two products below stay under 2^63
                    lemma_mul_le2((p as int + r as int - b as int), 2 * pi, ainv as int, pi);
                    lemma_mul_le2((2 * p as int - r as int - b as int), 2 * pi, ainv as int, pi);
                    lemma_mul_nonneg(p as int + r as int - b as int, ainv as int);
                    lemma_mul_nonneg(2 * p as int - r as int - b as int, ainv as int);
                    lemma_mul_le2(2 * pi, 0x8000_0000, pi, 0x4000_0000);
                }
                let ghost t1 = p as int + r as int - b as int;
                let ghost t2 = 2 * p as int - r as int - b as int;
                proof {
                    let q1 = ((p as u64 + r as u64 - b) * ainv) as u64;
                    let q2 = ((2 * p as u64 - r as u64 - b) * ainv) as u64;
                    assert(q1 >> 63 == 0) by (bit_vector) requires q1 <= 0x2000_0000_0000_0000;
                    assert(q2 >> 63 == 0) by (bit_vector) requires q2 <= 0x2000_0000_0000_0000;
                }
                let ghost m1 = (t1 * ainv as int) % pi;
                let ghost m2 = (t2 * ainv as int) % pi;
                let r1 = shift(div.modu63((p as u64 + r as u64 - b) * ainv) as u32);
                let r2 = shift(div.modu63((2 * p as u64 - r as u64 - b) * ainv) as u32);
                proof {
                    lemma_mod_bound(t1 * ainv as int, pi);
                    lemma_mod_bound(t2 * ainv as int, pi);
                    lemma_shift_root(m1, off as int, r1 as int, offset as int, pi);
                    lemma_shift_root(m2, off as int, r2 as int, offset as int, pi);
                    lemma_cong_mod(t1 * ainv as int, pi);
                    lemma_cong_mod(t2 * ainv as int, pi);
                    lemma_cong_trans(offset as int + r1 as int, m1, t1 * ainv as int, pi);
                    lemma_cong_trans(offset as int + r2 as int, m2, t2 * ainv as int, pi);
                    // t1 = p + r - b' ≡ r - bsel,  t2 = 2p - r - b' ≡ -r - bsel
                    lemma_cong_add_multiple(r as int - b as int, 1, pi);
                    lemma_cong_add_multiple(-(r as int) - b as int, 2, pi);
                    lemma_mul_one(pi);
                    lemma_cong_refl(r as int, pi);
                    lemma_cong_refl(-(r as int), pi);
                    lemma_cong_add(r as int, r as int, b as int, bsel, pi);
                    lemma_cong_add(-(r as int), -(r as int), b as int, bsel, pi);
                    lemma_cong_trans(t1, r as int - b as int, r as int - bsel, pi);
                    lemma_cong_trans(t2, -(r as int) - b as int, -(r as int) - bsel, pi);
                    self.lemma_wf_unfold();
                    lemma_root_transform(kk, self.av(), self.dv(), dinv as int, ainv as int, bsel, r as int, t1, offset as int + r1 as int, pi);
                    lemma_root_transform(kk, self.av(), self.dv(), dinv as int, ainv as int, bsel, -(r as int), t2, offset as int + r2 as int, pi);
                }
                (r1, r2)
            }
        }
    }
