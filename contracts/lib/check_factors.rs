//! unit: {"file": "src/lib.rs", "kind": "fn", "name": "check_factors", "props": ["C01"]}
//! ---- pinned ----
fn check_factors(n: &Uint, factors: &[Uint]) -> Result<(), FactoringFailure> {
    if let &[p] = &factors {
        assert_eq!(n, p);
        if !pseudoprime(*p) {
            return Err(FactoringFailure);
        }
    }
    assert_eq!(*n, factors.iter().product::<Uint>());
    Ok(())
}
//! ---- annotated ----
fn check_factors(n: &Uint, factors: &[Uint]) -> (r: Result<(), FactoringFailure>)
    requires bitlen(uv(*n)) <= 512,
    ensures r is Ok ==> seq_prod(factors@) % pow_w(16) == uv(*n),
{
    if factors.len() == 1 {
        let p = &factors[0];
        proof { axiom_buint_eq(*n, *p); }
        if !(n == p) { verif_diverge(); }
        if !pseudoprime(*p) {
            return Err(FactoringFailure);
        }
    }
    if !(*n == ol_product(factors)) { verif_diverge(); }
    Ok(())
}
