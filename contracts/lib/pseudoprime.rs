//! unit: {"file": "src/lib.rs", "kind": "fn", "name": "pseudoprime", "props": ["C06", "C01", "C03"]}
//! ---- pinned ----
/// Probabilistic primality test using a Miller test for small bases.
pub fn pseudoprime(p: Uint) -> bool {
    // Montgomery arithmetic is only for odd numbers.
    if !p.bit(0) {
        return p.try_into() == Ok(2_u64);
    }
    if p.bits() <= 64 {
        return isprime64(p.low_u64());
    }
    pub fn pow_mod(zp: &ZmodN, x: MInt, exp: &Uint) -> MInt {
        let mut res = zp.one();
        let mut x = x;
        for b in 0..exp.bits() {
            if exp.bit(b) {
                res = zp.mul(&res, &x);
            }
            x = zp.mul(&x, &x);
        }
        res
    }

    let zp = ZmodN::new(p);
    let s = (p.low_u64() - 1).trailing_zeros();
    let p_odd = p >> s;
    for &b in &fbase::SMALL_PRIMES {
        let mut pow = pow_mod(&zp, zp.from_int(b.into()), &p_odd);
        let pm1 = zp.sub(&zp.zero(), &zp.one());
        let mut ok = pow == zp.one() || pow == pm1;
        for _ in 0..s {
            pow = zp.mul(&pow, &pow);
            if pow == pm1 {
                ok = true;
                break;
            } else if pow == zp.one() {
                break;
            }
        }
        if !ok {
            return false;
        }
    }
    true
}
//! ---- annotated ----
/// Probabilistic primality test using a Miller test for small bases.
pub fn pseudoprime(p: Uint) -> (r: bool)
    requires bitlen(uv(p)) <= 512,
    ensures
        uv(p) % 2 == 0 ==> r == (uv(p) == 2),
        bitlen(uv(p)) <= 64 ==> r == is_prime(uv(p)),
{
    broadcast use axiom_borrow_ref;
    // Montgomery arithmetic is only for odd numbers.
    if !p.bit(0) {
        return ol_uint_eq_u64(p, 2_u64);
    }
    if p.bits() <= 64 {
        proof { lemma_bits_le64(p); }
        return isprime64(p.low_u64());
    }
    pub fn pow_mod(zp: &ZmodN, x: MInt, exp: &Uint) -> (res: MInt)
        requires zp.wf(), x.val() < zp.nval(),
        ensures res.val() < zp.nval(),
    {
        broadcast use axiom_borrow_ref;
        let mut res = zp.one();
        let mut x = x;
        proof { zp.lemma_wf_r(); }
        for b in 0..exp.bits()
            invariant zp.wf(), res.val() < zp.nval(), x.val() < zp.nval(),
        {
            proof { broadcast use axiom_borrow_ref; }
            if exp.bit(b) {
                res = zp.mul(&res, &x);
            }
            x = zp.mul(&x, &x);
        }
        res
    }

    let zp = ZmodN::new(p);
    proof {
        // p is odd with more than 64 bits: its low word is odd, and every base is below p
        lemma_bits_gt64(p);
        lemma_low_word_odd(uv(p));
        zp.lemma_wf_r();
    }
    let s = (p.low_u64() - 1).trailing_zeros();
    proof { axiom_buint_shr_u32(p, s); }
    let p_odd = p >> s;
    for verif_r_b in 0..fbase::SMALL_PRIMES.len()
        invariant zp.wf(), zp.nval() == uv(p), uv(p) >= 0x1_0000_0000_0000_0000, s <= 64,
            bitlen(uv(p)) > 64, uv(p) % 2 == 1,
    {
        let b = fbase::SMALL_PRIMES[verif_r_b];
        proof { broadcast use axiom_borrow_ref; fbase::lemma_small_primes_elems(verif_r_b as int); zp.lemma_wf_r(); }
        let mut pow = pow_mod(&zp, zp.from_int(b.into()), &p_odd);
        let pm1 = zp.sub(&zp.zero(), &zp.one());
        let mut ok = pow == zp.one() || pow == pm1;
        for verif_it in 0..s
            invariant zp.wf(), pow.val() < zp.nval(),
        {
            proof { broadcast use axiom_borrow_ref; }
            pow = zp.mul(&pow, &pow);
            if pow == pm1 {
                ok = true;
                break;
            } else if pow == zp.one() {
                break;
            }
        }
        if !ok {
            return false;
        }
    }
    true
}
