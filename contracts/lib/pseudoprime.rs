//! unit: {"file": "src/lib.rs", "kind": "fn", "name": "pseudoprime", "props": ["C06", "C01", "C03"]}
//! ---- pinned ----
/// Probabilistic primality test using a Miller test for small bases.
pub fn pseudoprime(p: Uint) -> bool {
    // Montgomery arithmetic is only for odd numbers.
    if !p.bit(0) {
        return p.try_into() == Ok(2_u64);
    }
    if p.bits() <= 64 {
        return isprime64(p.low_u64());
    }
    pub fn pow_mod(zp: &ZmodN, x: MInt, exp: &Uint) -> MInt {
        let mut res = zp.one();
        let mut x = x;
        for b in 0..exp.bits() {
            if exp.bit(b) {
                res = zp.mul(&res, &x);
            }
            x = zp.mul(&x, &x);
        }
        res
    }

    let zp = ZmodN::new(p);
    // p - 1 = p_odd << s with p_odd odd (the 2-adic valuation can exceed one word).
    let s = (p - Uint::ONE).trailing_zeros();
    let p_odd = p >> s;
    for &b in &fbase::SMALL_PRIMES {
        let mut pow = pow_mod(&zp, zp.from_int(b.into()), &p_odd);
        let pm1 = zp.sub(&zp.zero(), &zp.one());
        let mut ok = pow == zp.one() || pow == pm1;
        for _ in 0..s {
            pow = zp.mul(&pow, &pow);
            if pow == pm1 {
                ok = true;
                break;
            } else if pow == zp.one() {
                break;
            }
        }
        if !ok {
            return false;
        }
    }
    true
}
//! ---- annotated ----
/// Probabilistic primality test using a Miller test for small bases.
pub fn pseudoprime(p: Uint) -> (r: bool)
    requires bitlen(uv(p)) <= 512,
    ensures
        uv(p) % 2 == 0 ==> r == (uv(p) == 2),
        bitlen(uv(p)) <= 64 ==> r == is_prime(uv(p)),
        // never rejects a prime (above 2^64: every Miller round accepts a prime, by Miller's criterion A1)
        is_prime(uv(p)) ==> r,
{
    // Montgomery arithmetic is only for odd numbers.
    if !p.bit(0) {
        proof { if uv(p) > 2 { lemma_even_not_prime(uv(p)); } }
        return ol_uint_eq_u64(p, 2_u64);
    }
    if p.bits() <= 64 {
        proof { lemma_bits_le64(p); }
        return isprime64(p.low_u64());
    }
    pub fn pow_mod(zp: &ZmodN, x: MInt, exp: &Uint) -> (res: MInt)
        requires zp.wf(), zp.nval() >= 3, x.val() < zp.nval(),
        ensures res.val() < zp.nval(),
            forall|xv: nat| grep(x.val(), xv, zp.nval(), zp.rr())
                ==> grep(res.val(), pow_mod_spec(xv, uv(*exp), zp.nval()), zp.nval(), zp.rr()),
    {
        let ghost x0 = x;
        let ghost nn = zp.nval();
        let ghost rr = zp.rr();
        let ghost ee = 64 * zp.kval();
        let ghost ev = uv(*exp);
        // the residue x stands for (unique when it exists)
        let ghost has = exists|v: nat| grep(x0.val(), v, nn, rr);
        let ghost xv: nat = choose|v: nat| grep(x0.val(), v, nn, rr);
        let mut res = zp.one();
        let mut x = x;
        proof {
            zp.lemma_wf_r();
            lemma_grep_one(nn, rr, ee, res.val());
            lemma2_to64();
            if has {
                lemma_small_mod(1, nn);
                lemma_mul_one(xv as int);
                lemma_small_mod(xv, nn);
                assert(pow_mod_spec(xv, 1, nn) == (xv * pow_mod_spec(xv, 0, nn)) % nn);
            }
        }
        for b in 0..exp.bits()
            invariant zp.wf(), res.val() < zp.nval(), x.val() < zp.nval(),
                nn == zp.nval(), rr == zp.rr(), ee == 64 * zp.kval(), ev == uv(*exp), nn >= 3, nn % 2 == 1, rr == pow2(ee),
                has ==> grep(res.val(), pow_mod_spec(xv, ev % pow2(b as nat), nn), nn, rr)
                    && grep(x.val(), pow_mod_spec(xv, pow2(b as nat), nn), nn, rr),
        {
            proof { broadcast use axiom_borrow_ref; }
            let ghost res0 = res;
            let ghost xm = x;
            if exp.bit(b) {
                res = zp.mul(&res, &x);
            }
            x = zp.mul(&x, &x);
            proof {
                if has {
                    let lo = ev % pow2(b as nat);
                    let vr = pow_mod_spec(xv, lo, nn);
                    let vx = pow_mod_spec(xv, pow2(b as nat), nn);
                    lemma_low_bits_step(ev, b as nat);
                    lemma_grep_mul(xm.val(), vx, xm.val(), vx, x.val(), nn, rr, ee);
                    lemma_pms_pow2_step(xv, b as nat, nn);
                    if (ev / pow2(b as nat)) % 2 == 1 {
                        lemma_grep_mul(res0.val(), vr, xm.val(), vx, res.val(), nn, rr, ee);
                        lemma_pms_add(xv, lo, pow2(b as nat), nn);
                    }
                }
            }
        }
        proof {
            lemma_bitlen_bound(ev, bitlen(ev));
            lemma_small_mod(ev, pow2(bitlen(ev)));
            assert forall|v: nat| grep(x0.val(), v, nn, rr) implies grep(res.val(), pow_mod_spec(v, ev, nn), nn, rr) by {
                lemma_grep_inj(x0.val(), v, x0.val(), xv, nn, rr, ee);
            }
        }
        res
    }

    let zp = ZmodN::new(p);
    let ghost pn = uv(p);
    let ghost rr = zp.rr();
    let ghost ee = 64 * zp.kval();
    proof {
        // p is odd with more than 64 bits: its low word is odd, and every base is below p
        lemma_bits_gt64(p);
        lemma_low_word_odd(uv(p));
        zp.lemma_wf_r();
    }
    let ghost low = (pn % W()) as u64;
    // p - 1 = p_odd << s with p_odd odd (the 2-adic valuation can exceed one word).
    proof { lemma_buint_ops_all::<16>(); axiom_uv_bound(p); }
    let s = (p - ol_uint_one()).trailing_zeros();
    proof {
        axiom_buint_shr_u32(p, s);
        lemma_miller_decomp_full(pn, s);
    }
    let p_odd = p >> s;
    let ghost dd = uv(p_odd);
    for verif_r_b in 0..fbase::SMALL_PRIMES.len()
        invariant zp.wf(), zp.nval() == uv(p), uv(p) >= 0x1_0000_0000_0000_0000, 1 <= s < 1024,
            bitlen(uv(p)) > 64, uv(p) % 2 == 1, pn == uv(p), rr == zp.rr(), ee == 64 * zp.kval(), rr == pow2(ee),
            dd == uv(p_odd), dd > 0, (pn - 1) as nat == dd * pow2(s as nat),
    {
        let b = fbase::SMALL_PRIMES[verif_r_b];
        proof { broadcast use axiom_borrow_ref; fbase::lemma_small_primes_elems(verif_r_b as int); zp.lemma_wf_r(); }
        let ghost bn = b as nat;
        let mut pow = pow_mod(&zp, zp.from_int(b.into()), &p_odd);
        let pm1 = zp.sub(&zp.zero(), &zp.one());
        let ghost v0 = mchain(bn, dd, pn, 0);
        let ghost onev = zp.r_val();
        proof {
            lemma_small_mod(bn, pn);
            assert(grep(((bn * rr) % pn) as nat, bn, pn, rr));
            assert(pow2n(0) == 1);
            lemma_mul_one(dd as int);
            lemma_grep_one(pn, rr, ee, onev);
            // pm1 = (0 - one) mod p = p - one
            lemma_cong_add_multiple(-(onev as int), 1, pn as int);
            lemma_mul_one(pn as int);
            lemma_small_mod((pn - onev) as nat, pn);
            assert(pm1.val() == (pn - onev) as nat);
            lemma_grep_inj(pow.val(), v0, onev, 1, pn, rr, ee);
            lemma_grep_inj(pow.val(), v0, pm1.val(), (pn - 1) as nat, pn, rr, ee);
            assert forall|o: MInt| (#[trigger] o.val() == pow.val()) == (o == pow) by { MInt::lemma_val_inj(o, pow); }
        }
        let mut ok = pow == zp.one() || pow == pm1;
        let ghost mut jj: nat = 0;
        let ghost mut fin = false;
        let ghost mut gv: nat = v0;
        for verif_it in 0..s
            invariant_except_break
                !fin,
            invariant zp.wf(), pow.val() < zp.nval(), zp.nval() == pn, rr == zp.rr(), rr == pow2(ee), pn >= 3, pn % 2 == 1,
                onev == zp.r_val(), pm1.val() == (pn - onev) as nat, grep(onev, 1, pn, rr), grep(pm1.val(), (pn - 1) as nat, pn, rr),
                v0 == mchain(bn, dd, pn, 0),
                fin ==> ok == (v0 == 1 || mwit(bn, dd, pn, s as nat)),
                !fin ==> jj == verif_it as nat && gv == mchain(bn, dd, pn, jj) && grep(pow.val(), gv, pn, rr)
                    && ok == (v0 == 1 || mwit(bn, dd, pn, jj)),
            ensures
                fin || jj == s as nat,
        {
            proof { broadcast use axiom_borrow_ref; }
            let ghost pow0 = pow;
            pow = zp.mul(&pow, &pow);
            proof {
                lemma_grep_mul(pow0.val(), gv, pow0.val(), gv, pow.val(), pn, rr, ee);
                lemma_mchain_next(bn, dd, pn, jj);
                gv = (gv * gv) % pn;
                jj = jj + 1;
                lemma_grep_inj(pow.val(), gv, pm1.val(), (pn - 1) as nat, pn, rr, ee);
                lemma_grep_inj(pow.val(), gv, onev, 1, pn, rr, ee);
                assert forall|o: MInt| (#[trigger] o.val() == pow.val()) == (o == pow) by { MInt::lemma_val_inj(o, pow); }
            }
            if pow == pm1 {
                ok = true;
                proof {
                    lemma_mwit_mono(bn, dd, pn, jj, s as nat);
                    fin = true;
                }
                break;
            } else if pow == zp.one() {
                proof {
                    lemma_mchain_one(bn, dd, pn, jj, s as nat);
                    fin = true;
                }
                break;
            }
        }
        proof {
            // ok == (V'_0 == 1 || some V'_r == -1, r <= s); a prime passes (A1 + the shift lemma)
            if is_prime(pn) {
                axiom_miller(pn, bn);
                lemma_sprp_shift(pn, bn, dd, s as nat);
            }
        }
        if !ok {
            return false;
        }
    }
    true
}
