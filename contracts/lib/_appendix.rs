#[allow(unused_imports)] use vstd::arithmetic::{div_mod::*, power2::*, mul::*};
#[allow(unused_imports)] use vstd::std_specs::ops::*;
verus! {

/// R4 outlining of `factors.iter().product::<Uint>()` (iterator adaptor). Trusted contract: the wrapping product
/// (bnum panics on overflow in the overflow-checked profile, wraps otherwise).
#[verifier::external_body]
fn ol_product(factors: &[Uint]) -> (r: Uint)
    ensures uv(r) == seq_prod(factors@) % pow_w(16)
{
    factors.iter().product::<Uint>()
}

/// R4 outlining of the trial-division block of `factor` (zip over two constant tables, logging). Assumed contract:
/// it pushes small primes (>= 2) whose product times the returned cofactor is n, and the cofactor is odd (2 is the
/// first small prime) and non-zero.
#[verifier::external_body]
fn ol_factor_trial_division(n: Uint, prefs: &Preferences, factors: &mut Vec<Uint>) -> (nred: Uint)
    requires uv(n) >= 1,
    ensures
        fi_post(old(factors)@, final(factors)@, (uv(n) / uv(nred)) as nat),
        uv(nred) >= 1, uv(nred) % 2 == 1, uv(nred) <= uv(n), uv(n) % uv(nred) == 0,
{
    if prefs.verbose(Verbosity::Info) {
        eprintln!("Testing small prime divisors");
    }
    let mut nred = n;
    for (&p, div) in fbase::SMALL_PRIMES
        .iter()
        .zip(&fbase::SMALL_PRIMES_DIVIDERS)
    {
        loop {
            let (q, r) = div.divmod_uint(&nred);
            if r != 0 {
                break;
            }
            nred = q;
            factors.push(p.into());
            if prefs.verbose(Verbosity::Info) {
                eprintln!("Found small factor {p}");
            }
        }
    }
    if nred != n && prefs.verbose(Verbosity::Info) {
        eprintln!("Factoring {nred}");
    }
    nred
}

/// R4 outlining (havoc) of the thread-pool construction of `factor`.
#[verifier::external_body]
fn ol_factor_pool(prefs: &Preferences) -> (tpool: Option<rayon::ThreadPool>)
{
    match prefs.threads {
        None | Some(1) => None,
        Some(t) => {
            if prefs.verbose(Verbosity::Verbose) {
                eprintln!("Using a pool of {t} threads");
            }
            Some(
                rayon::ThreadPoolBuilder::new()
                    .num_threads(t)
                    .build()
                    .expect("cannot create thread pool"),
            )
        }
    }
}


// ---------------------------------------------------------------- factor_impl: vocabulary

/// a * b == n, kept opaque in function bodies so that the solver's non-linear engine stays out of the large
/// control-flow queries; only the lemmas below look inside
#[verifier::opaque]
pub open spec fn is_mul(a: nat, b: nat, n: nat) -> bool {
    a * b == n
}

pub proof fn lemma_is_mul(a: nat, b: nat, n: nat)
    ensures is_mul(a, b, n) == (a * b == n)
{
    reveal(is_mul);
}

pub open spec fn small_algo(alg: Algo) -> bool {
    alg is Qs64 || alg is Squfof || alg is Rho
}

/// precondition of factor_impl: n odd (trial division removed 2), non-zero, and within the documented size
/// precondition of the selector (Rho additionally below 2^64 - 64, the range rho64's contract covers)
#[verifier::opaque]
pub open spec fn fi_pre(n: Uint, alg: Algo) -> bool {
    &&& uv(n) >= 1
    &&& uv(n) % 2 == 1
    &&& (small_algo(alg) ==> uv(n) < 0x1_0000_0000_0000_0000)
    &&& (alg is Rho ==> uv(n) <= 0xffff_ffff_ffff_ffc0)
    &&& uv(n) < vstd::arithmetic::power2::pow2(512)
}

pub proof fn lemma_fi_pre_facts(n: Uint, alg: Algo)
    ensures fi_pre(n, alg) == (uv(n) >= 1 && uv(n) % 2 == 1 && (small_algo(alg) ==> uv(n) < 0x1_0000_0000_0000_0000)
        && (alg is Rho ==> uv(n) <= 0xffff_ffff_ffff_ffc0) && uv(n) < vstd::arithmetic::power2::pow2(512))
{
    reveal(fi_pre);
}

/// what pseudoprime / ZmodN::new need
pub proof fn lemma_fi_pre_bits(n: Uint, alg: Algo)
    requires fi_pre(n, alg)
    ensures bitlen(uv(n)) <= 512
{
    reveal(fi_pre);
    lemma_bitlen_le(uv(n), 512);
}

/// f1 extends f0 by elements >= 2 whose product is exactly n
#[verifier::opaque]
pub open spec fn fi_post(f0: Seq<Uint>, f1: Seq<Uint>, n: nat) -> bool {
    &&& f0.len() <= f1.len()
    &&& f1.take(f0.len() as int) =~= f0
    &&& seq_prod(f1.skip(f0.len() as int)) == n
    &&& forall|i: int| f0.len() <= i < f1.len() ==> uv(#[trigger] f1[i]) >= 2
}

pub proof fn lemma_seq_prod_concat(a: Seq<Uint>, b: Seq<Uint>)
    ensures seq_prod(a + b) == seq_prod(a) * seq_prod(b)
    decreases b.len()
{
    if b.len() == 0 {
        assert(a + b =~= a);
        lemma_mul_one(seq_prod(a) as int);
    } else {
        let b0 = b.drop_last();
        let x = b.last();
        assert(b =~= b0.push(x));
        assert(a + b =~= (a + b0).push(x));
        lemma_seq_prod_push(a + b0, x);
        lemma_seq_prod_push(b0, x);
        lemma_seq_prod_concat(a, b0);
        lemma_mul_assoc(seq_prod(a) as int, seq_prod(b0) as int, uv(x) as int);
    }
}

pub proof fn lemma_seq_prod_pos(a: Seq<Uint>)
    requires forall|i: int| 0 <= i < a.len() ==> uv(#[trigger] a[i]) >= 1
    ensures seq_prod(a) >= 1
    decreases a.len()
{
    if a.len() > 0 {
        let a0 = a.drop_last();
        assert(a =~= a0.push(a.last()));
        lemma_seq_prod_push(a0, a.last());
        lemma_seq_prod_pos(a0);
        lemma_mul_le2(1, seq_prod(a0) as int, 1, uv(a.last()) as int);
    }
}

pub proof fn lemma_fi_post_refl(f0: Seq<Uint>)
    ensures fi_post(f0, f0, 1)
{
    reveal(fi_post);
    assert(f0.skip(f0.len() as int) =~= Seq::<Uint>::empty());
}

pub proof fn lemma_fi_post_push(f0: Seq<Uint>, x: Uint)
    requires uv(x) >= 2
    ensures fi_post(f0, f0.push(x), uv(x))
{
    reveal(fi_post);
    let f1 = f0.push(x);
    assert(f1.skip(f0.len() as int) =~= Seq::<Uint>::empty().push(x));
    lemma_seq_prod_push(Seq::<Uint>::empty(), x);
    lemma_mul_one(uv(x) as int);
}

pub proof fn lemma_fi_post_trans(f0: Seq<Uint>, f1: Seq<Uint>, f2: Seq<Uint>, a: nat, b: nat)
    requires fi_post(f0, f1, a), fi_post(f1, f2, b)
    ensures fi_post(f0, f2, a * b)
{
    reveal(fi_post);
    let k0 = f0.len() as int;
    let k1 = f1.len() as int;
    assert(f2.take(k0) =~= f2.take(k1).take(k0));
    assert(f2.skip(k0) =~= f1.skip(k0) + f2.skip(k1)) by {
        assert forall|i: int| 0 <= i < f2.len() - k0 implies f2.skip(k0)[i] == (f1.skip(k0) + f2.skip(k1))[i] by {
            if i < k1 - k0 {
                assert(f2.take(k1)[k0 + i] == f1[k0 + i]);
            }
        }
    }
    lemma_seq_prod_concat(f1.skip(k0), f2.skip(k1));
    assert forall|i: int| k0 <= i < f2.len() implies uv(#[trigger] f2[i]) >= 2 by {
        if i < k1 {
            assert(f2.take(k1)[i] == f1[i]);
        }
    }
}

/// product of the first i elements (opaque: keeps `take` terms out of the function body)
#[verifier::opaque]
pub open spec fn prefix_prod(v: Seq<Uint>, i: int) -> nat {
    seq_prod(v.take(i))
}

/// every element of v is an admissible, strictly smaller recursive argument
#[verifier::opaque]
pub open spec fn list_ok(n: Uint, alg: Algo, v: Seq<Uint>, strict: bool) -> bool {
    forall|i: int| 0 <= i < v.len() ==> #[trigger] fi_pre(v[i], alg) && 2 <= uv(v[i]) <= uv(n) && (strict ==> uv(v[i]) < uv(n))
}

pub proof fn lemma_list_ok(n: Uint, alg: Algo, v: Seq<Uint>, strict: bool, i: int)
    requires list_ok(n, alg, v, strict), 0 <= i < v.len()
    ensures fi_pre(v[i], alg), 2 <= uv(v[i]) <= uv(n), strict ==> uv(v[i]) < uv(n)
{
    reveal(list_ok);
}

pub proof fn lemma_fi_post_end(f0: Seq<Uint>, f1: Seq<Uint>, f2: Seq<Uint>, a: nat, b: nat, n: nat)
    requires fi_post(f0, f1, a), fi_post(f1, f2, b), is_mul(a, b, n)
    ensures fi_post(f0, f2, n)
{
    reveal(is_mul);
    lemma_fi_post_trans(f0, f1, f2, a, b);
}

pub proof fn lemma_fi_post_step(f0: Seq<Uint>, f1: Seq<Uint>, f2: Seq<Uint>, v: Seq<Uint>, i: int)
    requires 0 <= i < v.len(), fi_post(f0, f1, prefix_prod(v, i)), fi_post(f1, f2, uv(v[i]))
    ensures fi_post(f0, f2, prefix_prod(v, i + 1))
{
    reveal(prefix_prod);
    lemma_fi_post_trans(f0, f1, f2, seq_prod(v.take(i)), uv(v[i]));
    assert(v.take(i + 1) =~= v.take(i).push(v[i]));
    lemma_seq_prod_push(v.take(i), v[i]);
}

pub proof fn lemma_fi_post_start(f0: Seq<Uint>, v: Seq<Uint>)
    ensures fi_post(f0, f0, prefix_prod(v, 0))
{
    reveal(prefix_prod);
    assert(v.take(0) =~= Seq::<Uint>::empty());
    lemma_fi_post_refl(f0);
}

pub proof fn lemma_fi_post_pow_step(f0: Seq<Uint>, f1: Seq<Uint>, g: Seq<Uint>, p: nat, i: nat)
    requires
        fi_post(f0, f1, vstd::arithmetic::power::pow(p as int, i) as nat), seq_prod(g) == p, p >= 2,
        forall|j: int| 0 <= j < g.len() ==> uv(#[trigger] g[j]) >= 2,
    ensures fi_post(f0, f1 + g, vstd::arithmetic::power::pow(p as int, i + 1) as nat)
{
    lemma_fi_post_append(f0, f1, g, vstd::arithmetic::power::pow(p as int, i) as nat);
    vstd::arithmetic::power::lemma_pow1(p as int);
    vstd::arithmetic::power::lemma_pow_adds(p as int, i, 1);
    vstd::arithmetic::power::lemma_pow_positive(p as int, i);
    vstd::arithmetic::power::lemma_pow_positive(p as int, i + 1);
}

pub proof fn lemma_fi_post_append(f0: Seq<Uint>, f1: Seq<Uint>, g: Seq<Uint>, a: nat)
    requires fi_post(f0, f1, a), forall|i: int| 0 <= i < g.len() ==> uv(#[trigger] g[i]) >= 2
    ensures fi_post(f0, f1 + g, a * seq_prod(g))
{
    reveal(fi_post);
    let f2 = f1 + g;
    assert(f2.take(f1.len() as int) =~= f1);
    assert(f2.skip(f1.len() as int) =~= g);
    assert(fi_post(f1, f2, seq_prod(g)));
    lemma_fi_post_trans(f0, f1, f2, a, seq_prod(g));
}

pub proof fn lemma_fi_post_from_empty(f: Seq<Uint>, n: nat)
    requires fi_post(Seq::<Uint>::empty(), f, n)
    ensures seq_prod(f) == n, forall|i: int| 0 <= i < f.len() ==> uv(#[trigger] f[i]) >= 2
{
    reveal(fi_post);
    assert(f.skip(0) =~= f);
}

pub proof fn lemma_fi_post_one(f0: Seq<Uint>, f1: Seq<Uint>)
    requires fi_post(f0, f1, 1)
    ensures f1 == f0
{
    reveal(fi_post);
    let t = f1.skip(f0.len() as int);
    if t.len() > 0 {
        assert forall|i: int| 0 <= i < t.len() implies uv(#[trigger] t[i]) >= 2 by {
            assert(t[i] == f1[f0.len() + i]);
        }
        lemma_seq_prod_ge2(t);
    }
    assert(f1 =~= f1.take(f0.len() as int));
}

/// a rearrangement keeps the lower bound of the elements
pub proof fn lemma_perm_ge2(s1: Seq<Uint>, s2: Seq<Uint>)
    requires permutation_of(s1, s2), forall|i: int| 0 <= i < s1.len() ==> uv(#[trigger] s1[i]) >= 2
    ensures forall|i: int| 0 <= i < s2.len() ==> uv(#[trigger] s2[i]) >= 2
{
    s1.to_multiset_ensures();
    s2.to_multiset_ensures();
    assert forall|i: int| 0 <= i < s2.len() implies uv(#[trigger] s2[i]) >= 2 by {
        assert(s2.contains(s2[i]));
        assert(s2.to_multiset().count(s2[i]) > 0);
        assert(s1.to_multiset().count(s2[i]) > 0);
        assert(s1.contains(s2[i]));
        let j = choose|j: int| 0 <= j < s1.len() && s1[j] == s2[i];
        assert(uv(s1[j]) >= 2);
    }
}

/// the two phases of factor(): trial division (product n / nred) then factor_impl (product nred)
pub proof fn lemma_factor_compose(f1: Seq<Uint>, f2: Seq<Uint>, n: nat, nred: nat)
    requires fi_post(Seq::<Uint>::empty(), f1, n / nred), fi_post(f1, f2, nred), nred >= 1, n % nred == 0
    ensures seq_prod(f2) == n, forall|i: int| 0 <= i < f2.len() ==> uv(#[trigger] f2[i]) >= 2, n == 1 ==> f2.len() == 0
{
    vstd::arithmetic::div_mod::lemma_fundamental_div_mod(n as int, nred as int);
    lemma_mul_comm(nred as int, (n / nred) as int);
    lemma_fi_post_trans(Seq::<Uint>::empty(), f1, f2, n / nred, nred);
    lemma_fi_post_from_empty(f2, n);
    if n == 1 && f2.len() > 0 {
        lemma_seq_prod_ge2(f2);
    }
}

/// a * x == n with n odd: a is odd, a <= n, and a < n when x >= 2
pub proof fn lemma_odd_divisor(a: nat, x: nat, n: nat)
    requires a * x == n, n % 2 == 1
    ensures a % 2 == 1, a >= 1, x >= 1, a <= n, x >= 2 ==> a < n
{
    if a % 2 == 0 {
        let h = a / 2;
        assert(a == 2 * h);
        lemma_mul_assoc(2, h as int, x as int);
        vstd::arithmetic::div_mod::lemma_mod_multiples_basic((h * x) as int, 2);
        lemma_mul_comm(2, (h * x) as int);
    }
    if x == 0 {
        lemma_mul_comm(a as int, 0);
    }
    if a == 0 {}
    lemma_mul_le2(a as int, a as int, 1, x as int);
    lemma_mul_one(a as int);
    if x >= 2 {
        lemma_mul_le2(a as int, a as int, 2, x as int);
    }
}

pub proof fn lemma_fi_pre_div(n: Uint, alg: Algo, a: Uint, x: nat)
    requires fi_pre(n, alg), uv(a) * x == uv(n)
    ensures fi_pre(a, alg), uv(a) <= uv(n), x >= 2 ==> uv(a) < uv(n)
{
    reveal(fi_pre);
    lemma_odd_divisor(uv(a), x, uv(n));
}

pub proof fn lemma_fi_split_pair(n: Uint, alg: Algo, a: Uint, b: Uint)
    requires fi_pre(n, alg), is_mul(uv(a), uv(b), uv(n)), uv(a) >= 2, uv(b) >= 2
    ensures fi_pre(a, alg), fi_pre(b, alg), uv(a) < uv(n), uv(b) < uv(n)
{
    reveal(is_mul);
    lemma_fi_pre_div(n, alg, a, uv(b));
    lemma_mul_comm(uv(a) as int, uv(b) as int);
    lemma_fi_pre_div(n, alg, b, uv(a));
}

pub proof fn lemma_fi_split_u64(n: Uint, alg: Algo, a: u64, b: u64)
    requires fi_pre(n, alg), is_mul(a as nat, b as nat, uv(n)), a >= 2, b >= 2
    ensures
        forall|x: Uint| #![trigger fi_pre(x, alg)] #![trigger uv(x)] uv(x) == a as nat ==> fi_pre(x, alg) && uv(x) < uv(n),
        forall|x: Uint| #![trigger fi_pre(x, alg)] #![trigger uv(x)] uv(x) == b as nat ==> fi_pre(x, alg) && uv(x) < uv(n),
{
    reveal(is_mul);
    assert forall|x: Uint| #![trigger fi_pre(x, alg)] #![trigger uv(x)] uv(x) == a as nat implies fi_pre(x, alg) && uv(x) < uv(n) by {
        lemma_fi_pre_div(n, alg, x, b as nat);
    }
    assert forall|x: Uint| #![trigger fi_pre(x, alg)] #![trigger uv(x)] uv(x) == b as nat implies fi_pre(x, alg) && uv(x) < uv(n) by {
        lemma_mul_comm(a as int, b as int);
        lemma_fi_pre_div(n, alg, x, a as nat);
    }
}

/// d | n, 1 < d < n: both d and n / d are admissible recursive arguments
pub proof fn lemma_fi_split_div(n: Uint, alg: Algo, d: u64)
    requires fi_pre(n, alg), uv(n) % (d as nat) == 0, 1 < d, (d as nat) < uv(n)
    ensures
        forall|x: Uint| #![trigger fi_pre(x, alg)] #![trigger uv(x)] uv(x) == d as nat ==> fi_pre(x, alg) && uv(x) < uv(n),
        forall|x: Uint| #![trigger fi_pre(x, alg)] #![trigger uv(x)] uv(x) == uv(n) / (d as nat) ==> fi_pre(x, alg) && uv(x) < uv(n),
        is_mul(d as nat, uv(n) / (d as nat), uv(n)),
{
    reveal(is_mul);
    let q = uv(n) / (d as nat);
    vstd::arithmetic::div_mod::lemma_fundamental_div_mod(uv(n) as int, d as int);
    assert((d as nat) * q == uv(n));
    if q < 2 {
        if q == 0 { lemma_mul_comm(d as int, 0); } else { lemma_mul_one(d as int); }
    }
    assert forall|x: Uint| #![trigger fi_pre(x, alg)] #![trigger uv(x)] uv(x) == d as nat implies fi_pre(x, alg) && uv(x) < uv(n) by {
        lemma_fi_pre_div(n, alg, x, q);
    }
    assert forall|x: Uint| #![trigger fi_pre(x, alg)] #![trigger uv(x)] uv(x) == q implies fi_pre(x, alg) && uv(x) < uv(n) by {
        lemma_mul_comm(d as int, q as int);
        lemma_fi_pre_div(n, alg, x, d as nat);
    }
}

pub proof fn lemma_seq_prod_single(v: Seq<Uint>)
    requires v.len() == 1
    ensures seq_prod(v) == uv(v[0])
{
    assert(v =~= Seq::<Uint>::empty().push(v[0]));
    lemma_seq_prod_push(Seq::<Uint>::empty(), v[0]);
    lemma_mul_one(uv(v[0]) as int);
}

/// rho's contract (one-element list, explicit product) in the vocabulary of proper_list
pub proof fn lemma_rho_shape(n: Uint, v: Seq<Uint>, q: Uint)
    requires v.len() == 1, uv(v[0]) * uv(q) == uv(n), 1 < uv(v[0]), 1 < uv(q)
    ensures proper_list_v(n, v, q)
{
    reveal(is_mul);
    reveal(proper_list_v);
    lemma_seq_prod_single(v);
}

pub proof fn lemma_seq_prod_ge2(a: Seq<Uint>)
    requires a.len() >= 1, forall|i: int| 0 <= i < a.len() ==> uv(#[trigger] a[i]) >= 2
    ensures seq_prod(a) >= 2
{
    lemma_seq_prod_remove(a, 0);
    assert forall|i: int| 0 <= i < a.remove(0).len() implies uv(#[trigger] a.remove(0)[i]) >= 1 by {
        assert(a.remove(0)[i] == a[i + 1]);
    }
    lemma_seq_prod_pos(a.remove(0));
    lemma_mul_le2(2, uv(a[0]) as int, 1, seq_prod(a.remove(0)) as int);
}

/// the (list, cofactor) shape returned by rho / P-1: every list element and the cofactor are admissible
pub proof fn lemma_fi_split_list(n: Uint, alg: Algo, v: Seq<Uint>, b: Uint)
    requires
        fi_pre(n, alg), proper_list_v(n, v, b),
    ensures
        list_ok(n, alg, v, true),
        fi_pre(b, alg), uv(b) < uv(n),
        is_mul(prefix_prod(v, v.len() as int), uv(b), uv(n)),
{
    reveal(proper_list_v);
    reveal(list_ok);
    reveal(prefix_prod);
    lemma_fi_pre_facts(n, alg);
    assert(v.take(v.len() as int) =~= v);
    reveal(is_mul);
    lemma_seq_prod_ge2(v);
    lemma_mul_comm(seq_prod(v) as int, uv(b) as int);
    lemma_fi_pre_div(n, alg, b, seq_prod(v));
    lemma_fi_pre_facts(b, alg);
    assert forall|i: int| 0 <= i < v.len() implies #[trigger] fi_pre(v[i], alg) && 2 <= uv(v[i]) <= uv(n) && (true ==> uv(v[i]) < uv(n)) by {
        lemma_seq_prod_remove(v, i);
        let w = v.remove(i);
        assert forall|j: int| 0 <= j < w.len() implies uv(#[trigger] w[j]) >= 2 by {
            if j < i { assert(w[j] == v[j]); } else { assert(w[j] == v[j + 1]); }
        }
        lemma_seq_prod_pos(w);
        let rest = seq_prod(w) * uv(b);
        lemma_mul_assoc(uv(v[i]) as int, seq_prod(w) as int, uv(b) as int);
        if uv(b) >= 2 {
            lemma_mul_le2(1, seq_prod(w) as int, 2, uv(b) as int);
        } else {
            lemma_seq_prod_ge2(w);
            lemma_mul_le2(2, seq_prod(w) as int, 1, uv(b) as int);
        }
        lemma_fi_pre_div(n, alg, v[i], rest);
    }
    assert(list_ok(n, alg, v, true));
    assert(is_mul(prefix_prod(v, v.len() as int), uv(b), uv(n)));
}

/// what ol_combine_divisors returns: a list whose product is n with elements >= 2
#[verifier::opaque]
pub open spec fn combined_ok(n: Uint, v: Seq<Uint>) -> bool {
    seq_prod(v) == uv(n) && forall|i: int| 0 <= i < v.len() ==> uv(#[trigger] v[i]) >= 2
}

pub proof fn lemma_fi_split_seq(n: Uint, alg: Algo, v: Seq<Uint>)
    requires
        fi_pre(n, alg), combined_ok(n, v),
    ensures
        list_ok(n, alg, v, false), prefix_prod(v, v.len() as int) == uv(n),
{
    reveal(combined_ok);
    reveal(list_ok);
    reveal(prefix_prod);
    assert(v.take(v.len() as int) =~= v);
    assert forall|i: int| 0 <= i < v.len() implies #[trigger] fi_pre(v[i], alg) && uv(v[i]) >= 2 && uv(v[i]) <= uv(n) by {
        lemma_seq_prod_remove(v, i);
        lemma_fi_pre_div(n, alg, v[i], seq_prod(v.remove(i)));
    }
}

/// p^k == n, k >= 2, p >= 2: p is an admissible recursive argument
pub proof fn lemma_pow_root(p: nat, k: nat, n: nat)
    requires vstd::arithmetic::power::pow(p as int, k) == n as int, k >= 2, p >= 2
    ensures p * (vstd::arithmetic::power::pow(p as int, (k - 1) as nat) as nat) == n, vstd::arithmetic::power::pow(p as int, (k - 1) as nat) >= 2
{
    vstd::arithmetic::power::lemma_pow_adds(p as int, 1, (k - 1) as nat);
    vstd::arithmetic::power::lemma_pow1(p as int);
    vstd::arithmetic::power::lemma_pow_positive(p as int, (k - 1) as nat);
    vstd::arithmetic::power::lemma_pow_adds(p as int, 1, (k - 2) as nat);
    vstd::arithmetic::power::lemma_pow_positive(p as int, (k - 2) as nat);
    lemma_mul_le2(2, p as int, 1, vstd::arithmetic::power::pow(p as int, (k - 2) as nat));
}

pub proof fn lemma_fi_pre_root(n: Uint, alg: Algo, p: Uint, k: nat)
    requires fi_pre(n, alg), vstd::arithmetic::power::pow(uv(p) as int, k) == uv(n) as int, k >= 2, uv(p) >= 2
    ensures fi_pre(p, alg), uv(p) < uv(n)
{
    lemma_pow_root(uv(p), k, uv(n));
    lemma_fi_pre_div(n, alg, p, vstd::arithmetic::power::pow(uv(p) as int, (k - 1) as nat) as nat);
}

pub proof fn lemma_bits_lt52(n: Uint)
    requires bitlen(uv(n)) < 52
    ensures uv(n) < 0x10_0000_0000_0000
{
    lemma_bitlen_bound(uv(n), 51);
    vstd::arithmetic::power2::lemma2_to64_rest();
}

pub proof fn lemma_small_bits(n: Uint)
    requires uv(n) < 0x1_0000_0000_0000_0000
    ensures bitlen(uv(n)) <= 64
{
    vstd::arithmetic::power2::lemma2_to64();
    lemma_bitlen_le(uv(n), 64);
}

pub proof fn lemma_fi_div_u64(n: Uint, d: u64)
    requires d >= 1
    ensures
        forall|x: Uint| uv(x) == d as nat ==> #[trigger] n.div_req(x),
        forall|x: Uint| uv(x) == d as nat ==> uv(#[trigger] n.div_spec(x)) == uv(n) / (d as nat),
        <Uint as vstd::std_specs::ops::DivSpec<Uint>>::obeys_div_spec(),
{
    assert forall|x: Uint| uv(x) == d as nat implies #[trigger] n.div_req(x) by {
        axiom_buint_div(n, x);
    }
    assert forall|x: Uint| uv(x) == d as nat implies uv(#[trigger] n.div_spec(x)) == uv(n) / (d as nat) by {
        axiom_buint_div(n, x);
    }
    axiom_buint_div(n, n);
}

/// more than 64 bits: at least 2^64
pub proof fn lemma_bits_gt64(n: Uint)
    requires bitlen(uv(n)) > 64
    ensures uv(n) >= 0x1_0000_0000_0000_0000
{
    vstd::arithmetic::power2::lemma2_to64();
    if uv(n) < 0x1_0000_0000_0000_0000 {
        lemma_bitlen_le(uv(n), 64);
    }
}

/// the low word of an odd number is odd
pub proof fn lemma_low_word_odd(x: nat)
    requires x % 2 == 1
    ensures (x % W()) % 2 == 1, x % W() >= 1
{
    lemma_mod_of_mod(x as int, W() as int, 2);
}

/// `X.try_into() == Ok(c)` for a bnum integer X and a u64 constant: equality of values (bnum's TryFrom is outside
/// Verus; trusted contract)
#[verifier::external_body]
fn ol_uint_eq_u64(x: Uint, c: u64) -> (r: bool)
    ensures r == (uv(x) == c as nat)
{
    x.try_into() == Ok(c)
}

pub proof fn lemma_bits_le64(n: Uint)
    requires bitlen(uv(n)) <= 64
    ensures uv(n) < 0x1_0000_0000_0000_0000, uv(n) % W() == uv(n)
{
    lemma_bitlen_bound(uv(n), 64);
    vstd::arithmetic::power2::lemma2_to64();
    vstd::arithmetic::div_mod::lemma_small_mod(uv(n), W());
}

// ---------------------------------------------------------------- factor_impl: assumed contracts of the algorithms it dispatches to

/// trusted (C16 / C01 leaf claims, not proved here): a returned pair is a proper factorization
pub open spec fn proper_pair(n: Uint, r: Option<(Uint, Uint)>) -> bool {
    r matches Some((a, b)) ==> is_mul(uv(a), uv(b), uv(n)) && uv(a) >= 2 && uv(b) >= 2
}

pub open spec fn proper_pair64(n: u64, r: Option<(u64, u64)>) -> bool {
    r matches Some((a, b)) ==> is_mul(a as nat, b as nat, n as nat) && a >= 2 && b >= 2
}

#[verifier::opaque]
pub open spec fn proper_list_v(n: Uint, v: Seq<Uint>, b: Uint) -> bool {
    is_mul(seq_prod(v), uv(b), uv(n)) && v.len() >= 1
        && (forall|i: int| 0 <= i < v.len() ==> uv(#[trigger] v[i]) >= 2)
        && (uv(b) >= 2 || v.len() >= 2)
}

pub open spec fn proper_list(n: Uint, r: Option<(Vec<Uint>, Uint)>) -> bool {
    r matches Some((v, b)) ==> proper_list_v(n, v@, b)
}

pub assume_specification [pollard_pm1::pm1_quick] (n: &Uint, v: Verbosity) -> (r: Option<(Vec<Uint>, Uint)>)
    ensures proper_list(*n, r);
pub assume_specification [pollard_pm1::pm1_only] (n: &Uint, v: Verbosity) -> (r: Option<(Vec<Uint>, Uint)>)
    ensures proper_list(*n, r);
pub assume_specification [ecm128::ecm128] (n: Uint, try_harder: bool, prefs: &Preferences) -> (r: Option<(Uint, Uint)>)
    ensures proper_pair(n, r);
pub assume_specification [ecm::ecm_auto] (n: Uint, prefs: &Preferences, tpool: Option<&rayon::ThreadPool>) -> (r: Option<(Uint, Uint)>)
    ensures proper_pair(n, r);
pub assume_specification [ecm::ecm_only] (n: Uint, prefs: &Preferences, tpool: Option<&rayon::ThreadPool>) -> (r: Option<(Uint, Uint)>)
    ensures proper_pair(n, r);
pub assume_specification [qsieve64::qsieve] (n: u64, v: Verbosity) -> (r: Option<(u64, u64)>)
    ensures proper_pair64(n, r);
pub assume_specification [squfof::squfof] (n: u64) -> (r: Option<(u64, u64)>)
    ensures proper_pair64(n, r);
pub assume_specification [fbase::select_multiplier] (n: Uint) -> (u32, f64);
/// the sieves return divisors of n; what factor_impl needs from them is only used inside ol_combine_divisors
pub assume_specification [qsieve::qsieve] (n: Uint, k: u32, prefs: &Preferences, tpool: Option<&rayon::ThreadPool>) -> Vec<Uint>;
pub assume_specification [mpqs::mpqs] (n: Uint, k: u32, prefs: &Preferences, tpool: Option<&rayon::ThreadPool>) -> Vec<Uint>;
pub assume_specification [siqs::siqs] (n: &Uint, k: u32, prefs: &Preferences, tpool: Option<&rayon::ThreadPool>) -> (r: Result<Vec<Uint>, UnexpectedFactor>)
    ensures r matches Err(e) ==> uv(*n) % (uf_val(e) as nat) == 0 && 1 < uf_val(e) && (uf_val(e) as nat) < uv(*n);
pub closed spec fn uf_val(e: UnexpectedFactor) -> u64 { e.0 }
pub assume_specification [Preferences::abort] (p: &Preferences) -> bool;


/// `arith::perfect_power` (generic over foreign numeric traits: outside Verus) on a word; the conversion closure
/// `.map(|_pk @ (p, k)| (p.into(), k))` is part of the outlined expression
#[verifier::external_body]
fn ol_perfect_power_u64(n: u64) -> (r: Option<(Uint, u32)>)
    ensures r matches Some((p, k)) ==> vstd::arithmetic::power::pow(uv(p) as int, k as nat) == n as int && k >= 2 && uv(p) >= 2
{
    arith::perfect_power(n).map(|_pk @ (p, k)| (p.into(), k))
}

#[verifier::external_body]
fn ol_perfect_power_uint(n: Uint) -> (r: Option<(Uint, u32)>)
    ensures r matches Some((p, k)) ==> vstd::arithmetic::power::pow(uv(p) as int, k as nat) == uv(n) as int && k >= 2 && uv(p) >= 2
{
    arith::perfect_power(n)
}

#[verifier::external_body]
fn ol_pm1_done(prefs: &Preferences) -> bool {
    prefs.pm1_done.load(Ordering::Relaxed)
}

#[verifier::external_body]
fn ol_pm1_set(prefs: &Preferences) {
    prefs.pm1_done.store(true, Ordering::Relaxed);
}

#[verifier::external_body]
fn ol_verbosity(prefs: &Preferences) -> Verbosity {
    prefs.verbosity
}

/// R4 outlining of the gcd recombination of the sieve's divisors (`Vec::retain` with a closure that captures two
/// locals mutably: outside the Verus subset). Assumed contract (trusted, mechanism 3 of C01 is NOT proved): the
/// refinement of [n] by divisors of n keeps the product and never produces 0 or 1. The run-time assertion
/// `residue.is_one()` inside is the original code's own guard against a non-divisor.
#[verifier::external_body]
fn ol_combine_divisors(n: Uint, divs: Vec<Uint>) -> (facs: Vec<Uint>)
    requires uv(n) >= 2
    ensures combined_ok(n, facs@)
{
    let mut facs = vec![n];
    for d in divs {
        // is it combined with existing divisors?
        let mut residue = d;
        let mut splits = vec![];
        facs.retain(|&f| {
            let gcd: Uint = Integer::gcd(&f, &residue);
            let split = gcd != f && !gcd.is_one();
            if split {
                splits.push(f)
            }
            residue /= gcd;
            !split
        });
        assert!(residue.is_one());
        let mut residue = d;
        for f in splits {
            let gcd: Uint = Integer::gcd(&f, &residue);
            if gcd != f && !gcd.is_one() {
                facs.push(f / gcd);
                facs.push(gcd);
            } else {
                // Can this happen?
                facs.push(f);
            }
            residue /= gcd;
        }
    }
    facs
}

#[verifier::external_type_specification]
#[verifier::external_body]
pub struct ExPreferences(Preferences);
#[verifier::external_type_specification]
pub struct ExAlgo(Algo);
#[verifier::external_type_specification]
pub struct ExFactoringFailure(FactoringFailure);
#[verifier::external_type_specification]
#[verifier::external_body]
pub struct ExThreadPool(rayon::ThreadPool);

/// slice sort on bnum integers: a sorted rearrangement (T-std + bnum's numeric `Ord`)
#[verifier::external_body]
fn ol_sort(v: &mut Vec<Uint>)
    ensures sorted_uv(final(v)@), permutation_of(old(v)@, final(v)@), final(v)@.len() == old(v)@.len()
{
    v.sort()
}

} // verus!

verus! {
/// Rconst outlining of `Uint::ONE` (associated constants of foreign types are unsupported). Trusted contract: the value 1.
#[verifier::external_body]
fn ol_uint_one() -> (r: Uint)
    ensures uv(r) == 1
{
    Uint::ONE
}
} // verus!
