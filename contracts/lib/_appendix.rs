verus! {

/// R4 outlining of `factors.iter().product::<Uint>()` (iterator adaptor). Trusted contract: the wrapping product
/// (bnum panics on overflow in the overflow-checked profile, wraps otherwise).
#[verifier::external_body]
fn ol_product(factors: &[Uint]) -> (r: Uint)
    ensures uv(r) == seq_prod(factors@) % pow_w(16)
{
    factors.iter().product::<Uint>()
}

/// R4 outlining (havoc, no contract) of the trial-division block of `factor` (zip over two constant tables, logging).
/// Whatever it does to `factors` and whatever it returns, `factor`'s postcondition must still follow.
#[verifier::external_body]
fn ol_factor_trial_division(n: Uint, prefs: &Preferences, factors: &mut Vec<Uint>) -> (nred: Uint)
{
    if prefs.verbose(Verbosity::Info) {
        eprintln!("Testing small prime divisors");
    }
    let mut nred = n;
    for (&p, div) in fbase::SMALL_PRIMES
        .iter()
        .zip(&fbase::SMALL_PRIMES_DIVIDERS)
    {
        loop {
            let (q, r) = div.divmod_uint(&nred);
            if r != 0 {
                break;
            }
            nred = q;
            factors.push(p.into());
            if prefs.verbose(Verbosity::Info) {
                eprintln!("Found small factor {p}");
            }
        }
    }
    if nred != n && prefs.verbose(Verbosity::Info) {
        eprintln!("Factoring {nred}");
    }
    nred
}

/// R4 outlining (havoc) of the thread-pool construction of `factor`.
#[verifier::external_body]
fn ol_factor_pool(prefs: &Preferences) -> (tpool: Option<rayon::ThreadPool>)
{
    match prefs.threads {
        None | Some(1) => None,
        Some(t) => {
            if prefs.verbose(Verbosity::Verbose) {
                eprintln!("Using a pool of {t} threads");
            }
            Some(
                rayon::ThreadPoolBuilder::new()
                    .num_threads(t)
                    .build()
                    .expect("cannot create thread pool"),
            )
        }
    }
}

/// `pseudoprime` as seen from `check_factors`: no contract needed (any answer keeps the product claim)
pub assume_specification [pseudoprime] (p: Uint) -> bool;

/// `factor_impl` stays external and gets NO contract: any effect on `factors` is allowed (havoc).
pub assume_specification [factor_impl] (n: Uint, alg: Algo, prefs: &Preferences, factors: &mut Vec<Uint>, tpool: Option<&rayon::ThreadPool>);

#[verifier::external_type_specification]
#[verifier::external_body]
pub struct ExPreferences(Preferences);
#[verifier::external_type_specification]
pub struct ExAlgo(Algo);
#[verifier::external_type_specification]
pub struct ExFactoringFailure(FactoringFailure);
#[verifier::external_type_specification]
#[verifier::external_body]
pub struct ExThreadPool(rayon::ThreadPool);

/// slice sort on bnum integers: a sorted rearrangement (T-std + bnum's numeric `Ord`)
#[verifier::external_body]
fn ol_sort(v: &mut Vec<Uint>)
    ensures sorted_uv(final(v)@), permutation_of(old(v)@, final(v)@), final(v)@.len() == old(v)@.len()
{
    v.sort()
}

} // verus!
