//! unit: {"file": "src/lib.rs", "kind": "fn", "name": "factor_impl", "pre": ["drop_logging"], "props": ["C01", "C03"]}
//! ---- pinned ----
fn factor_impl(
    n: Uint,
    alg: Algo,
    prefs: &Preferences,
    factors: &mut Vec<Uint>,
    tpool: Option<&rayon::ThreadPool>,
) {
    // Since quadratic sieve methods work by finding non-trivial random
    // elements of multiplicative order 2 modulo n they will fail to resolve
    // prime power factors of n (because Z/p^k Z is cyclic).
    // So prime powers need to be explicitly tested.
    if n.is_one() {
        return;
    }
    let is_perfect_power = {
        if n.bits() <= 64 {
            // Use native arithmetic is possible.
            arith::perfect_power(n.low_u64()).map(|_pk @ (p, k)| (p.into(), k))
        } else {
            arith::perfect_power(n)
        }
    };
    if let Some((p, k)) = is_perfect_power {
        let mut facs = vec![];
        factor_impl(p, alg, prefs, &mut facs, tpool);
        for _ in 0..k {
            factors.extend_from_slice(&facs[..]);
        }
        return;
    } else if pseudoprime(n) {
        factors.push(n);
        return;
    }
    // Apply automatic strategy.
    let alg_real = match alg {
        Algo::Auto => {
            // For small inputs, Pollard rho is faster than ECM and quadratic sieve.
            if n.bits() < 52 {
                if let Some((a_s, b)) = pollard_rho::rho(&n, prefs.verbosity) {
                    for a in a_s {
                        factor_impl(a, alg, prefs, factors, tpool);
                    }
                    if prefs.verbose(Verbosity::Info) {
                        eprintln!("Recursively factor {b}");
                    }
                    factor_impl(b, alg, prefs, factors, tpool);
                    return;
                }
            }
            // Only in automatic mode, for large inputs, Pollard P-1 and ECM can be useful.
            if n.bits() > 64 && !prefs.pm1_done.load(Ordering::Relaxed) {
                let start_pm1 = std::time::Instant::now();
                let pm1_res = pollard_pm1::pm1_quick(&n, prefs.verbosity);
                // P-1 should be only run once.
                prefs.pm1_done.store(true, Ordering::Relaxed);
                if let Some((a_s, b)) = pm1_res {
                    if prefs.verbose(Verbosity::Info) {
                        eprintln!(
                            "Pollard P-1 success with factors {a_s:?} in {:.3}s",
                            start_pm1.elapsed().as_secs_f64()
                        );
                    }
                    for a in a_s {
                        factor_impl(a, alg, prefs, factors, tpool);
                    }
                    if prefs.verbose(Verbosity::Info) {
                        eprintln!("Recursively factor {b}");
                    }
                    factor_impl(b, alg, prefs, factors, tpool);
                    return;
                } else if prefs.verbose(Verbosity::Info) {
                    eprintln!(
                        "Pollard P-1 failure in {:.3}s",
                        start_pm1.elapsed().as_secs_f64()
                    );
                }
            }
            // ECM, in its 128-bit variant, is already efficient for 52-bit numbers.
            let ecm_res = if matches!(n.bits(), 52..=128) {
                ecm128::ecm128(n, false, prefs)
            } else {
                ecm::ecm_auto(n, prefs, tpool)
            };
            if let Some((a, b)) = ecm_res {
                factor_impl(a, alg, prefs, factors, tpool);
                if prefs.verbose(Verbosity::Info) {
                    eprintln!("Recursively factor {b}");
                }
                factor_impl(b, alg, prefs, factors, tpool);
                return;
            }
            // Select fallback algorithm
            // The above Rho and ECM128 steps should not fail.
            // Select ECM128 as the fallback for small integers.
            if n.bits() <= 80 {
                Algo::Ecm128
            } else {
                Algo::Siqs
            }
        }
        _ => alg,
    };
    // Now the strategy cannot be Auto.
    match alg_real {
        Algo::Auto => unreachable!("impossible"),
        Algo::Pm1 => {
            // Pure Pollard P-1
            let start_pm1 = std::time::Instant::now();
            if let Some((a_s, b)) = pollard_pm1::pm1_only(&n, prefs.verbosity) {
                if prefs.verbose(Verbosity::Info) {
                    eprintln!(
                        "Pollard P-1 success with factors p={a_s:?} in {:.3}s",
                        start_pm1.elapsed().as_secs_f64()
                    );
                }
                for a in a_s {
                    factor_impl(a, alg, prefs, factors, tpool);
                }
                if prefs.verbose(Verbosity::Info) {
                    eprintln!("Recursively factor {b}");
                }
                factor_impl(b, alg, prefs, factors, tpool);
                return;
            } else if prefs.verbose(Verbosity::Info) {
                eprintln!(
                    "Pollard P-1 failure in {:.3}s",
                    start_pm1.elapsed().as_secs_f64()
                );
            }
            factors.push(n);
            return;
        }
        Algo::Ecm => {
            if let Some((a, b)) = ecm::ecm_only(n, prefs, tpool) {
                factor_impl(a, alg, prefs, factors, tpool);
                if prefs.verbose(Verbosity::Info) {
                    eprintln!("Recursively factor {b}");
                }
                factor_impl(b, alg, prefs, factors, tpool);
                return;
            }
            if prefs.verbose(Verbosity::Info) {
                eprintln!("Factorization is incomplete.");
            }
            factors.push(n);
            return;
        }
        Algo::Ecm128 => {
            // "Small" ECM
            // However due to determinism the recursion will go through the
            // same curves, which is not very useful.
            if let Some((a, b)) = ecm128::ecm128(n, true, prefs) {
                factor_impl(a, alg, prefs, factors, tpool);
                if prefs.verbose(Verbosity::Info) {
                    eprintln!("Recursively factor {b}");
                }
                factor_impl(b, alg, prefs, factors, tpool);
                return;
            }
            if prefs.verbose(Verbosity::Info) {
                eprintln!("Factorization is incomplete.");
            }
            factors.push(n);
            return;
        }
        Algo::Qs64 => {
            assert!(n.bits() <= 64);
            if let Some((a, b)) = qsieve64::qsieve(n.low_u64(), prefs.verbosity) {
                // Recurse
                factor_impl(a.into(), alg, prefs, factors, tpool);
                factor_impl(b.into(), alg, prefs, factors, tpool);
            } else {
                if prefs.verbose(Verbosity::Info) {
                    eprintln!("qsieve64 failed");
                }
                factors.push(n);
            }
            return;
        }
        Algo::Rho => {
            assert!(n.bits() <= 64);
            if let Some((a_s, b)) = pollard_rho::rho(&n, prefs.verbosity) {
                for a in a_s {
                    factor_impl(a, alg, prefs, factors, tpool);
                }
                if prefs.verbose(Verbosity::Info) {
                    eprintln!("Recursively factor {b}");
                }
                factor_impl(b, alg, prefs, factors, tpool);
                return;
            } else {
                if prefs.verbose(Verbosity::Info) {
                    eprintln!("Rho algorithm failed");
                }
                factors.push(n);
            }
            return;
        }
        Algo::Squfof => {
            assert!(n.bits() <= 64);
            if let Some((a, b)) = squfof::squfof(n.low_u64()) {
                factor_impl(a.into(), alg, prefs, factors, tpool);
                factor_impl(b.into(), alg, prefs, factors, tpool);
            } else {
                if prefs.verbose(Verbosity::Info) {
                    eprintln!("SQUFOF failed");
                }
                factors.push(n);
            }
            return;
        }
        // Otherwise it is a quadratic sieve.
        Algo::Qs | Algo::Mpqs | Algo::Siqs => {}
    }
    if prefs.abort() {
        factors.push(n);
        return;
    }

    let (k, score) = fbase::select_multiplier(n);
    if prefs.verbose(Verbosity::Info) {
        eprintln!("Selected multiplier {k} (score {score:.2}/10)");
    }
    let divs = match alg_real {
        Algo::Qs => Ok(qsieve::qsieve(n, k, prefs, tpool)),
        Algo::Mpqs => Ok(mpqs::mpqs(n, k, prefs, tpool)),
        Algo::Siqs => siqs::siqs(&n, k, prefs, tpool),
        _ => unreachable!("impossible"),
    };
    let divs = match divs {
        Ok(divs) => {
            if divs.len() == 0 {
                // Failure or interrupted.
                factors.push(n);
                return;
            } else {
                divs
            }
        }
        Err(UnexpectedFactor(d)) => {
            factor_impl(d.into(), alg, prefs, factors, tpool);
            factor_impl(n / Uint::from(d), alg, prefs, factors, tpool);
            return;
        }
    };
    // Use non trivial divisors to factor n.
    // A factorization of n.
    let mut facs = vec![n];
    for d in divs {
        // is it combined with existing divisors?
        let mut residue = d;
        let mut splits = vec![];
        facs.retain(|&f| {
            let gcd: Uint = Integer::gcd(&f, &residue);
            let split = gcd != f && !gcd.is_one();
            if split {
                splits.push(f)
            }
            residue /= gcd;
            !split
        });
        assert!(residue.is_one());
        let mut residue = d;
        for f in splits {
            let gcd: Uint = Integer::gcd(&f, &residue);
            if gcd != f && !gcd.is_one() {
                facs.push(f / gcd);
                facs.push(gcd);
            } else {
                // Can this happen?
                facs.push(f);
            }
            residue /= gcd;
        }
    }
    for f in facs {
        if f == n {
            if prefs.verbose(Verbosity::Info) {
                eprintln!("Factorization failure");
            }
            factors.push(f);
        } else if !pseudoprime(f) {
            if prefs.verbose(Verbosity::Info) {
                eprintln!("Recursively factor {f}");
            }
            factor_impl(f, alg, prefs, factors, tpool);
        } else {
            factors.push(f);
        }
    }
}
//! ---- annotated ----
fn factor_impl(
    n: Uint,
    alg: Algo,
    prefs: &Preferences,
    factors: &mut Vec<Uint>,
    tpool: Option<&rayon::ThreadPool>,
)
    requires
        fi_pre(n, alg),
    ensures
        fi_post(old(factors)@, final(factors)@, uv(n)),
    decreases uv(n),
{
    let ghost f0 = factors@;
    proof { lemma_fi_post_refl(f0); lemma_fi_pre_facts(n, alg); lemma_fi_pre_bits(n, alg); }
    // Since quadratic sieve methods work by finding non-trivial random
    // elements of multiplicative order 2 modulo n they will fail to resolve
    // prime power factors of n (because Z/p^k Z is cyclic).
    // So prime powers need to be explicitly tested.
    if n.is_one() {
        return;
    }
    let is_perfect_power = {
        if n.bits() <= 64 {
            // Use native arithmetic is possible.
            proof { lemma_bits_le64(n); }
            ol_perfect_power_u64(n.low_u64())
        } else {
            ol_perfect_power_uint(n)
        }
    };
    if let Some((p, k)) = is_perfect_power {
        let mut facs = vec![];
        proof { lemma_fi_pre_root(n, alg, p, k as nat); }
        factor_impl(p, alg, prefs, &mut facs, tpool);
        proof {
            lemma_fi_post_from_empty(facs@, uv(p));
            vstd::arithmetic::power::lemma_pow0(uv(p) as int);
        }
        for verif_it in 0..k
            invariant
                fi_post(f0, factors@, vstd::arithmetic::power::pow(uv(p) as int, verif_it as nat) as nat),
                seq_prod(facs@) == uv(p), uv(p) >= 2,
                forall|i: int| 0 <= i < facs@.len() ==> uv(#[trigger] facs@[i]) >= 2,
        {
            let ghost f1 = factors@;
            factors.extend_from_slice(facs.as_slice());
            proof {
                assert(factors@ =~= f1 + facs@) by {
                    assert forall|i: int| 0 <= i < facs@.len() implies factors@[f1.len() + i] == facs@[i] by {
                        assert(vstd::pervasive::cloned::<Uint>(facs@[i], factors@[f1.len() + i]));
                    }
                }
                lemma_fi_post_pow_step(f0, f1, facs@, uv(p), verif_it as nat);
            }
        }
        return;
    } else if pseudoprime(n) {
        proof { lemma_fi_post_push(f0, n); }
        factors.push(n);
        return;
    }
    // Apply automatic strategy.
    let alg_real = match alg {
        Algo::Auto => {
            // For small inputs, Pollard rho is faster than ECM and quadratic sieve.
            if n.bits() < 52 {
                proof { if bitlen(uv(n)) < 52 { lemma_bits_lt52(n); } }
                if let Some((a_s, b)) = pollard_rho::rho(&n, ol_verbosity(prefs)) {
                    proof { lemma_rho_shape(n, a_s@, b); }
                    proof {
                        lemma_fi_post_start(f0, a_s@);
                        lemma_fi_split_list(n, alg, a_s@, b);
                    }
                    for verif_i_a in 0..a_s.len()
                        invariant
                            fi_post(f0, factors@, prefix_prod(a_s@, verif_i_a as int)),
                            list_ok(n, alg, a_s@, true),
                    {
                        let a = a_s[verif_i_a];
                        let ghost f1 = factors@;
                        proof { lemma_list_ok(n, alg, a_s@, true, verif_i_a as int); }
                        factor_impl(a, alg, prefs, factors, tpool);
                        proof { lemma_fi_post_step(f0, f1, factors@, a_s@, verif_i_a as int); }
                    }
                    let ghost f2 = factors@;
                    factor_impl(b, alg, prefs, factors, tpool);
                    proof { lemma_fi_post_end(f0, f2, factors@, prefix_prod(a_s@, a_s@.len() as int), uv(b), uv(n)); }
                    return;
                }
            }
            // Only in automatic mode, for large inputs, Pollard P-1 and ECM can be useful.
            if n.bits() > 64 && !ol_pm1_done(prefs) {
                let pm1_res = pollard_pm1::pm1_quick(&n, ol_verbosity(prefs));
                // P-1 should be only run once.
                ol_pm1_set(prefs);
                if let Some((a_s, b)) = pm1_res {
                    proof {
                        lemma_fi_post_start(f0, a_s@);
                        lemma_fi_split_list(n, alg, a_s@, b);
                    }
                    for verif_i_a in 0..a_s.len()
                        invariant
                            fi_post(f0, factors@, prefix_prod(a_s@, verif_i_a as int)),
                            list_ok(n, alg, a_s@, true),
                    {
                        let a = a_s[verif_i_a];
                        let ghost f1 = factors@;
                        proof { lemma_list_ok(n, alg, a_s@, true, verif_i_a as int); }
                        factor_impl(a, alg, prefs, factors, tpool);
                        proof { lemma_fi_post_step(f0, f1, factors@, a_s@, verif_i_a as int); }
                    }
                    let ghost f2 = factors@;
                    factor_impl(b, alg, prefs, factors, tpool);
                    proof { lemma_fi_post_end(f0, f2, factors@, prefix_prod(a_s@, a_s@.len() as int), uv(b), uv(n)); }
                    return;
                }
            }
            // ECM, in its 128-bit variant, is already efficient for 52-bit numbers.
            let ecm_res = if matches!(n.bits(), 52..=128) {
                ecm128::ecm128(n, false, prefs)
            } else {
                ecm::ecm_auto(n, prefs, tpool)
            };
            if let Some((a, b)) = ecm_res {
                proof { lemma_fi_split_pair(n, alg, a, b); }
                factor_impl(a, alg, prefs, factors, tpool);
                let ghost f1 = factors@;
                factor_impl(b, alg, prefs, factors, tpool);
                proof { lemma_fi_post_end(f0, f1, factors@, uv(a), uv(b), uv(n)); }
                return;
            }
            // Select fallback algorithm
            // The above Rho and ECM128 steps should not fail.
            // Select ECM128 as the fallback for small integers.
            if n.bits() <= 80 {
                Algo::Ecm128
            } else {
                Algo::Siqs
            }
        }
        _ => alg,
    };
    // Now the strategy cannot be Auto.
    match alg_real {
        Algo::Auto => unreachable!("impossible"),
        Algo::Pm1 => {
            // Pure Pollard P-1
            if let Some((a_s, b)) = pollard_pm1::pm1_only(&n, ol_verbosity(prefs)) {
                proof {
                    lemma_fi_post_start(f0, a_s@);
                    lemma_fi_split_list(n, alg, a_s@, b);
                }
                for verif_i_a in 0..a_s.len()
                    invariant
                        fi_post(f0, factors@, prefix_prod(a_s@, verif_i_a as int)),
                        list_ok(n, alg, a_s@, true),
                {
                    let a = a_s[verif_i_a];
                    let ghost f1 = factors@;
                    proof { lemma_list_ok(n, alg, a_s@, true, verif_i_a as int); }
                    factor_impl(a, alg, prefs, factors, tpool);
                    proof { lemma_fi_post_step(f0, f1, factors@, a_s@, verif_i_a as int); }
                }
                let ghost f2 = factors@;
                factor_impl(b, alg, prefs, factors, tpool);
                proof { lemma_fi_post_end(f0, f2, factors@, prefix_prod(a_s@, a_s@.len() as int), uv(b), uv(n)); }
                return;
            }
            proof { lemma_fi_post_push(f0, n); }
            factors.push(n);
            return;
        }
        Algo::Ecm => {
            if let Some((a, b)) = ecm::ecm_only(n, prefs, tpool) {
                proof { lemma_fi_split_pair(n, alg, a, b); }
                factor_impl(a, alg, prefs, factors, tpool);
                let ghost f1 = factors@;
                factor_impl(b, alg, prefs, factors, tpool);
                proof { lemma_fi_post_end(f0, f1, factors@, uv(a), uv(b), uv(n)); }
                return;
            }
            proof { lemma_fi_post_push(f0, n); }
            factors.push(n);
            return;
        }
        Algo::Ecm128 => {
            // "Small" ECM
            // However due to determinism the recursion will go through the
            // same curves, which is not very useful.
            if let Some((a, b)) = ecm128::ecm128(n, true, prefs) {
                proof { lemma_fi_split_pair(n, alg, a, b); }
                factor_impl(a, alg, prefs, factors, tpool);
                let ghost f1 = factors@;
                factor_impl(b, alg, prefs, factors, tpool);
                proof { lemma_fi_post_end(f0, f1, factors@, uv(a), uv(b), uv(n)); }
                return;
            }
            proof { lemma_fi_post_push(f0, n); }
            factors.push(n);
            return;
        }
        Algo::Qs64 => {
            proof { lemma_small_bits(n); }
            assert!(n.bits() <= 64);
            if let Some((a, b)) = qsieve64::qsieve(n.low_u64(), ol_verbosity(prefs)) {
                // Recurse
                proof { lemma_bits_le64(n); lemma_fi_split_u64(n, alg, a, b); }
                factor_impl(a.into(), alg, prefs, factors, tpool);
                let ghost f1 = factors@;
                factor_impl(b.into(), alg, prefs, factors, tpool);
                proof { lemma_fi_post_end(f0, f1, factors@, a as nat, b as nat, uv(n)); }
            } else {
                proof { lemma_fi_post_push(f0, n); }
                factors.push(n);
            }
            return;
        }
        Algo::Rho => {
            proof { lemma_small_bits(n); }
            assert!(n.bits() <= 64);
            if let Some((a_s, b)) = pollard_rho::rho(&n, ol_verbosity(prefs)) {
                proof { lemma_rho_shape(n, a_s@, b); }
                proof {
                    lemma_fi_post_start(f0, a_s@);
                    lemma_fi_split_list(n, alg, a_s@, b);
                }
                for verif_i_a in 0..a_s.len()
                    invariant
                        fi_post(f0, factors@, prefix_prod(a_s@, verif_i_a as int)),
                        list_ok(n, alg, a_s@, true),
                {
                    let a = a_s[verif_i_a];
                    let ghost f1 = factors@;
                    proof { lemma_list_ok(n, alg, a_s@, true, verif_i_a as int); }
                    factor_impl(a, alg, prefs, factors, tpool);
                    proof { lemma_fi_post_step(f0, f1, factors@, a_s@, verif_i_a as int); }
                }
                let ghost f2 = factors@;
                factor_impl(b, alg, prefs, factors, tpool);
                proof { lemma_fi_post_end(f0, f2, factors@, prefix_prod(a_s@, a_s@.len() as int), uv(b), uv(n)); }
                return;
            } else {
                proof { lemma_fi_post_push(f0, n); }
                factors.push(n);
            }
            return;
        }
        Algo::Squfof => {
            proof { lemma_small_bits(n); }
            assert!(n.bits() <= 64);
            if let Some((a, b)) = squfof::squfof(n.low_u64()) {
                proof { lemma_bits_le64(n); lemma_fi_split_u64(n, alg, a, b); }
                factor_impl(a.into(), alg, prefs, factors, tpool);
                let ghost f1 = factors@;
                factor_impl(b.into(), alg, prefs, factors, tpool);
                proof { lemma_fi_post_end(f0, f1, factors@, a as nat, b as nat, uv(n)); }
            } else {
                proof { lemma_fi_post_push(f0, n); }
                factors.push(n);
            }
            return;
        }
        // Otherwise it is a quadratic sieve.
        Algo::Qs | Algo::Mpqs | Algo::Siqs => {}
    }
    if prefs.abort() {
        proof { lemma_fi_post_push(f0, n); }
        factors.push(n);
        return;
    }

    let (k, score) = fbase::select_multiplier(n);
    let divs = match alg_real {
        Algo::Qs => Ok(qsieve::qsieve(n, k, prefs, tpool)),
        Algo::Mpqs => Ok(mpqs::mpqs(n, k, prefs, tpool)),
        Algo::Siqs => siqs::siqs(&n, k, prefs, tpool),
        _ => unreachable!("impossible"),
    };
    let divs = match divs {
        Ok(divs) => {
            if divs.len() == 0 {
                // Failure or interrupted.
                proof { lemma_fi_post_push(f0, n); }
                factors.push(n);
                return;
            } else {
                divs
            }
        }
        Err(UnexpectedFactor(d)) => {
            proof { lemma_fi_split_div(n, alg, d); lemma_fi_div_u64(n, d); }
            factor_impl(d.into(), alg, prefs, factors, tpool);
            let ghost f1 = factors@;
            factor_impl(n / Uint::from(d), alg, prefs, factors, tpool);
            proof { lemma_fi_post_end(f0, f1, factors@, d as nat, uv(n) / (d as nat), uv(n)); }
            return;
        }
    };
    // Use non trivial divisors to factor n.
    // A factorization of n.
    let facs = ol_combine_divisors(n, divs);
    proof {
        lemma_fi_post_start(f0, facs@);
        lemma_fi_split_seq(n, alg, facs@);
    }
    for verif_i_f in 0..facs.len()
        invariant
            fi_post(f0, factors@, prefix_prod(facs@, verif_i_f as int)),
            list_ok(n, alg, facs@, false),
    {
        let f = facs[verif_i_f];
        let ghost f1 = factors@;
        proof {
            lemma_list_ok(n, alg, facs@, false, verif_i_f as int);
            lemma_fi_post_push(f1, f);
            lemma_fi_pre_bits(f, alg);
        }
        if f == n {
            factors.push(f);
        } else if !pseudoprime(f) {
            factor_impl(f, alg, prefs, factors, tpool);
        } else {
            factors.push(f);
        }
        proof { lemma_fi_post_step(f0, f1, factors@, facs@, verif_i_f as int); }
    }
}
