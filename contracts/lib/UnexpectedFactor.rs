//! unit: {"file": "src/lib.rs", "kind": "struct", "name": "UnexpectedFactor", "props": ["C01", "C03"]}
//! ---- pinned ----
/// An "error" describing a (small) factor encountered unexpectedly
/// during algorithms. This includes factor bases containing a divisor
/// of N or ECM generating a singular curve.
#[derive(Debug)]
pub struct UnexpectedFactor(u64);
//! ---- annotated ----
#[derive(Debug)]
pub struct UnexpectedFactor(u64);
