//! unit: {"file": "src/lib.rs", "kind": "fn", "name": "factor", "props": ["C01", "C03"]}
//! ---- pinned ----
/// Factorizes an integer into a product of factors.
pub fn factor(n: Uint, alg: Algo, prefs: &Preferences) -> Result<Vec<Uint>, FactoringFailure> {
    if n.is_zero() {
        return Ok(vec![n]);
    }
    let mut factors = vec![];
    if prefs.verbose(Verbosity::Info) {
        eprintln!("Testing small prime divisors");
    }
    let mut nred = n;
    for (&p, div) in fbase::SMALL_PRIMES
        .iter()
        .zip(&fbase::SMALL_PRIMES_DIVIDERS)
    {
        loop {
            let (q, r) = div.divmod_uint(&nred);
            if r != 0 {
                break;
            }
            nred = q;
            factors.push(p.into());
            if prefs.verbose(Verbosity::Info) {
                eprintln!("Found small factor {p}");
            }
        }
    }
    if nred != n && prefs.verbose(Verbosity::Info) {
        eprintln!("Factoring {nred}");
    }
    // Create thread pool
    let tpool: Option<rayon::ThreadPool> = match prefs.threads {
        None | Some(1) => None,
        Some(t) => {
            if prefs.verbose(Verbosity::Verbose) {
                eprintln!("Using a pool of {t} threads");
            }
            Some(
                rayon::ThreadPoolBuilder::new()
                    .num_threads(t)
                    .build()
                    .expect("cannot create thread pool"),
            )
        }
    };
    let tpool = tpool.as_ref();
    factor_impl(nred, alg, prefs, &mut factors, tpool);

    check_factors(&n, &factors)?;
    factors.sort();
    Ok(factors)
}
//! ---- annotated ----
/// Factorizes an integer into a product of factors.
pub fn factor(n: Uint, alg: Algo, prefs: &Preferences) -> (r: Result<Vec<Uint>, FactoringFailure>)
    requires
        small_algo(alg) ==> uv(n) < 0x1_0000_0000_0000_0000,
        alg is Rho ==> uv(n) <= 0xffff_ffff_ffff_ffc0,
        // the supported size (ZmodN::new and hence pseudoprime accept at most 512 bits)
        uv(n) < vstd::arithmetic::power2::pow2(512),
    ensures
        r is Ok ==> {
            let v = r->Ok_0;
            &&& seq_prod(v@) == uv(n)
            &&& sorted_uv(v@)
            &&& (uv(n) == 0 ==> v@ =~= seq![n])
            &&& (uv(n) == 1 ==> v@.len() == 0)
            &&& (uv(n) >= 2 ==> forall|i: int| 0 <= i < v@.len() ==> uv(#[trigger] v@[i]) >= 2)
        },
{
    if n.is_zero() {
        proof {
            let s = seq![n];
            assert(s.subrange(1, 1) =~= Seq::<Uint>::empty());
            assert(seq_prod(s) == uv(n) * seq_prod(s.subrange(1, 1)));
            assert(seq_prod(Seq::<Uint>::empty()) == 1);
            lemma_mul_one(uv(n) as int);
            assert forall|v: Seq<Uint>| #[trigger] v.len() == 1 && v[0] == n implies v == s by { assert(v =~= s); }
        }
        return Ok(vec![n]);
    }
    let mut factors = vec![];
    let nred = ol_factor_trial_division(n, prefs, &mut factors);
    let ghost f1 = factors@;
    // Create thread pool
    let tpool: Option<rayon::ThreadPool> = ol_factor_pool(prefs);
    let tpool = tpool.as_ref();
    proof { lemma_fi_pre_facts(nred, alg); }
    factor_impl(nred, alg, prefs, &mut factors, tpool);
    proof { lemma_factor_compose(f1, factors@, uv(n), uv(nred)); }

    proof { lemma_bitlen_le(uv(n), 512); }
    check_factors(&n, &factors)?;
    let ghost f0 = factors@;
    ol_sort(&mut factors);
    proof {
        lemma_seq_prod_perm(f0, factors@);
        lemma_perm_ge2(f0, factors@);
    }
    Ok(factors)
}
