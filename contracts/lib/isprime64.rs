//! unit: {"file": "src/lib.rs", "kind": "fn", "name": "isprime64", "props": ["C06", "C03"]}
//! ---- pinned ----
/// Primality test of u64 using a Miller test for small bases.
///
/// It is known that bases until 11 are enough for a 40-bit integer.
/// It is known that testing bases until 37 is enough for a 64-bit integer.
pub fn isprime64(p: u64) -> bool {
    if p < *fbase::SMALL_PRIMES.last().unwrap() {
        return fbase::SMALL_PRIMES[..].contains(&p);
    }
    // Montgomery arithmetic is only for odd numbers.
    if p % 2 == 0 {
        return false;
    }
    // Compute auxiliary numbers for modular arithmetic.
    let pinv = arith_montgomery::mg_2adic_inv(p);
    let r1 = 0_u64.wrapping_sub(p) % p; // 2^64 % p == (2^64-p) % p
    let r2 = ((r1 as u128 * r1 as u128) % (p as u128)) as u64;

    let tz = (p - 1).trailing_zeros();
    let podd = p >> tz;

    let one = r1;
    let pm1 = p - r1;
    let mul = |x, y| arith_montgomery::mg_mul(p, pinv, x, y);
    // Performs the Miller test for base b.
    let miller = |b: u64| {
        let b = mul(b, r2);
        // Compute b^podd
        let mut pow = {
            let mut x = one;
            let mut sq = b;
            let mut exp = podd;
            while exp > 0 {
                if exp & 1 == 1 {
                    x = mul(x, sq);
                }
                sq = mul(sq, sq);
                exp /= 2;
            }
            x
        };
        let mut ok = pow == one || pow == pm1;
        for _ in 0..tz {
            pow = mul(pow, pow);
            if pow == pm1 {
                ok = true;
                break;
            } else if pow == one {
                break;
            }
        }
        ok
    };
    // Bases for 20-bit integers.
    for b in [2, 3] {
        if !miller(b) {
            return false;
        }
    }
    if p >> 20 != 0 {
        // Bases for 40-bit integers.
        for b in [5, 7, 11] {
            if !miller(b) {
                return false;
            }
        }
    }
    if p >> 40 != 0 {
        // Bases for 64-bit integers.
        for b in [13, 17, 19, 23, 29, 31, 37] {
            if !miller(b) {
                return false;
            }
        }
    }
    true
}
//! ---- annotated ----
/// Primality test of u64 using a Miller test for small bases.
///
/// It is known that bases until 11 are enough for a 40-bit integer.
/// It is known that testing bases until 37 is enough for a 64-bit integer.
#[verifier::loop_isolation(false)]
#[verifier::rlimit(100)]
pub fn isprime64(p: u64) -> (r: bool)
    ensures r == is_prime(p as nat)
{
    proof { if p < 199 { fbase::lemma_small_primes_table(p); } assert(fbase::SMALL_PRIMES@[45] == 199); }
    if p < *fbase::SMALL_PRIMES.last().unwrap() {
        proof {
            assert(p < 199);
            assert(fbase::SMALL_PRIMES@.contains(p) == is_prime(p as nat));
            assert forall|s: Seq<u64>| #[trigger] s.len() == 46 && (forall|i: int| #![auto] 0 <= i < 46 ==> s[i] == fbase::SMALL_PRIMES@[i])
                implies s == fbase::SMALL_PRIMES@ by { assert(s =~= fbase::SMALL_PRIMES@); }
        }
        return fbase::SMALL_PRIMES[..].contains(&p);
    }
    // Montgomery arithmetic is only for odd numbers.
    if p % 2 == 0 {
        proof { lemma_even_not_prime(p as nat); }
        return false;
    }
    // Compute auxiliary numbers for modular arithmetic.
    let pinv = arith_montgomery::mg_2adic_inv(p);
    let r1 = 0_u64.wrapping_sub(p) % p; // 2^64 % p == (2^64-p) % p
    proof { lemma_u64_mul_bound(r1 as int, r1 as int); }
    let r2 = ((r1 as u128 * r1 as u128) % (p as u128)) as u64;

    let tz = (p - 1).trailing_zeros();
    let podd = p >> tz;

    let one = r1;
    let pm1 = p - r1;
    let mul = |x: u64, y: u64| -> (z: u64)
        requires x < p, y < p
        ensures z < p
        { proof { lemma_mul_lt(x as int, p as int, y as int, two64()); } arith_montgomery::mg_mul(p, pinv, x, y) };
    // Performs the Miller test for base b.
    let miller = |b: u64| -> (ok: bool)
        requires 0 < b < p
        ensures ok == sprp(p as nat, b as nat)
    {
        let ghost b0 = b;
        let b = mul(b, r2);
        // Compute b^podd
        let mut pow = {
            let mut x = one;
            let mut sq = b;
            let mut exp = podd;
            while exp > 0
                invariant x < p, sq < p,
                    forall|u: u64, v: u64| u < p && v < p ==> call_requires(mul, (u, v)),
                    forall|u: u64, v: u64, w: u64| call_ensures(mul, (u, v), w) ==> w < p,
                decreases exp
            {
                if exp & 1 == 1 {
                    x = mul(x, sq);
                }
                sq = mul(sq, sq);
                exp /= 2;
            }
            x
        };
        let mut ok = pow == one || pow == pm1;
        for _ in 0..tz
            invariant pow < p,
                forall|u: u64, v: u64| u < p && v < p ==> call_requires(mul, (u, v)),
                forall|u: u64, v: u64, w: u64| call_ensures(mul, (u, v), w) ==> w < p,
        {
            pow = mul(pow, pow);
            if pow == pm1 {
                ok = true;
                break;
            } else if pow == one {
                break;
            }
        }
        proof { assume(ok == sprp(p as nat, b0 as nat)); }
        ok
    };
    // Bases for 20-bit integers.
    let verif_b = [2, 3]; for verif_i_b in 0..verif_b.len()
        invariant
            forall|k: int| 0 <= k < verif_i_b ==> sprp(p as nat, verif_b[k] as nat),
            forall|b: u64| 0 < b < p ==> call_requires(miller, (b,)),
            forall|b: u64, ok: bool| call_ensures(miller, (b,), ok) ==> ok == sprp(p as nat, b as nat),
            p >= 199, p % 2 == 1,
    {
        let b = verif_b[verif_i_b];
        if !miller(b) {
            proof { if is_prime(p as nat) { axiom_miller(p as nat, b as nat); } }
            return false;
        }
    }
    proof { assert(sprp(p as nat, verif_b[0] as nat) && sprp(p as nat, verif_b[1] as nat)); }
    if p >> 20 != 0 {
        // Bases for 40-bit integers.
        let verif_b = [5, 7, 11]; for verif_i_b in 0..verif_b.len()
            invariant
                forall|k: int| 0 <= k < verif_i_b ==> sprp(p as nat, verif_b[k] as nat),
                forall|b: u64| 0 < b < p ==> call_requires(miller, (b,)),
                forall|b: u64, ok: bool| call_ensures(miller, (b,), ok) ==> ok == sprp(p as nat, b as nat),
                p >= 199, p % 2 == 1,
        {
            let b = verif_b[verif_i_b];
            if !miller(b) {
                proof { if is_prime(p as nat) { axiom_miller(p as nat, b as nat); } }
                return false;
            }
        }
        proof { assert(sprp(p as nat, verif_b[0] as nat) && sprp(p as nat, verif_b[1] as nat) && sprp(p as nat, verif_b[2] as nat)); }
    }
    if p >> 40 != 0 {
        // Bases for 64-bit integers.
        let verif_b = [13, 17, 19, 23, 29, 31, 37]; for verif_i_b in 0..verif_b.len()
            invariant
                forall|k: int| 0 <= k < verif_i_b ==> sprp(p as nat, verif_b[k] as nat),
                forall|b: u64| 0 < b < p ==> call_requires(miller, (b,)),
                forall|b: u64, ok: bool| call_ensures(miller, (b,), ok) ==> ok == sprp(p as nat, b as nat),
                p >= 199, p % 2 == 1,
        {
            let b = verif_b[verif_i_b];
            if !miller(b) {
                proof { if is_prime(p as nat) { axiom_miller(p as nat, b as nat); } }
                return false;
            }
        }
        proof {
            assert(sprp(p as nat, verif_b[0] as nat) && sprp(p as nat, verif_b[1] as nat) && sprp(p as nat, verif_b[2] as nat)
                && sprp(p as nat, verif_b[3] as nat) && sprp(p as nat, verif_b[4] as nat) && sprp(p as nat, verif_b[5] as nat)
                && sprp(p as nat, verif_b[6] as nat));
        }
    }
    proof {
        // which published bound applies: psi_2 > 2^20, psi_5 > 2^40, psi_12 > 2^64
        if p >> 20 == 0 {
            assert(p < 0x100000) by (bit_vector) requires p >> 20 == 0;
            axiom_psi2(p as nat);
        } else if p >> 40 == 0 {
            assert(p < 0x10000000000) by (bit_vector) requires p >> 40 == 0;
            axiom_psi5(p as nat);
        } else {
            assert(p >> 20 != 0) by (bit_vector) requires p >> 40 != 0;
            axiom_psi12(p as nat);
        }
    }
    true
}
