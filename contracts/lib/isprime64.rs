//! unit: {"file": "src/lib.rs", "kind": "fn", "name": "isprime64", "props": ["C06", "C03"]}
//! ---- pinned ----
/// Primality test of u64 using a Miller test for small bases.
///
/// It is known that bases until 11 are enough for a 40-bit integer.
/// It is known that testing bases until 37 is enough for a 64-bit integer.
pub fn isprime64(p: u64) -> bool {
    if p < *fbase::SMALL_PRIMES.last().unwrap() {
        return fbase::SMALL_PRIMES[..].contains(&p);
    }
    // Montgomery arithmetic is only for odd numbers.
    if p % 2 == 0 {
        return false;
    }
    // Compute auxiliary numbers for modular arithmetic.
    let pinv = arith_montgomery::mg_2adic_inv(p);
    let r1 = 0_u64.wrapping_sub(p) % p; // 2^64 % p == (2^64-p) % p
    let r2 = ((r1 as u128 * r1 as u128) % (p as u128)) as u64;

    let tz = (p - 1).trailing_zeros();
    let podd = p >> tz;

    let one = r1;
    let pm1 = p - r1;
    let mul = |x, y| arith_montgomery::mg_mul(p, pinv, x, y);
    // Performs the Miller test for base b.
    let miller = |b: u64| {
        let b = mul(b, r2);
        // Compute b^podd
        let mut pow = {
            let mut x = one;
            let mut sq = b;
            let mut exp = podd;
            while exp > 0 {
                if exp & 1 == 1 {
                    x = mul(x, sq);
                }
                sq = mul(sq, sq);
                exp /= 2;
            }
            x
        };
        let mut ok = pow == one || pow == pm1;
        for _ in 0..tz {
            pow = mul(pow, pow);
            if pow == pm1 {
                ok = true;
                break;
            } else if pow == one {
                break;
            }
        }
        ok
    };
    // Bases for 20-bit integers.
    for b in [2, 3] {
        if !miller(b) {
            return false;
        }
    }
    if p >> 20 != 0 {
        // Bases for 40-bit integers.
        for b in [5, 7, 11] {
            if !miller(b) {
                return false;
            }
        }
    }
    if p >> 40 != 0 {
        // Bases for 64-bit integers.
        for b in [13, 17, 19, 23, 29, 31, 37] {
            if !miller(b) {
                return false;
            }
        }
    }
    true
}
//! ---- annotated ----
/// Primality test of u64 using a Miller test for small bases.
///
/// It is known that bases until 11 are enough for a 40-bit integer.
/// It is known that testing bases until 37 is enough for a 64-bit integer.
#[verifier::loop_isolation(false)]
#[verifier::rlimit(100)]
pub fn isprime64(p: u64) -> (r: bool)
    ensures r == is_prime(p as nat)
{
    proof { if p < 199 { fbase::lemma_small_primes_table(p); } assert(fbase::SMALL_PRIMES@[45] == 199); }
    if p < *fbase::SMALL_PRIMES.last().unwrap() {
        proof {
            assert(p < 199);
            assert(fbase::SMALL_PRIMES@.contains(p) == is_prime(p as nat));
            assert forall|s: Seq<u64>| #[trigger] s.len() == 46 && (forall|i: int| #![auto] 0 <= i < 46 ==> s[i] == fbase::SMALL_PRIMES@[i])
                implies s == fbase::SMALL_PRIMES@ by { assert(s =~= fbase::SMALL_PRIMES@); }
        }
        return fbase::SMALL_PRIMES[..].contains(&p);
    }
    // Montgomery arithmetic is only for odd numbers.
    if p % 2 == 0 {
        proof { lemma_even_not_prime(p as nat); }
        return false;
    }
    // Compute auxiliary numbers for modular arithmetic.
    let pinv = arith_montgomery::mg_2adic_inv(p);
    let r1 = 0_u64.wrapping_sub(p) % p; // 2^64 % p == (2^64-p) % p
    proof { lemma_u64_mul_bound(r1 as int, r1 as int); }
    let r2 = ((r1 as u128 * r1 as u128) % (p as u128)) as u64;

    let tz = (p - 1).trailing_zeros();
    let podd = p >> tz;

    let one = r1;
    let pm1 = p - r1;
    proof {
        // r1 = (2^64 - p) % p = 2^64 % p
        assert(0_u64.wrapping_sub(p) as int == two64() - p as int);
        lemma_cong_add_multiple(two64() - p as int, 1, p as int);
        lemma_mul_one(p as int);
        assert(r1 as int == two64() % (p as int));
        lemma_mrep_one(p, r1);
        lemma_miller_decomp(p, tz, podd);
        assert(r2 as int == ((r1 as int) * (r1 as int)) % (p as int));
    }
    let mul = |x: u64, y: u64| -> (z: u64)
        requires x < p, y < p
        ensures z < p, (z as int * two64()) % (p as int) == ((x as int) * (y as int)) % (p as int)
        { proof { lemma_mul_lt(x as int, p as int, y as int, two64()); } arith_montgomery::mg_mul(p, pinv, x, y) };
    // Performs the Miller test for base b.
    let miller = |b: u64| -> (ok: bool)
        requires 0 < b < p
        ensures ok == sprp(p as nat, b as nat)
    {
        let ghost b0 = b;
        let ghost pn = p as nat;
        let ghost bn = b as nat;
        let ghost dn = podd as nat;
        let b = mul(b, r2);
        proof { lemma_mrep_enter(b0, r1, r2, b, pn); }
        // Compute b^podd
        let ghost mut gx: nat = 1;
        let ghost mut gsq: nat = bn;
        let mut pow = {
            let mut x = one;
            let mut sq = b;
            let mut exp = podd;
            proof { lemma_sqmul_init(bn, dn, pn); }
            while exp > 0
                invariant x < p, sq < p,
                    mrep(x, gx, pn), mrep(sq, gsq, pn), sqmul_inv(bn, dn, gx, gsq, exp as nat, pn),
                    forall|u: u64, v: u64| u < p && v < p ==> call_requires(mul, (u, v)),
                    forall|u: u64, v: u64, w: u64| call_ensures(mul, (u, v), w) ==> w < p
                        && (w as int * two64()) % (p as int) == ((u as int) * (v as int)) % (p as int),
                decreases exp
            {
                proof {
                    lemma_sqmul_step(bn, dn, gx, gsq, exp as nat, pn);
                    assert((exp & 1 == 1) == (exp % 2 == 1)) by (bit_vector);
                }
                if exp & 1 == 1 {
                    let ghost x0 = x;
                    x = mul(x, sq);
                    proof { lemma_mrep_mul(x0, gx, sq, gsq, x, pn); gx = (gx * gsq) % pn; }
                }
                let ghost sq0 = sq;
                sq = mul(sq, sq);
                proof { lemma_mrep_mul(sq0, gsq, sq0, gsq, sq, pn); gsq = (gsq * gsq) % pn; }
                exp /= 2;
            }
            proof { lemma_sqmul_done(bn, dn, gx, gsq, pn); }
            x
        };
        let ghost v0 = mchain(bn, dn, pn, 0);
        proof {
            assert(pow2n(0) == 1);
            lemma_mul_one(dn as int);
            assert(gx == v0);
            lemma_mrep_inj(pow, gx, one, 1, pn);
            lemma_mrep_inj(pow, gx, pm1, (pn - 1) as nat, pn);
            lemma_sprp_chain(pn, bn);
            vstd::arithmetic::div_mod::lemma_small_mod(1, pn);
        }
        let mut ok = pow == one || pow == pm1;
        let ghost mut jj: nat = 0;
        let ghost mut fin = false;
        let ghost mut gv: nat = gx;
        for verif_it in 0..tz
            invariant_except_break
                !fin,
            invariant pow < p,
                fin ==> ok == sprp(pn, bn),
                !fin ==> jj == verif_it as nat && gv == mchain(bn, dn, pn, jj) && mrep(pow, gv, pn)
                    && ok == (v0 == 1 || mwit(bn, dn, pn, jj)),
                forall|u: u64, v: u64| u < p && v < p ==> call_requires(mul, (u, v)),
                forall|u: u64, v: u64, w: u64| call_ensures(mul, (u, v), w) ==> w < p
                    && (w as int * two64()) % (p as int) == ((u as int) * (v as int)) % (p as int),
        {
            let ghost pow0 = pow;
            let ghost ok0 = ok;
            pow = mul(pow, pow);
            proof {
                lemma_mrep_mul(pow0, gv, pow0, gv, pow, pn);
                lemma_mchain_next(bn, dn, pn, jj);
                gv = (gv * gv) % pn;
                jj = jj + 1;
                lemma_mrep_inj(pow, gv, pm1, (pn - 1) as nat, pn);
                lemma_mrep_inj(pow, gv, one, 1, pn);
            }
            if pow == pm1 {
                ok = true;
                proof {
                    lemma_mwit_mono(bn, dn, pn, jj, tz as nat);
                    fin = true;
                }
                break;
            } else if pow == one {
                proof {
                    lemma_mchain_one(bn, dn, pn, jj, tz as nat);
                    fin = true;
                }
                break;
            }
        }
        ok
    };
    // Bases for 20-bit integers.
    let verif_b = [2, 3]; for verif_i_b in 0..verif_b.len()
        invariant
            forall|k: int| 0 <= k < verif_i_b ==> sprp(p as nat, verif_b[k] as nat),
            forall|b: u64| 0 < b < p ==> call_requires(miller, (b,)),
            forall|b: u64, ok: bool| call_ensures(miller, (b,), ok) ==> ok == sprp(p as nat, b as nat),
            p >= 199, p % 2 == 1,
    {
        let b = verif_b[verif_i_b];
        if !miller(b) {
            proof { if is_prime(p as nat) { axiom_miller(p as nat, b as nat); } }
            return false;
        }
    }
    proof { assert(sprp(p as nat, verif_b[0] as nat) && sprp(p as nat, verif_b[1] as nat)); }
    if p >> 20 != 0 {
        // Bases for 40-bit integers.
        let verif_b = [5, 7, 11]; for verif_i_b in 0..verif_b.len()
            invariant
                forall|k: int| 0 <= k < verif_i_b ==> sprp(p as nat, verif_b[k] as nat),
                forall|b: u64| 0 < b < p ==> call_requires(miller, (b,)),
                forall|b: u64, ok: bool| call_ensures(miller, (b,), ok) ==> ok == sprp(p as nat, b as nat),
                p >= 199, p % 2 == 1,
        {
            let b = verif_b[verif_i_b];
            if !miller(b) {
                proof { if is_prime(p as nat) { axiom_miller(p as nat, b as nat); } }
                return false;
            }
        }
        proof { assert(sprp(p as nat, verif_b[0] as nat) && sprp(p as nat, verif_b[1] as nat) && sprp(p as nat, verif_b[2] as nat)); }
    }
    if p >> 40 != 0 {
        // Bases for 64-bit integers.
        let verif_b = [13, 17, 19, 23, 29, 31, 37]; for verif_i_b in 0..verif_b.len()
            invariant
                forall|k: int| 0 <= k < verif_i_b ==> sprp(p as nat, verif_b[k] as nat),
                forall|b: u64| 0 < b < p ==> call_requires(miller, (b,)),
                forall|b: u64, ok: bool| call_ensures(miller, (b,), ok) ==> ok == sprp(p as nat, b as nat),
                p >= 199, p % 2 == 1,
        {
            let b = verif_b[verif_i_b];
            if !miller(b) {
                proof { if is_prime(p as nat) { axiom_miller(p as nat, b as nat); } }
                return false;
            }
        }
        proof {
            assert(sprp(p as nat, verif_b[0] as nat) && sprp(p as nat, verif_b[1] as nat) && sprp(p as nat, verif_b[2] as nat)
                && sprp(p as nat, verif_b[3] as nat) && sprp(p as nat, verif_b[4] as nat) && sprp(p as nat, verif_b[5] as nat)
                && sprp(p as nat, verif_b[6] as nat));
        }
    }
    proof {
        // which published bound applies: psi_2 > 2^20, psi_5 > 2^40, psi_12 > 2^64
        if p >> 20 == 0 {
            assert(p < 0x100000) by (bit_vector) requires p >> 20 == 0;
            axiom_psi2(p as nat);
        } else if p >> 40 == 0 {
            assert(p < 0x10000000000) by (bit_vector) requires p >> 40 == 0;
            axiom_psi5(p as nat);
        } else {
            assert(p >> 20 != 0) by (bit_vector) requires p >> 40 != 0;
            axiom_psi12(p as nat);
        }
    }
    true
}
