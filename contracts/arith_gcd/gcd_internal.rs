//! unit: {"file": "src/arith_gcd.rs", "kind": "fn", "name": "gcd_internal", "props": ["C09", "C03", "C07"]}
//! ---- pinned ----
/// Fast extended GCD.
///
/// The extended GCD is determined by a lattice reduction algorithm:
/// the result is an invertible integer matrix M (det M = ±1)
/// such that M(n, p) = (gcd, 0)
///
/// To reduce the number of operations, the matrix is determined
/// by computing partial reductions using 64-bit arithmetic.
/// This hopefully requires N/32 multiword products instead of N.
pub fn gcd_internal<const N: usize, const EXT: bool>(
    n: &BUint<N>,
    p: &BUint<N>,
) -> (BUint<N>, BInt<N>, BInt<N>) {
    // A matrix such that x = biga*n + bigb*p, y = bigc*n + bigd*p
    let (mut biga, mut bigb) = (BInt::<N>::ONE, BInt::<N>::ZERO);
    let (mut bigc, mut bigd) = (bigb, biga);
    // Faster than generic Euclid algorithm.
    // Invariants:
    // x >= y
    // (x,y) generate the same ideal as original (n,p).
    let mut x = *n;
    let mut y = *p;
    // Now gcd(x,y) is odd: x,y can never be simultaneously even.
    loop {
        //eprintln!("x={x}");
        //eprintln!("y={y}");
        // Make sure x > y.
        if y >= x {
            (biga, bigb, bigc, bigd) = (bigc, bigd, biga, bigb);
            (x, y) = (y, x)
        }
        let lx = x.bits();
        let ly = y.bits();
        if lx == 0 {
            return (y, bigc, bigd);
        }
        if ly == 0 {
            return (x, biga, bigb);
        }
        if lx < 64 && ly < 64 {
            let (x0, y0) = (x.digits()[0] as i64, y.digits()[0] as i64);
            if EXT {
                // Extended gcd.
                let e = Integer::extended_gcd(&x0, &y0);
                let u: BInt<N> = BInt::from(e.x) * biga + BInt::from(e.y) * bigc;
                let v: BInt<N> = BInt::from(e.x) * bigb + BInt::from(e.y) * bigd;
                return (BUint::from_digit(e.gcd as u64), u, v);
            } else {
                let d = Integer::gcd(&x0, &y0) as u64;
                return (BUint::from_digit(d), BInt::ZERO, BInt::ZERO);
            }
        }
        // To reduce by 32 bits we need:
        // a matrix M such that M is less than 32 bits
        // M (xtop, ytop) is less than 32 bits.
        let bits = max(lx, ly);
        // xtop and ytop have sizes differing by < 32 bits
        let xtop = top64(x.digits(), bits);
        let ytop = top64(y.digits(), bits);
        // If ytop is too small, the reduction matrix cannot be small.
        // If x is too large we will have trouble multiplying.
        // Use multiprecision quotient.
        if lx + 36 >= N as u32 * 64 || ly + 36 >= N as u32 * 64 || ytop < 1 << 32 {
            if EXT {
                let q = x / y;
                let r = x - q * y;
                let (c, d) = if (r << 1) > y {
                    // Use (q+1)y - x for smaller y.
                    (x, y) = (y, y - r);
                    let q = BInt::<N>::cast_from(q) + BInt::<N>::ONE;
                    (q * bigc - biga, q * bigd - bigb)
                } else {
                    let q = BInt::<N>::cast_from(q);
                    (x, y) = (y, r);
                    (biga - q * bigc, bigb - q * bigd)
                };
                (biga, bigb) = (bigc, bigd);
                (bigc, bigd) = (c, d);
            } else {
                (x, y) = (y, x % y);
            }
            continue;
        }
        // Now xtop and ytop have similar sizes.
        // Reduce vector: invariant u=ax+by, v=cx+dy
        let (a, b, c, d) = reduce64(xtop, ytop);
        // By definition, ab, cd have opposite signs.
        // Also a,b,c,d are guaranteed to be less than 40 bits
        // so that the multiplication does not overflow.
        let size = (bits as usize + 63) / 64;
        let (ax_by, negx) = dot_product(size, a, &x, b, &y);
        let (cx_dy, negy) = dot_product(size, c, &x, d, &y);
        // x, y are now smaller.
        (x, y) = (ax_by, cx_dy);
        if EXT {
            let (ai, bi) = (BInt::<N>::from(a), BInt::<N>::from(b));
            let (ci, di) = (BInt::<N>::from(c), BInt::<N>::from(d));
            let (aa, bb) = (ai * biga + bi * bigc, ai * bigb + bi * bigd);
            let (cc, dd) = (ci * biga + di * bigc, ci * bigb + di * bigd);
            (biga, bigb, bigc, bigd) = (aa, bb, cc, dd);
            if negx {
                (biga, bigb) = (-biga, -bigb);
            }
            if negy {
                (bigc, bigd) = (-bigc, -bigd);
            }
        }
    }
}
//! ---- annotated ----
/// Fast extended GCD.
///
/// The extended GCD is determined by a lattice reduction algorithm:
/// the result is an invertible integer matrix M (det M = ±1)
/// such that M(n, p) = (gcd, 0)
///
/// To reduce the number of operations, the matrix is determined
/// by computing partial reductions using 64-bit arithmetic.
/// This hopefully requires N/32 multiword products instead of N.
#[verifier::exec_allows_no_decreases_clause]
pub fn gcd_internal<const N: usize, const EXT: bool>(
    n: &BUint<N>,
    p: &BUint<N>,
) -> (res: (BUint<N>, BInt<N>, BInt<N>))
    requires 1 <= N <= 0x100_0000,
    ensures
        uv(res.0) == gcd_spec(uv(*n), uv(*p)),
        EXT ==> bezm(iv(res.1), iv(res.2), uv(*n) as int, uv(*p) as int, uv(res.0) as int, pow_w(N as nat) as int),
{
    let ghost m = pow_w(N as nat) as int;
    let ghost nn = uv(*n) as int;
    let ghost pp = uv(*p) as int;
    // A matrix such that x = biga*n + bigb*p, y = bigc*n + bigd*p
    let (mut biga, mut bigb) = (ol_bint_one::<N>(), ol_bint_zero::<N>());
    let (mut bigc, mut bigd) = (bigb, biga);
    // Faster than generic Euclid algorithm.
    // Invariants:
    // x >= y
    // (x,y) generate the same ideal as original (n,p).
    let mut x = *n;
    let mut y = *p;
    proof { lemma_mul_one(nn); lemma_mul_one(pp); lemma_pow_w_pos(N as nat); }
    // Now gcd(x,y) is odd: x,y can never be simultaneously even.
    loop
        invariant
            1 <= N <= 0x100_0000,
            gcd_spec(uv(x), uv(y)) == gcd_spec(uv(*n), uv(*p)),
            m == pow_w(N as nat) as int, m > 0, nn == uv(*n) as int, pp == uv(*p) as int,
            EXT ==> bezm(iv(biga), iv(bigb), nn, pp, uv(x) as int, m) && bezm(iv(bigc), iv(bigd), nn, pp, uv(y) as int, m),
    {
        proof {
            lemma_buint_ops_all::<N>(); lemma_bint_ops_all::<N>(); lemma_bint_lin_all::<N>();
            axiom_uv_bound(x); axiom_uv_bound(y);
            lemma_gcd_swap(uv(x), uv(y));
        }
        //eprintln!("x={x}");
        //eprintln!("y={y}");
        // Make sure x > y.
        if y >= x {
            let verif_t = (bigc, bigd, biga, bigb); biga = verif_t.0; bigb = verif_t.1; bigc = verif_t.2; bigd = verif_t.3;
            let verif_t = (y, x); x = verif_t.0; y = verif_t.1;
        }
        let lx = x.bits();
        let ly = y.bits();
        if lx == 0 {
            proof { lemma_bitlen_zero(uv(x)); }
            return (y, bigc, bigd);
        }
        if ly == 0 {
            proof { lemma_bitlen_zero(uv(y)); }
            return (x, biga, bigb);
        }
        proof {
            if uv(x) == 0 { assert(bitlen(0) == 0); }
            if uv(y) == 0 { assert(bitlen(0) == 0); }
        }
        if lx < 64 && ly < 64 {
            proof {
                lemma_bitlen_bound(uv(x), 63); lemma_bitlen_bound(uv(y), 63);
                vstd::arithmetic::power2::lemma2_to64();
                assert(vstd::arithmetic::power2::pow2(63) == 0x8000_0000_0000_0000) by { vstd::arithmetic::power2::lemma_pow2_unfold(64); }
                axiom_udigits(x); axiom_udigits(y);
                lemma_limbs_low(udigits(x)); lemma_limbs_low(udigits(y));
                vstd::arithmetic::div_mod::lemma_small_mod(uv(x), W()); vstd::arithmetic::div_mod::lemma_small_mod(uv(y), W());
            }
            let (x0, y0) = (x.digits()[0] as i64, y.digits()[0] as i64);
            if EXT {
                // Extended gcd.
                let e = ol_egcd_ref(x0, y0);
                let u: BInt<N> = BInt::from(e.x) * biga + BInt::from(e.y) * bigc;
                let v: BInt<N> = BInt::from(e.x) * bigb + BInt::from(e.y) * bigd;
                proof {
                    lemma_bezout_is_gcd(e.gcd as int, e.x as int, e.y as int, uv(x), uv(y));
                    lemma_bezm_lincomb(m, nn, pp, iv(biga), iv(bigb), uv(x) as int, iv(bigc), iv(bigd), uv(y) as int, e.x as int, e.y as int, iv(u), iv(v));
                }
                return (BUint::from_digit(e.gcd as u64), u, v);
            } else {
                let d = Integer::gcd(&x0, &y0) as u64;
                proof { lemma_is_gcd_spec(d as int, uv(x), uv(y)); }
                return (BUint::from_digit(d), ol_bint_zero(), ol_bint_zero());
            }
        }
        // To reduce by 32 bits we need:
        // a matrix M such that M is less than 32 bits
        // M (xtop, ytop) is less than 32 bits.
        let bits = max(lx, ly);
        // xtop and ytop have sizes differing by < 32 bits
        let xtop = top64(x.digits(), bits);
        let ytop = top64(y.digits(), bits);
        // If ytop is too small, the reduction matrix cannot be small.
        // If x is too large we will have trouble multiplying.
        // Use multiprecision quotient.
        if lx + 36 >= N as u32 * 64 || ly + 36 >= N as u32 * 64 || ytop < 1 << 32 {
            proof { lemma_gcd_euclid_up(uv(x), uv(y)); }
            if EXT {
                let q = x / y;
                proof {
                    vstd::arithmetic::div_mod::lemma_fundamental_div_mod(uv(x) as int, uv(y) as int);
                    lemma_mul_comm(uv(y) as int, (uv(x) / uv(y)) as int);
                    lemma_mul_nonneg((uv(x) / uv(y)) as int, uv(y) as int);
                    vstd::arithmetic::div_mod::lemma_small_mod(uv(q) * uv(y), pow_w(N as nat));
                }
                let r = x - q * y;
                let ghost (xv, yv, qv) = (uv(x) as int, uv(y) as int, uv(q) as int);
                let ghost (ba, bb, bc, bd) = (biga, bigb, bigc, bigd);
                let (c, d) = if (r << 1) > y {
                    // Use (q+1)y - x for smaller y.
                    let verif_t = (y, y - r); x = verif_t.0; y = verif_t.1;
                    proof {
                        assert forall|t: BInt<N>, o: BInt<N>| cong(iv(t), qv, m) && iv(o) == 1 implies cong(iv(#[trigger] t.add_spec(o)), qv + 1, m) by {
                            axiom_bint_add(t, o); lemma_cong_add(iv(t), qv, iv(o), 1, m);
                        }
                    }
                    let q = BInt::<N>::cast_from(q) + ol_bint_one::<N>();
                    proof {
                        // q = qv + 1 (mod m); the new row is -(a, b) + (qv + 1) (c, d), its value -x + (qv + 1) y = y - r
                        lemma_cong_mul(iv(q), qv + 1, iv(bc), m); lemma_cong_mul(iv(q), qv + 1, iv(bd), m);
                        lemma_cong_lin2_sub(iv(q.mul_spec(bc).sub_spec(ba)), iv(q) * iv(bc), iv(ba), (qv + 1) * iv(bc), iv(ba), m);
                        lemma_cong_lin2_sub(iv(q.mul_spec(bd).sub_spec(bb)), iv(q) * iv(bd), iv(bb), (qv + 1) * iv(bd), iv(bb), m);
                        lemma_mul_neg(1, iv(ba)); lemma_mul_one(iv(ba)); lemma_mul_neg(1, iv(bb)); lemma_mul_one(iv(bb));
                        lemma_bezm_lincomb(m, nn, pp, iv(ba), iv(bb), xv, iv(bc), iv(bd), yv, -1, qv + 1, iv(q.mul_spec(bc).sub_spec(ba)), iv(q.mul_spec(bd).sub_spec(bb)));
                        lemma_mul_neg(1, xv); lemma_mul_one(xv); lemma_distrib_r(qv, 1, yv); lemma_mul_one(yv);
                        assert((-1) * xv + (qv + 1) * yv == uv(y) as int);
                    }
                    (q * bigc - biga, q * bigd - bigb)
                } else {
                    let q = BInt::<N>::cast_from(q);
                    let verif_t = (y, r); x = verif_t.0; y = verif_t.1;
                    proof {
                        // the new row is (a, b) - qv (c, d), its value x - qv y = r
                        lemma_cong_mul(iv(q), qv, iv(bc), m); lemma_cong_mul(iv(q), qv, iv(bd), m);
                        lemma_cong_lin2_sub(iv(ba.sub_spec(q.mul_spec(bc))), iv(ba), iv(q) * iv(bc), iv(ba), qv * iv(bc), m);
                        lemma_cong_lin2_sub(iv(bb.sub_spec(q.mul_spec(bd))), iv(bb), iv(q) * iv(bd), iv(bb), qv * iv(bd), m);
                        lemma_mul_one(iv(ba)); lemma_mul_one(iv(bb)); lemma_mul_neg(qv, iv(bc)); lemma_mul_neg(qv, iv(bd));
                        lemma_bezm_lincomb(m, nn, pp, iv(ba), iv(bb), xv, iv(bc), iv(bd), yv, 1, -qv, iv(ba.sub_spec(q.mul_spec(bc))), iv(bb.sub_spec(q.mul_spec(bd))));
                        lemma_mul_one(xv); lemma_mul_neg(qv, yv);
                        assert(1 * xv + (-qv) * yv == uv(y) as int);
                    }
                    (biga - q * bigc, bigb - q * bigd)
                };
                let verif_t = (bigc, bigd); biga = verif_t.0; bigb = verif_t.1;
                let verif_t = (c, d); bigc = verif_t.0; bigd = verif_t.1;
            } else {
                let verif_t = (y, x % y); x = verif_t.0; y = verif_t.1;
            }
            continue;
        }
        // Now xtop and ytop have similar sizes.
        // Reduce vector: invariant u=ax+by, v=cx+dy
        let (a, b, c, d) = reduce64(xtop, ytop);
        // By definition, ab, cd have opposite signs.
        // Also a,b,c,d are guaranteed to be less than 40 bits
        // so that the multiplication does not overflow.
        let size = (bits as usize + 63) / 64;
        proof {
            lemma_lattice_pre(N as nat, lx as nat, ly as nat, bits as nat, uv(x), uv(y), a as int, b as int, size as nat);
            lemma_lattice_pre(N as nat, lx as nat, ly as nat, bits as nat, uv(x), uv(y), c as int, d as int, size as nat);
        }
        let ghost (x_old, y_old) = (uv(x), uv(y));
        let (ax_by, negx) = dot_product(size, a, &x, b, &y);
        let (cx_dy, negy) = dot_product(size, c, &x, d, &y);
        // x, y are now smaller.
        let verif_t = (ax_by, cx_dy); x = verif_t.0; y = verif_t.1;
        proof { lemma_gcd_unimod(x_old, y_old, a as int, b as int, c as int, d as int, uv(x), uv(y)); }
        if EXT {
            let (ai, bi) = (BInt::<N>::from(a), BInt::<N>::from(b));
            let (ci, di) = (BInt::<N>::from(c), BInt::<N>::from(d));
            let (aa, bb) = (ai * biga + bi * bigc, ai * bigb + bi * bigd);
            let (cc, dd) = (ci * biga + di * bigc, ci * bigb + di * bigd);
            proof {
                lemma_bezm_lincomb(m, nn, pp, iv(biga), iv(bigb), x_old as int, iv(bigc), iv(bigd), y_old as int, a as int, b as int, iv(aa), iv(bb));
                lemma_bezm_lincomb(m, nn, pp, iv(biga), iv(bigb), x_old as int, iv(bigc), iv(bigd), y_old as int, c as int, d as int, iv(cc), iv(dd));
            }
            let verif_t = (aa, bb, cc, dd); biga = verif_t.0; bigb = verif_t.1; bigc = verif_t.2; bigd = verif_t.3;
            if negx {
                proof { lemma_bezm_neg(m, nn, pp, iv(biga), iv(bigb), (a as int) * (x_old as int) + (b as int) * (y_old as int), iv(biga.neg_spec()), iv(bigb.neg_spec())); }
                let verif_t = (-biga, -bigb); biga = verif_t.0; bigb = verif_t.1;
            }
            if negy {
                proof { lemma_bezm_neg(m, nn, pp, iv(bigc), iv(bigd), (c as int) * (x_old as int) + (d as int) * (y_old as int), iv(bigc.neg_spec()), iv(bigd.neg_spec())); }
                let verif_t = (-bigc, -bigd); bigc = verif_t.0; bigd = verif_t.1;
            }
        }
    }
}
