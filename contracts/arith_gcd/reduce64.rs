//! unit: {"file": "src/arith_gcd.rs", "kind": "fn", "name": "reduce64", "props": ["C09", "C03"]}
//! ---- pinned ----
/// Determine a matrix of 64-bit signed integers such that (ax+by, cx+dy)
/// are "small" (less than (x,y) and preferably less than 32 bits),
/// but (a,b,c,d) are also small, guaranteed to be less than 36 bits.
///
/// In the worst case, (ax+by, cx+dy) correspond to a single
/// iteration of Euclid algorithm (y, x % y) if x >= y.
/// The reduction is performed using Gauss reduction.
fn reduce64(x: u64, y: u64) -> (i64, i64, i64, i64) {
    // Reduce vector: invariant u=ax+by, v=cx+dy
    let (mut a, mut b, mut c, mut d) = (1_i64, 0_i64, 0_i64, 1_i64);
    let (mut u, mut v) = (x, y);
    // Loop until (u,v) are small enough.
    while u >> 24 > 0 && v >> 24 > 0 {
        if u < v {
            (a, b, c, d, u, v) = (c, d, a, b, v, u);
        } else {
            let (q, r) = ((u / v) as i64, u % v);
            // But stop if the matrix is too large
            // (cannot happen at first iteration since y >= 1<<32)
            if ((q + 1) as u64).bits() + (max(c.abs(), d.abs()) as u64).bits() > 36 {
                break;
            }
            // Ensure that r < |v/2| to reduce matrix size and speed up iteration.
            if r > v / 2 {
                (a, b, c, d, u, v) = (c, d, (q + 1) * c - a, (q + 1) * d - b, v, v - r);
            } else {
                (a, b, c, d, u, v) = (c, d, a - q * c, b - q * d, v, r);
            }
        }
        debug_assert!(a as i128 * x as i128 + b as i128 * y as i128 == u as i128);
        debug_assert!(c as i128 * x as i128 + d as i128 * y as i128 == v as i128);
    }
    debug_assert!(a.abs() <= 1 << 36 && b.abs() <= 1 << 36);
    debug_assert!(c.abs() <= 1 << 36 && d.abs() <= 1 << 36);
    (a, b, c, d)
}
//! ---- annotated ----
fn reduce64(x: u64, y: u64) -> (res: (i64, i64, i64, i64))
    ensures
        unimod(res.0 as int, res.1 as int, res.2 as int, res.3 as int),
        iabs(res.0 as int) <= lim36() && iabs(res.1 as int) <= lim36() && iabs(res.2 as int) <= lim36() && iabs(res.3 as int) <= lim36(),
        res.0 as int * x as int + res.1 as int * y as int >= 0,
        res.2 as int * x as int + res.3 as int * y as int >= 0,
        res.0 as int * x as int + res.1 as int * y as int <= 0xffff_ffff_ffff_ffff,
        res.2 as int * x as int + res.3 as int * y as int <= 0xffff_ffff_ffff_ffff,
{
    // Reduce vector: invariant u=ax+by, v=cx+dy
    let (mut a, mut b, mut c, mut d) = (1_i64, 0_i64, 0_i64, 1_i64);
    let (mut u, mut v) = (x, y);
    proof { lemma_mul_one(x as int); lemma_mul_one(y as int); }
    // Loop until (u,v) are small enough.
    while u >> 24 > 0 && v >> 24 > 0
        invariant
            a as int * x as int + b as int * y as int == u as int,
            c as int * x as int + d as int * y as int == v as int,
            unimod(a as int, b as int, c as int, d as int),
            iabs(a as int) <= lim36() && iabs(b as int) <= lim36() && iabs(c as int) <= lim36() && iabs(d as int) <= lim36(),
            col_ok(a as int, c as int, u as int, v as int),
            col_ok(b as int, d as int, u as int, v as int),
            (a == 1 && b == 0 && c == 0 && d == 1) || u > v,
        decreases v
    {
        proof {
            assert(v >> 24 > 0 ==> v > 0) by (bit_vector);
        }
        if u < v {
            let verif_t = (c, d, a, b, v, u); a = verif_t.0; b = verif_t.1; c = verif_t.2; d = verif_t.3; u = verif_t.4; v = verif_t.5;
        } else {
            let (q, r) = ((u / v) as i64, u % v);
            proof {
                assert(v >> 24 > 0 ==> v >= 0x100_0000) by (bit_vector);
                vstd::arithmetic::div_mod::lemma_fundamental_div_mod(u as int, v as int);
                lemma_mul_comm(v as int, (u / v) as int);
                // u / v < 2^40
                if (u / v) as int >= 0x100_0000_0000 { lemma_mul_le2(0x100_0000_0000, (u / v) as int, 0x100_0000, v as int); }
            }
            // But stop if the matrix is too large
            // (cannot happen at first iteration since y >= 1<<32)
            if ((q + 1) as u64).bits() + (max(c.abs(), d.abs()) as u64).bits() > 36 {
                break;
            }
            let ghost m = if iabs(c as int) >= iabs(d as int) { iabs(c as int) } else { iabs(d as int) };
            proof {
                lemma_bits_prod36((q + 1) as nat, m as nat);
                lemma_col_step(a as int, c as int, u as int, v as int, q as int, r as int, m, r > v / 2);
                lemma_col_step(b as int, d as int, u as int, v as int, q as int, r as int, m, r > v / 2);
                lemma_red_step(a as int, b as int, c as int, d as int, x as int, y as int, u as int, v as int, q as int, r as int, r > v / 2);
                // magnitudes of the intermediate products
                lemma_mul_le2(iabs(c as int), m, 1, 1); lemma_mul_le2(iabs(d as int), m, 1, 1);
                lemma_prod_small(q as int, c as int, m); lemma_prod_small(q as int, d as int, m);
            }
            // Ensure that r < |v/2| to reduce matrix size and speed up iteration.
            if r > v / 2 {
                let verif_t = (c, d, (q + 1) * c - a, (q + 1) * d - b, v, v - r); a = verif_t.0; b = verif_t.1; c = verif_t.2; d = verif_t.3; u = verif_t.4; v = verif_t.5;
            } else {
                let verif_t = (c, d, a - q * c, b - q * d, v, r); a = verif_t.0; b = verif_t.1; c = verif_t.2; d = verif_t.3; u = verif_t.4; v = verif_t.5;
            }
        }
        proof {
            lemma_prod_bound100(a as int, x as int); lemma_prod_bound100(b as int, y as int);
            lemma_prod_bound100(c as int, x as int); lemma_prod_bound100(d as int, y as int);
        }
        debug_assert!(a as i128 * x as i128 + b as i128 * y as i128 == u as i128);
        debug_assert!(c as i128 * x as i128 + d as i128 * y as i128 == v as i128);
    }
    proof { assert(1i64 << 36 == 0x10_0000_0000i64) by (bit_vector); }
    debug_assert!(a.abs() <= 1 << 36 && b.abs() <= 1 << 36);
    debug_assert!(c.abs() <= 1 << 36 && d.abs() <= 1 << 36);
    (a, b, c, d)
}
