//! unit: {"file": "src/arith_gcd.rs", "kind": "fn", "name": "big_gcd", "props": ["C09", "C07", "C03"]}
//! ---- pinned ----
pub fn big_gcd<const N: usize>(n: &BUint<N>, p: &BUint<N>) -> BUint<N> {
    if p.is_zero() {
        return *n;
    }
    if n.is_zero() {
        return *p;
    }
    gcd_internal::<N, false>(n, p).0
}
//! ---- annotated ----
pub fn big_gcd<const N: usize>(n: &BUint<N>, p: &BUint<N>) -> (r: BUint<N>)
    requires 1 <= N <= 0x100_0000,
    ensures uv(r) == gcd_spec(uv(*n), uv(*p)),
{
    proof {
        // gcd(n, 0) = n by definition; gcd(0, p) = gcd(p, 0) = p (stated up front: the two tests may come in either order)
        if uv(*p) > 0 {
            vstd::arithmetic::div_mod::lemma_small_mod(0, uv(*p));
            assert(gcd_spec(0, uv(*p)) == gcd_spec(uv(*p), 0nat % uv(*p)));
        }
    }
    if p.is_zero() {
        return *n;
    }
    if n.is_zero() {
        return *p;
    }
    gcd_internal::<N, false>(n, p).0
}
