verus! {
/// `Num::bits` for u64 (`u64::BITS - leading_zeros`): the bit length. Assumed (trait impl of a trait that stays external).
pub assume_specification [<u64 as crate::arith::Num>::bits] (x: &u64) -> (r: u32)
    ensures r as nat == bitlen(*x as nat), r <= 64;

/// T-std: i64::abs
pub assume_specification [i64::abs] (x: i64) -> (r: i64)
    requires x != i64::MIN
    ensures r as int == iabs(x as int);
} // verus!

verus! {
/// T-std: i64::signum
pub assume_specification [i64::signum] (x: i64) -> (r: i64)
    ensures r == (if x > 0 { 1i64 } else if x < 0 { -1i64 } else { 0i64 });

/// T-bnum: absolute difference of two unsigned integers
pub assume_specification<const N: usize> [BUint::<N>::abs_diff] (a: BUint<N>, b: BUint<N>) -> (r: BUint<N>)
    ensures uv(r) as int == iabs(uv(a) as int - uv(b) as int);
} // verus!
#[allow(unused_imports)] use vstd::std_specs::ops::*;
#[allow(unused_imports)] use vstd::std_specs::cmp::*;

verus! {
/// Rbconst outlines (associated constants of foreign types are unsupported). Trusted contracts.
#[verifier::external_body]
fn ol_bint_one<const N: usize>() -> (r: BInt<N>)
    ensures N >= 1 ==> iv(r) == 1
{ BInt::<N>::ONE }
#[verifier::external_body]
fn ol_bint_zero<const N: usize>() -> (r: BInt<N>)
    ensures iv(r) == 0
{ BInt::<N>::ZERO }
#[verifier::external_body]
fn ol_buint_zero<const N: usize>() -> (r: BUint<N>)
    ensures uv(r) == 0
{ BUint::<N>::ZERO }
#[verifier::external_body]
fn ol_buint_one<const N: usize>() -> (r: BUint<N>)
    ensures N >= 1 ==> uv(r) == 1
{ BUint::<N>::ONE }

/// extended algorithm of num-integer on non-negative i64 operands (T-dep num-integer): Bezout identity and the result
/// divides both operands. Negative operands are outside this contract. (Regcd2)
#[verifier::external_body]
fn ol_egcd_ref(a: i64, b: i64) -> (e: num_integer::ExtendedGcd<i64>)
    requires a >= 0, b >= 0,
    ensures
        e.gcd >= 0, e.x * a + e.y * b == e.gcd,
        (a > 0 || b > 0) ==> e.gcd >= 1 && a % e.gcd == 0 && b % e.gcd == 0,
{ Integer::extended_gcd(&a, &b) }
} // verus!
