verus! {
/// `Num::bits` for u64 (`u64::BITS - leading_zeros`): the bit length. Assumed (trait impl of a trait that stays external).
pub assume_specification [<u64 as crate::arith::Num>::bits] (x: &u64) -> (r: u32)
    ensures r as nat == bitlen(*x as nat), r <= 64;

/// T-std: i64::abs
pub assume_specification [i64::abs] (x: i64) -> (r: i64)
    requires x != i64::MIN
    ensures r as int == iabs(x as int);
} // verus!

verus! {
/// T-std: i64::signum
pub assume_specification [i64::signum] (x: i64) -> (r: i64)
    ensures r == (if x > 0 { 1i64 } else if x < 0 { -1i64 } else { 0i64 });

/// T-bnum: absolute difference of two unsigned integers
pub assume_specification<const N: usize> [BUint::<N>::abs_diff] (a: BUint<N>, b: BUint<N>) -> (r: BUint<N>)
    ensures uv(r) as int == iabs(uv(a) as int - uv(b) as int);
} // verus!
#[allow(unused_imports)] use vstd::std_specs::ops::*;
#[allow(unused_imports)] use vstd::std_specs::cmp::*;
