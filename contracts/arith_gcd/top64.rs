//! unit: {"file": "src/arith_gcd.rs", "kind": "fn", "name": "top64", "props": ["C09", "C03"]}
//! ---- pinned ----
/// Extract bits from indices (bits-64..bits)
fn top64(digs: &[u64], bits: u32) -> u64 {
    let w = bits as usize / 64;
    debug_assert!(bits >= 64);
    if bits % 64 == 0 {
        return digs[w - 1];
    }
    let xtop1 = digs[w - 1];
    let xtop2 = digs[w];
    (xtop2 << (64 - bits % 64)) | (xtop1 >> (bits % 64))
}
//! ---- annotated ----
fn top64(digs: &[u64], bits: u32) -> (r: u64)
    requires 64 <= bits, bits as int <= 64 * digs@.len(),
{
    let w = bits as usize / 64;
    debug_assert!(bits >= 64);
    if bits % 64 == 0 {
        return digs[w - 1];
    }
    let xtop1 = digs[w - 1];
    let xtop2 = digs[w];
    (xtop2 << (64 - bits % 64)) | (xtop1 >> (bits % 64))
}
