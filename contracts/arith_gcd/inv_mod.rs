//! unit: {"file": "src/arith_gcd.rs", "kind": "fn", "name": "inv_mod", "props": ["C09", "C07", "C03"]}
//! ---- pinned ----
/// Modular inverse of n modulo p.
///
/// Returns Ok(x) if x is a modular inverse, Err(gcd) if gcd > 1
pub fn inv_mod<const N: usize>(n: &BUint<N>, p: &BUint<N>) -> Result<BUint<N>, BUint<N>> {
    assert!(!p.is_zero());
    if n.is_zero() {
        // gcd(0, p) = p: zero is invertible only modulo 1.
        return if p.is_one() { Ok(BUint::ZERO) } else { Err(*p) };
    }
    let (d, u, _) = gcd_internal::<N, true>(n, p);
    if d != BUint::ONE {
        return Err(d);
    }
    if u.is_negative() {
        Ok(p - u.abs().to_bits() % p)
    } else {
        Ok(u.to_bits() % p)
    }
}
//! ---- annotated ----
/// Modular inverse of n modulo p.
///
/// Returns Ok(x) if x is a modular inverse, Err(gcd) if gcd > 1
pub fn inv_mod<const N: usize>(n: &BUint<N>, p: &BUint<N>) -> (r: Result<BUint<N>, BUint<N>>)
    requires 1 <= N <= 0x100_0000, uv(*p) > 0,
    ensures
        r matches Err(d) ==> uv(d) == gcd_spec(uv(*n), uv(*p)) && uv(d) > 1,
        r matches Ok(x) ==> gcd_spec(uv(*n), uv(*p)) == 1 && (gcd_band(uv(*n), uv(*p), N as nat) ==>
            uv(x) <= uv(*p) && (uv(*p) > 1 ==> uv(x) < uv(*p)) && (uv(*n) * uv(x)) % uv(*p) == 1nat % uv(*p)),
{
    assert!(!p.is_zero());
    if n.is_zero() {
        proof {
            vstd::arithmetic::div_mod::lemma_small_mod(0, uv(*p));
            assert(gcd_spec(0, uv(*p)) == gcd_spec(uv(*p), 0nat % uv(*p)));
        }
        // gcd(0, p) = p: zero is invertible only modulo 1.
        return if p.is_one() { Ok(ol_buint_zero()) } else { Err(*p) };
    }
    let (d, u, _) = gcd_internal::<N, true>(n, p);
    proof { lemma_buint_ops_all::<N>(); lemma_gcd_spec(uv(*n), uv(*p)); }
    if d != ol_buint_one() {
        return Err(d);
    }
    proof {
        axiom_iv_range(u);
        if gcd_band(uv(*n), uv(*p), N as nat) {
            let verif_v = choose|v: int| #[trigger] bezm(iv(u), v, uv(*n) as int, uv(*p) as int, 1, pow_w(N as nat) as int);
            axiom_a7_cofactors_exact(iv(u), verif_v, uv(*n), uv(*p), N as nat);
            let xs: nat = if iv(u) >= 0 { (iv(u) as nat) % uv(*p) } else { (uv(*p) - ((-iv(u)) as nat) % uv(*p)) as nat };
            lemma_inverse_from_bezout(iv(u), verif_v, uv(*n), uv(*p), xs);
            lemma_mul_comm(uv(*n) as int, xs as int);
            vstd::arithmetic::div_mod::lemma_mod_bound((-iv(u)) as int, uv(*p) as int);
        }
    }
    if u.is_negative() {
        Ok(p - u.abs().to_bits() % p)
    } else {
        Ok(u.to_bits() % p)
    }
}
