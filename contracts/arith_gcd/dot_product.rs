//! unit: {"file": "src/arith_gcd.rs", "kind": "fn", "name": "dot_product", "props": ["C09", "C03"]}
//! ---- pinned ----
/// Compute abs(ax + by) and whether the sign was inverted.
fn dot_product<const N: usize>(
    sz: usize,
    a: i64,
    x: &BUint<N>,
    b: i64,
    y: &BUint<N>,
) -> (BUint<N>, bool) {
    let (au, bu) = (a.unsigned_abs(), b.unsigned_abs());
    if a.signum() * b.signum() < 0 {
        let ax = mulword(au, sz, x);
        let by = mulword(bu, sz, y);
        let neg = (ax > by && a < 0) || (ax < by && b < 0);
        (ax.abs_diff(by), neg)
    } else {
        (mulword(au, sz, x) + mulword(bu, sz, y), a < 0 || b < 0)
    }
}
//! ---- annotated ----
fn dot_product<const N: usize>(
    sz: usize,
    a: i64,
    x: &BUint<N>,
    b: i64,
    y: &BUint<N>,
) -> (res: (BUint<N>, bool))
    requires
        sz <= N, uv(*x) < pow_w(sz as nat), uv(*y) < pow_w(sz as nat),
        iabs(a as int) * (uv(*x) as int) + iabs(b as int) * (uv(*y) as int) < pow_w(N as nat),
    ensures
        (a as int) * (uv(*x) as int) + (b as int) * (uv(*y) as int) == (if res.1 { -(uv(res.0) as int) } else { uv(res.0) as int }),
{
    let (au, bu) = (a.unsigned_abs(), b.unsigned_abs());
    proof {
        lemma_mul_nonneg(iabs(a as int), uv(*x) as int); lemma_mul_nonneg(iabs(b as int), uv(*y) as int);
        lemma_mul_comm(iabs(a as int), uv(*x) as int); lemma_mul_comm(iabs(b as int), uv(*y) as int);
        if a < 0 { lemma_mul_neg(iabs(a as int), uv(*x) as int); }
        if b < 0 { lemma_mul_neg(iabs(b as int), uv(*y) as int); }
        lemma_sign_prod();
    }
    if a.signum() * b.signum() < 0 {
        let ax = mulword(au, sz, x);
        let by = mulword(bu, sz, y);
        proof { axiom_buint_cmp(ax, by); }
        let neg = (ax > by && a < 0) || (ax < by && b < 0);
        (ax.abs_diff(by), neg)
    } else {
        proof {
            axiom_buint_add(*x, *y);
            assert forall|p: BUint<N>, q: BUint<N>| (#[trigger] p.add_req(q)) == (uv(p) + uv(q) < pow_w(N as nat)) by { axiom_buint_add(p, q); }
            assert forall|p: BUint<N>, q: BUint<N>| uv(#[trigger] p.add_spec(q)) == (uv(p) + uv(q)) % pow_w(N as nat) by { axiom_buint_add(p, q); }
            vstd::arithmetic::div_mod::lemma_small_mod((au as nat) * uv(*x) + (bu as nat) * uv(*y), pow_w(N as nat));
        }
        (mulword(au, sz, x) + mulword(bu, sz, y), a < 0 || b < 0)
    }
}
