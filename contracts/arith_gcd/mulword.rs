//! unit: {"file": "src/arith_gcd.rs", "kind": "fn", "name": "mulword", "props": ["C09", "C03"]}
//! ---- pinned ----
fn mulword<const N: usize>(w: u64, sz: usize, n: &BUint<N>) -> BUint<N> {
    let mut nd = *n.digits();
    let mut carry = 0;
    for i in 0..sz {
        let nw = nd[i] as u128 * w as u128 + carry as u128;
        nd[i] = nw as u64;
        carry = (nw >> 64) as u64;
    }
    if carry > 0 {
        nd[sz] = carry;
    }
    BUint::from_digits(nd)
}
//! ---- annotated ----
fn mulword<const N: usize>(w: u64, sz: usize, n: &BUint<N>) -> (r: BUint<N>)
    requires sz <= N, uv(*n) < pow_w(sz as nat), uv(*n) * (w as nat) < pow_w(N as nat),
    ensures uv(r) == uv(*n) * (w as nat),
{
    let mut nd = *n.digits();
    let mut carry = 0;
    let ghost orig = udigits(*n);
    proof {
        axiom_udigits(*n);
        assert(nd@.take(0) =~= Seq::<u64>::empty()); assert(orig.take(0) =~= Seq::<u64>::empty());
        lemma_limbs_empty(); lemma_mul_one(w as int);
        assert(pow_w(0) == 1);
    }
    for i in 0..sz
        invariant
            sz <= N, nd@.len() == N, orig.len() == N, orig == udigits(*n), limbs(orig) == uv(*n),
            forall|j: int| i <= j < N ==> nd@[j] == orig[j],
            limbs(nd@.take(i as int)) + pow_w(i as nat) * (carry as nat) == limbs(orig.take(i as int)) * (w as nat),
    {
        proof { lemma_u64_mul_bound(nd[i as int] as int, w as int); }
        let nw = nd[i] as u128 * w as u128 + carry as u128;
        let ghost nd0 = nd@;
        nd[i] = nw as u64;
        carry = (nw >> 64) as u64;
        proof {
            lemma_u128_split(nw);
            assert(nd@.take(i as int) =~= nd0.take(i as int));
            lemma_limbs_take_step(nd@, i as int);
            lemma_limbs_take_step(orig, i as int);
            lemma_pow_w_unfold((i + 1) as nat);
            lemma_mulword_step(pow_w(i as nat) as int, limbs(nd0.take(i as int)) as int, limbs(orig.take(i as int)) as int,
                orig[i as int] as int, w as int, (nw as int - nd0[i as int] as int * w as int), (nw as u64) as int, ((nw >> 64) as u64) as int);
        }
    }
    proof {
        // the words of n above sz are zero, so are those of nd; the value below sz is the whole value
        lemma_limbs_small_words(orig, sz as int);
        if carry > 0 && sz == N {
            // the product would not fit in N words
            lemma_pow_w_pos(sz as nat);
            lemma_mul_le(1, carry as int, pow_w(sz as nat) as int);
            lemma_mul_one(pow_w(sz as nat) as int);
            assert(false);
        }
    }
    let ghost nd1 = nd@;
    if carry > 0 {
        nd[sz] = carry;
    }
    proof {
        assert(nd@.take(sz as int) =~= nd1.take(sz as int));
        assert forall|k: int| sz + 1 <= k < nd@.len() implies nd@[k] == 0 by { assert(nd1[k] == orig[k]); }
        if sz < N { assert(nd1[sz as int] == orig[sz as int]); }
        lemma_limbs_top(nd@, sz as int);
        lemma_mul_one(pow_w(sz as nat) as int);
    }
    BUint::from_digits(nd)
}
