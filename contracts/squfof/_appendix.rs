#[allow(unused_imports)] use vstd::arithmetic::{div_mod::*, mul::*};

verus! {
/// Rsqrt outlining of `(n as f64).sqrt() as u64` (floating point is outside the Verus subset). Assumed contract (T-float,
/// IEEE-754 double precision, correctly rounded conversion and square root): the truncated result is within one of the
/// integer square root, and not below it when n is exactly representable (n < 2^52: sqrt(n) >= s, and rounding is
/// monotone).
#[verifier::external_body]
fn ol_f64_sqrt_u64(n: u64) -> (r: u64)
    ensures
        isqrt_spec(n as nat) as int - 1 <= r as int <= isqrt_spec(n as nat) as int + 1,
        n < 0x10_0000_0000_0000 ==> r as int >= isqrt_spec(n as nat) as int,
{
    (n as f64).sqrt() as u64
}
} // verus!
