//! unit: {"file": "src/squfof.rs", "kind": "fn", "name": "isqrt", "props": ["C08", "C03"]}
//! ---- pinned ----
fn isqrt(n: u64) -> u64 {
    if n < 4 {
        return std::cmp::min(n, 1);
    }
    let mut r = (n as f64).sqrt() as u64;
    loop {
        let q = n / r;
        if q == r || q == r + 1 {
            return r;
        }
        if q == r - 1 {
            return r - 1;
        }
        r = (r + q) / 2;
        // r^2 ~= n/2 + (r^2 + n/r^2)/2 >= n
    }
}
//! ---- annotated ----
fn isqrt(n: u64) -> (res: u64)
    ensures (res as int) * (res as int) <= n as int, (n as int) < (res as int + 1) * (res as int + 1),
{
    if n < 4 {
        proof { assert(1int * 1int == 1 && 2int * 2int == 4 && 0int * 0int == 0) by (nonlinear_arith); }
        return std::cmp::min(n, 1);
    }
    let mut r = ol_f64_sqrt_u64(n);
    let ghost s = isqrt_spec(n as nat) as int;
    proof {
        lemma_isqrt_spec(n as nat); lemma_isqrt_ge2(n as nat);
        if n >= 0x10_0000_0000_0000 { lemma_isqrt_large(n as nat); }
    }
    loop
        invariant n >= 4, s == isqrt_spec(n as nat) as int, s >= 2, s * s <= n, (n as int) < (s + 1) * (s + 1), s < 0x1_0000_0000,
            s - 1 <= r <= s + 1, r == s - 1 ==> s >= 1000,
        decreases newton_measure(n as int, s, r as int),
    {
        let q = n / r;
        proof { lemma_isqrt_newton(n as int, s, r as int, q as int); }
        if q == r || q == r + 1 {
            return r;
        }
        if q == r - 1 {
            return r - 1;
        }
        r = (r + q) / 2;
        // r^2 ~= n/2 + (r^2 + n/r^2)/2 >= n
    }
}
