//! unit: {"container": "impl Curve", "file": "src/ecm.rs", "kind": "fn", "name": "scalar64_mul_dbladd", "props": ["C15", "C03"]}
//! ---- pinned ----
    /// Naïve double-and-add scalar multiplication.
    /// It must not be used in ordinary code, and exists only for testing purposes.
    pub fn scalar64_mul_dbladd(&self, k: u64, p: &Point) -> Point {
        let zn = &self.zn;
        let mut res = Point(zn.zero(), zn.one(), zn.one());
        let mut sq: Point = p.clone();
        let mut k = k;
        while k > 0 {
            if k & 1 == 1 {
                res = self.add(&res, &sq);
            }
            sq = self.double(&sq);
            k >>= 1;
        }
        res
    }
//! ---- annotated ----
    /// Naïve double-and-add scalar multiplication.
    /// It must not be used in ordinary code, and exists only for testing purposes.
    pub fn scalar64_mul_dbladd(&self, k: u64, p: &Point) -> (r: Point)
        ensures pelem(self, &r) == gmul(k as int, pelem(self, p)),
    {
        let ghost g = pelem(self, p);
        let ghost k0 = k as int;
        let mut res = ol_neutral(self);
        let mut sq: Point = p.clone();
        let mut k = k;
        let ghost mut acc: int = 0;
        let ghost mut m: int = 1;
        proof { axiom_gmul(0, 1, g); lemma_mul_one(k0); }
        while k > 0
            invariant pelem(self, &res) == gmul(acc, g), pelem(self, &sq) == gmul(m, g), acc + (k as int) * m == k0,
            decreases k
        {
            proof {
                assert((k & 1 == 1) == (k % 2 == 1)) by (bit_vector);
                assert(k >> 1 == k / 2) by (bit_vector);
                axiom_gmul(acc, m, g);
                axiom_gmul(m, m, g);
                assert(acc + (k as int) * m == (if k % 2 == 1 { acc + m } else { acc }) + ((k / 2) as int) * (2 * m)) by (nonlinear_arith)
                    requires k >= 0;
            }
            if k & 1 == 1 {
                res = self.add(&res, &sq);
                proof { acc = acc + m; }
            }
            sq = self.double(&sq);
            proof { m = 2 * m; }
            k >>= 1;
        }
        proof { lemma_mul_one(m); }
        res
    }
