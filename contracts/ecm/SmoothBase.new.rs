//! unit: {"container": "impl SmoothBase", "file": "src/ecm.rs", "hoist": true, "kind": "fn", "name": "new", "props": ["C17", "C03"]}
//! ---- pinned ----
    pub fn new(b1: usize, use_large: bool) -> Self {
        const LARGE_THRESHOLD: u64 = 4096;
        let primes = if b1 < 65_536 {
            fbase::primes(b1 as u32 / 2)
        } else {
            let mut s = fbase::PrimeSieve::new();
            let mut primes = vec![];
            loop {
                let b = s.next();
                primes.extend_from_slice(b);
                if b[b.len() - 1] > b1 as u32 {
                    break;
                }
            }
            primes
        };
        let mut factors = vec![];
        let mut factors_lg = vec![];
        let mut buffer = 1_u64;
        let mut buffer_lg = U1024::ONE;
        for p in primes {
            // Small primes are raised to some power (until B1).
            if p >= b1 as u32 {
                break;
            }
            let p = p as u64;
            let mut pow = p;
            while pow * p < b1 as u64 {
                pow *= p;
            }
            // Curve order has extra 2 and 3 factors.
            if p == 2 {
                pow *= 16;
            }
            if p == 3 {
                pow *= 3;
            }
            // Avoid too many primes in exponent buffer.
            // Small primes must make smaller blocks.
            if p < 256 && buffer > 1 << 32 {
                factors.push(buffer);
                buffer = 1;
            }
            if 1 << buffer.leading_zeros() <= pow {
                if p < LARGE_THRESHOLD || !use_large {
                    factors.push(buffer);
                    buffer = 1;
                } else {
                    buffer_lg *= Uint::from_digit(buffer);
                    buffer = 1;
                }
            }
            if buffer_lg.bits() > 1024 - 64 {
                factors_lg.push(buffer_lg);
                buffer_lg = Uint::ONE;
            }
            buffer *= pow;
        }
        if buffer > 1 {
            if (b1 as u64) < LARGE_THRESHOLD || !use_large {
                factors.push(buffer);
            } else {
                buffer_lg *= Uint::from_digit(buffer);
            }
        }
        if buffer_lg > Uint::ONE {
            factors_lg.push(buffer_lg)
        }
        SmoothBase {
            factors: factors.into_boxed_slice(),
            larges: factors_lg.into_boxed_slice(),
        }
    }
//! ---- annotated ----
    pub fn new(b1: usize, use_large: bool) -> (r: Self)
        requires b1 <= 0xffff_ffff,
        ensures
            // every prime of the table (see ol_smooth_primes) below b1: its largest power below b1 divides the product
            // of all exponent blocks
            smooth_ok(smooth_primes_spec(b1), b1 as nat, sb_total(r), smooth_primes_spec(b1).len() as int),
    {
        const LARGE_THRESHOLD: u64 = 4096;
        let primes = ol_smooth_primes(b1);
        let mut factors = vec![];
        let mut factors_lg = vec![];
        let mut buffer = 1_u64;
        let mut buffer_lg = ol_u1024_one();
        let ghost b1n = b1 as nat;
        let ghost mut cut: int = 0;
        let ghost mut stopped = false;
        proof {
            assert(prod64(Seq::<u64>::empty()) == 1);
            assert(seq_prod(Seq::<Uint>::empty()) == 1);
            assert(bitlen(1) == 1) by { assert(bitlen(1) == 1 + bitlen(0)); }
        }
        for verif_i_p in verif_it: 0..primes.len()
            invariant_except_break
                !stopped,
            invariant
                b1 <= 0xffff_ffff, b1n == b1 as nat,
                primes@ == smooth_primes_spec(b1),
                forall|i: int| 0 <= i < primes@.len() ==> #[trigger] primes@[i] >= 2,
                forall|i: int, j: int| 0 <= i <= j < primes@.len() ==> primes@[i] <= primes@[j],
                buffer >= 1, uv(buffer_lg) >= 1, bitlen(uv(buffer_lg)) <= 960,
                0 <= cut <= primes@.len(),
                !stopped ==> cut == verif_it.index@,
                stopped ==> cut < primes@.len() && primes@[cut] as nat >= b1n,
                smooth_ok(primes@, b1n, tot4(factors@, factors_lg@, buffer as nat, uv(buffer_lg)), cut),
            ensures
                stopped || cut == primes@.len(),
        {
            let p = primes[verif_i_p];
            // Small primes are raised to some power (until B1).
            if p >= b1 as u32 {
                proof { stopped = true; }
                break;
            }
            let p = p as u64;
            let mut pow = p;
            let ghost pn = p as nat;
            proof { lemma_mul_le2(p as int, 0xffff_ffff, p as int, 0xffff_ffff); }
            while pow * p < b1 as u64
                invariant 2 <= p < b1, p <= pow < b1, b1 <= 0xffff_ffff, pn == p as nat, b1n == b1 as nat,
                    tp(pn, b1n, pow as nat) == tp(pn, b1n, pn),
                    (pow as nat) * (p as nat) <= 0xffff_ffff_ffff_ffff,
                decreases b1 - pow
            {
                proof { lemma_mul_le2(pow as int, pow as int, 2, p as int); }
                pow = pow * p;
                proof { lemma_mul_le2(pow as int, 0xffff_ffff, p as int, 0xffff_ffff); }
            }
            let ghost tpow = pow as nat;
            proof {
                assert(tp(pn, b1n, pn) == tpow);
                lemma_dvd_mul(tpow, 1);
                lemma_mul_one(tpow as int);
            }
            // Curve order has extra 2 and 3 factors.
            if p == 2 {
                proof { lemma_dvd_mul(tpow, 16); }
                pow = pow * 16;
            }
            if p == 3 {
                proof { lemma_dvd_mul(tpow, 3); }
                pow = pow * 3;
            }
            let ghost tot0 = tot4(factors@, factors_lg@, buffer as nat, uv(buffer_lg));
            // Avoid too many primes in exponent buffer.
            // Small primes must make smaller blocks.
            if p < 256 && buffer > 1 << 32 {
                proof { lemma_tot4_flush_small(factors@, factors_lg@, buffer, uv(buffer_lg)); }
                factors.push(buffer);
                buffer = 1;
            }
            proof { axiom_u64_lz_arith(buffer); }
            if 1 << buffer.leading_zeros() <= pow {
                if p < LARGE_THRESHOLD || !use_large {
                    proof { lemma_tot4_flush_small(factors@, factors_lg@, buffer, uv(buffer_lg)); }
                    factors.push(buffer);
                    buffer = 1;
                } else {
                    proof {
                        lemma_large_fits(uv(buffer_lg), buffer);
                        lemma_tot4_flush_merge(factors@, factors_lg@, buffer as nat, uv(buffer_lg));
                        lemma_uint_mul_word(buffer_lg, buffer);
                        lemma_mul_pos(uv(buffer_lg) as int, buffer as int);
                    }
                    buffer_lg = buffer_lg * Uint::from_digit(buffer);
                    buffer = 1;
                }
            }
            proof { assert(buffer == 1 || (1u64 << (u64_leading_zeros(buffer) as u64)) > pow); }
            if buffer_lg.bits() > 1024 - 64 {
                proof { lemma_tot4_flush_large(factors@, factors_lg@, buffer as nat, buffer_lg); }
                factors_lg.push(buffer_lg);
                buffer_lg = ol_uint_one();
                proof { assert(bitlen(1) == 1) by { assert(bitlen(1) == 1 + bitlen(0)); } }
            }
            proof {
                assert(tot4(factors@, factors_lg@, buffer as nat, uv(buffer_lg)) == tot0);
                if buffer > 1 { lemma_buffer_fits(buffer, pow); } else { lemma_mul_one(pow as int); }
                lemma_tot4_mul(factors@, factors_lg@, buffer as nat, uv(buffer_lg), pow as nat);
                lemma_smooth_ok_mul(primes@, b1n, tot0, cut, pow as nat);
                lemma_dvd_mul_right(tpow, pow as nat, tot0);
                lemma_mul_pos(buffer as int, pow as int);
            }
            buffer = buffer * pow;
            proof { cut = cut + 1; }
        }
        proof {
            // every table entry from `cut` on is >= b1 (the table is increasing), so smooth_ok extends to the whole table
            let t = tot4(factors@, factors_lg@, buffer as nat, uv(buffer_lg));
            assert(!stopped ==> cut == primes@.len());
            assert forall|j: int| 0 <= j < primes@.len() && (primes@[j] as nat) < b1n implies dvd(#[trigger] tp(primes@[j] as nat, b1n, primes@[j] as nat), t) by {
                if j >= cut {
                    assert(primes@[cut] <= primes@[j]);
                }
            }
            assert(smooth_ok(primes@, b1n, t, primes@.len() as int));
        }
        if buffer > 1 {
            if (b1 as u64) < LARGE_THRESHOLD || !use_large {
                proof { lemma_tot4_flush_small(factors@, factors_lg@, buffer, uv(buffer_lg)); }
                factors.push(buffer);
            } else {
                proof {
                    lemma_large_fits(uv(buffer_lg), buffer);
                    lemma_tot4_flush_merge(factors@, factors_lg@, buffer as nat, uv(buffer_lg));
                    lemma_uint_mul_word(buffer_lg, buffer);
                    lemma_mul_pos(uv(buffer_lg) as int, buffer as int);
                }
                buffer_lg = buffer_lg * Uint::from_digit(buffer);
            }
        }
        proof {
            // in every case the small buffer is now accounted for
            assert(smooth_ok(primes@, b1n, tot4(factors@, factors_lg@, 1, uv(buffer_lg)), primes@.len() as int));
            assert forall|o: Uint| #[trigger] buffer_lg.partial_cmp_spec(&o) == Some(if uv(buffer_lg) < uv(o) { core::cmp::Ordering::Less } else if uv(buffer_lg) == uv(o) { core::cmp::Ordering::Equal } else { core::cmp::Ordering::Greater }) by { axiom_buint_cmp(buffer_lg, o); }
            axiom_buint_cmp(buffer_lg, buffer_lg);
            lemma_tot4_flush_large(factors@, factors_lg@, 1, buffer_lg);
        }
        let ghost tfin = tot4(factors@, factors_lg@, 1, uv(buffer_lg));
        if buffer_lg > ol_uint_one() {
            factors_lg.push(buffer_lg)
        }
        proof {
            assert(uv(buffer_lg) >= 1);
            assert(tot4(factors@, factors_lg@, 1, 1) == tfin);
            lemma_mul_one((prod64(factors@) * seq_prod(factors_lg@)) as int);
            assert(tot4(factors@, factors_lg@, 1, 1) == prod64(factors@) * seq_prod(factors_lg@));
        }
        ol_smooth_base(factors, factors_lg)
    }
