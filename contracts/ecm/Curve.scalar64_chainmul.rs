//! unit: {"container": "impl Curve", "file": "src/ecm.rs", "kind": "fn", "name": "scalar64_chainmul", "props": ["C15", "C03"]}
//! ---- pinned ----
    pub fn scalar64_chainmul(&self, k: u64, p: &Point) -> Point {
        if k == 0 {
            let zn = &self.zn;
            return Point(zn.zero(), zn.one(), zn.one());
        }
        // Compute an addition chain for k as in
        // https://eprint.iacr.org/2007/455.pdf
        // We find that m=7 is optimal for 64-bit blocks (~14 adds instead of 28 for ~56-bit blocks)
        // For 32-bit blocks, the optimal value is m=5 (7 adds instead of 12 for ~22-bit blocks)
        //
        // Doubling in projective coordinates costs 7 multiplications.
        // Doubling and add in extended coordinates costs 15 multiplications (16 if a=1).
        // See also https://eprint.iacr.org/2008/522, section 4.3
        let pext = self.to_extended(p);
        let p2 = self.dblext(p);
        let p3 = self.addext(&pext, &p2);
        let p5 = self.addext(&p3, &p2);
        let p7 = self.addext(&p5, &p2);
        let gaps = [&pext, &p3, &p5, &p7];
        // Encode the chain as:
        // 2l (doubling l times)
        // ±k (X -> 2X ± kP where k is odd)
        let mut c = [0_i8; 34];
        let l = Self::make_addition_chain(&mut c, k);
        // Get initial element (chain[l-1] = 1 or 3 or 5 or 7)
        let mut q = gaps[c[l - 1] as usize / 2].to_proj();
        for idx in 1..l {
            let op = c[l - 1 - idx];
            if op % 2 == 0 {
                for _ in 0..op / 2 {
                    q = self.double(&q);
                }
            } else {
                let q2 = self.dblext(&q);
                if op > 0 {
                    q = self.addextproj(&q2, gaps[op as usize / 2]);
                } else {
                    q = self.subextproj(&q2, gaps[(-op) as usize / 2]);
                }
            }
        }
        q
    }
//! ---- annotated ----
    pub fn scalar64_chainmul(&self, k: u64, p: &Point) -> (res: Point)
        ensures pelem(self, &res) == gmul(k as int, pelem(self, p)),
    {
        let ghost g = pelem(self, p);
        if k == 0 {
            proof { axiom_gmul(0, 0, g); }
            return ol_neutral(self);
        }
        // Compute an addition chain for k as in
        // https://eprint.iacr.org/2007/455.pdf
        // We find that m=7 is optimal for 64-bit blocks (~14 adds instead of 28 for ~56-bit blocks)
        // For 32-bit blocks, the optimal value is m=5 (7 adds instead of 12 for ~22-bit blocks)
        //
        // Doubling in projective coordinates costs 7 multiplications.
        // Doubling and add in extended coordinates costs 15 multiplications (16 if a=1).
        // See also https://eprint.iacr.org/2008/522, section 4.3
        let pext = self.to_extended(p);
        let p2 = self.dblext(p);
        let p3 = self.addext(&pext, &p2);
        let p5 = self.addext(&p3, &p2);
        let p7 = self.addext(&p5, &p2);
        let gaps = [&pext, &p3, &p5, &p7];
        proof {
            axiom_gmul(1, 1, g);
            axiom_gmul(1, 2, g);
            axiom_gmul(3, 2, g);
            axiom_gmul(5, 2, g);
            assert(forall|i: int| 0 <= i < 4 ==> eelem(self, #[trigger] gaps@[i]) == gmul(2 * i + 1, g));
        }
        // Encode the chain as:
        // 2l (doubling l times)
        // ±k (X -> 2X ± kP where k is odd)
        let mut c = [0_i8; 34];
        let l = Self::make_addition_chain(&mut c, k);
        // Get initial element (chain[l-1] = 1 or 3 or 5 or 7)
        let mut q = gaps[c[l - 1] as usize / 2].to_proj();
        let ghost mut cur: int = c@[l - 1] as int;
        for idx in 1..l
            invariant
                1 <= l <= 33, k != 0,
                forall|i: int| 0 <= i < 4 ==> eelem(self, #[trigger] gaps@[i]) == gmul(2 * i + 1, g),
                forall|i: int| 0 <= i < l - 1 ==> (#[trigger] c@[i] % 2 == 0 ==> 2 <= c@[i] <= 126)
                    && (c@[i] % 2 != 0 ==> -7 <= c@[i] <= 7),
                prefix_apply(c@, l - idx, cur) == k as int,
                pelem(self, &q) == gmul(cur, g),
        {
            let op = c[l - 1 - idx];
            let ghost cur0 = cur;
            if op % 2 == 0 {
                proof { lemma2_to64(); lemma_mul_one(cur); }
                for verif_it in 0..op / 2
                    invariant pelem(self, &q) == gmul(cur0 * pow2(verif_it as nat) as int, g), op % 2 == 0, 2 <= op <= 126,
                {
                    proof { lemma_op_even_step(cur0, verif_it as nat, g); }
                    q = self.double(&q);
                }
                proof { cur = op_apply(op as int, cur0); }
            } else {
                let q2 = self.dblext(&q);
                proof { lemma_op_odd_step(cur0, op as int, g); cur = op_apply(op as int, cur0); }
                if op > 0 {
                    q = self.addextproj(&q2, gaps[op as usize / 2]);
                } else {
                    q = self.subextproj(&q2, gaps[(-op) as usize / 2]);
                }
            }
        }
        q
    }
