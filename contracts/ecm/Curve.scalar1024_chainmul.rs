//! unit: {"container": "impl Curve", "file": "src/ecm.rs", "kind": "fn", "name": "scalar1024_chainmul", "props": ["C15", "C03"]}
//! ---- pinned ----
    pub fn scalar1024_chainmul(&self, k: &U1024, p: &Point) -> Point {
        // Use blocks of 6 bits in the double-add-sub chains.
        // On average, 8 bits will be consumed. The expected average cost is:
        // - 12 MUL for initial doubling, conversion to extended
        // - 1024 DBL (7 multiplications each)
        // - 31 ADDEXT to compute 3P...63P (8 multiplications each)
        // - ~128 point additions (8 multiplications each)
        // so about 8.25 multiplications per exponent bit.
        if k.is_zero() {
            let zn = &self.zn;
            return Point(zn.zero(), zn.one(), zn.one());
        }
        // Use mixed projective/extended coordinates.
        // This is the same code as `scalar64_chainmul`.
        let pext = self.to_extended(p);
        let p2 = self.dblext(p);
        // Store p, 3p ... 63p
        let mut gaps = Vec::with_capacity(32);
        gaps.push(pext);
        for i in 1..32 {
            let pi = self.addext(&gaps[i - 1], &p2);
            gaps.push(pi);
        }
        // Construct chain
        let mut c = [0_i8; 384];
        let l = Self::make_addition_chain_long(&mut c, k);
        // Get initial element (chain[l-1] = 1 or 3 or ... 63)
        let mut q = gaps[c[l - 1] as usize / 2].to_proj();
        for idx in 1..l {
            let op = c[l - 1 - idx];
            if op % 2 == 0 {
                for _ in 0..op / 2 {
                    q = self.double(&q);
                }
            } else {
                let q2 = self.dblext(&q);
                if op > 0 {
                    q = self.addextproj(&q2, &gaps[op as usize / 2]);
                } else {
                    q = self.subextproj(&q2, &gaps[(-op) as usize / 2]);
                }
            }
        }
        q
    }
//! ---- annotated ----
    pub fn scalar1024_chainmul(&self, k: &U1024, p: &Point) -> (res: Point)
        ensures pelem(self, &res) == gmul(uv(*k) as int, pelem(self, p)),
    {
        let ghost g = pelem(self, p);
        // Use blocks of 6 bits in the double-add-sub chains.
        // On average, 8 bits will be consumed. The expected average cost is:
        // - 12 MUL for initial doubling, conversion to extended
        // - 1024 DBL (7 multiplications each)
        // - 31 ADDEXT to compute 3P...63P (8 multiplications each)
        // - ~128 point additions (8 multiplications each)
        // so about 8.25 multiplications per exponent bit.
        if k.is_zero() {
            proof { axiom_gmul(0, 0, g); }
            return ol_neutral(self);
        }
        // Use mixed projective/extended coordinates.
        // This is the same code as `scalar64_chainmul`.
        let pext = self.to_extended(p);
        let p2 = self.dblext(p);
        // Store p, 3p ... 63p
        let mut gaps = Vec::with_capacity(32);
        gaps.push(pext);
        proof { axiom_gmul(1, 1, g); }
        for i in 1..32
            invariant gaps@.len() == i, eelem(self, &p2) == gmul(2, g),
                forall|j: int| 0 <= j < i ==> eelem(self, &#[trigger] gaps@[j]) == gmul(2 * j + 1, g),
        {
            proof { axiom_gmul(2 * (i as int - 1) + 1, 2, g); }
            let pi = self.addext(&gaps[i - 1], &p2);
            gaps.push(pi);
        }
        // Construct chain
        let mut c = [0_i8; 384];
        let l = Self::make_addition_chain_long(&mut c, k);
        // Get initial element (chain[l-1] = 1 or 3 or ... 63)
        let mut q = gaps[c[l - 1] as usize / 2].to_proj();
        let ghost mut cur: int = c@[l - 1] as int;
        for idx in 1..l
            invariant
                1 <= l <= 384, gaps@.len() == 32,
                forall|j: int| 0 <= j < 32 ==> eelem(self, &#[trigger] gaps@[j]) == gmul(2 * j + 1, g),
                forall|i: int| 0 <= i < l - 1 ==> (#[trigger] c@[i] % 2 == 0 ==> 2 <= c@[i] <= 120)
                    && (c@[i] % 2 != 0 ==> -63 <= c@[i] <= 63),
                prefix_apply(c@, l - idx, cur) == uv(*k) as int,
                pelem(self, &q) == gmul(cur, g),
        {
            let op = c[l - 1 - idx];
            let ghost cur0 = cur;
            if op % 2 == 0 {
                proof { lemma2_to64(); lemma_mul_one(cur); }
                for verif_it in 0..op / 2
                    invariant pelem(self, &q) == gmul(cur0 * pow2(verif_it as nat) as int, g), op % 2 == 0, 2 <= op <= 120,
                {
                    proof { lemma_op_even_step(cur0, verif_it as nat, g); }
                    q = self.double(&q);
                }
                proof { cur = op_apply(op as int, cur0); }
            } else {
                let q2 = self.dblext(&q);
                proof { lemma_op_odd_step(cur0, op as int, g); cur = op_apply(op as int, cur0); }
                if op > 0 {
                    q = self.addextproj(&q2, &gaps[op as usize / 2]);
                } else {
                    q = self.subextproj(&q2, &gaps[(-op) as usize / 2]);
                }
            }
        }
        q
    }
