//! unit: {"container": "impl Curve", "file": "src/ecm.rs", "hoist": true, "kind": "fn", "name": "make_addition_chain_long", "props": ["C15", "C03"]}
//! ---- pinned ----
    fn make_addition_chain_long(chain: &mut [i8; 384], n: &U1024) -> usize {
        // We intentionally assert that Uint is 1024 bits.
        // The add/sub will use odd integers from 1 to 63 (6 bits)
        // After each add/sub we expect to perform >= 6 doubles
        // The chain length cannot be more than 340
        // (there are at most 1024/6 blocks)
        //
        // This function does not implement the special edge cases
        // that save 1/2 adds in `make_addition_chain`
        //
        // Encoding:
        // 2k => P -> 2^k P (k <= 63)
        // +k => P -> 2P + kG (k is odd)
        // -k => P -> 2P - kG (k is odd)
        let nd: &[u64; 16] = n.digits();
        // Start from LSB and work with 2 words at a time.
        let mut exp = nd[0] as u128;
        let mut nextword = 1;
        let mut idx = 0;
        // How many bits were processed
        let mut bits = 0;
        // How many bits are stored in exp.
        let mut curbits = if n.bits() >= 64 {
            64
        } else {
            u128::BITS - u128::leading_zeros(exp)
        };
        let nbits = n.bits();
        let lastword = (nbits as usize - 1) / 64;
        while bits < nbits || exp > 0 {
            if curbits <= 32 && nextword <= lastword {
                exp += (nd[nextword] as u128) << curbits;
                nextword += 1;
                curbits += 64;
            }
            if exp & 1 == 0 {
                // We cannot shift right by 128 and we cannot store
                // large numbers in the chain, so limit tz to 60.
                let tz = min(60, min(exp.trailing_zeros(), curbits));
                exp >>= tz;
                bits += tz;
                curbits -= tz;
                chain[idx] = 2 * tz as i8;
                idx += 1;
            } else {
                let low = exp & 127;
                debug_assert!(low % 2 == 1);
                if low < 64 {
                    chain[idx] = low as i8;
                    idx += 1;
                    exp -= low;
                    if exp == 0 && nbits - bits <= 6 {
                        // Finished!
                        break;
                    }
                } else {
                    chain[idx] = -((128 - low) as i8);
                    idx += 1;
                    // Note: exp may become larger than 1 << curbits.
                    exp += 128 - low;
                }
                // Always combine additions with doubling.
                // This means we consume 1 bit after emitting this opcode.
                exp >>= 1;
                bits += 1;
                curbits -= 1;
            }
        }
        idx
    }
//! ---- annotated ----
    fn make_addition_chain_long(chain: &mut [i8; 384], n: &U1024) -> (r: usize)
        requires uv(*n) > 0
        ensures
            1 <= r <= 384,
            chain_value(final(chain)@, r as int) == uv(*n) as int,
            final(chain)@[r - 1] % 2 == 1 && 1 <= final(chain)@[r - 1] <= 63,
            forall|i: int| 0 <= i < r - 1 ==> (#[trigger] final(chain)@[i] % 2 == 0 ==> 2 <= final(chain)@[i] <= 120)
                && (final(chain)@[i] % 2 != 0 ==> -63 <= final(chain)@[i] <= 63),
    {
        // We intentionally assert that Uint is 1024 bits.
        // The add/sub will use odd integers from 1 to 63 (6 bits)
        // After each add/sub we expect to perform >= 6 doubles
        // The chain length cannot be more than 340
        // (there are at most 1024/6 blocks)
        //
        // This function does not implement the special edge cases
        // that save 1/2 adds in `make_addition_chain`
        //
        // Encoding:
        // 2k => P -> 2^k P (k <= 63)
        // +k => P -> 2P + kG (k is odd)
        // -k => P -> 2P - kG (k is odd)
        let nd: &[u64; 16] = n.digits();
        let ghost nn = uv(*n) as int;
        let ghost d = udigits(*n);
        // Start from LSB and work with 2 words at a time.
        let mut exp = nd[0] as u128;
        let mut nextword = 1;
        let mut idx = 0;
        // How many bits were processed
        let mut bits = 0;
        proof {
            axiom_udigits(*n);
            lemma_cl_nbits(nn as nat);
            lemma2_to64();
            lemma_limbs_skip_step(d, 0);
            assert(d.skip(0) =~= d);
            axiom_u128_lz(nd[0] as u128);
            if bitlen(nn as nat) < 64 {
                // a single word: the unread part is zero
                lemma_pow2_mono(bitlen(nn as nat), 64);
                assert(pow_w(1) == 0x1_0000_0000_0000_0000nat) by { lemma_pow_w_unfold(1); lemma_pow_w_unfold(0); assert(pow_w(0) == 1); }
                lemma_limbs_take_small(d, 1);
                lemma_mul_one(0x1_0000_0000_0000_0000);
            }
        }
        // How many bits are stored in exp.
        let mut curbits = if n.bits() >= 64 {
            64
        } else {
            u128::BITS - u128::leading_zeros(exp)
        };
        let nbits = n.bits();
        let lastword = (nbits as usize - 1) / 64;
        proof {
            if bitlen(nn as nat) < 64 {
                // exp == nn < 2^63: at most 63 bits in the window
                let lz = u128_lz(exp);
                if lz < 64 { lemma_pow2_mono(64, (127 - lz) as nat); }
            }
        }
        let ghost owed: nat = 0;
        let ghost free: bool = true;
        let ghost big: nat = 1;
        proof {
            // the words above lastword are zero
            lemma_pow_w_is_pow2((lastword + 1) as nat);
            lemma_pow2_mono(nbits as nat, (64 * (lastword + 1)) as nat);
            lemma_limbs_take_small(d, lastword as int + 1);
            lemma_mul_one(nn); lemma_mul_one(pow2(curbits as nat) as int);
            assert(pow2(0) == 1);
            assert(cl_rem(exp as int, curbits as nat, d, 1) == nn);
        }
        while bits < nbits || exp > 0
            invariant_except_break
                chain@.len() == 384, nd@ == d, d.len() == 16, limbs(d) == nn as nat, nn == uv(*n) as int, nn > 0,
                nbits as nat == bitlen(nn as nat), 1 <= nbits <= 1024, nn < pow2(nbits as nat) as int,
                lastword == (nbits as usize - 1) / 64, 1 <= nextword <= lastword + 1, lastword <= 15,
                limbs(d.skip(lastword as int + 1)) == 0,
                nbits >= 64 ==> bits as int + curbits as int == 64 * nextword as int,
                curbits <= 96, bits <= nbits,
                0 <= exp as int <= pow2(curbits as nat) as int,
                prefix_apply(chain@, idx as int, cl_rem(exp as int, curbits as nat, d, nextword as int)) == nn,
                cl_rem(exp as int, curbits as nat, d, nextword as int) >= 1,
                owed == 0 || owed == 6,
                cl_rem(exp as int, curbits as nat, d, nextword as int) % (pow2(owed) as int) == 0,
                2 * iabs(nn - cl_rem(exp as int, curbits as nat, d, nextword as int) * (pow2(bits as nat) as int)) < pow2(bits as nat + owed) as int,
                // length: two opcodes per 7 bits, one spare opcode per jump of 33 bits or more
                idx as int <= 384, big >= 1, 33 * (big as int - 1) <= bits as int,
                7 * (idx as int) <= 2 * (bits as int) + (if owed > 0 { 5int } else { 0int }) + 7 * (big as int) - (if free { 7int } else { 0int }),
                free || owed > 0 || exp % 2 == 1,
                (curbits == 0 && nextword <= lastword) ==> free,
                forall|i: int| 0 <= i < idx ==> cl_op_ok(#[trigger] chain@[i]),
                // the loop is left by `break` only
                bits < nbits || exp > 0,
            ensures
                1 <= idx <= 384,
                chain_value(chain@, idx as int) == nn,
                chain@[idx - 1] % 2 == 1 && 1 <= chain@[idx - 1] <= 63,
                forall|i: int| 0 <= i < idx - 1 ==> cl_op_ok(#[trigger] chain@[i]),
                chain@.len() == 384,
            decreases 1025 - bits as int
        {
            proof {
                lemma_pow2_pos(curbits as nat);
                lemma_cl_bits(nn, cl_rem(exp as int, curbits as nat, d, nextword as int), bits as nat, owed, nbits as nat);
            }
            if curbits <= 32 && nextword <= lastword {
                let ghost w = nd[nextword as int];
                proof {
                    lemma_u128_one_shl(curbits);
                    assert(((w as u128) << curbits) == (w as u128) * (1u128 << curbits)) by (bit_vector) requires curbits <= 32;
                    lemma_limbs_skip_step(d, nextword as int);
                    lemma_pow2_mono(curbits as nat, 32); lemma2_to64();
                    lemma_mul_le(w as int, 0xffff_ffff_ffff_ffff, pow2(curbits as nat) as int);
                    lemma_mul_nonneg(w as int, pow2(curbits as nat) as int);
                    lemma_mul_le2(0xffff_ffff_ffff_ffff, 0xffff_ffff_ffff_ffff, pow2(curbits as nat) as int, 0x1_0000_0000);
                    lemma_cl_refill(exp as int, curbits as nat, w as int, limbs(d.skip(nextword as int + 1)) as int, exp as int + (w as int) * (pow2(curbits as nat) as int));
                    // the parity of the window is unchanged unless it was empty (then a jump of 33 bits or more just happened)
                    if curbits >= 1 {
                        lemma_pow2_div_mul(1, curbits as nat, w as int);
                        lemma_mul_comm(w as int, pow2(curbits as nat) as int);
                        lemma_cl_mod_adds(exp as int, (w as int) * (pow2(curbits as nat) as int), 2);
                    }
                }
                exp += (nd[nextword] as u128) << curbits;
                nextword += 1;
                curbits += 64;
            }
            let ghost hi = limbs(d.skip(nextword as int)) as int;
            let ghost rem = cl_rem(exp as int, curbits as nat, d, nextword as int);
            let ghost c0 = chain@;
            let ghost more = nextword <= lastword;
            proof {
                assert(cl_state(nn, exp as int, curbits as nat, hi, bits as nat, owed, nbits as nat, more));
                assert(exp & 1 == 0 <==> exp % 2 == 0) by (bit_vector);
            }
            if exp & 1 == 0 {
                // We cannot shift right by 128 and we cannot store
                // large numbers in the chain, so limit tz to 60.
                let tz = min(60, min(exp.trailing_zeros(), curbits));
                proof {
                    axiom_u128_tz(exp);
                    lemma_cl_step_even(nn, exp as int, curbits as nat, hi, bits as nat, owed, nbits as nat, more, u128_tz(exp) as nat, tz as nat);
                    vstd::bits::lemma_u128_shr_is_div(exp, tz as u128);
                }
                exp >>= tz;
                bits += tz;
                curbits -= tz;
                chain[idx] = 2 * tz as i8;
                idx += 1;
                proof {
                    lemma_prefix_apply_push(c0, chain@, idx as int - 1, rem, cl_rem(exp as int, curbits as nat, d, nextword as int));
                    if tz >= 33 { big = big + 1; free = true; } else if owed == 0 { free = false; }
                    owed = 0;
                    assert(pow2(0) == 1) by { lemma2_to64(); }
                    assert forall|i: int| 0 <= i < idx implies cl_op_ok(#[trigger] chain@[i]) by { if i < idx - 1 { assert(chain@[i] == c0[i]); } }
                    if !(bits < nbits) && exp == 0 {
                        // nothing left in the window and every bit consumed: the unread words would have to be non-zero
                        assert(false);
                    }
                }
            } else {
                let low = exp & 127;
                proof {
                    assert(low == exp % 128) by (bit_vector) requires low == exp & 127;
                    lemma_cl_step_odd(nn, exp as int, curbits as nat, hi, bits as nat, owed, nbits as nat, more);
                }
                debug_assert!(low % 2 == 1);
                if low < 64 {
                    chain[idx] = low as i8;
                    idx += 1;
                    proof { lemma_cl_step_pos(nn, exp as int, curbits as nat, hi, bits as nat, nbits as nat, more, low as int); }
                    exp -= low;
                    if exp == 0 && nbits - bits <= 6 {
                        proof {
                            // the gap is the whole remainder (a word still to come would leave more than 6 bits): the chain ends here
                            assert(hi == 0);
                            lemma_prefix_apply_frame(c0, chain@, idx as int - 1, rem);
                            assert forall|i: int| 0 <= i < idx - 1 implies cl_op_ok(#[trigger] chain@[i]) by { assert(chain@[i] == c0[i]); }
                        }
                        // Finished!
                        break;
                    }
                } else {
                    proof {
                        lemma_cl_step_neg(nn, exp as int, curbits as nat, hi, bits as nat, nbits as nat, more, low as int);
                        lemma_pow2_mono(curbits as nat, 96); lemma2_to64();
                        assert(pow2(96) == 0x1_0000_0000_0000_0000_0000_0000) by { lemma_pow2_adds(64, 32); }
                    }
                    chain[idx] = -((128 - low) as i8);
                    idx += 1;
                    // Note: exp may become larger than 1 << curbits.
                    exp += 128 - low;
                }
                proof {
                    assert(exp >> 1 == exp / 2) by (bit_vector);
                }
                // Always combine additions with doubling.
                // This means we consume 1 bit after emitting this opcode.
                exp >>= 1;
                bits += 1;
                curbits -= 1;
                proof {
                    lemma_prefix_apply_push(c0, chain@, idx as int - 1, rem, cl_rem(exp as int, curbits as nat, d, nextword as int));
                    owed = 6;
                    assert forall|i: int| 0 <= i < idx implies cl_op_ok(#[trigger] chain@[i]) by { if i < idx - 1 { assert(chain@[i] == c0[i]); } }
                    if !(bits < nbits) && exp == 0 {
                        assert(false);
                    }
                }
            }
        }
        idx
    }
