//! unit: {"container": "impl Curve", "file": "src/ecm.rs", "hoist": true, "kind": "fn", "name": "make_addition_chain", "props": ["C15", "C03"]}
//! ---- pinned ----
    pub(crate) fn make_addition_chain(chain: &mut [i8; 32], k: u64) -> usize {
        // Build an addition chain for a 64-bit multiplier
        // as a reversed list of opcodes:
        // - an odd opcode x (|x| <= 7) means: P -> 2P + xG
        // The combined double-add is because it can be computed
        // with 16 MULs instead of 19 MULs.
        // - an even opcode 2y means: P -> 2^y P
        //
        // For any integer, 2 opcodes can remove 4 bits, so the chain length
        // is never more than 32.
        if k == 0 {
            chain[0] = 0;
            return 1;
        }
        let mut l = 0;
        let mut kk = k;
        loop {
            if kk % 2 == 0 {
                let tz = kk.trailing_zeros();
                chain[l] = 2 * tz as i8;
                kk >>= tz;
                l += 1;
            } else if kk <= 7 {
                chain[l] = kk as i8;
                return l + 1;
            } else {
                // Integer is odd, look at 4 LSB.
                let r = kk % 16;
                if r < 8 {
                    // Encode as 2k+r
                    chain[l] = r as i8;
                    l += 1;
                    kk = (kk - r) / 2;
                } else {
                    // Encode as 2k-r
                    let rop = 16 - r;
                    chain[l] = -(rop as i8);
                    l += 1;
                    // kk and rop are odd: (kk + rop) / 2 without overflowing u64.
                    kk = kk / 2 + rop / 2 + 1;
                }
            }
        }
    }
//! ---- annotated ----
    pub(crate) fn make_addition_chain(chain: &mut [i8; 32], k: u64) -> (r: usize)
        ensures
            1 <= r,
            // a return means every store was in bounds (the stores themselves are the obligations of finding F2b)
            r <= 32,
            k == 0 ==> r == 1 && final(chain)@[0] == 0,
            k != 0 && r <= 32 ==> chain_value(final(chain)@, r as int) == k as int
                && final(chain)@[r - 1] % 2 == 1 && 1 <= final(chain)@[r - 1] <= 7
                && forall|i: int| 0 <= i < r - 1 ==> (#[trigger] final(chain)@[i] % 2 == 0 ==> 2 <= final(chain)@[i] <= 126)
                    && (final(chain)@[i] % 2 != 0 ==> -7 <= final(chain)@[i] <= 7),
    {
        // Build an addition chain for a 64-bit multiplier
        // as a reversed list of opcodes:
        // - an odd opcode x (|x| <= 7) means: P -> 2P + xG
        // The combined double-add is because it can be computed
        // with 16 MULs instead of 19 MULs.
        // - an even opcode 2y means: P -> 2^y P
        //
        // For any integer, 2 opcodes can remove 4 bits, so the chain length
        // is never more than 32.
        if k == 0 {
            chain[0] = 0;
            return 1;
        }
        let mut l = 0;
        let mut kk = k;
        loop
            invariant
                kk >= 1, k != 0,
                l <= 32 ==> prefix_apply(chain@, l as int, kk as int) == k as int,
                forall|i: int| 0 <= i < l && i < 32 ==> (#[trigger] chain@[i] % 2 == 0 ==> 2 <= chain@[i] <= 126)
                    && (chain@[i] % 2 != 0 ==> -7 <= chain@[i] <= 7),
            decreases kk
        {
            let ghost c0 = chain@;
            let ghost kk0 = kk;
            if kk % 2 == 0 {
                let tz = kk.trailing_zeros();
                proof {
                    lemma_tz_arith(kk, tz);
                    assert(tz >= 1) by { if tz == 0 { assert(pow2(0) == 1) by { lemma2_to64(); } } };
                }
                chain[l] = 2 * tz as i8;
                kk >>= tz;
                proof {
                    let pt = pow2(tz as nat) as int;
                    lemma_u64_shr_is_div(kk0, tz as u64);
                    lemma_pow2_pos(tz as nat);
                    lemma_fundamental_div_mod(kk0 as int, pt);
                    lemma_mul_comm(pt, kk as int);
                    assert((2 * tz as int) / 2 == tz as int);
                    assert(op_apply(chain@[l as int] as int, kk as int) == kk0 as int);
                    lemma_prefix_apply_push(c0, chain@, l as int, kk0 as int, kk as int);
                    // kk < kk0 and kk >= 1
                    lemma_pow2_strictly_increases(0, tz as nat); lemma2_to64();
                    if kk == 0 { lemma_mul_one(pt); }
                    lemma_mul_lt_pos(1, pt, kk as int); lemma_mul_one(kk as int);
                }
                l += 1;
            } else if kk <= 7 {
                chain[l] = kk as i8;
                proof { lemma_prefix_apply_frame(c0, chain@, l as int, kk as int); }
                return l + 1;
            } else {
                // Integer is odd, look at 4 LSB.
                let r = kk % 16;
                if r < 8 {
                    // Encode as 2k+r
                    chain[l] = r as i8;
                    l += 1;
                    kk = (kk - r) / 2;
                    proof {
                        assert(op_apply(r as int, kk as int) == kk0 as int);
                        lemma_prefix_apply_push(c0, chain@, l as int - 1, kk0 as int, kk as int);
                    }
                } else {
                    // Encode as 2k-r
                    let rop = 16 - r;
                    chain[l] = -(rop as i8);
                    l += 1;
                    // kk and rop are odd: (kk + rop) / 2 without overflowing u64.
                    kk = kk / 2 + rop / 2 + 1;
                    proof {
                        assert(op_apply(-(rop as int), kk as int) == kk0 as int);
                        lemma_prefix_apply_push(c0, chain@, l as int - 1, kk0 as int, kk as int);
                    }
                }
            }
        }
    }
