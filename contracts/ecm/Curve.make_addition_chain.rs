//! unit: {"container": "impl Curve", "file": "src/ecm.rs", "hoist": true, "kind": "fn", "name": "make_addition_chain", "props": ["C15", "C03"]}
//! ---- pinned ----
    pub(crate) fn make_addition_chain(chain: &mut [i8], k: u64) -> usize {
        // Build an addition chain for a 64-bit multiplier
        // as a reversed list of opcodes:
        // - an odd opcode x (|x| <= 7) means: P -> 2P + xG
        // The combined double-add is because it can be computed
        // with 16 MULs instead of 19 MULs.
        // - an even opcode 2y means: P -> 2^y P
        //
        // For any integer, 2 opcodes can remove 4 bits, so the chain length
        // is never more than 33 (e.g. for k = 0xF111111111111111).
        if k == 0 {
            chain[0] = 0;
            return 1;
        }
        let mut l = 0;
        let mut kk = k;
        loop {
            if kk % 2 == 0 {
                let tz = kk.trailing_zeros();
                chain[l] = 2 * tz as i8;
                kk >>= tz;
                l += 1;
            } else if kk <= 7 {
                chain[l] = kk as i8;
                return l + 1;
            } else {
                // Integer is odd, look at 4 LSB.
                let r = kk % 16;
                if r < 8 {
                    // Encode as 2k+r
                    chain[l] = r as i8;
                    l += 1;
                    kk = (kk - r) / 2;
                } else {
                    // Encode as 2k-r
                    let rop = 16 - r;
                    chain[l] = -(rop as i8);
                    l += 1;
                    // kk and rop are odd: (kk + rop) / 2 without overflowing u64.
                    kk = kk / 2 + rop / 2 + 1;
                }
            }
        }
    }
//! ---- annotated ----
    pub(crate) fn make_addition_chain(chain: &mut [i8], k: u64) -> (r: usize)
        requires old(chain)@.len() >= 34,
        ensures
            final(chain)@.len() == old(chain)@.len(),
            // 2 opcodes remove 4 bits: never more than 33 opcodes (F2b: the bound 32 of the original comment is wrong)
            1 <= r <= 33,
            k == 0 ==> r == 1 && final(chain)@[0] == 0,
            k != 0 ==> chain_value(final(chain)@, r as int) == k as int
                && final(chain)@[r - 1] % 2 == 1 && 1 <= final(chain)@[r - 1] <= 7
                && forall|i: int| 0 <= i < r - 1 ==> (#[trigger] final(chain)@[i] % 2 == 0 ==> 2 <= final(chain)@[i] <= 126)
                    && (final(chain)@[i] % 2 != 0 ==> -7 <= final(chain)@[i] <= 7),
    {
        // Build an addition chain for a 64-bit multiplier
        // as a reversed list of opcodes:
        // - an odd opcode x (|x| <= 7) means: P -> 2P + xG
        // The combined double-add is because it can be computed
        // with 16 MULs instead of 19 MULs.
        // - an even opcode 2y means: P -> 2^y P
        //
        // For any integer, 2 opcodes can remove 4 bits, so the chain length
        // is never more than 33 (e.g. for k = 0xF111111111111111).
        if k == 0 {
            chain[0] = 0;
            return 1;
        }
        let mut l = 0;
        let mut kk = k;
        let ghost clen = chain@.len();
        let ghost mut gb: nat = 64;
        proof { lemma2_to64(); assert(chain_t(64) == 33); }
        loop
            invariant
                kk >= 1, k != 0, chain@.len() == clen, clen >= 34, clen == old(chain)@.len(),
                prefix_apply(chain@, l as int, kk as int) == k as int,
                forall|i: int| 0 <= i < l ==> (#[trigger] chain@[i] % 2 == 0 ==> 2 <= chain@[i] <= 126)
                    && (chain@[i] % 2 != 0 ==> -7 <= chain@[i] <= 7),
                // potential: the opcodes still to come fit below 33
                gb <= 64, (kk as int) < pow2(gb) as int,
                chain_pot(l as int, kk as int, gb),
            decreases kk
        {
            let ghost c0 = chain@;
            let ghost kk0 = kk;
            if kk % 2 == 0 {
                let tz = kk.trailing_zeros();
                proof {
                    lemma_tz_arith(kk, tz);
                    if tz == 0 { lemma2_to64(); assert(pow2(0) == 1); assert(kk as int / 1 == kk as int); assert(false); }
                    lemma_chain_pot_even(l as int, kk as int, gb, tz as nat);
                    lemma_chain_pot_bound(l as int, kk as int, gb);
                }
                chain[l] = 2 * tz as i8;
                kk >>= tz;
                proof {
                    let pt = pow2(tz as nat) as int;
                    lemma_u64_shr_is_div(kk0, tz as u64);
                    lemma_pow2_pos(tz as nat);
                    lemma_fundamental_div_mod(kk0 as int, pt);
                    lemma_mul_comm(pt, kk as int);
                    assert((2 * tz as int) / 2 == tz as int);
                    assert(op_apply(chain@[l as int] as int, kk as int) == kk0 as int);
                    lemma_prefix_apply_push(c0, chain@, l as int, kk0 as int, kk as int);
                    // kk < kk0 and kk >= 1
                    lemma_pow2_strictly_increases(0, tz as nat); lemma2_to64();
                    if kk == 0 { lemma_mul_one(pt); }
                    lemma_mul_lt_pos(1, pt, kk as int); lemma_mul_one(kk as int);
                    gb = (gb - tz) as nat;
                }
                l += 1;
            } else if kk <= 7 {
                proof { lemma_chain_pot_bound(l as int, kk as int, gb); }
                chain[l] = kk as i8;
                proof { lemma_prefix_apply_frame(c0, chain@, l as int, kk as int); }
                return l + 1;
            } else {
                // Integer is odd, look at 4 LSB.
                let r = kk % 16;
                proof { lemma_chain_pot_odd(l as int, kk as int, gb); lemma_chain_pot_bound(l as int, kk as int, gb); }
                if r < 8 {
                    // Encode as 2k+r
                    chain[l] = r as i8;
                    l += 1;
                    kk = (kk - r) / 2;
                    proof {
                        assert(op_apply(r as int, kk as int) == kk0 as int);
                        lemma_prefix_apply_push(c0, chain@, l as int - 1, kk0 as int, kk as int);
                        lemma_pow2_unfold(gb);
                        gb = (gb - 1) as nat;
                    }
                } else {
                    // Encode as 2k-r
                    let rop = 16 - r;
                    chain[l] = -(rop as i8);
                    l += 1;
                    // kk and rop are odd: (kk + rop) / 2 without overflowing u64.
                    kk = kk / 2 + rop / 2 + 1;
                    proof {
                        assert(op_apply(-(rop as int), kk as int) == kk0 as int);
                        lemma_prefix_apply_push(c0, chain@, l as int - 1, kk0 as int, kk as int);
                        lemma_pow2_unfold(gb);
                        lemma_chain_carry(kk0 as int, rop as int, gb);
                        if (kk0 as int) + (rop as int) < pow2(gb) as int { gb = (gb - 1) as nat; }
                    }
                }
            }
        }
    }
