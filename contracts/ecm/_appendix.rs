#[allow(unused_imports)] use vstd::arithmetic::{div_mod::*, power2::*, mul::*};
#[allow(unused_imports)] use vstd::bits::*;
#[allow(unused_imports)] use vstd::std_specs::bits::*;
#[allow(unused_imports)] use vstd::std_specs::ops::*;
#[allow(unused_imports)] use vstd::std_specs::cmp::*;

verus! {
// ---------------------------------------------------------------- SmoothBase (C17: stage-1 exponent blocks)

#[verifier::external_type_specification]
#[verifier::external_body]
pub struct ExSmoothBase(SmoothBase);

pub uninterp spec fn sb_factors(s: SmoothBase) -> Seq<u64>;
pub uninterp spec fn sb_larges(s: SmoothBase) -> Seq<Uint>;

/// product of a sequence of words
pub open spec fn prod64(s: Seq<u64>) -> nat
    decreases s.len()
{
    if s.len() == 0 { 1 } else { prod64(s.drop_last()) * (s.last() as nat) }
}

/// product of all exponent blocks
pub open spec fn sb_total(s: SmoothBase) -> nat {
    prod64(sb_factors(s)) * seq_prod(sb_larges(s))
}

/// the largest power of p reached from q by multiplying by p while staying below b
pub open spec fn tp(p: nat, b: nat, q: nat) -> nat
    decreases b - q
    when p >= 2 && q >= 1
    via tp_decreases
{
    if q * p < b { tp(p, b, q * p) } else { q }
}

#[via_fn]
proof fn tp_decreases(p: nat, b: nat, q: nat) {
    if q * p < b {
        lemma_mul_le2(q as int, q as int, 2, p as int);
    }
}

/// running product of everything accumulated so far (u64 blocks, large blocks, the two buffers)
pub open spec fn tot4(f: Seq<u64>, l: Seq<Uint>, b: nat, bl: nat) -> nat {
    prod64(f) * seq_prod(l) * b * bl
}

pub proof fn lemma_tot4_flush_small(f: Seq<u64>, l: Seq<Uint>, b: u64, bl: nat)
    ensures tot4(f.push(b), l, 1, bl) == tot4(f, l, b as nat, bl)
{
    assert(f.push(b).drop_last() =~= f);
    let a = prod64(f); let c = seq_prod(l); let x = b as nat;
    assert((a * x) * c * 1 * bl == a * c * x * bl) by (nonlinear_arith);
}

pub proof fn lemma_tot4_flush_merge(f: Seq<u64>, l: Seq<Uint>, b: nat, bl: nat)
    ensures tot4(f, l, 1, bl * b) == tot4(f, l, b, bl)
{
    let a = prod64(f); let c = seq_prod(l);
    assert(a * c * 1 * (bl * b) == a * c * b * bl) by (nonlinear_arith);
}

pub proof fn lemma_tot4_flush_large(f: Seq<u64>, l: Seq<Uint>, b: nat, x: Uint)
    ensures tot4(f, l.push(x), b, 1) == tot4(f, l, b, uv(x))
{
    lemma_seq_prod_push(l, x);
    let a = prod64(f); let c = seq_prod(l); let y = uv(x);
    assert(a * (c * y) * b * 1 == a * c * b * y) by (nonlinear_arith);
}

pub proof fn lemma_tot4_mul(f: Seq<u64>, l: Seq<Uint>, b: nat, bl: nat, k: nat)
    ensures tot4(f, l, b * k, bl) == tot4(f, l, b, bl) * k
{
    let a = prod64(f); let c = seq_prod(l);
    assert(a * c * (b * k) * bl == (a * c * b * bl) * k) by (nonlinear_arith);
}

/// a 64-bit buffer and a power that passed the `1 << leading_zeros` test multiply without overflow
pub proof fn lemma_buffer_fits(buffer: u64, pow: u64)
    requires buffer >= 1, (1u64 << (u64_leading_zeros(buffer) as u64)) > pow
    ensures (buffer as nat) * (pow as nat) < 0x1_0000_0000_0000_0000
{
    axiom_u64_lz_arith(buffer);
    let lz = u64_leading_zeros(buffer);
    lemma2_to64();
    lemma2_to64_rest();
    assert(pow2(lz as nat) <= 0x8000_0000_0000_0000) by {
        if lz < 63 { lemma_pow2_strictly_increases(lz as nat, 63); }
    }
    lemma_mul_one(pow2(lz as nat) as int);
    vstd::bits::lemma_u64_shl_is_mul(1, lz as u64);
    lemma_pow2_adds((64 - lz) as nat, lz as nat);
    lemma_mul_lt(buffer as int, pow2((64 - lz) as nat) as int, pow as int, pow2(lz as nat) as int);
}

/// a 1024-bit block of at most 960 bits times a word fits
pub proof fn lemma_large_fits(bl: nat, b: u64)
    requires bitlen(bl) <= 960
    ensures bl * (b as nat) < pow_w(16)
{
    lemma_bitlen_bound(bl, 960);
    lemma_pow_w_is_pow2(16);
    lemma2_to64();
    lemma_pow2_adds(960, 64);
    lemma_pow2_pos(960);
    lemma_mul_lt(bl as int, pow2(960) as int, b as int, pow2(64) as int);
}

/// R4 outlining of the prime table of `SmoothBase::new` (`fbase::primes` below 65536, blocks of `PrimeSieve` above:
/// a `loop` over `extend_from_slice` of borrowed blocks). Assumed contract: increasing, all >= 2. That the table
/// contains EVERY prime below b1 is not part of this contract (undecided sub-claim of C17).
#[verifier::external_body]
fn ol_smooth_primes(b1: usize) -> (primes: Vec<u32>)
    ensures
        primes@ == smooth_primes_spec(b1),
        forall|i: int| 0 <= i < primes@.len() ==> #[trigger] primes@[i] >= 2,
        forall|i: int, j: int| 0 <= i <= j < primes@.len() ==> primes@[i] <= primes@[j],
{
    if b1 < 65_536 {
        fbase::primes(b1 as u32 / 2)
    } else {
        let mut s = fbase::PrimeSieve::new();
        let mut primes = vec![];
        loop {
            let b = s.next();
            primes.extend_from_slice(b);
            if b[b.len() - 1] > b1 as u32 {
                break;
            }
        }
        primes
    }
}

#[verifier::external_body]
fn ol_smooth_base(factors: Vec<u64>, factors_lg: Vec<Uint>) -> (r: SmoothBase)
    ensures sb_factors(r) == factors@, sb_larges(r) == factors_lg@
{
    SmoothBase {
        factors: factors.into_boxed_slice(),
        larges: factors_lg.into_boxed_slice(),
    }
}

#[verifier::external_body]
fn ol_u1024_one() -> (r: U1024)
    ensures uv(r) == 1
{
    U1024::ONE
}

#[verifier::external_body]
fn ol_uint_one() -> (r: Uint)
    ensures uv(r) == 1
{
    Uint::ONE
}

/// every prime of the table below b1 has its top power dividing the product of all blocks
pub open spec fn smooth_ok(primes: Seq<u32>, b1: nat, total: nat, upto: int) -> bool {
    forall|j: int| 0 <= j < upto && (primes[j] as nat) < b1 ==> dvd(#[trigger] tp(primes[j] as nat, b1, primes[j] as nat), total)
}

pub proof fn lemma_smooth_ok_mul(primes: Seq<u32>, b1: nat, total: nat, upto: int, k: nat)
    requires smooth_ok(primes, b1, total, upto)
    ensures smooth_ok(primes, b1, total * k, upto)
{
    assert forall|j: int| 0 <= j < upto && (primes[j] as nat) < b1 implies dvd(#[trigger] tp(primes[j] as nat, b1, primes[j] as nat), total * k) by {
        lemma_dvd_mul_right(tp(primes[j] as nat, b1, primes[j] as nat), total, k);
    }
}
} // verus!

verus! {
/// the table `ol_smooth_primes` returns (uninterpreted: what it contains is not decided here)
pub uninterp spec fn smooth_primes_spec(b1: usize) -> Seq<u32>;

/// multiplying a 1024-bit block by a word given as a fresh `Uint` (exec temporaries cannot be named in ghost code)
pub proof fn lemma_uint_mul_word(a: Uint, b: u64)
    requires uv(a) * (b as nat) < pow_w(16)
    ensures
        forall|x: Uint| uv(x) == b as nat ==> #[trigger] a.mul_req(x),
        forall|x: Uint| uv(x) == b as nat ==> uv(#[trigger] a.mul_spec(x)) == uv(a) * (b as nat),
        <Uint as vstd::std_specs::ops::MulSpec<Uint>>::obeys_mul_spec(),
{
    assert forall|x: Uint| uv(x) == b as nat implies #[trigger] a.mul_req(x) by { axiom_buint_mul(a, x); }
    assert forall|x: Uint| uv(x) == b as nat implies uv(#[trigger] a.mul_spec(x)) == uv(a) * (b as nat) by {
        axiom_buint_mul(a, x);
        lemma_small_mod(uv(a) * uv(x), pow_w(16));
    }
    axiom_buint_mul(a, a);
}
} // verus!

verus! {
// ---------------------------------------------------------------- chain interpreters over the abstract group (C15, layer 2)

#[verifier::external_type_specification]
#[verifier::external_body]
pub struct ExCurve(Curve);
#[verifier::external_type_specification]
#[verifier::external_body]
pub struct ExPoint(Point);
#[verifier::external_type_specification]
#[verifier::external_body]
pub struct ExExtPoint(ExtPoint);

/// the group element a projective / extended point stands for on curve c
pub uninterp spec fn pelem(c: &Curve, p: &Point) -> G;
pub uninterp spec fn eelem(c: &Curve, p: &ExtPoint) -> G;

// Assumed contracts of the point operations (each formula is a polynomial identity discharged by the algebra back
// end: the result is on the curve and equals the classical sum projectively; that this sum is the group law is T-math).
pub assume_specification [Curve::to_extended] (c: &Curve, p: &Point) -> (r: ExtPoint)
    ensures eelem(c, &r) == pelem(c, p);
pub assume_specification [ExtPoint::to_proj] (e: &ExtPoint) -> (r: Point)
    ensures forall|c: &Curve| pelem(c, &r) == eelem(c, e);
pub assume_specification [Curve::dblext] (c: &Curve, p: &Point) -> (r: ExtPoint)
    ensures eelem(c, &r) == gadd(pelem(c, p), pelem(c, p));
pub assume_specification [Curve::double] (c: &Curve, p: &Point) -> (r: Point)
    ensures pelem(c, &r) == gadd(pelem(c, p), pelem(c, p));
pub assume_specification [Curve::addext] (c: &Curve, p: &ExtPoint, q: &ExtPoint) -> (r: ExtPoint)
    ensures eelem(c, &r) == gadd(eelem(c, p), eelem(c, q));
pub assume_specification [Curve::addextproj] (c: &Curve, p: &ExtPoint, q: &ExtPoint) -> (r: Point)
    ensures pelem(c, &r) == gadd(eelem(c, p), eelem(c, q));
pub assume_specification [Curve::subextproj] (c: &Curve, p: &ExtPoint, q: &ExtPoint) -> (r: Point)
    ensures pelem(c, &r) == gadd(eelem(c, p), gneg(eelem(c, q)));

/// R4 outlining of `Point(zn.zero(), zn.one(), zn.one())` (the neutral point (0 : 1 : 1)); trusted contract
#[verifier::external_body]
fn ol_neutral(c: &Curve) -> (r: Point)
    ensures pelem(c, &r) == gid()
{
    let zn = &c.zn;
    Point(zn.zero(), zn.one(), zn.one())
}
} // verus!

verus! {
pub assume_specification [Curve::add] (c: &Curve, p: &Point, q: &Point) -> (r: Point)
    ensures pelem(c, &r) == gadd(pelem(c, p), pelem(c, q));
pub assume_specification [<Point as core::clone::Clone>::clone] (p: &Point) -> (r: Point)
    ensures forall|c: &Curve| pelem(c, &r) == pelem(c, p);

} // verus!
