//! unit: {"file": "src/arith_fft.rs", "kind": "fn", "name": "_add_slices", "props": ["C10", "C03"]}
//! ---- pinned ----
fn _add_slices(z: &mut [u64], x: &[u64]) -> u64 {
    let mut carry = 0_u64;
    for i in 0..x.len() {
        unsafe {
            let xi = *x.get_unchecked(i) as u128;
            let zi = z.get_unchecked_mut(i);
            let sum = xi + (*zi as u128) + (carry as u128);
            *zi = sum as u64;
            carry = (sum >> 64) as u64;
        }
    }
    carry
}
//! ---- annotated ----
fn _add_slices(z: &mut [u64], x: &[u64]) -> (carry: u64)
    requires x.len() <= old(z).len(),
    ensures
        final(z).len() == old(z).len(), carry <= 1,
        forall|k: int| x.len() <= k < old(z).len() ==> final(z)@[k] == old(z)@[k],
        limbs(final(z)@.take(x.len() as int)) + pow_w(x.len() as nat) * (carry as nat)
            == limbs(old(z)@.take(x.len() as int)) + limbs(x@),
{
    let mut carry = 0_u64;
    let ghost z0 = z@;
    proof {
        lemma_limbs_empty(); lemma_pow_w_unfold(0);
        assert(z@.take(0) =~= Seq::<u64>::empty());
        assert(x@.take(0) =~= Seq::<u64>::empty());
    }
    for i in 0..x.len()
        invariant
            x.len() <= z.len(), z.len() == z0.len(), carry <= 1,
            forall|k: int| i <= k < z.len() ==> z@[k] == z0[k],
            limbs(z@.take(i as int)) + pow_w(i as nat) * (carry as nat) == limbs(z0.take(i as int)) + limbs(x@.take(i as int)),
    {
        {
            let ghost zprev = z@;
            let ghost c0 = carry;
            let xi = x[i] as u128;
            let zi = &mut z[i];
            let sum = xi + (*zi as u128) + (carry as u128);
            *zi = sum as u64;
            carry = (sum >> 64) as u64;
            proof {
                lemma_u128_split(sum);
                assert((sum >> 64) <= 1) by (bit_vector) requires sum <= 0x1_ffff_ffff_ffff_ffffu128;
                lemma_pow_w_unfold(i as nat);
                lemma_limbs_take_step(z@, i as int);
                lemma_limbs_take_step(z0, i as int);
                lemma_limbs_take_step(x@, i as int);
                assert(z@.take(i as int) =~= zprev.take(i as int));
                lemma_carry_step(pow_w(i as nat) as int, W() as int, (sum as u64) as int, carry as int, z0[i as int] as int, x@[i as int] as int, c0 as int);
            }
        }
    }
    proof { assert(x@.take(x.len() as int) =~= x@); }
    carry
}
