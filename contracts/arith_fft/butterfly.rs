//! unit: {"file": "src/arith_fft.rs", "kind": "fn", "name": "butterfly", "props": ["C10", "C03"]}
//! ---- pinned ----
/// Replace x, y by x+y, x-y
fn butterfly<const N: usize>(x: &mut FInt<N>, y: &mut FInt<N>) {
    if x.1 == 1 || y.1 == 1 {
        (*x, *y) = (x.add(y), x.sub(y));
        return;
    }
    let mut carry_add = 0_u64;
    let mut carry_sub = 1_u64;
    for i in 0..N {
        unsafe {
            let xi = x.0.get_unchecked_mut(i);
            let yi = y.0.get_unchecked_mut(i);
            let add = (*xi as u128) + (*yi as u128) + (carry_add as u128);
            let sub = (*xi as u128) + ((!*yi) as u128) + (carry_sub as u128);
            *xi = add as u64;
            *yi = sub as u64;
            carry_add = (add >> 64) as u64;
            carry_sub = (sub >> 64) as u64;
        }
    }
    x.1 += carry_add;
    if carry_sub == 0 {
        // Add 1.
        y.add_small(1);
    }
    x.reduce();
    y.reduce();
}
//! ---- annotated ----
/// Replace x, y by x+y, x-y
fn butterfly<const N: usize>(x: &mut FInt<N>, y: &mut FInt<N>)
    requires N >= 1, old(x).reduced(), old(y).reduced(),
    ensures
        final(x).reduced(), final(y).reduced(),
        cong(final(x).fval() as int, old(x).fval() as int + old(y).fval() as int, FInt::<N>::fmod() as int),
        cong(final(y).fval() as int, old(x).fval() as int - old(y).fval() as int, FInt::<N>::fmod() as int),
{
    if x.1 == 1 || y.1 == 1 {
        let verif_t = (x.add(y), x.sub(y)); *x = verif_t.0; *y = verif_t.1;
        return;
    }
    let ghost xs = x.0@;
    let ghost ys = y.0@;
    let ghost pn = pow_w(N as nat) as int;
    let ghost ff = FInt::<N>::fmod() as int;
    let mut carry_add = 0_u64;
    let mut carry_sub = 1_u64;
    proof {
        assert(xs.take(0) =~= Seq::<u64>::empty()); assert(ys.take(0) =~= Seq::<u64>::empty());
        lemma_limbs_empty(); assert(pow_w(0) == 1);
        lemma_pow_w_pos(N as nat);
    }
    for i in 0..N
        invariant
            x.0@.len() == N, y.0@.len() == N, xs.len() == N, ys.len() == N, x.1 == 0, y.1 == 0,
            carry_add <= 1, carry_sub <= 1,
            forall|j: int| i <= j < N ==> x.0@[j] == xs[j] && y.0@[j] == ys[j],
            limbs(x.0@.take(i as int)) as int + (pow_w(i as nat) as int) * (carry_add as int) == limbs(xs.take(i as int)) as int + limbs(ys.take(i as int)) as int,
            limbs(y.0@.take(i as int)) as int + (pow_w(i as nat) as int) * (carry_sub as int) == limbs(xs.take(i as int)) as int - limbs(ys.take(i as int)) as int + pow_w(i as nat) as int,
    {
        let ghost (x0, y0) = (x.0@, y.0@);
        {
            let xi = &mut x.0[i];
            let yi = &mut y.0[i];
            proof { assert(!*yi == 0xffff_ffff_ffff_ffffu64 - *yi) by (bit_vector); }
            let add = (*xi as u128) + (*yi as u128) + (carry_add as u128);
            let sub = (*xi as u128) + ((!*yi) as u128) + (carry_sub as u128);
            proof { lemma_u128_split(add); lemma_u128_split(sub); }
            *xi = add as u64;
            *yi = sub as u64;
            carry_add = (add >> 64) as u64;
            carry_sub = (sub >> 64) as u64;
        }
        proof {
            assert(x.0@.take(i as int) =~= x0.take(i as int)); assert(y.0@.take(i as int) =~= y0.take(i as int));
            lemma_limbs_take_step(x.0@, i as int); lemma_limbs_take_step(y.0@, i as int);
            lemma_limbs_take_step(xs, i as int); lemma_limbs_take_step(ys, i as int);
            lemma_pow_w_unfold((i + 1) as nat);
            let ca0 = (limbs(xs.take(i as int)) as int + limbs(ys.take(i as int)) as int - limbs(x0.take(i as int)) as int);
            lemma_bfly_step(pow_w(i as nat) as int, limbs(xs.take(i as int)) as int, limbs(ys.take(i as int)) as int,
                limbs(x0.take(i as int)) as int, limbs(y0.take(i as int)) as int,
                (x.0@[i as int] as int + 0x1_0000_0000_0000_0000 * (carry_add as int)) - xs[i as int] as int - ys[i as int] as int,
                (y.0@[i as int] as int + 0x1_0000_0000_0000_0000 * (carry_sub as int)) - xs[i as int] as int - (0xffff_ffff_ffff_ffff - ys[i as int] as int),
                xs[i as int] as int, ys[i as int] as int, x.0@[i as int] as int, y.0@[i as int] as int, carry_add as int, carry_sub as int);
        }
    }
    proof {
        assert(x.0@.take(N as int) =~= x.0@); assert(y.0@.take(N as int) =~= y.0@);
        assert(xs.take(N as int) =~= xs); assert(ys.take(N as int) =~= ys);
    }
    x.1 += carry_add;
    if carry_sub == 0 {
        // Add 1.
        y.add_small(1);
    }
    let ghost (xl, xh, yl, yh) = (x.lo() as int, x.hi() as int, y.lo() as int, y.hi() as int);
    x.reduce();
    y.reduce();
    proof {
        // 2^(64N) = -1: lo - hi = lo + 2^(64N) hi (mod F)
        lemma_distrib_r(pn, 1, xh); lemma_mul_one(xh);
        lemma_cong_add_multiple(xl + pn * xh, xh, ff); lemma_mul_comm(ff, xh);
        lemma_distrib_r(pn, 1, yh); lemma_mul_one(yh);
        lemma_cong_add_multiple(yl + pn * yh, yh, ff); lemma_mul_comm(ff, yh);
        lemma_mul_one(pn);
        if carry_sub == 0 { lemma_cong_add_multiple(limbs(xs) as int - limbs(ys) as int, 1, ff); }
    }
}
