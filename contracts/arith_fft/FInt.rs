//! unit: {"file": "src/arith_fft.rs", "kind": "struct", "name": "FInt", "props": ["C10"]}
//! ---- pinned ----
/// An integer modulo 2^64N + 1.
///
/// It is always assumed to be normalized either `x[N] == 0`
/// or `x[N] == 1` and `x[i] == 0` for i < N.
///
/// Modulo 2^64N + 1, 2 is a 128N-th root of unity and
/// ω = sqrt(2) is a 256N-th root of unity.
#[derive(Debug, PartialEq, Eq, Clone)]
pub struct FInt<const N: usize>(pub [u64; N], u64);
//! ---- annotated ----
/// An integer modulo 2^64N + 1.
///
/// It is always assumed to be normalized either `x[N] == 0`
/// or `x[N] == 1` and `x[i] == 0` for i < N.
///
/// Modulo 2^64N + 1, 2 is a 128N-th root of unity and
/// ω = sqrt(2) is a 256N-th root of unity.
#[derive(Debug, PartialEq, Eq, Clone)]
pub struct FInt<const N: usize>(pub [u64; N], u64);
