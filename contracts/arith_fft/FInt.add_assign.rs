//! unit: {"container": "impl<const N: usize> FInt<N>", "file": "src/arith_fft.rs", "kind": "fn", "name": "add_assign", "props": ["C10", "C03"]}
//! ---- pinned ----
    fn add_assign(&mut self, rhs: &FInt<N>) {
        let carry = _add_slices(&mut self.0, &rhs.0);
        self.1 += carry + rhs.1;
        self.reduce();
    }
//! ---- annotated ----
    fn add_assign(&mut self, rhs: &FInt<N>)
        requires N >= 1, old(self).reduced(), rhs.reduced(),
        ensures
            final(self).reduced(),
            cong(final(self).fval() as int, old(self).fval() as int + rhs.fval() as int, Self::fmod() as int),
    {
        let ghost l0 = self.lo() as int;
        let ghost h0 = self.hi() as int;
        let ghost pn = pow_w(N as nat) as int;
        let ghost z0 = self.0@;
        let carry = _add_slices(&mut self.0, &rhs.0);
        proof {
            assert(self.0@.take(N as int) =~= self.0@);
            assert(z0.take(N as int) =~= z0);
        }
        self.1 += carry + rhs.1;
        let ghost l1 = self.lo() as int;
        let ghost h1 = self.hi() as int;
        self.reduce();
        proof {
            // l1 + pn carry = l0 + rlo, h1 = h0 + carry + rhi:
            // l1 - h1 = (l0 + pn h0) + (rlo + pn rhi) - (pn + 1)(carry + h0 + rhi)
            let rlo = rhs.lo() as int;
            let rhi = rhs.hi() as int;
            let k2 = h0 + rhi;
            let k = carry as int + k2;
            lemma_distrib_r(pn, 1, k);
            lemma_mul_one(k);
            lemma_distrib_l(pn, carry as int, k2);
            lemma_distrib_l(pn, h0, rhi);
            assert(l1 + pn * (carry as int) == l0 + rlo);
            assert(h1 == h0 + carry as int + rhi);
            assert(l1 - h1 == (l0 + pn * h0) + (rlo + pn * rhi) - (pn + 1) * k);
            lemma_cong_add_multiple((l0 + pn * h0) + (rlo + pn * rhi), k, pn + 1);
            lemma_mul_comm(pn + 1, k);
        }
    }
