//! unit: {"container": "impl<const N: usize> FInt<N>", "file": "src/arith_fft.rs", "kind": "fn", "name": "sub_assign", "props": ["C10", "C03"]}
//! ---- pinned ----
    fn sub_assign(&mut self, rhs: &FInt<N>) {
        let carry = if rhs.1 == 1 {
            1
        } else {
            _sub_slices(&mut self.0, &rhs.0)
        };
        // If carry, z = self - rhs + 2^64N = self - rhs - 1
        if carry == 1 {
            self.add_small(1);
        }
        self.reduce();
    }
//! ---- annotated ----
    fn sub_assign(&mut self, rhs: &FInt<N>)
        requires N >= 1, old(self).reduced(), rhs.reduced(),
        ensures
            final(self).reduced(),
            cong(final(self).fval() as int, old(self).fval() as int - rhs.fval() as int, Self::fmod() as int),
    {
        let ghost l0 = self.lo() as int;
        let ghost h0 = self.hi() as int;
        let ghost pn = pow_w(N as nat) as int;
        let ghost rlo = rhs.lo() as int;
        let ghost rhi = rhs.hi() as int;
        let ghost z0 = self.0@;
        let carry = if rhs.1 == 1 {
            1
        } else {
            _sub_slices(&mut self.0, &rhs.0)
        };
        proof { assert(self.0@.take(N as int) =~= self.0@); assert(z0.take(N as int) =~= z0); }
        let ghost l1 = self.lo() as int;
        proof {
            if rhi == 1 { assert(rlo == 0 && l1 == l0); } else { assert(l1 + rlo == l0 + pn * (carry as int)); }
        }
        // If carry, z = self - rhs + 2^64N = self - rhs - 1
        if carry == 1 {
            self.add_small(1);
        }
        let ghost l2 = self.lo() as int;
        let ghost h2 = self.hi() as int;
        self.reduce();
        proof {
            // in every case l2 + pn h2 = (l0 + pn h0) - (rlo + pn rhi) + (pn + 1) carry
            lemma_distrib_r(pn, 1, carry as int);
            lemma_mul_one(carry as int);
            lemma_mul_one(pn);
            assert(l2 + pn * h2 == (l0 + pn * h0) - (rlo + pn * rhi) + (pn + 1) * (carry as int));
            // l2 - h2 = (l2 + pn h2) - (pn + 1) h2
            lemma_distrib_r(pn, 1, h2);
            lemma_mul_one(h2);
            lemma_cong_add_multiple((l0 + pn * h0) - (rlo + pn * rhi), carry as int - h2, pn + 1);
            lemma_distrib_l_sub(pn + 1, carry as int, h2);
        }
    }
