#[allow(unused_imports)] use vstd::arithmetic::{div_mod::*, power2::*, mul::*};
#[allow(unused_imports)] use vstd::bits::*;

verus! {
impl<const N: usize> FInt<N> {
    /// the Fermat modulus 2^(64N) + 1
    pub open spec fn fmod() -> nat { pow_w(N as nat) + 1 }
    /// the integer the N + 1 words stand for
    pub closed spec fn fval(&self) -> nat { limbs(self.0@) + pow_w(N as nat) * (self.1 as nat) }
    /// normalized: below the modulus (top word 0, or top word 1 with every other word 0)
    pub closed spec fn reduced(&self) -> bool { self.1 == 0 || (self.1 == 1 && limbs(self.0@) == 0) }
    pub closed spec fn lo(&self) -> nat { limbs(self.0@) }
    pub closed spec fn hi(&self) -> nat { self.1 as nat }
    pub proof fn lemma_reduced(&self)
        requires self.reduced()
        ensures self.fval() < Self::fmod()
    {
        lemma_limbs_bound(self.0@);
        if self.1 == 1 { lemma_mul_one(pow_w(N as nat) as int); } else { lemma_mul_one(pow_w(N as nat) as int); }
    }
}
} // verus!

