#[allow(unused_imports)] use vstd::arithmetic::{div_mod::*, power2::*, mul::*};
#[allow(unused_imports)] use vstd::bits::*;

verus! {
impl<const N: usize> FInt<N> {
    /// the Fermat modulus 2^(64N) + 1
    pub open spec fn fmod() -> nat { pow_w(N as nat) + 1 }
    /// the integer the N + 1 words stand for
    pub closed spec fn fval(&self) -> nat { limbs(self.0@) + pow_w(N as nat) * (self.1 as nat) }
    /// normalized: below the modulus (top word 0, or top word 1 with every other word 0)
    pub closed spec fn reduced(&self) -> bool { self.1 == 0 || (self.1 == 1 && limbs(self.0@) == 0) }
    pub closed spec fn lo(&self) -> nat { limbs(self.0@) }
    pub closed spec fn hi(&self) -> nat { self.1 as nat }
    pub proof fn lemma_reduced(&self)
        requires self.reduced()
        ensures self.fval() < Self::fmod()
    {
        lemma_limbs_bound(self.0@);
        if self.1 == 1 { lemma_mul_one(pow_w(N as nat) as int); } else { lemma_mul_one(pow_w(N as nat) as int); }
    }
}
} // verus!


verus! {
/// `is_reduced` (an `iter().all(..)` over the limbs: iterator adaptors are outside the Verus subset) answers true on every
/// value that satisfies the representation invariant. ASSUMED (six lines of the crate, used only inside debug assertions).
pub assume_specification<const N: usize> [FInt::<N>::is_reduced] (x: &FInt<N>) -> (r: bool)
    ensures x.reduced() ==> r;

/// the derived `Clone` of FInt (a plain array and a word) is a copy. Outlined (the derived impl has no specification). Trusted.
#[verifier::external_body]
fn ol_fint_clone<const N: usize>(x: &FInt<N>) -> (r: FInt<N>)
    ensures r == *x
{
    x.clone()
}
} // verus!
