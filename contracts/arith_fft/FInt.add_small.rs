//! unit: {"container": "impl<const N: usize> FInt<N>", "file": "src/arith_fft.rs", "kind": "fn", "name": "add_small", "props": ["C10", "C03"]}
//! ---- pinned ----
    /// Adds a small integer. The result is NOT normalized.
    fn add_small(&mut self, x: u64) {
        #[allow(unused_assignments)]
        let mut c = false;
        (self.0[0], c) = self.0[0].overflowing_add(x);
        for i in 1..N {
            (self.0[i], c) = self.0[i].overflowing_add(u64::from(c));
            if !c {
                break;
            }
        }
        if c {
            self.1 += 1
        }
    }
//! ---- annotated ----
    /// Adds a small integer. The result is NOT normalized.
    fn add_small(&mut self, x: u64)
        requires N >= 1, old(self).hi() < u64::MAX,
        ensures
            final(self).lo() + pow_w(N as nat) * final(self).hi() == old(self).lo() + pow_w(N as nat) * old(self).hi() + x as nat,
            final(self).hi() <= old(self).hi() + 1,
    {
        #[allow(unused_assignments)]
        let mut c = false;
        let ghost z0 = self.0@;
        let ghost h0 = self.1;
        let verif_t = self.0[0].overflowing_add(x); self.0[0] = verif_t.0; c = verif_t.1;
        let ghost mut cut: int = 1;
        let ghost mut stopped = false;
        proof {
            lemma_pow_w_unfold(0);
            lemma_limbs_take_step(self.0@, 0);
            lemma_limbs_take_step(z0, 0);
            assert(self.0@.take(0) =~= Seq::<u64>::empty());
            assert(z0.take(0) =~= Seq::<u64>::empty());
            lemma_limbs_empty();
            lemma_mul_one(W() as int);
            lemma_mul_one(pow_w(0) as int);
            assert(pow_w(1) == W());
            lemma_mul_one(self.0@[0] as int);
            lemma_mul_one(z0[0] as int);
            assert(limbs(self.0@.take(1)) == self.0@[0] as nat);
            assert(limbs(z0.take(1)) == z0[0] as nat);
        }
        for i in 1..N
            invariant_except_break
                !stopped,
            invariant
                N >= 1, self.0@.len() == N, z0.len() == N, 1 <= cut <= N, self.1 == h0,
                forall|k: int| cut <= k < N ==> self.0@[k] == z0[k],
                !stopped ==> cut == i,
                limbs(self.0@.take(cut)) as int + (pow_w(cut as nat) as int) * (if c { 1int } else { 0int }) == limbs(z0.take(cut)) as int + x as int,
            ensures
                stopped ==> !c, !stopped ==> cut == N,
        {
            let ghost zprev = self.0@;
            let ghost cb0: int = if c { 1 } else { 0 };
            let verif_t = self.0[i].overflowing_add(u64::from(c)); self.0[i] = verif_t.0; c = verif_t.1;
            let ghost cb: int = if c { 1 } else { 0 };
            proof {
                lemma_pow_w_unfold(i as nat);
                lemma_limbs_take_step(self.0@, i as int);
                lemma_limbs_take_step(z0, i as int);
                assert(self.0@.take(i as int) =~= zprev.take(i as int));
                let pw = pow_w(i as nat) as int;
                assert(self.0@[i as int] as int + (W() as int) * cb == z0[i as int] as int + cb0);
                lemma_distrib_l(pw, self.0@[i as int] as int, (W() as int) * cb);
                lemma_distrib_l(pw, z0[i as int] as int, cb0);
                lemma_mul_assoc(pw, W() as int, cb);
                lemma_mul_comm(pw, W() as int);
                cut = cut + 1;
            }
            if !c {
                proof { stopped = true; lemma_mul_one(pow_w(cut as nat) as int); }
                break;
            }
        }
        proof {
            lemma_limbs_split(self.0@, cut);
            lemma_limbs_split(z0, cut);
            assert(self.0@.skip(cut) =~= z0.skip(cut));
            assert(z0.take(N as int) =~= z0);
            assert(self.0@.take(N as int) =~= self.0@);
            lemma_mul_one(pow_w(cut as nat) as int);
            lemma_mul_one(pow_w(N as nat) as int);
            lemma_distrib_l(pow_w(N as nat) as int, h0 as int, 1);
        }
        if c {
            self.1 += 1
        }
    }
