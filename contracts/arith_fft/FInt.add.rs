//! unit: {"container": "impl<const N: usize> FInt<N>", "file": "src/arith_fft.rs", "kind": "fn", "name": "add", "props": ["C10", "C03"]}
//! ---- pinned ----
    fn add(&self, rhs: &FInt<N>) -> FInt<N> {
        debug_assert!(self.is_reduced(), "{:?}", self);
        debug_assert!(rhs.is_reduced(), "{:?}", rhs);
        let mut z = self.clone();
        z.add_assign(rhs);
        z
    }
//! ---- annotated ----
    fn add(&self, rhs: &FInt<N>) -> (r: FInt<N>)
        requires N >= 1, self.reduced(), rhs.reduced(),
        ensures r.reduced(), cong(r.fval() as int, self.fval() as int + rhs.fval() as int, Self::fmod() as int),
    {
        debug_assert!(self.is_reduced());
        debug_assert!(rhs.is_reduced());
        let mut z = ol_fint_clone(self);
        z.add_assign(rhs);
        z
    }
