//! unit: {"container": "impl<const N: usize> FInt<N>", "file": "src/arith_fft.rs", "kind": "fn", "name": "reduce", "props": ["C10", "C03"]}
//! ---- pinned ----
    fn reduce(&mut self) {
        let z = &mut self.0;
        if z[0] >= self.1 {
            // common case
            z[0] -= self.1;
            self.1 = 0;
        } else {
            // z[0] < self.1
            let mut carry = self.1;
            self.1 = 0;
            for i in 0..N {
                let (zz, c) = z[i].overflowing_sub(carry);
                z[i] = zz;
                if !c {
                    carry = 0;
                    break;
                } else {
                    carry = 1;
                }
            }
            if carry == 1 {
                // We still have to subtract 2^64N == add 1
                for i in 0..N {
                    let (zz, c) = z[i].overflowing_add(carry);
                    z[i] = zz;
                    if !c {
                        carry = 0;
                        break;
                    } else {
                        carry = 1;
                    }
                }
                self.1 = carry;
            }
        }
    }
//! ---- annotated ----
    fn reduce(&mut self)
        requires N >= 1,
        ensures
            final(self).reduced(),
            // value preserved modulo 2^(64N) + 1:  lo - hi (mod F)
            cong(final(self).fval() as int, old(self).lo() as int - old(self).hi() as int, Self::fmod() as int),
    {
        let ghost l0 = limbs(self.0@) as int;
        let ghost e0 = self.1 as int;
        let ghost pn = pow_w(N as nat) as int;
        proof { lemma_limbs_bound(self.0@); lemma_pow_w_pos(N as nat); lemma_mul_one(pn); }
        let z = &mut self.0;
        if z[0] >= self.1 {
            // common case
            let ghost zp = z@;
            z[0] -= self.1;
            self.1 = 0;
            proof { lemma_limbs_set0(zp, z@); }
        } else {
            // z[0] < self.1
            let mut carry = self.1;
            self.1 = 0;
            let ghost z0 = z@;
            let ghost mut stopped = false;
            let ghost mut cut: int = 0;
            proof { assert(z@.take(0) =~= Seq::<u64>::empty()); lemma_limbs_empty(); lemma_pow_w_unfold(0); lemma_mul_one(e0); }
            for i in 0..N
                invariant_except_break
                    !stopped,
                invariant
                    N >= 1, z@.len() == N, z0.len() == N, 0 <= cut <= N, z0[0] < e0, e0 <= u64::MAX, carry as int <= e0 || carry <= 1,
                    forall|k: int| cut <= k < N ==> z@[k] == z0[k],
                    !stopped ==> cut == i && (i > 0 ==> carry == 1) && (i == 0 ==> carry as int == e0),
                    limbs(z@.take(cut)) as int + e0 == limbs(z0.take(cut)) as int + (pow_w(cut as nat) as int) * (carry as int),
                ensures
                    stopped ==> carry == 0, !stopped ==> cut == N && carry == 1,
            {
                let ghost zprev = z@;
                let ghost c0 = carry as int;
                let (zz, c) = z[i].overflowing_sub(carry);
                z[i] = zz;
                let ghost cb: int = if c { 1 } else { 0 };
                proof {
                    lemma_pow_w_unfold(i as nat);
                    lemma_limbs_take_step(z@, i as int);
                    lemma_limbs_take_step(z0, i as int);
                    assert(z@.take(i as int) =~= zprev.take(i as int));
                    let pw = pow_w(i as nat) as int;
                    // zz + c0 == z0[i] + W cb
                    assert(zz as int + c0 == z0[i as int] as int + (W() as int) * cb);
                    lemma_distrib_l(pw, zz as int, c0);
                    lemma_distrib_l(pw, z0[i as int] as int, (W() as int) * cb);
                    lemma_mul_assoc(pw, W() as int, cb);
                    lemma_mul_comm(pw, W() as int);
                    cut = cut + 1;
                    // the first word borrows: z0[0] < e0
                    if i == 0 { assert(c); }
                }
                if !c {
                    carry = 0;
                    proof { stopped = true; lemma_mul_one(pow_w(cut as nat) as int); }
                    break;
                } else {
                    carry = 1;
                }
            }
            proof {
                // words from cut on are unchanged
                lemma_limbs_split(z@, cut);
                lemma_limbs_split(z0, cut);
                assert(z@.skip(cut) =~= z0.skip(cut));
                assert(z0.take(N as int) =~= z0);
                assert(z@.take(N as int) =~= z@);
                lemma_mul_one(pow_w(cut as nat) as int);
            }
            if carry == 1 {
                // We still have to subtract 2^64N == add 1
                let ghost z1 = z@;
                let ghost mut stopped2 = false;
                let ghost mut cut2: int = 0;
                proof { assert(z@.take(0) =~= Seq::<u64>::empty()); }
                for i in 0..N
                    invariant_except_break
                        !stopped2,
                    invariant
                        N >= 1, z@.len() == N, z1.len() == N, carry <= 1, 0 <= cut2 <= N,
                        forall|k: int| cut2 <= k < N ==> z@[k] == z1[k],
                        !stopped2 ==> cut2 == i && carry == 1,
                        limbs(z@.take(cut2)) as int + (pow_w(cut2 as nat) as int) * (carry as int) == limbs(z1.take(cut2)) as int + 1,
                    ensures
                        stopped2 ==> carry == 0, !stopped2 ==> cut2 == N && carry == 1,
                {
                    let ghost zprev = z@;
                    let (zz, c) = z[i].overflowing_add(carry);
                    z[i] = zz;
                    let ghost cb: int = if c { 1 } else { 0 };
                    proof {
                        lemma_pow_w_unfold(i as nat);
                        lemma_limbs_take_step(z@, i as int);
                        lemma_limbs_take_step(z1, i as int);
                        assert(z@.take(i as int) =~= zprev.take(i as int));
                        let pw = pow_w(i as nat) as int;
                        assert(zz as int + (W() as int) * cb == z1[i as int] as int + 1);
                        lemma_distrib_l(pw, zz as int, (W() as int) * cb);
                        lemma_distrib_l(pw, z1[i as int] as int, 1);
                        lemma_mul_assoc(pw, W() as int, cb);
                        lemma_mul_comm(pw, W() as int);
                        lemma_mul_one(pw);
                        cut2 = cut2 + 1;
                    }
                    if !c {
                        carry = 0;
                        proof { stopped2 = true; lemma_mul_one(pow_w(cut2 as nat) as int); }
                        break;
                    } else {
                        carry = 1;
                    }
                }
                proof {
                    lemma_limbs_split(z@, cut2);
                    lemma_limbs_split(z1, cut2);
                    assert(z@.skip(cut2) =~= z1.skip(cut2));
                    assert(z1.take(N as int) =~= z1);
                    assert(z@.take(N as int) =~= z@);
                    lemma_mul_one(pow_w(cut2 as nat) as int);
                    lemma_limbs_bound(z@);
                    lemma_limbs_bound(z1);
                    // l0 - e0 + F in the first case, -1 = F - 1 in the second
                    lemma_cong_add_multiple(l0 - e0, 1, pn + 1);
                    lemma_mul_one(pn + 1);
                }
                self.1 = carry;
            }
        }
    }
