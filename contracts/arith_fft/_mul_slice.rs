//! unit: {"file": "src/arith_fft.rs", "kind": "fn", "name": "_mul_slice", "props": ["C10", "C03"]}
//! ---- pinned ----
fn _mul_slice(z: &mut [u64], x: &[u64], w: u64) {
    let mut carry = 0;
    for i in 0..z.len() {
        unsafe {
            let zi = z[..].get_unchecked_mut(i);
            let xi = x[..].get_unchecked(i);
            let mut zw = (*xi as u128) * (w as u128);
            zw += carry as u128;
            *zi = zw as u64;
            carry = (zw >> 64) as u64;
        }
    }
}
//! ---- annotated ----
fn _mul_slice(z: &mut [u64], x: &[u64], w: u64)
    requires old(z).len() <= x.len(),
    ensures
        final(z).len() == old(z).len(),
        // z = the low words of x * w (the carry out of the top word is discarded)
        limbs(final(z)@) == (limbs(x@.take(old(z).len() as int)) * (w as nat)) % pow_w(old(z).len() as nat),
{
    let mut carry = 0;
    let ghost z0 = z@;
    proof {
        lemma_limbs_empty(); lemma_pow_w_unfold(0);
        assert(z@.take(0) =~= Seq::<u64>::empty());
        assert(x@.take(0) =~= Seq::<u64>::empty());
        lemma_mul_one(w as int);
    }
    for i in verif_it: 0..z.len()
        invariant
            z.len() <= x.len(), z.len() == z0.len(), verif_it.iter.end == z0.len(),
            limbs(z@.take(i as int)) + pow_w(i as nat) * (carry as nat) == limbs(x@.take(i as int)) * (w as nat),
    {
        {
            let ghost zprev = z@;
            let ghost c0 = carry;
            let zi = &mut z[i];
            let xi = &x[i];
            proof { lemma_u64_mul_bound(*xi as int, w as int); }
            let mut zw = (*xi as u128) * (w as u128);
            zw += carry as u128;
            *zi = zw as u64;
            carry = (zw >> 64) as u64;
            proof {
                lemma_u128_split(zw);
                lemma_pow_w_unfold(i as nat);
                lemma_limbs_take_step(z@, i as int);
                lemma_limbs_take_step(x@, i as int);
                assert(z@.take(i as int) =~= zprev.take(i as int));
                // pw (lo + W hi) = pw (xi w + c0)
                let pw = pow_w(i as nat) as int;
                lemma_distrib_l(pw, (zw as u64) as int, W() as int * (carry as int));
                lemma_mul_assoc(pw, W() as int, carry as int);
                lemma_mul_comm(pw, W() as int);
                lemma_distrib_l(pw, (*xi as int) * (w as int), c0 as int);
                lemma_mul_assoc(pw, *xi as int, w as int);
                lemma_distrib_r(limbs(x@.take(i as int)) as int, pw * (*xi as int), w as int);
            }
        }
    }
    proof {
        assert(z@.take(z.len() as int) =~= z@);
        lemma_limbs_bound(z@);
        lemma_pow_w_pos(z.len() as nat);
        lemma_mul_comm(pow_w(z.len() as nat) as int, carry as int);
        lemma_fundamental_div_mod_converse((limbs(x@.take(z.len() as int)) * (w as nat)) as int, pow_w(z.len() as nat) as int, carry as int, limbs(z@) as int);
    }
}
