//! unit: {"file": "src/arith_fft.rs", "kind": "fn", "name": "mg_mul64", "props": ["C10", "C03"]}
//! ---- pinned ----
/// Montgomery multiplication modulo a small prime a*2^k+1 (k > 32)
///
/// They are such that the inverse of -p modulo 2^64 is p-2.
#[inline(always)]
fn mg_mul64(p: u64, x: u64, y: u64) -> u64 {
    arith_montgomery::mg_mul(p, p - 2, x, y)
}
//! ---- annotated ----
/// Montgomery multiplication modulo a small prime a*2^k+1 (k > 32)
///
/// They are such that the inverse of -p modulo 2^64 is p-2.
#[inline(always)]
fn mg_mul64(p: u64, x: u64, y: u64) -> (r: u64)
    requires p % 0x1_0000_0000 == 1, p >= 3, (x as int) * (y as int) < p as int * two64(),
    ensures r < p, (r as int * two64()) % (p as int) == ((x as int) * (y as int)) % (p as int),
{
    proof { lemma_ntt_prime_ninv(p); }
    arith_montgomery::mg_mul(p, p - 2, x, y)
}
