//! unit: {"file": "src/arith_fft.rs", "kind": "fn", "name": "_sub_slices", "props": ["C10", "C03"]}
//! ---- pinned ----
fn _sub_slices(z: &mut [u64], x: &[u64]) -> u64 {
    let mut carry = 0;
    for i in 0..x.len() {
        unsafe {
            let xi = *x.get_unchecked(i);
            let zi = z.get_unchecked_mut(i);
            let (xxi, mut cc) = xi.overflowing_add(carry);
            if cc {
                // unlikely
                *zi = (*zi).wrapping_sub(xxi);
                carry = 1;
            } else {
                (*zi, cc) = (*zi).overflowing_sub(xxi);
                carry = if cc { 1 } else { 0 };
            }
        }
    }
    carry
}
//! ---- annotated ----
fn _sub_slices(z: &mut [u64], x: &[u64]) -> (carry: u64)
    requires x.len() <= old(z).len(),
    ensures
        final(z).len() == old(z).len(), carry <= 1,
        forall|k: int| x.len() <= k < old(z).len() ==> final(z)@[k] == old(z)@[k],
        // z - x with borrow: z' = z - x + W^len * borrow
        limbs(final(z)@.take(x.len() as int)) + limbs(x@)
            == limbs(old(z)@.take(x.len() as int)) + pow_w(x.len() as nat) * (carry as nat),
{
    let mut carry = 0;
    let ghost z0 = z@;
    proof {
        lemma_limbs_empty(); lemma_pow_w_unfold(0);
        assert(z@.take(0) =~= Seq::<u64>::empty());
        assert(x@.take(0) =~= Seq::<u64>::empty());
    }
    for i in 0..x.len()
        invariant
            x.len() <= z.len(), z.len() == z0.len(), carry <= 1,
            forall|k: int| i <= k < z.len() ==> z@[k] == z0[k],
            limbs(z@.take(i as int)) + limbs(x@.take(i as int)) == limbs(z0.take(i as int)) + pow_w(i as nat) * (carry as nat),
    {
        {
            let ghost zprev = z@;
            let ghost c0 = carry;
            let xi = x[i];
            let zi = &mut z[i];
            let ghost zold = *zi;
            let (xxi, mut cc) = xi.overflowing_add(carry);
            if cc {
                // unlikely
                *zi = (*zi).wrapping_sub(xxi);
                carry = 1;
            } else {
                let verif_t = (*zi).overflowing_sub(xxi); *zi = verif_t.0; cc = verif_t.1;
                carry = if cc { 1 } else { 0 };
            }
            let ghost znew = *zi;
            proof {
                // word identity: znew + xi + c0 == zold + W * carry
                assert(znew as int + xi as int + c0 as int == zold as int + W() as int * (carry as int));
                lemma_pow_w_unfold(i as nat);
                lemma_limbs_take_step(z@, i as int);
                lemma_limbs_take_step(z0, i as int);
                lemma_limbs_take_step(x@, i as int);
                assert(z@.take(i as int) =~= zprev.take(i as int));
                let pw = pow_w(i as nat) as int;
                lemma_distrib_l(pw, znew as int + xi as int, c0 as int);
                lemma_distrib_l(pw, znew as int, xi as int);
                lemma_distrib_l(pw, zold as int, W() as int * (carry as int));
                lemma_mul_assoc(pw, W() as int, carry as int);
                lemma_mul_comm(pw, W() as int);
            }
        }
    }
    proof { assert(x@.take(x.len() as int) =~= x@); }
    carry
}
