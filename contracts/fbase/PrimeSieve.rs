//! unit: {"file": "src/fbase.rs", "kind": "struct", "name": "PrimeSieve", "props": ["C17"]}
//! ---- pinned ----
pub struct PrimeSieve {
    smallprimes: Box<[u32]>,
    block: Vec<u32>,
    block_count: usize,
    offsets: Vec<u32>,
    sieve: [bool; 1 << 16],
}
//! ---- annotated ----
pub struct PrimeSieve {
    smallprimes: Box<[u32]>,
    block: Vec<u32>,
    block_count: usize,
    offsets: Vec<u32>,
    sieve: [bool; 1 << 16],
}
